package main

// Shared plumbing of the engine properties (C01..C08, C12, C19, C20): a case is a document plus a
// query AST; the real engine runs the rendered SQL, the model runs the same AST.

import (
	"reflect"
	"math"
	"unicode"
	"unicode/utf8"
	"encoding/json"
	"fmt"
	"strings"

	"github.com/vedadiyan/genql"
)

type engIn struct {
	Doc     map[string]any `json:"doc"`
	Q       *Stmt          `json:"q"`
	Wrapped bool           `json:"wrapped,omitempty"`
	SQL     string         `json:"sql"` // informational: what the real engine was given
	Repeat  int            `json:"repeat,omitempty"` // run the query this many times; all runs must agree
	// Reexec: prepare the query, empty every row of table t in place, Exec, restore the rows in place, Exec again;
	// the SECOND result is the observable. Whether a prepared query sees later edits or a snapshot taken at New,
	// the second result must be the result over the original document — unless Exec leaves state in the query.
	Reexec bool `json:"reexec,omitempty"`
	// IntKind ("int", "int64", "int32", "uint64"): before the real code runs, every integral number in the rows of
	// table t is converted to that Go integer kind (negative values stay float64 for unsigned kinds). The model keeps
	// seeing float64: for integers below 2^53 the kind of a numeric column must not change which rows qualify.
	IntKind string `json:"intkind,omitempty"`
	// ModelDoc / ModelQ: what the model is given instead of Doc / Q. Used only for LIKE over letters outside ASCII:
	// the model folds ASCII case itself and takes Go's strings.ToLower as an oracle for every other letter, so it is
	// given the document and the pattern with the non-ASCII runes already lowered. Observe verifies that the pair
	// really is that transform of (Doc, Q), so a replay file cannot smuggle in a different question.
	// ShareEqual: deep-equal inner arrays of one parent array are made to share ONE backing slice before the real
	// code runs (a document built in Go rather than decoded from JSON): what an array contains does not depend on
	// whether two of its elements are the same object.
	ShareEqual bool `json:"share_equal,omitempty"`
	// Callbacks: an error handler and a completion callback are installed (they must not change what a query returns)
	Callbacks bool `json:"callbacks,omitempty"`
	ModelDoc map[string]any `json:"model_doc,omitempty"`
	ModelQ   *Stmt          `json:"model_q,omitempty"`
}

// lowerNonASCII lowers every rune >= 0x80 with Go's own table (the oracle) and leaves ASCII alone.
func lowerNonASCII(s string) string {
	return strings.Map(func(r rune) rune {
		if r < 0x80 {
			return r
		}
		return unicode.ToLower(r)
	}, s)
}

func mapStrings(v any, f func(string) string) any {
	switch t := v.(type) {
	case string:
		return f(t)
	case []any:
		out := make([]any, len(t))
		for i, x := range t {
			out[i] = mapStrings(x, f)
		}
		return out
	case map[string]any:
		out := make(map[string]any, len(t))
		for k, x := range t {
			out[k] = mapStrings(x, f)
		}
		return out
	}
	return v
}

type engineProp struct {
	id      string
	checkFn string
	rule    string
	gen     func(r *Rand, tier string) []Case
}

func (p engineProp) ID() string             { return p.id }
func (p engineProp) Imports() []string      { return []string{"Base.Prelude", "Base.Value", "Model.Ast", "Run.EngineRun"} }
func (p engineProp) CheckFn() string        { return p.checkFn }
func (p engineProp) InputType() string      { return "EngineRun.input" }
func (p engineProp) ObsType() string        { return "EngineRun.obs" }
func (p engineProp) Rule() string           { return p.rule }
func (p engineProp) Exhaustive(string) bool { return false }
func (p engineProp) Generate(r *Rand, tier string) []Case {
	cases := p.gen(r, tier)
	for _, f := range extraStreams[p.id] {
		cases = append(cases, f(r, tier)...)
	}
	return cases
}

// extraStreams: further dedicated streams of an engine property, registered from their own files (r4_*.go) in init().
var extraStreams = map[string][]func(r *Rand, tier string) []Case{}

func (p engineProp) Observe(raw json.RawMessage) (Observed, error) {
	var in engIn
	if err := json.Unmarshal(raw, &in); err != nil {
		return Observed{}, err
	}
	return observeEngine(in)
}

func observeEngine(in engIn) (Observed, error) {
	if !spellsOK(in.Q) {
		return Observed{}, fmt.Errorf("a re-spelt literal does not denote its number")
	}
	if !selTextsOK(in.Q) {
		return Observed{}, fmt.Errorf("a selector source does not carry the text of its syntax tree")
	}
	sql := in.Q.SQL()
	var opts []genql.QueryOption
	if in.Wrapped {
		opts = append(opts, genql.Wrapped())
	}
	if in.Callbacks {
		opts = append(opts, genql.UnReportedErrors(func(error) {}), genql.CompletedCallback(func() {}))
	}
	doc := deepCopy(in.Doc).(map[string]any)
	if in.IntKind != "" {
		if rows, ok := doc["t"].([]any); ok {
			for _, row := range rows {
				if m, ok := row.(map[string]any); ok {
					for k, v := range m {
						if f, ok := v.(float64); ok && f == math.Trunc(f) && math.Abs(f) < 1<<53 {
							switch in.IntKind {
							case "int":
								m[k] = int(f)
							case "int64":
								m[k] = int64(f)
							case "int32":
								if math.Abs(f) < 1<<31 {
									m[k] = int32(f)
								}
							case "uint64":
								if f >= 0 {
									m[k] = uint64(f)
								}
							}
						}
					}
				}
			}
		}
	}
	if in.ShareEqual {
		shareEqual(doc)
	}
	before := deepCopy(doc)
	var out engineOut
	if in.Reexec {
		out = runEngineReexec(doc, sql, opts...)
	} else {
		out = runEngine(doc, sql, opts...)
	}
	tags := []string{"outcome:" + out.Class}
	// purity: the caller's document must be deep-equal to its state before the call (C11), whatever the outcome
	mutated := deepDiff(anyMap(doc), before)
	if mutated != "" {
		tags = append(tags, "input-mutated")
	}
	n := in.Repeat
	for i := 1; i < n; i++ {
		again := runEngine(deepCopy(in.Doc).(map[string]any), sql, opts...)
		if coqEngineObs(again) != coqEngineObs(out) {
			// order instability across runs: report the disagreeing run as a distinguished outcome
			out = engineOut{Class: "unstable", Err: fmt.Sprintf("run %d differs from run 0", i)}
			tags = append(tags, "unstable")
			break
		}
	}
	obs := coqEngineObs(out)
	if out.Class == "unstable" {
		obs = "Panic"
	}
	if mutated != "" {
		obs = "Panic" // reported as a mismatch: the input document was modified
		out.Err = "input document modified: " + mutated
	}
	if out.Class == "ok" {
		switch {
		case len(out.Rows) == 0:
			tags = append(tags, "rows:0")
		case len(out.Rows) <= 2:
			tags = append(tags, "rows:1-2")
		default:
			tags = append(tags, "rows:3+")
		}
	}
	trivial := out.Class != "ok" || len(out.Rows) == 0
	if t, ok := in.Doc["t"].([]any); ok && out.Class == "ok" && len(out.Rows) == len(t) && in.Q.Where != nil {
		trivial = true // the filter kept everything
	}
	mdoc, mq := in.Doc, in.Q
	if in.ModelDoc != nil || in.ModelQ != nil {
		if in.ModelDoc == nil || in.ModelQ == nil || !utf8.ValidString(sql) ||
			deepDiff(anyMap(in.ModelDoc), mapStrings(anyMap(in.Doc), lowerNonASCII)) != "" || in.ModelQ.SQL() != lowerNonASCII(sql) {
			return Observed{}, fmt.Errorf("model_doc / model_q are not the non-ASCII lowering of doc / q")
		}
		mdoc, mq = in.ModelDoc, in.ModelQ
		tags = append(tags, "model-input:non-ascii-lowered")
	}
	coqIn := "(" + coqBool(in.Wrapped) + ", " + coqValue(anyMap(mdoc)) + ", " + mq.Coq() + ")"
	return Observed{CoqIn: coqIn, CoqObs: obs, Note: map[string]any{"sql": sql, "class": out.Class, "err": out.Err, "rows": jsonSafe(anySlice(out.Rows))}, Tags: tags, Trivial: trivial}, nil
}

func anyMap(m map[string]any) any { return m }
func anySlice(s []any) any {
	if s == nil {
		return []any{}
	}
	return s
}

func mkCase(doc map[string]any, q *Stmt, tags []string, nontrivial bool) Case {
	sql := q.SQL()
	in := engIn{Doc: doc, Q: q, SQL: sql}
	// every seventh query text (by a hash of the text) runs with callbacks installed
	h := 0
	for i := 0; i < len(sql); i++ {
		h = h*31 + int(sql[i])
	}
	if (h&0x7fffffff)%7 == 0 {
		in.Callbacks = true
		tags = append(append([]string{}, tags...), "options:callbacks")
	}
	return Case{Input: in, Tags: tags, Nontrivial: nontrivial, Key: sql + "|" + fmt.Sprint(doc)}
}

// ---------- shared table generator ----------

var strPool = []string{"", "a", "ab", "abc", "b", "A", "Ab", "a(b", "x.y", "50%", "a_b", "世a", "[z]", "\\d", "a+b*", "^$|?", "a b", "xy",
	"10", "9", "007", "1.0", "1e1", "7"}
var numPool = []float64{0, 1, 2, 3, 5, 10, -1, -2, 0.5, 1.5, -0.5, 2.25, 100, 7}

type table struct {
	rows    []any
	numCols []string
	strCols []string
}

// genTable builds 0..maxRows rows with typed columns: id (unique), n1,n2 numbers, s1,s2 strings,
// b1 bool, z (NULL, missing or number), o nested object {p:{q:number}, k:string}.
func genTable(r *Rand, maxRows int) table {
	n := r.Intn(maxRows + 1)
	nums := []float64{}
	for i := 0; i < 4; i++ {
		nums = append(nums, Pick(r, numPool))
	}
	strs := []string{}
	for i := 0; i < 4; i++ {
		strs = append(strs, Pick(r, strPool))
	}
	rows := make([]any, n)
	for i := 0; i < n; i++ {
		row := map[string]any{
			"id": float64(i + 1),
			"n1": Pick(r, nums), "n2": Pick(r, nums),
			"s1": Pick(r, strs), "s2": Pick(r, strs),
			"b1": r.Bool(),
			"o":  map[string]any{"p": map[string]any{"q": Pick(r, nums)}, "k": Pick(r, strs)},
		}
		switch r.Intn(3) {
		case 0:
			row["z"] = nil
		case 1:
			row["z"] = Pick(r, nums)
		}
		rows[i] = row
	}
	return table{rows: rows, numCols: []string{"n1", "n2", "id"}, strCols: []string{"s1", "s2"}}
}

func (t table) numConst(r *Rand) float64 {
	if len(t.rows) > 0 && r.Chance(70) {
		row := Pick(r, t.rows).(map[string]any)
		if v, ok := row[Pick(r, t.numCols)].(float64); ok {
			return v + float64(r.Intn(3)-1)
		}
	}
	return Pick(r, numPool)
}

func (t table) strConst(r *Rand) string {
	if len(t.rows) > 0 && r.Chance(70) {
		row := Pick(r, t.rows).(map[string]any)
		if v, ok := row[Pick(r, t.strCols)].(string); ok {
			return v
		}
	}
	return Pick(r, strPool)
}

var cmpOps = []string{"=", "!=", "<", "<=", ">", ">="}

// ---------- C01 predicates ----------

func likePattern(r *Rand, t table) string {
	s := t.strConst(r)
	rs := []rune(s)
	switch r.Intn(6) {
	case 0:
		return s
	case 1:
		if len(rs) > 0 {
			i := r.Intn(len(rs))
			rs[i] = '_'
		}
		return string(rs)
	case 2:
		if len(rs) > 0 {
			i := r.Intn(len(rs) + 1)
			return string(rs[:i]) + "%"
		}
		return "%"
	case 3:
		if len(rs) > 0 {
			i := r.Intn(len(rs) + 1)
			return "%" + string(rs[i:])
		}
		return "%%"
	case 4:
		return strings.ToUpper(s)
	default:
		return Pick(r, []string{"%", "_", "a%", "%b", "_b%", "a(%", "x.y", "x_y", ".", "..", "a.*", "[z]", "\\d", "a+b*", "^$|?", "%$", "^%", "世_", "_a"})
	}
}

func genPred(r *Rand, t table, depth int, tags *[]string) *Expr {
	tag := func(s string) { *tags = append(*tags, "op:"+s) }
	if depth > 0 && r.Chance(45) {
		switch r.Intn(3) {
		case 0:
			tag("and")
			return And(genPred(r, t, depth-1, tags), genPred(r, t, depth-1, tags))
		case 1:
			tag("or")
			return Or(genPred(r, t, depth-1, tags), genPred(r, t, depth-1, tags))
		default:
			tag("not")
			return Not(genPred(r, t, depth-1, tags))
		}
	}
	switch r.Intn(11) {
	case 0, 1:
		op := Pick(r, cmpOps)
		tag("num" + op)
		if r.Chance(6) {
			tag("cmp-null-operand")
			return Cmp(op, Col(Pick(r, []string{"z", "missing"})), Num(t.numConst(r)))
		}
		if r.Bool() {
			return Cmp(op, Col(Pick(r, t.numCols)), Num(t.numConst(r)))
		}
		return Cmp(op, Num(t.numConst(r)), Col(Pick(r, t.numCols)))
	case 2:
		op := Pick(r, cmpOps)
		tag("str" + op)
		if r.Bool() {
			return Cmp(op, Col(Pick(r, t.strCols)), Str(t.strConst(r)))
		}
		return Cmp(op, Str(t.strConst(r)), Col(Pick(r, t.strCols)))
	case 3:
		op := Pick(r, cmpOps)
		tag("col" + op)
		if r.Bool() {
			return Cmp(op, Col("n1"), Col("n2"))
		}
		return Cmp(op, Col("s1"), Col("s2"))
	case 4:
		neg := r.Bool()
		k := r.Intn(4)
		if r.Chance(10) {
			k = 16 + r.Intn(9) // a long list
			tag("in-long-list")
		}
		var items []*Expr
		var a *Expr
		if r.Bool() {
			a = Col(Pick(r, t.numCols))
			if r.Chance(8) {
				// outside the claim (NULL / missing operand) but inside the model: keeps the tie honest there too
				a = Col(Pick(r, []string{"z", "missing"}))
				tag("in-null-operand")
			}
			for i := 0; i < k; i++ {
				items = append(items, Num(t.numConst(r)))
			}
			if len(items) == 0 {
				items = append(items, Num(t.numConst(r)))
			}
			tag(map[bool]string{false: "in-num", true: "notin-num"}[neg])
		} else {
			a = Col(Pick(r, t.strCols))
			for i := 0; i <= k; i++ {
				items = append(items, Str(t.strConst(r)))
			}
			tag(map[bool]string{false: "in-str", true: "notin-str"}[neg])
		}
		return &Expr{K: "in", Neg: neg, A: a, Items: items}
	case 5:
		neg := r.Bool()
		tag(map[bool]string{false: "between", true: "notbetween"}[neg])
		if r.Chance(70) {
			lo, hi := t.numConst(r), t.numConst(r)
			if r.Chance(80) && lo > hi {
				lo, hi = hi, lo
			}
			return &Expr{K: "between", Neg: neg, A: Col(Pick(r, t.numCols)), B: Num(lo), C: Num(hi)}
		}
		lo, hi := t.strConst(r), t.strConst(r)
		if r.Chance(80) && lo > hi {
			lo, hi = hi, lo
		}
		return &Expr{K: "between", Neg: neg, A: Col(Pick(r, t.strCols)), B: Str(lo), C: Str(hi)}
	case 6, 7:
		neg := r.Chance(30)
		tag(map[bool]string{false: "like", true: "notlike"}[neg])
		return &Expr{K: "like", Neg: neg, A: Col(Pick(r, t.strCols)), B: Str(likePattern(r, t))}
	case 8:
		op := Pick(r, []string{"NULL", "NOT NULL"})
		tag("is " + op)
		return &Expr{K: "is", Op: op, A: Col(Pick(r, []string{"z", "n1", "missing"}))}
	case 9:
		op := Pick(r, []string{"TRUE", "NOT TRUE", "FALSE", "NOT FALSE"})
		tag("is " + op)
		return &Expr{K: "is", Op: op, A: Col("b1")}
	default:
		tag("in-subquery")
		sub := &Stmt{From: &From{K: "table", Path: []string{"<-", "vals"}}, Items: []Item{{E: Col("v")}}}
		neg := r.Chance(35)
		if neg {
			tag("notin-subquery")
		}
		if r.Chance(20) {
			// the set is a UNION of two single-column selects whose columns have different names
			sub = &Stmt{Union: true, All: r.Bool(), L: sub, R: &Stmt{From: &From{K: "table", Path: []string{"<-", "t"}}, Items: []Item{{E: Col(Pick(r, []string{"n2", "id"}))}}, Where: Cmp("<", Col("id"), Num(3))}}
			tag("in-subquery-union")
			return &Expr{K: "insub", Neg: neg, A: Col(Pick(r, t.numCols)), Q: sub}
		}
		if r.Chance(35) {
			// correlated: the inner WHERE mentions a column of the outer row, so the set differs from row to row
			sub.Where = Cmp(Pick(r, cmpOps), Col("v"), Col("<-", Pick(r, []string{"n1", "n2", "id"})))
			tag("in-subquery-correlated")
		}
		return &Expr{K: "insub", Neg: neg, A: Col(Pick(r, t.numCols)), Q: sub}
	}
}

func selectStar(table string, where *Expr) *Stmt {
	return &Stmt{From: &From{K: "table", Path: []string{table}}, Items: []Item{{Star: true}}, Where: where}
}

func genC01(r *Rand, tier string) []Case {
	n := 900
	if tier == "thorough" {
		n = 12000
	}
	var out []Case
	for i := 0; i < n; i++ {
		t := genTable(r, 6)
		vals := []any{}
		for k := r.Intn(4); k > 0; k-- {
			vals = append(vals, map[string]any{"v": t.numConst(r)})
		}
		doc := map[string]any{"t": t.rows, "vals": vals}
		var tags []string
		depth := r.Intn(4)
		if tier == "thorough" {
			depth = r.Intn(7)
		}
		intKind := ""
		if r.Chance(12) {
			// a numeric column of a Go integer kind, with magnitudes that %v prints in exponent form as float64
			intKind = Pick(r, []string{"int", "int64", "int32", "uint64"})
			scale := Pick(r, []float64{1, 1, 1000000, 10000000})
			for _, row := range t.rows {
				m := row.(map[string]any)
				for _, c := range t.numCols {
					if f, ok := m[c].(float64); ok {
						m[c] = f * scale
					}
				}
			}
			tags = append(tags, "intkind:"+intKind)
		}
		p := genPred(r, t, depth, &tags)
		if intKind != "" && r.Chance(40) {
			// a long list of plain non-negative literals, some of them values of the integer column
			col := Pick(r, t.numCols)
			var items []*Expr
			for k := 16 + r.Intn(28); k > 0; k-- {
				items = append(items, Num(math.Abs(t.numConst(r))))
			}
			p = &Expr{K: "in", Neg: r.Chance(30), A: Col(col), Items: items}
			tags = append(tags, "op:in-long-list-int-column")
		}
		tags = append(tags, fmt.Sprintf("depth:%d", depth), fmt.Sprintf("tablerows:%d", len(t.rows)))
		qs := selectStar("t", p)
		if r.Chance(5) {
			// a window next to a whole-table aggregate: the aggregate is over every row that satisfies the predicate
			qs.Items = []Item{{E: Col("id")}, {E: Bin("+", &Expr{K: "agg", Name: "count", Star: true}, Num(0)), Alias: "c"}}
			qs.Limit = intp(1 + r.Intn(2))
			tags = append(tags, "window-beside-aggregate")
		}
		if r.Chance(12) && respell(r, qs) {
			tags = append(tags, "literals:respelt")
		}
		c := mkCase(doc, qs, tags, len(t.rows) >= 2)
		if intKind != "" {
			in := c.Input.(engIn)
			in.IntKind = intKind
			c.Input = in
			c.Key += "|" + intKind
		}
		out = append(out, c)
	}
	// long tables: the filter keeps exactly the rows that satisfy the predicate, wherever they sit
	lsizes := []int{300, 4099}
	if tier == "thorough" {
		lsizes = []int{65, 257, 300, 1025, 4099, 5003}
	}
	for _, n := range lsizes {
		for _, p := range []*Expr{Cmp("=", Col("n1"), Num(3)), And(Cmp(">=", Col("n2"), Num(4)), Not(Cmp("=", Col("s1"), Str("ab")))),
			{K: "in", A: Col("n2"), Items: []*Expr{Num(1), Num(7), Num(10)}}, {K: "is", Op: "NULL", A: Col("k")}} {
			if n > 1000 && tier != "thorough" && p.K != "and" {
				continue // quick tier: one predicate on the longest table
			}
			out = append(out, mkCase(map[string]any{"t": bigRows(n)}, &Stmt{From: &From{K: "table", Path: []string{"t"}}, Items: []Item{{E: Col("id")}}, Where: p}, []string{"long-table", fmt.Sprintf("rows:%d", n)}, true))
		}
	}
	// LIKE over letters outside ASCII whose two cases differ (also in UTF-8 length): value and pattern in different cases
	families := [][]string{{"\u0130stanbul", "istanbul", "ISTANBUL"}, {"\u212Aelvin", "kelvin", "KELVIN", "Kelvin"}, {"10 k\u2126", "10 k\u03c9", "10 K\u03a9"},
		{"GRO\u1E9EE", "gro\u00dfe"}, {"\u00c9t\u00e9", "\u00e9T\u00c9", "\u00e9t\u00e9"}, {"\u042f\u0431\u043b\u043e\u043a\u043e", "\u044f\u0411\u041b\u043e\u043a\u043e"},
		{"\u03a9mega", "\u03c9MEGA"}, {"\u4e16a", "\u4e16A"}}
	nl := 60
	if tier == "thorough" {
		nl = 600
	}
	for i := 0; i < nl; i++ {
		n := 1 + r.Intn(5)
		rows := make([]any, n)
		fam := Pick(r, families)
		for j := range rows {
			v := Pick(r, fam)
			if r.Chance(20) {
				v = Pick(r, Pick(r, families))
			}
			rows[j] = map[string]any{"id": float64(j + 1), "s1": v}
		}
		base := []rune(Pick(r, fam))
		var pat string
		switch r.Intn(5) {
		case 0:
			pat = string(base[:r.Intn(len(base)+1)]) + "%"
		case 1:
			pat = "%" + string(base[r.Intn(len(base)+1):])
		case 2:
			pat = string(base)
		case 3:
			if len(base) > 0 {
				base[r.Intn(len(base))] = '_'
			}
			pat = string(base)
		default:
			k := r.Intn(len(base) + 1)
			pat = string(base[:k]) + "%" + string(base[k:])
		}
		if r.Bool() {
			pat = strings.ToUpper(pat)
		}
		q := &Stmt{From: &From{K: "table", Path: []string{"t"}}, Items: []Item{{E: Col("id")}},
			Where: &Expr{K: "like", Neg: r.Chance(30), A: Col("s1"), B: Str(pat)}}
		doc := map[string]any{"t": rows}
		c := mkCase(doc, q, []string{"op:like-non-ascii-case"}, true)
		in := c.Input.(engIn)
		in.ModelDoc = mapStrings(anyMap(deepCopy(doc).(map[string]any)), lowerNonASCII).(map[string]any)
		mq := *q
		mq.Where = &Expr{K: "like", Neg: q.Where.Neg, A: Col("s1"), B: Str(lowerNonASCII(pat))}
		in.ModelQ = &mq
		c.Input = in
		out = append(out, c)
	}
	return out
}

func init() {
	register(engineProp{id: "C01", checkFn: "EngineRun.check_seq", gen: genC01,
		rule: "random tables (0-6 rows, typed columns, duplicates, NULL/missing only under IS [NOT] NULL) x random predicates over the whole operator grammar (depth 0-3 quick, 0-6 thorough), constants drawn from the table +-1; observable: the sequence of surviving rows (each row carries a unique id); non-trivial = at least 2 source rows and the result is neither an error, nor empty, nor the whole table; distinct = distinct (query, document)"})
}

// runEngineReexec: see engIn.Reexec.
func runEngineReexec(doc map[string]any, sql string, opts ...genql.QueryOption) (out engineOut) {
	defer func() {
		if r := recover(); r != nil {
			out = engineOut{Class: "panic", Err: fmt.Sprint(r)}
		}
	}()
	q, err := genql.New(doc, sql, opts...)
	if err != nil {
		return engineOut{Class: "error", Err: err.Error()}
	}
	rows, _ := doc["t"].([]any)
	saved := make([]map[string]any, len(rows))
	for i, r := range rows {
		if m, ok := r.(map[string]any); ok {
			saved[i] = make(map[string]any, len(m))
			for k, v := range m {
				saved[i][k] = v
				delete(m, k)
			}
		}
	}
	func() {
		defer func() { recover() }()
		q.Exec()
	}()
	for i, r := range rows {
		if m, ok := r.(map[string]any); ok {
			for k, v := range saved[i] {
				m[k] = v
			}
		}
	}
	res, err := q.Exec()
	if err != nil {
		return engineOut{Class: "error", Err: err.Error()}
	}
	return engineOut{Class: "ok", Rows: normaliseRows(res)}
}

// shareEqual: see engIn.ShareEqual.
func shareEqual(v any) {
	switch t := v.(type) {
	case map[string]any:
		for _, x := range t {
			shareEqual(x)
		}
	case []any:
		for i := range t {
			shareEqual(t[i])
			if a, ok := t[i].([]any); ok && len(a) > 0 {
				for j := 0; j < i; j++ {
					if b, ok := t[j].([]any); ok && reflect.DeepEqual(a, b) {
						t[i] = b
						break
					}
				}
			}
		}
	}
}
