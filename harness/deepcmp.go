package main

import (
	"fmt"
	"reflect"
)

// deepDiff compares a (possibly mutated, possibly cyclic) Go value with a pristine JSON-like copy.
// It returns "" when they are deep-equal, otherwise the path of the first difference.
func deepDiff(got any, want any) string {
	return deepDiffAt(got, want, "$", map[uintptr]bool{}, 0)
}

func deepDiffAt(got, want any, path string, onPath map[uintptr]bool, depth int) string {
	if depth > 200 {
		return path + ": nesting deeper than 200 (cycle?)"
	}
	switch w := want.(type) {
	case nil:
		if got != nil {
			return fmt.Sprintf("%s: was nil, now %T", path, got)
		}
	case int, int64, int32, uint64:
		if !reflect.DeepEqual(got, want) {
			return fmt.Sprintf("%s: was %v (%T), now %v (%T)", path, want, want, got, got)
		}
	case bool, float64, string:
		if !reflect.DeepEqual(got, want) {
			// NaN never equals itself
			if gf, ok := got.(float64); ok {
				if wf, ok := want.(float64); ok && gf != gf && wf != wf {
					return ""
				}
			}
			return fmt.Sprintf("%s: was %v, now %v", path, want, got)
		}
	case []any:
		g, ok := got.([]any)
		if !ok {
			return fmt.Sprintf("%s: was array, now %T", path, got)
		}
		if len(g) != len(w) {
			return fmt.Sprintf("%s: array length was %d, now %d", path, len(w), len(g))
		}
		for i := range w {
			if d := deepDiffAt(g[i], w[i], fmt.Sprintf("%s[%d]", path, i), onPath, depth+1); d != "" {
				return d
			}
		}
	case map[string]any:
		g, ok := got.(map[string]any)
		if !ok {
			return fmt.Sprintf("%s: was object, now %T", path, got)
		}
		p := reflect.ValueOf(g).Pointer()
		if onPath[p] {
			return path + ": reference cycle"
		}
		onPath[p] = true
		defer delete(onPath, p)
		for k := range g {
			if _, ok := w[k]; !ok {
				return fmt.Sprintf("%s: key %q was added", path, k)
			}
		}
		for k, wv := range w {
			gv, ok := g[k]
			if !ok {
				return fmt.Sprintf("%s: key %q was removed", path, k)
			}
			if d := deepDiffAt(gv, wv, path+"."+k, onPath, depth+1); d != "" {
				return d
			}
		}
	default:
		return fmt.Sprintf("%s: unexpected pristine type %T", path, want)
	}
	return ""
}
