package main

// Round-5 streams (mini round: 8 properties x 2 seeded changes).
//
//  C05 / C06  union-distinct-window   UNION (distinct) and UNION ALL chains of 2-3 operands over tables with duplicates
//                                     inside and across the operands, under a union-level LIMIT [OFFSET]: the window is cut
//                                     from the de-duplicated concatenation, never from the operands
//  C06        union-with-nesting      a union-level WITH over chains whose nested union sits on the RIGHT or on the LEFT
//                                     ((A u B) u C  vs  A u (B u C)), every branch reading the CTE or a table: how the
//                                     branches are associated in the text does not change which definitions they see
//  C06 / C07  operand-with-shadow     an operand with its own WITH whose CTE is named like a document table, next to an
//                                     operand (on either side) that reads that table: an operand's CTEs are its own
//  C07        exists-error-after-hit  EXISTS over a nested array in which an element satisfying the predicate comes BEFORE
//                                     an element on which the predicate cannot be evaluated: EXISTS fails like its
//                                     subquery run standalone on that row, wherever the failing element sits

import "fmt"

func init() {
	extraStreams["C06"] = append(extraStreams["C06"], r5UnionWindow("C06"), r5UnionWithNesting, r5OperandWithShadow("C06"))
	extraStreams["C05"] = append(extraStreams["C05"], r5UnionWindow("C05"))
	extraStreams["C07"] = append(extraStreams["C07"], r5OperandWithShadowC07, r5ExistsErrorAfterHit)
}

func r5DupRows(r *Rand, n int, pool int) []any {
	rows := make([]any, n)
	for i := range rows {
		rows[i] = map[string]any{"a": float64(1 + r.Intn(pool)), "b": Pick(r, []string{"x", "y"})}
	}
	return rows
}

func r5UnionWindow(pid string) func(r *Rand, tier string) []Case {
	return func(r *Rand, tier string) []Case {
		n := 90
		if tier == "thorough" {
			n = 1200
		}
		var out []Case
		for i := 0; i < n; i++ {
			doc := map[string]any{"t": r5DupRows(r, r.Intn(6), 4), "u": r5DupRows(r, r.Intn(6), 5), "v": r5DupRows(r, r.Intn(4), 5)}
			items := []Item{{E: Col("a")}}
			if r.Chance(30) {
				items = append(items, Item{E: Col("b")})
			}
			op := func(tbl string) *Stmt { return &Stmt{From: &From{K: "table", Path: []string{tbl}}, Items: items} }
			all1, all2 := r.Chance(35), r.Chance(35)
			var q *Stmt
			tags := []string{"r5:union-distinct-window"}
			switch r.Intn(4) {
			case 0, 1:
				q = &Stmt{Union: true, All: all1, L: op("t"), R: op("u")}
				tags = append(tags, "chain:2")
			case 2:
				q = &Stmt{Union: true, All: all2, L: &Stmt{Union: true, All: all1, L: op("t"), R: op("u")}, R: op("v")}
				tags = append(tags, "chain:left-nested")
			default:
				q = &Stmt{Union: true, All: all1, L: op("t"), R: &Stmt{Union: true, All: all2, L: op("u"), R: op("v")}}
				tags = append(tags, "chain:right-nested")
			}
			q.Limit = intp(r.Intn(5))
			if r.Chance(35) {
				q.Offset = intp(r.Intn(3))
				q.LimitComma = r.Bool()
				tags = append(tags, "window:offset")
			}
			tags = append(tags, fmt.Sprintf("all:%v/%v", all1, all2), "for:"+pid)
			out = append(out, mkCase(doc, q, tags, true))
		}
		return out
	}
}

func r5UnionWithNesting(r *Rand, tier string) []Case {
	n := 90
	if tier == "thorough" {
		n = 1200
	}
	var out []Case
	for i := 0; i < n; i++ {
		doc := map[string]any{"t": r5DupRows(r, 1+r.Intn(4), 4), "u": r5DupRows(r, 1+r.Intn(4), 5), "v": r5DupRows(r, r.Intn(4), 5)}
		cte := []CTE{{Name: "c", Q: &Stmt{From: &From{K: "table", Path: []string{Pick(r, []string{"t", "u"})}}, Items: []Item{{E: Col("a")}},
			Where: Cmp(Pick(r, []string{">=", "<=", "!="}), Col("a"), Num(float64(1+r.Intn(4))))}}}
		if r.Chance(30) {
			cte = append(cte, CTE{Name: "d", Q: &Stmt{From: &From{K: "table", Path: []string{"c"}}, Items: []Item{{E: Col("a")}}}})
		}
		op := func() *Stmt {
			src := Pick(r, []string{"c", "c", "t", "u", "v"})
			if len(cte) > 1 && r.Chance(30) {
				src = "d"
			}
			return &Stmt{From: &From{K: "table", Path: []string{src}}, Items: []Item{{E: Col("a")}}}
		}
		a, b, c := op(), op(), op()
		var q *Stmt
		tags := []string{"r5:union-with-nesting"}
		switch r.Intn(3) {
		case 0:
			q = &Stmt{Union: true, All: r.Bool(), L: a, R: &Stmt{Union: true, All: r.Bool(), L: b, R: c}}
			tags = append(tags, "nested:right")
		case 1:
			q = &Stmt{Union: true, All: r.Bool(), L: &Stmt{Union: true, All: r.Bool(), L: a, R: b}, R: c}
			tags = append(tags, "nested:left")
		default:
			q = &Stmt{Union: true, All: r.Bool(), L: &Stmt{Union: true, All: r.Bool(), L: a, R: b}, R: &Stmt{Union: true, All: r.Bool(), L: c, R: op()}}
			tags = append(tags, "nested:both")
		}
		q.With = cte
		if r.Chance(20) {
			q.Limit = intp(1 + r.Intn(5))
		}
		out = append(out, mkCase(doc, q, tags, true))
	}
	return out
}

// r5ShadowQuery: one operand declares a CTE named like the document table `t` (over table src); another operand reads `t`
func r5ShadowQuery(r *Rand) (map[string]any, *Stmt, []string) {
	doc := map[string]any{"t": r5DupRows(r, 1+r.Intn(4), 3), "src": r5DupRows(r, 1+r.Intn(4), 9)}
	for _, row := range doc["src"].([]any) {
		row.(map[string]any)["a"] = row.(map[string]any)["a"].(float64) + 10
	}
	own := &Stmt{With: []CTE{{Name: "t", Q: &Stmt{From: &From{K: "table", Path: []string{"src"}}, Items: []Item{{E: Col("a")}}}}},
		From: &From{K: "table", Path: []string{"t"}}, Items: []Item{{E: Col("a")}}}
	plain := &Stmt{From: &From{K: "table", Path: []string{"t"}}, Items: []Item{{E: Col("a")}}}
	tags := []string{"r5:operand-with-shadow"}
	var q *Stmt
	switch r.Intn(3) {
	case 0:
		q = &Stmt{Union: true, All: true, L: own, R: plain}
		tags = append(tags, "with:left")
	case 1:
		q = &Stmt{Union: true, All: true, L: plain, R: own}
		tags = append(tags, "with:right")
	default:
		q = &Stmt{Union: true, All: r.Bool(), L: own, R: &Stmt{Union: true, All: true, L: plain, R: plain}}
		tags = append(tags, "with:left,nested-right")
	}
	return doc, q, tags
}

func r5OperandWithShadow(pid string) func(r *Rand, tier string) []Case {
	return func(r *Rand, tier string) []Case {
		n := 40
		if tier == "thorough" {
			n = 500
		}
		var out []Case
		for i := 0; i < n; i++ {
			doc, q, tags := r5ShadowQuery(r)
			out = append(out, mkCase(doc, q, tags, true))
		}
		return out
	}
}

func r5OperandWithShadowC07(r *Rand, tier string) []Case {
	n := 40
	if tier == "thorough" {
		n = 500
	}
	var out []Case
	for i := 0; i < n; i++ {
		doc, q, tags := r5ShadowQuery(r)
		out = append(out, r4C07Case(doc, q, tags, true, nil, "", nil))
	}
	return out
}

func r5ExistsErrorAfterHit(r *Rand, tier string) []Case {
	n := 80
	if tier == "thorough" {
		n = 1000
	}
	var out []Case
	for i := 0; i < n; i++ {
		rows := make([]any, 1+r.Intn(4))
		for j := range rows {
			k := 1 + r.Intn(4)
			items := make([]any, k)
			for e := range items {
				items[e] = map[string]any{"p": float64(r.Intn(4)), "o": map[string]any{"q": float64(r.Intn(4))}}
			}
			if r.Chance(55) {
				// an element on which `o.q` cannot be read (a scalar in the way), anywhere in the array
				items[r.Intn(k)].(map[string]any)["o"] = "scalar"
			}
			rows[j] = map[string]any{"id": float64(j + 1), "n1": float64(r.Intn(4)), "items": items}
		}
		doc := map[string]any{"t": rows}
		tags := []string{"r5:exists-error-after-hit"}
		var p *Expr
		switch r.Intn(3) {
		case 0:
			p = Cmp(Pick(r, cmpOps), Col("o", "q"), Num(float64(r.Intn(4))))
		case 1:
			p = And(Cmp(">=", Col("p"), Num(float64(r.Intn(3)))), Cmp(Pick(r, cmpOps), Col("o", "q"), Col("n1")))
			tags = append(tags, "exists-correlated")
		default:
			p = Or(Cmp("=", Col("p"), Num(float64(r.Intn(4)))), Cmp(Pick(r, cmpOps), Col("o", "q"), Num(float64(r.Intn(4)))))
		}
		sub := &Stmt{From: r4Tbl("items"), Items: []Item{{Star: true}}, Where: p}
		var w *Expr = &Expr{K: "exists", Q: sub}
		if r.Chance(25) {
			w = Not(w)
		}
		q := &Stmt{From: r4Tbl("t"), Items: []Item{{E: Col("id")}}, Where: w}
		out = append(out, r4C07Case(doc, q, tags, true, nil, "", nil))
	}
	return out
}
