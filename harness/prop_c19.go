package main

// C19 — a failure anywhere surfaces as an error, never as a partial result.
//
// Fault ENUMERATION: every generated query carries the fault-injecting user function
// FAULT(tag, x [, ret]) in one (or several) clause positions.  Each case is executed
//   1. fault-free with a recording FAULT: the list of invocations (tag, x) in order, n of them;
//   2. for every k in 1..n (capped, spread over the range): once with the k-th invocation returning
//      an error and once with the k-th invocation panicking;
//   3. after EVERY run a fixed follow-up query on the SAME input document, compared with its result
//      on a pristine deep copy, plus a deep comparison of the document itself.
// The model (Model/Faults.v) sees the same query with the trigger = the (tag, x) pair of the k-th
// invocation.  RAISE / RAISE_WHEN(col = v) and planted type errors use the same machinery without
// triggers: the generator knows by construction whether the failure is on an evaluated row.

import (
	"strings"
	"sort"
	"bytes"
	"context"
	"encoding/json"
	"errors"
	"fmt"
	"io"
	"os"
	"os/exec"
	"sync"
	"time"

	"github.com/vedadiyan/genql"
)

// ---------- the fault-injecting function ----------

type c19Inv struct {
	Tag any `json:"tag"`
	X   any `json:"x"`
}

// c19Handlers: options for the queries of the case being observed (set by c19Observe)
var c19Handlers bool

var c19State struct {
	mu     sync.Mutex
	record bool
	failAt int // fail the invocation with this ordinal (1-based); 0 = never
	panics int // 0 error, 1 panic(string), 2 panic(error), 3 runtime panic (nil map write)
	count  int
	log    []c19Inv
}

func c19Fault(_ *genql.Query, _ genql.Map, _ *genql.FunctionOptions, args []any) (any, error) {
	if len(args) < 2 || len(args) > 3 {
		return nil, errors.New("FAULT expects (tag, x [, ret])")
	}
	c19State.mu.Lock()
	c19State.count++
	n := c19State.count
	if c19State.record {
		c19State.log = append(c19State.log, c19Inv{Tag: args[0], X: args[1]})
	}
	fail := c19State.failAt != 0 && n == c19State.failAt
	mode := c19State.panics
	c19State.mu.Unlock()
	if fail {
		switch mode {
		case 1:
			panic("c19: injected panic")
		case 2:
			panic(errors.New("c19: injected panic (error value)"))
		case 3:
			var m map[string]int
			m["c19"] = 1 // runtime error
		}
		return nil, errors.New("c19: injected error")
	}
	return args[len(args)-1], nil
}

func c19Arm(record bool, failAt, panics int) {
	c19State.mu.Lock()
	c19State.record, c19State.failAt, c19State.panics, c19State.count, c19State.log = record, failAt, panics, 0, nil
	c19State.mu.Unlock()
}

func c19Log() []c19Inv {
	c19State.mu.Lock()
	defer c19State.mu.Unlock()
	return append([]c19Inv{}, c19State.log...)
}

// ---------- running the real engine ----------

// c19Exec is runEngine plus the "no rows on failure" part of the observable: an error that comes with
// a non-nil result is reported as the distinguished class "partial".
func c19Exec(doc map[string]any, sql string) (out engineOut) {
	defer func() {
		if r := recover(); r != nil {
			out = engineOut{Class: "panic", Err: fmt.Sprint(r)}
		}
	}()
	var opts []genql.QueryOption
	if c19Handlers {
		opts = append(opts, genql.UnReportedErrors(func(error) {}), genql.CompletedCallback(func() {}))
	}
	q, err := genql.New(doc, sql, opts...)
	if err != nil {
		if q != nil {
			return engineOut{Class: "partial", Err: "New returned a query together with an error: " + err.Error()}
		}
		// the same text prepared again must fail again: a failed call leaves nothing behind (e.g. in the selector cache)
		c19State.mu.Lock()
		transient := c19State.failAt != 0 // an injected fault fires once: preparing again may legitimately succeed
		c19State.mu.Unlock()
		if transient {
			return engineOut{Class: "error", Err: err.Error()}
		}
		if q2, err2 := genql.New(doc, sql, opts...); err2 == nil && q2 != nil {
			if rows2, err3 := q2.Exec(); err3 == nil {
				return engineOut{Class: "partial", Err: "New failed (" + err.Error() + "), the same text prepared again succeeded", Rows: normaliseRows(rows2)}
			}
		}
		return engineOut{Class: "error", Err: err.Error()}
	}
	rows, err := q.Exec()
	if err != nil {
		if rows != nil {
			return engineOut{Class: "partial", Err: "Exec returned rows together with an error: " + err.Error(), Rows: normaliseRows(rows)}
		}
		out = engineOut{Class: "error", Err: err.Error()}
		// the caller retries on the same Query object: it fails again or returns the complete result, never rows
		// patched with what the failed run left behind
		func() {
			defer func() {
				if r := recover(); r != nil {
					out.Retry = &engineOut{Class: "panic", Err: fmt.Sprint(r)}
				}
			}()
			rows2, err2 := q.Exec()
			if err2 != nil {
				out.Retry = &engineOut{Class: "error", Err: err2.Error()}
			} else {
				out.Retry = &engineOut{Class: "ok", Rows: normaliseRows(rows2)}
			}
		}()
		return out
	}
	return engineOut{Class: "ok", Rows: normaliseRows(rows)}
}

// c19RetryBad: the retry of a failed Exec succeeded with something else than the fault-free result
// (free == nil: the failure is deterministic, so a successful retry is wrong whatever it returns).
func c19RetryBad(o engineOut, free *engineOut, multiset bool) bool {
	if o.Class != "error" || o.Retry == nil || o.Retry.Class != "ok" {
		return false
	}
	if free == nil || free.Class != "ok" {
		return true
	}
	if true { // rows are compared as a multiset: a retry may emit them in another order (PARALLEL joins)
		canon := func(rows []any) string {
			items := make([]string, len(rows))
			for i, r := range rows {
				items[i] = coqValue(r)
			}
			sort.Strings(items)
			return strings.Join(items, ";")
		}
		return canon(o.Retry.Rows) != canon(free.Rows)
	}
	return coqEngineObs(*o.Retry) != coqEngineObs(*free)
}

// c19SameAs compares v against the acyclic reference ref, guided by ref's structure (so a cycle that a
// failed query may have left in v cannot make the comparison diverge).
func c19SameAs(v, ref any) bool {
	switch r := ref.(type) {
	case map[string]any:
		m, ok := v.(map[string]any)
		if !ok || len(m) != len(r) {
			return false
		}
		for k, x := range r {
			y, ok := m[k]
			if !ok || !c19SameAs(y, x) {
				return false
			}
		}
		return true
	case []any:
		s, ok := v.([]any)
		if !ok || len(s) != len(r) {
			return false
		}
		for i := range r {
			if !c19SameAs(s[i], r[i]) {
				return false
			}
		}
		return true
	case float64:
		f, ok := v.(float64)
		return ok && coqFloat(f) == coqFloat(r)
	default:
		return v == ref
	}
}

var c19FollowUps = []string{
	"SELECT * FROM t",
	"SELECT id, (SELECT u FROM items) AS s FROM t WHERE id > 0",
	"SELECT COUNT(*) AS c FROM t",
}

// c19Usable: the follow-up queries on the used document answer exactly as on a pristine copy, and
// the document is unchanged.
func c19Usable(used, pristine map[string]any) (bool, string) {
	c19Arm(false, 0, 0)
	// the document first: a failed query may have left a cyclic back reference in it, which the
	// structure-guided comparison detects without following it
	if !c19SameAs(used, pristine) {
		return false, "input document changed"
	}
	for _, f := range c19FollowUps {
		a := c19Exec(used, f)
		b := c19Exec(deepCopy(pristine).(map[string]any), f)
		if a.Class != b.Class || coqEngineObs(a) != coqEngineObs(b) {
			return false, "follow-up differs: " + f
		}
	}
	if !c19SameAs(used, pristine) {
		return false, "input document changed by the follow-up"
	}
	return true, ""
}

// ---------- case input ----------

type c19In struct {
	Doc      map[string]any `json:"doc"`
	Q        *Stmt          `json:"q"`
	SQL      string         `json:"sql"`
	Kind     string         `json:"kind"` // fault | raise | typeerr
	Pos      string         `json:"pos"`  // clause position of the failure source
	Cap      int            `json:"cap"`  // at most this many k per variant
	Expect   *bool          `json:"expect,omitempty"`
	Multiset bool           `json:"multiset,omitempty"`
	// Handlers: the query is created with an error handler (UnReportedErrors) and a completion callback installed;
	// a synchronous failure must still fail New / Exec
	Handlers bool `json:"handlers,omitempty"`
}

type propC19 struct{}

func (propC19) ID() string        { return "C19" }
func (propC19) Imports() []string { return []string{"Base.Prelude", "Base.Value", "Model.Ast", "Model.Faults", "Run.C19Run"} }
func (propC19) CheckFn() string   { return "C19Run.check" }
func (propC19) InputType() string { return "C19Run.input" }
func (propC19) ObsType() string   { return "C19Run.obs" }
func (propC19) Exhaustive(string) bool { return false }
func (propC19) Rule() string {
	return "queries from the engine grammar over tables of 0-6 rows (unique id, nested arrays with unique element ids, group keys, a second table for joins, arrays of arrays) with the fault-injecting function FAULT(tag, x) placed in every clause position: WHERE (comparison, AND/OR operand, raw boolean), select list (plain, inside arithmetic, two sites), CASE condition and branches, HAVING and grouped select list, CTE body (single, chained, used twice), derived table, select-list subquery, EXISTS, IN-subquery, UNION branches, argument of another call, inner dimension of a multi-dimensional FROM, select list over a join, the ON clause of a join (all strategies), SCOPED/ONCE qualifiers, and compositions two to three levels deep, decorated with ORDER BY / LIMIT / DISTINCT; per query: one fault-free recording run, then for every invocation index k (all k up to the cap, otherwise spread over 1..n) one run with the k-th invocation returning an error and one with it panicking (string, error value, runtime error); observable per run: (rows, error) must be (none, error), and after every run three follow-up queries on the same document must answer as on a pristine deep copy and the document must be deep-equal to it; the model is run fault-free (result must equal the observed rows) and once per distinct (tag, x) trigger pair in both variants (must be Err); RAISE / RAISE_WHEN(id = v) per row and planted type errors (non-boolean WHERE/HAVING/CASE condition, non-numeric arithmetic operand in one row, non-boolean ON operand) with the expected outcome known by construction, including rows that are filtered out before the failing clause; non-trivial = the fault-free run succeeds and performs at least one invocation (fault) / the planted failure is on an evaluated row (raise, typeerr); further streams (r4_c19.go): arithmetic over two column (or literal) operands with the value kinds of one planted row drawn from {number, NULL, missing, text, boolean, object, array} squared x all 11 operators x select / WHERE / filtered-out / CTE / derived / row-scoped subquery / nested arithmetic, expected outcome by construction (left to right: NULL short-circuits, any other non-number is an error); ASYNC / SPIN / SPINASYNC calls of identity functions whose synchronously evaluated ARGUMENT holds the failure source (FAULT at every k, nested FAULT, FAULT inside arithmetic or a row-scoped subquery, RAISE, RAISE_WHEN, type error), top level / derived table / CTE body; the model is given what the qualified select item denotes for its row (c19ModelView)"
}

// ---------- generators ----------

func c19Call(tag string, args ...*Expr) *Expr {
	return &Expr{K: "call", Name: "FAULT", Items: append([]*Expr{Str(tag)}, args...)}
}

func c19Bool(b bool) *Expr { return &Expr{K: "bool", Bool: b} }

type c19Doc struct {
	t   table
	doc map[string]any
	ids []float64
}

func c19GenDoc(r *Rand, maxRows int) c19Doc {
	t := genGroupTable(r, maxRows)
	if len(t.rows) == 0 && r.Chance(85) {
		for len(t.rows) == 0 {
			t = genGroupTable(r, maxRows)
		}
	}
	var ids []float64
	for _, row := range t.rows {
		m := row.(map[string]any)
		id := m["id"].(float64)
		ids = append(ids, id)
		k := r.Intn(4)
		items := make([]any, k)
		for j := range items {
			items[j] = map[string]any{"u": id*10 + float64(j+1), "p": Pick(r, numPool[:6]), "w": Pick(r, strPool[:5])}
		}
		m["items"] = items
		delete(m, "g2")
	}
	vals := []any{}
	for k := 1 + r.Intn(3); k > 0; k-- {
		vals = append(vals, map[string]any{"v": t.numConst(r)})
	}
	var u []any
	for k, n := 0, r.Intn(5); k < n; k++ {
		aid := float64(1 + r.Intn(maxRows))
		u = append(u, map[string]any{"uid": float64(100 + k), "aid": aid, "w": Pick(r, strPool[:5])})
	}
	if u == nil {
		u = []any{}
	}
	var nested []any
	for k, n := 0, 1+r.Intn(3); k < n; k++ {
		inner := []any{}
		for j, m := 0, r.Intn(3); j < m && len(t.rows) > 0; j++ {
			inner = append(inner, deepCopy(Pick(r, t.rows)))
		}
		nested = append(nested, inner)
	}
	doc := map[string]any{"t": t.rows, "vals": vals, "u": u, "n": nested}
	return c19Doc{t: t, doc: doc, ids: ids}
}

func c19From(tb string) *From { return &From{K: "table", Path: []string{tb}} }

// c19Core returns a query over table t with FAULT at the given position; tags are distinct literals
// prefixed by pfx so that compositions keep every call site distinguishable.
func c19Core(r *Rand, d c19Doc, pos, pfx string) (q *Stmt, multiset bool) {
	t := d.t
	id := Col("id")
	c := Num(t.numConst(r))
	q = &Stmt{From: c19From("t"), Items: []Item{{E: Col("id")}}}
	switch pos {
	case "where-cmp":
		q.Where = Cmp(Pick(r, cmpOps), c19Call(pfx+"w", id), c)
	case "where-and":
		var sub []string
		p := genPred(r, t, 1, &sub)
		for _, s := range sub {
			if s == "op:in-subquery" || s == "op:notin-subquery" {
				p = Cmp("<=", Col("n1"), c)
			}
		}
		if r.Bool() {
			q.Where = And(p, Cmp(">=", c19Call(pfx+"w", id), Num(0)))
		} else {
			q.Where = Or(Cmp("<", c19Call(pfx+"w", id), c), p)
		}
	case "where-bool":
		q.Where = c19Call(pfx+"w", id, Col("b1"))
		if r.Bool() {
			q.Where = Not(q.Where)
		}
	case "select":
		q.Items = []Item{{E: Col("id")}, {E: c19Call(pfx+"s", id), Alias: "f"}}
		if r.Bool() {
			q.Where = Cmp(Pick(r, cmpOps), Col("n1"), c)
		}
	case "select-arith":
		q.Items = []Item{{E: Col("id")}, {E: Bin(Pick(r, []string{"+", "-", "*"}), c19Call(pfx+"s", id), Col("n1")), Alias: "f"}}
	case "select-two":
		q.Items = []Item{{E: c19Call(pfx+"s1", id), Alias: "f"}, {E: Col("n1")}, {E: c19Call(pfx+"s2", id, Col("s1")), Alias: "g"}}
	case "case-branch":
		q.Items = []Item{{E: Col("id")}, {E: &Expr{K: "case", Whens: [][2]*Expr{{Cmp(Pick(r, cmpOps), Col("n1"), c), c19Call(pfx+"c1", id)}},
			Else: c19Call(pfx+"c2", id)}, Alias: "f"}}
		if r.Bool() {
			q.Items[1].E.Else = nil
		}
	case "case-cond":
		q.Items = []Item{{E: Col("id")}, {E: &Expr{K: "case", Whens: [][2]*Expr{
			{Cmp(">", c19Call(pfx+"cc1", id), c), Num(1)},
			{c19Call(pfx+"cc2", id, Col("b1")), Col("n1")}}, Else: Num(0)}, Alias: "f"}}
	case "having":
		q.Group = []string{"g1"}
		q.Items = []Item{{E: Col("g1")}, {E: &Expr{K: "agg", Name: "count", Star: true}, Alias: "c"}}
		switch r.Intn(3) {
		case 0:
			q.Having = c19Call(pfx+"h", Col("g1"), c19Bool(true))
		case 1:
			q.Having = Cmp(">=", &Expr{K: "agg", Name: "count", Star: true}, c19Call(pfx+"h", Col("g1"), Num(float64(r.Intn(3)))))
		default:
			q.Having = And(Cmp(">", &Expr{K: "agg", Name: "count", Star: true}, Num(0)), c19Call(pfx+"h", Col("g1"), c19Bool(r.Bool())))
		}
	case "group-select":
		q.Group = []string{"g1"}
		q.Items = []Item{{E: Col("g1")}, {E: c19Call(pfx+"g", Col("g1")), Alias: "f"}, {E: &Expr{K: "agg", Name: "sum", Path: []string{"id"}}, Alias: "s"}}
	case "subquery":
		sub := &Stmt{From: c19From("items"), Items: []Item{{E: c19Call(pfx+"sq", Col("u")), Alias: "f"}}}
		if r.Bool() {
			sub.Where = Cmp(">", Col("p"), Num(float64(r.Intn(3))))
		}
		q.Items = []Item{{E: Col("id")}, {E: &Expr{K: "sub", Q: sub}, Alias: "sub"}}
	case "exists":
		sub := &Stmt{From: c19From("items"), Items: []Item{{Star: true}}, Where: Cmp(">", c19Call(pfx+"ex", Col("u")), Num(Pick(r, d.idsOr1())*10+1))}
		q.Where = &Expr{K: "exists", Q: sub}
		if r.Chance(30) {
			q.Where = Not(q.Where)
		}
	case "in-subquery":
		sub := &Stmt{From: &From{K: "table", Path: []string{"<-", "vals"}}, Items: []Item{{E: c19Call(pfx+"in", Col("v")), Alias: "v"}}}
		q.Where = &Expr{K: "insub", Neg: r.Chance(30), A: Col(Pick(r, []string{"n1", "n2"})), Q: sub}
	case "nested-call":
		q.Items = []Item{{E: Col("id")}, {E: c19Call(pfx+"o", c19Call(pfx+"i", id)), Alias: "f"}}
		if r.Bool() {
			q.Items = []Item{{E: Col("id")}}
			q.Where = Cmp("<=", c19Call(pfx+"o", c19Call(pfx+"i", id), Col("n1")), c)
		}
	case "scoped":
		e := c19Call(pfx+"sc", id)
		e.Qual = "SCOPED"
		q.Items = []Item{{E: Col("id")}, {E: e, Alias: "f"}}
	case "once":
		e := c19Call(pfx+"once", id)
		e.Qual = "ONCE"
		q.Items = []Item{{E: Col("id")}, {E: e, Alias: "f"}}
	case "inner-dimension":
		q.From = c19From("n")
		q.Items = []Item{{E: c19Call(pfx+"nd", id), Alias: "f"}}
		if r.Bool() {
			q.Where = Cmp(">", c19Call(pfx+"ndw", id), Num(1))
		}
	case "join-select":
		q.From = c19JoinFrom(r, nil)
		q.Items = []Item{{E: Col("a", "id"), Alias: "i"}, {E: c19Call(pfx+"j", Col("b", "uid")), Alias: "f"}}
		multiset = true
	case "join-on":
		// the arguments of a call inside ON are literals: FuncArgReader does not pass the
		// hard-coded-read option on, so a column would read as NULL there
		q.From = c19JoinFrom(r, c19Call(pfx+"on", Num(float64(r.Intn(3))), c19Bool(true)))
		q.Items = []Item{{Star: true}}
		multiset = true
	default:
		panic("c19: unknown position " + pos)
	}
	return q, multiset
}

func (d c19Doc) idsOr1() []float64 {
	if len(d.ids) == 0 {
		return []float64{1}
	}
	return d.ids
}

var c19Strats = []string{"auto", "hash", "straight", "parallel", "parallelhash", "parallelstraight"}

func c19JoinFrom(r *Rand, onCall *Expr) *From {
	on := Cmp("=", Col("a", "id"), Col("b", "aid"))
	if onCall != nil {
		if r.Bool() {
			on = And(on, onCall)
		} else {
			on = And(onCall, on)
		}
	}
	jt := Pick(r, []string{"inner", "left", "right"})
	st := Pick(r, c19Strats)
	if st == "straight" || st == "parallelstraight" {
		jt = "inner"
	}
	return &From{K: "join", JT: jt, Strat: st,
		L: &From{K: "table", Path: []string{"t"}, Alias: "a"}, R: &From{K: "table", Path: []string{"u"}, Alias: "b"}, On: on}
}

var c19CorePositions = []string{"where-cmp", "where-and", "where-bool", "select", "select-arith", "select-two", "case-branch", "case-cond",
	"having", "group-select", "subquery", "exists", "in-subquery", "nested-call", "scoped", "once", "inner-dimension", "join-select", "join-on"}

// positions whose result rows are plain objects with an id column, usable as the inner query of a wrapper
var c19Wrappable = []string{"where-cmp", "where-and", "where-bool", "select", "select-arith", "case-branch", "case-cond", "subquery", "exists", "in-subquery", "nested-call"}

// c19Wrap puts an inner query at a deeper place of an outer query.
func c19Wrap(r *Rand, d c19Doc, inner *Stmt, how, pfx string) *Stmt {
	cn := "c" + pfx // CTE names are distinct per nesting level
	switch how {
	case "cte":
		q := &Stmt{From: c19From(cn), Items: []Item{{Star: true}}, With: []CTE{{Name: cn, Q: inner}}}
		if r.Bool() {
			q.Where = Cmp(">", Col("id"), Num(float64(r.Intn(3))))
		}
		return q
	case "cte-outer-fault":
		// the outer query calls FAULT too: invocations of the body come first (the CTE is evaluated while building FROM)
		return &Stmt{From: c19From(cn), Items: []Item{{E: Col("id")}, {E: c19Call(pfx+"outer", Col("id")), Alias: "o"}}, With: []CTE{{Name: cn, Q: inner}}}
	case "cte-chain":
		mid := &Stmt{From: c19From(cn+"1"), Items: []Item{{Star: true}}, Where: Cmp(">=", c19Call(pfx+"mid", Col("id")), Num(0))}
		with := []CTE{{Name: cn + "1", Q: inner}, {Name: cn + "2", Q: mid}}
		if r.Chance(30) {
			with = []CTE{with[1], with[0]}
		}
		return &Stmt{From: c19From(cn+"2"), Items: []Item{{Star: true}}, With: with}
	case "cte-twice":
		a := &Stmt{From: c19From(cn), Items: []Item{{E: Col("id")}}}
		b := &Stmt{From: c19From(cn), Items: []Item{{E: Col("id")}}, Where: Cmp(">", Col("id"), Num(1))}
		return &Stmt{Union: true, All: r.Bool(), L: a, R: b, With: []CTE{{Name: cn, Q: inner}}}
	case "derived":
		q := &Stmt{From: &From{K: "derived", Q: inner, Alias: "d"}, Items: []Item{{E: Col("d", "id"), Alias: "i"}}}
		if r.Bool() {
			q.Items = []Item{{Star: true}}
		}
		return q
	case "union-left":
		other := &Stmt{From: c19From("t"), Items: []Item{{E: Col("id")}, {E: c19Call(pfx+"ur", Col("id")), Alias: "f"}}}
		return &Stmt{Union: true, All: r.Bool(), L: inner, R: other}
	case "union-right":
		other := &Stmt{From: c19From("t"), Items: []Item{{E: Col("id")}}}
		q := &Stmt{Union: true, All: r.Bool(), L: other, R: inner}
		if r.Chance(30) {
			q.Limit = intp(1 + r.Intn(4))
		}
		return q
	case "subquery-root":
		// a row-scoped subquery that navigates back to the root table
		sub := *inner
		sub.From = &From{K: "table", Path: []string{"<-", "t"}}
		return &Stmt{From: c19From("vals"), Items: []Item{{E: Col("v")}, {E: &Expr{K: "sub", Q: &sub}, Alias: "s"}}}
	}
	panic("c19: unknown wrapper " + how)
}

var c19Wrappers = []string{"cte", "cte-outer-fault", "cte-chain", "cte-twice", "derived", "union-left", "union-right", "subquery-root"}

func c19Decorate(r *Rand, q *Stmt) {
	if q.Union || len(q.Group) > 0 {
		return
	}
	hasID := false
	for _, it := range q.Items {
		if it.Star || (it.E != nil && it.E.K == "col" && len(it.E.Path) == 1 && it.E.Path[0] == "id" && it.Alias == "") {
			hasID = true
		}
	}
	if q.From.K != "table" || q.From.Path[0] == "n" {
		return
	}
	if hasID && r.Chance(30) {
		q.Order = []OrderKey{{Path: []string{"id"}, Asc: r.Bool()}}
	}
	if r.Chance(20) {
		q.Limit = intp(r.Intn(5))
		if r.Bool() {
			q.Offset = intp(r.Intn(3))
		}
	}
	if r.Chance(15) {
		q.Distinct = true
	}
}

func c19Case(d c19Doc, q *Stmt, kind, pos string, cap int, expect *bool, multiset bool, nontrivial bool, extra ...string) Case {
	in := c19In{Doc: d.doc, Q: q, SQL: q.SQL(), Kind: kind, Pos: pos, Cap: cap, Expect: expect, Multiset: multiset}
	tags := append([]string{"kind:" + kind, "pos:" + pos}, extra...)
	c19CaseCount++
	if c19CaseCount%3 == 0 {
		in.Handlers = true
		tags = append(tags, "handlers-installed")
	}
	return Case{Input: in, Tags: tags, Nontrivial: nontrivial, Key: in.SQL + "|" + fmt.Sprint(d.doc)}
}

var c19CaseCount int

func c19Boolp(b bool) *bool { return &b }

func (propC19) Generate(r *Rand, tier string) []Case {
	perPos, cap, nDeep, nRaise, nType := 16, 12, 120, 110, 110
	if tier == "thorough" {
		perPos, cap, nDeep, nRaise, nType = 120, 40, 1200, 900, 900
	}
	var out []Case
	// 1. every clause position on its own
	for _, pos := range c19CorePositions {
		for i := 0; i < perPos; i++ {
			d := c19GenDoc(r, 6)
			q, ms := c19Core(r, d, pos, "")
			c19Decorate(r, q)
			out = append(out, c19Case(d, q, "fault", pos, cap, nil, ms, len(d.t.rows) >= 1))
		}
	}
	// 2. every wrapper around a random core
	for _, w := range c19Wrappers {
		for i := 0; i < perPos; i++ {
			d := c19GenDoc(r, 5)
			core := Pick(r, c19Wrappable)
			inner, _ := c19Core(r, d, core, "")
			q := c19Wrap(r, d, inner, w, "x")
			out = append(out, c19Case(d, q, "fault", w, cap, nil, false, len(d.t.rows) >= 1, "core:"+core))
		}
	}
	// 3. compositions two to three levels deep
	for i := 0; i < nDeep; i++ {
		d := c19GenDoc(r, 4)
		core := Pick(r, c19Wrappable)
		q, _ := c19Core(r, d, core, "")
		depth := 2 + r.Intn(2)
		path := ""
		for l := 0; l < depth; l++ {
			w := Pick(r, []string{"cte", "cte-outer-fault", "derived", "union-left", "union-right", "cte-chain"})
			if w == "derived" && l > 0 {
				w = "cte" // the projection through an alias needs the id column at top level
			}
			if (w == "union-left" || w == "union-right") && (len(q.With) > 0 || q.Union) {
				w = "cte" // a union branch cannot carry its own WITH clause (syntax), nor be an unparenthesised union
			}
			q = c19Wrap(r, d, q, w, fmt.Sprintf("l%d", l))
			if w == "derived" {
				q.Items = []Item{{E: Col("d", "id"), Alias: "id"}}
			}
			path += "/" + w
		}
		out = append(out, c19Case(d, q, "fault", "deep", cap, nil, false, len(d.t.rows) >= 1, "core:"+core, fmt.Sprintf("depth:%d", depth+1)))
	}
	// 3b. a PARALLEL join over many left keys (more than 1024) whose ON fails for one key — near the start, in the
	// middle, at the end: the failure surfaces wherever the key sits
	for _, nkeys := range []int{300, 1500} {
		rows := make([]any, nkeys)
		for i := range rows {
			rows[i] = map[string]any{"id": float64(i + 1)}
		}
		d := c19Doc{doc: map[string]any{"t": rows, "u": []any{map[string]any{"aid": float64(0), "lo": float64(0)}}}}
		for _, st := range []string{"parallel", "auto"} {
			from := &From{K: "join", JT: "inner", Strat: st, L: &From{K: "table", Path: []string{"t"}, Alias: "a"}, R: &From{K: "table", Path: []string{"u"}, Alias: "b"},
				On: And(Cmp(">", Col("a", "id"), Col("b", "lo")), c19Call("wide", Num(2), c19Bool(true)))} // (a column argument of a call inside ON reads NULL in this engine: constant argument)
			q := &Stmt{From: from, Items: []Item{{E: Col("a", "id"), Alias: "i"}}}
			out = append(out, c19Case(d, q, "fault", "join-on-wide", 4, nil, true, true, fmt.Sprintf("left-keys:%d", nkeys)))
		}
	}
	// 4. RAISE / RAISE_WHEN per row
	for i := 0; i < nRaise; i++ {
		d := c19GenDoc(r, 5)
		out = append(out, c19RaiseCase(r, d, cap))
	}
	// 5. planted type errors
	for i := 0; i < nType; i++ {
		d := c19GenDoc(r, 5)
		out = append(out, c19TypeCase(r, d, cap))
	}
	// 6. further dedicated streams, registered from their own files (r4_c19.go)
	for _, f := range extraStreams["C19"] {
		out = append(out, f(r, tier)...)
	}
	return out
}

// c19RaiseCase: RAISE_WHEN(id = v, msg) as a select item (or RAISE inside a CASE branch) at a random
// depth; v is an id of the table (fires, unless the row is filtered out first) or a foreign value.
func c19RaiseCase(r *Rand, d c19Doc, cap int) Case {
	v := float64(99)
	present := false
	if len(d.ids) > 0 && r.Chance(70) {
		v = Pick(r, d.ids)
		present = true
	}
	var item Item
	form := "raise_when"
	if r.Chance(35) {
		form = "raise-in-case"
		item = Item{E: &Expr{K: "case", Whens: [][2]*Expr{{Cmp("=", Col("id"), Num(v)), &Expr{K: "call", Name: "RAISE", Items: []*Expr{Str("boom")}}}}, Else: Col("n1")}, Alias: "r"}
	} else {
		item = Item{E: &Expr{K: "call", Name: "RAISE_WHEN", Items: []*Expr{Cmp("=", Col("id"), Num(v)), Str("boom")}}, Alias: "r"}
	}
	q := &Stmt{From: c19From("t"), Items: []Item{{E: Col("id")}, item, {E: Col("s1")}}}
	fires := present
	filtered := false
	if r.Chance(35) {
		// the row is removed by WHERE before the select list is evaluated
		q.Where = Cmp("!=", Col("id"), Num(v))
		filtered = true
		fires = false
	}
	where := "top"
	switch r.Intn(6) {
	case 0:
		q = c19Wrap(r, d, q, "cte", "x")
		q.Where = nil
		where = "cte"
	case 1:
		q = c19Wrap(r, d, q, "derived", "x")
		where = "derived"
	case 2:
		q = c19Wrap(r, d, q, "union-right", "x")
		q.Limit = nil
		where = "union"
		if r.Bool() && len(d.ids) > 0 {
			// UNION ALL with a window the left side already fills: the right side is still evaluated, its failure surfaces
			q.All = true
			q.Limit = intp(1)
			where = "union-all-limit-filled-by-left"
		}
	case 3:
		sub := *q
		sub.From = &From{K: "table", Path: []string{"<-", "t"}}
		q = &Stmt{From: c19From("vals"), Items: []Item{{E: Col("v")}, {E: &Expr{K: "sub", Q: &sub}, Alias: "s"}}}
		where = "subquery"
	}
	tags := []string{"raise:" + form, "raise-at:" + where, fmt.Sprintf("raise-fires:%v", fires)}
	if filtered {
		tags = append(tags, "raise:row-filtered-out")
	}
	return c19Case(d, q, "raise", form, cap, c19Boolp(fires), false, present, tags...)
}

// c19TypeCase: a type error planted in one clause, on one row where that is possible.
func c19TypeCase(r *Rand, d c19Doc, cap int) Case {
	rows := d.t.rows
	q := &Stmt{From: c19From("t"), Items: []Item{{E: Col("id")}}}
	var fires bool
	kind := Pick(r, []string{"where-nonbool-col", "where-nonbool-num", "having-nonbool", "case-nonbool", "arith-row-select", "arith-row-where", "arith-row-filtered", "arith-group", "on-nonbool", "orderby-through-scalar", "bad-selector"})
	multiset := false
	plant := func() (float64, bool) {
		if len(rows) == 0 {
			return 0, false
		}
		m := Pick(r, rows).(map[string]any)
		m["n1"] = Pick(r, []any{"oops", true, []any{float64(1)}, map[string]any{"k": float64(1)}})
		return m["id"].(float64), true
	}
	switch kind {
	case "where-nonbool-col":
		q.Where = Col(Pick(r, []string{"n1", "s1", "b1", "missing"}))
		fires = len(rows) > 0
	case "where-nonbool-num":
		q.Where = Bin("+", Col("n1"), Num(1))
		fires = len(rows) > 0
	case "having-nonbool":
		q.Group = []string{"g1"}
		q.Items = []Item{{E: Col("g1")}}
		q.Having = Pick(r, []*Expr{{K: "agg", Name: "count", Star: true}, Col("g1"), Str("x")})
		fires = len(rows) > 0
	case "case-nonbool":
		q.Items = []Item{{E: Col("id")}, {E: &Expr{K: "case", Whens: [][2]*Expr{{Pick(r, []*Expr{Col("n1"), Col("b1"), Num(1), Str("t")}), Num(1)}}, Else: Num(0)}, Alias: "f"}}
		fires = len(rows) > 0
	case "arith-row-select":
		_, fires = plant()
		q.Items = []Item{{E: Col("id")}, {E: Bin(Pick(r, []string{"+", "*", "-", "/", "%"}), Col("n1"), Num(2)), Alias: "f"}}
		if r.Bool() {
			q.Items[1].E = Bin("+", Num(2), Col("n1"))
		}
	case "arith-row-where":
		_, fires = plant()
		q.Where = Cmp(">=", Bin("+", Col("n1"), Num(1000)), Num(0))
	case "arith-row-filtered":
		// the bad row is removed by WHERE (which does not touch the bad column): no failure
		id, ok := plant()
		q.Where = Cmp("!=", Col("id"), Num(id))
		q.Items = []Item{{E: Col("id")}, {E: Bin("+", Col("n1"), Num(2)), Alias: "f"}}
		fires = false
		_ = ok
	case "arith-group":
		q.Group = []string{"g1"}
		q.Items = []Item{{E: Col("g1")}, {E: Bin("+", Col("g1"), Num(1)), Alias: "f"}}
		fires = false
		for _, row := range rows {
			if _, isNum := row.(map[string]any)["g1"].(float64); !isNum && row.(map[string]any)["g1"] != nil {
				fires = true
			}
		}
	case "orderby-through-scalar":
		// the sort key path runs through a scalar on one row: the comparator fails, Sort must report it
		q.Items = []Item{{Star: true}}
		q.Order = []OrderKey{{Path: []string{"o", "p", "q"}, Asc: r.Bool()}}
		fires = false
		if len(rows) >= 2 {
			if _, ok := rows[0].(map[string]any)["o"].(map[string]any); ok {
				Pick(r, rows).(map[string]any)["o"] = float64(3)
				fires = true
			}
		}
	case "bad-selector":
		// a selector that does not parse (as a column, evaluated per row; or as the FROM path): the error must come
		// back every time the text is used
		bad := Pick(r, []string{"o[latest].q", "o::[latest]::q", "items[(1:2:3)]", "o[99999999999999999999]"})
		// (the engine model reads a quoted name as one key; the case is rendered as a call no model function answers,
		// so the model is out of it and only "fails, leaves nothing behind, fails again" is judged)
		if r.Bool() {
			q.Items = []Item{{E: Col("id")}, {E: &Expr{K: "badsel", Str: bad}, Alias: "f"}}
		} else {
			q.Where = Cmp(">", &Expr{K: "badsel", Str: bad}, Num(0))
		}
		fires = len(rows) > 0
	case "on-nonbool":
		q.From = c19JoinFrom(r, nil)
		q.From.On = And(q.From.On, Col("a", "id"))
		q.Items = []Item{{Star: true}}
		multiset = true
		// the ON clause is evaluated for every pair of distinct keys: at least one row on each side
		fires = len(rows) > 0 && len(d.doc["u"].([]any)) > 0
	}
	return c19Case(d, q, "typeerr", kind, cap, c19Boolp(fires), multiset, fires, fmt.Sprintf("typeerr-fires:%v", fires))
}

// ---------- observation ----------

func c19KList(n, cap int) []int {
	var ks []int
	if n <= cap {
		for k := 1; k <= n; k++ {
			ks = append(ks, k)
		}
		return ks
	}
	seen := map[int]bool{}
	for i := 0; i < cap; i++ {
		k := 1 + i*(n-1)/(cap-1)
		if !seen[k] {
			seen[k] = true
			ks = append(ks, k)
		}
	}
	return ks
}

func c19Trigger(inv c19Inv, panics bool) string {
	k := "FkError"
	if panics {
		k = "FkPanic"
	}
	return "(Build_trigger " + coqValue(inv.Tag) + " " + coqValue(inv.X) + " " + k + ")"
}

func c19Outcome(o engineOut) string {
	if o.Class == "partial" {
		return "Panic" // distinguished: an error that came with rows
	}
	return coqEngineObs(o)
}

// Observe: cases whose failure can happen inside a goroutine of the engine (the PARALLEL join drivers
// evaluate ON in goroutines: an unrecovered panic there kills the process) are observed in a child
// process with a timeout; a child that dies is reported as a violation, not as a harness error.
func (propC19) Observe(raw json.RawMessage) (Observed, error) {
	var in c19In
	if err := json.Unmarshal(raw, &in); err != nil {
		return Observed{}, err
	}
	if in.Multiset && os.Getenv("C19_CHILD") == "" {
		return c19ObserveInChild(raw, in), nil
	}
	return c19Observe(in)
}

func c19ObserveInChild(raw json.RawMessage, in c19In) Observed {
	ctx, cancel := context.WithTimeout(context.Background(), 60*time.Second)
	defer cancel()
	cmd := exec.CommandContext(ctx, os.Args[0], "aux", "c19-observe")
	cmd.Env = append(os.Environ(), "C19_CHILD=1")
	cmd.Stdin = bytes.NewReader(raw)
	var stdout, stderr bytes.Buffer
	cmd.Stdout, cmd.Stderr = &stdout, &stderr
	err := cmd.Run()
	var obs Observed
	if err == nil && json.Unmarshal(stdout.Bytes(), &obs) == nil && obs.CoqIn != "" {
		return obs
	}
	// the engine killed (or hung) the process
	tail := stderr.String()
	if len(tail) > 600 {
		tail = tail[:600]
	}
	expect := "None"
	if in.Expect != nil {
		expect = "(Some " + coqBool(*in.Expect) + ")"
	}
	return Observed{
		CoqIn:  "(false, " + coqValue(anyMap(in.Doc)) + ", " + in.Q.Coq() + ", [], " + expect + ", " + coqBool(in.Multiset) + ")",
		CoqObs: "(Panic, false, [(Panic, false)])",
		Note:   map[string]any{"sql": in.Q.SQL(), "child": fmt.Sprint(err), "stderr": tail},
		Tags:   []string{"child-process-died"},
	}
}

func c19Observe(in c19In) (Observed, error) {
	c19Handlers = in.Handlers
	defer func() { c19Handlers = false }()
	sql := in.Q.SQL()
	pristine := deepCopy(in.Doc).(map[string]any)
	var tags []string
	type runNote struct {
		K       int    `json:"k"`
		Variant string `json:"variant"`
		Tag     any    `json:"tag"`
		X       any    `json:"x"`
		Class   string `json:"class"`
		Err     string `json:"err,omitempty"`
		Usable  bool   `json:"usable"`
		Why     string `json:"why,omitempty"`
	}
	// 1. fault-free, recording
	doc := deepCopy(in.Doc).(map[string]any)
	c19Arm(true, 0, 0)
	free := c19Exec(doc, sql)
	if c19RetryBad(free, nil, in.Multiset) {
		free = engineOut{Class: "partial", Err: "Exec failed without any injected fault, the retry on the same Query succeeded", Rows: free.Retry.Rows}
		tags = append(tags, "retry-patched")
	}
	invs := c19Log()
	freeUsable, why := c19Usable(doc, pristine)
	tags = append(tags, "free:"+free.Class)
	n := len(invs)
	switch {
	case n == 0:
		tags = append(tags, "invocations:0")
	case n <= 3:
		tags = append(tags, "invocations:1-3")
	case n <= 12:
		tags = append(tags, "invocations:4-12")
	default:
		tags = append(tags, "invocations:13+")
	}
	notes := []runNote{}
	var runs []string
	var trigs []string
	seenTrig := map[string]bool{}
	dup := false
	if in.Kind == "fault" && free.Class == "ok" {
		variants := []struct {
			name   string
			panics int
		}{{"error", 0}, {"panic", 1}, {"panic-error-value", 2}, {"panic-runtime", 3}}
		for _, k := range c19KList(n, in.Cap) {
			for vi, v := range variants {
				if vi >= 2 && k%3 != vi-2 {
					continue // the two extra panic flavours on a third of the indices each
				}
				doc := deepCopy(in.Doc).(map[string]any)
				c19Arm(false, k, v.panics)
				o := c19Exec(doc, sql)
				if c19RetryBad(o, &free, in.Multiset) {
					o = engineOut{Class: "partial", Err: "the retry of the failed Exec on the same Query returned a result that differs from the fault-free one", Rows: o.Retry.Rows}
					tags = append(tags, "retry-patched")
				}
				usable, why := c19Usable(doc, pristine)
				runs = append(runs, "("+c19Outcome(o)+", "+coqBool(usable)+")")
				notes = append(notes, runNote{K: k, Variant: v.name, Tag: jsonSafe(invs[k-1].Tag), X: jsonSafe(invs[k-1].X), Class: o.Class, Err: o.Err, Usable: usable, Why: why})
				kt := fmt.Sprintf("k:%d", k)
				if k > 12 {
					kt = "k:13+"
				}
				tags = append(tags, "variant:"+v.name, kt, "pos:"+in.Pos+"/"+kt, "run:"+o.Class)
				if !usable {
					tags = append(tags, "not-usable-afterwards")
				}
				if vi < 2 {
					tr := c19Trigger(invs[k-1], v.panics != 0)
					if seenTrig[tr] {
						dup = true
					} else {
						seenTrig[tr] = true
						trigs = append(trigs, tr)
					}
				}
			}
		}
		if dup {
			tags = append(tags, "repeated-pairs")
		}
	}
	c19Arm(false, 0, 0)
	expect := "None"
	if in.Expect != nil {
		expect = "(Some " + coqBool(*in.Expect) + ")"
	}
	// the model has no goroutines: a select item that is an ASYNC / SPIN / SPINASYNC call of an identity function is
	// handed to the model as what it denotes for the row (see c19ModelView in r4_c19.go); every other query unchanged
	mq, rewritten := c19ModelView(in.Q)
	if rewritten {
		tags = append(tags, "model-view:qualified-item-rewritten")
	}
	coqIn := "(false, " + coqValue(anyMap(in.Doc)) + ", " + mq.Coq() + ", " + coqList(trigs) + ", " + expect + ", " + coqBool(in.Multiset) + ")"
	coqObs := "(" + c19Outcome(free) + ", " + coqBool(freeUsable) + ", " + coqList(runs) + ")"
	note := map[string]any{"sql": sql, "free": map[string]any{"class": free.Class, "err": free.Err, "rows": jsonSafe(anySlice(free.Rows)), "usable": freeUsable, "why": why},
		"invocations": n, "runs": notes}
	trivial := false
	switch in.Kind {
	case "fault":
		trivial = free.Class != "ok" || n == 0
	default:
		trivial = in.Expect != nil && !*in.Expect && free.Class != "ok"
	}
	return Observed{CoqIn: coqIn, CoqObs: coqObs, Note: note, Tags: tags, Trivial: trivial}, nil
}

func init() {
	genql.RegisterFunction("fault", c19Fault)
	register(propC19{})
	auxRegistry["c19-observe"] = func(string, uint64, string) {
		raw, err := io.ReadAll(os.Stdin)
		must(err)
		var in c19In
		must(json.Unmarshal(raw, &in))
		obs, err := c19Observe(in)
		must(err)
		out, err := json.Marshal(obs)
		must(err)
		os.Stdout.Write(out)
	}
}
