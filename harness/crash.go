package main

// crash.go — C10: crash-isolated execution. `vharness aux crash` generates query/option/document
// triples, hands them in batches to child processes (`vharness aux crashchild`) with a wall-clock
// timeout, and classifies every case as result | error | panic-escaped | process-died | timeout.

import (
	"bufio"
	"context"
	"encoding/json"
	"errors"
	"fmt"
	"os"
	"os/exec"
	"path/filepath"
	"strings"
	"sync/atomic"
	"time"

	"github.com/vedadiyan/genql"
)

func init() {
	auxRegistry["crash"] = runCrash
	auxRegistry["crashchild"] = runCrashChild
	auxRegistry["crashdump"] = runCrashDump
}

// runCrashDump writes the generated cases of a tier/seed to <out>/cases.json (to replay a reported case by id).
func runCrashDump(tier string, seed uint64, out string) {
	writeJSON(filepath.Join(out, "cases.json"), genCrashCases(NewRand(seed), tier))
}

type crashCase struct {
	ID      int            `json:"id"`
	SQL     string         `json:"sql"`
	Doc     map[string]any `json:"doc"`
	Wrapped bool           `json:"wrapped,omitempty"`
	PG      bool           `json:"pg,omitempty"`
	Idiom   bool           `json:"idiom,omitempty"`
	Tags    []string       `json:"tags,omitempty"`
	Fail    int            `json:"fail,omitempty"` // user functions fail (1) or panic (2) when their argument equals Trigger
	Trigger float64        `json:"trigger,omitempty"`
}

var crashMode int32
var crashTrigger atomic.Value

func registerCrashFunctions() {
	f := func(_ *genql.Query, _ genql.Map, _ *genql.FunctionOptions, args []any) (any, error) {
		if len(args) == 0 {
			return nil, nil
		}
		if x, ok := args[0].(float64); ok {
			if t, ok := crashTrigger.Load().(float64); ok && x == t {
				switch atomic.LoadInt32(&crashMode) {
				case 1:
					return nil, errors.New("injected failure")
				case 2:
					panic("injected panic (not an error value)")
				case 3:
					panic(errors.New("injected panic (error value)"))
				}
			}
		}
		return args[0], nil
	}
	genql.RegisterFunction("crashf", f)
	// crashfall: fails / panics on EVERY call (mode as for crashf)
	genql.RegisterFunction("crashfall", func(_ *genql.Query, _ genql.Map, _ *genql.FunctionOptions, args []any) (any, error) {
		switch atomic.LoadInt32(&crashMode) {
		case 1:
			return nil, errors.New("injected failure")
		case 2:
			panic("injected panic (not an error value)")
		case 3:
			panic(errors.New("injected panic (error value)"))
		}
		return float64(1), nil
	})
	// crashslow: a function that keeps READING its arguments for a while (as a function that serialises and ships
	// them does): under SPIN. / SPINASYNC. / ASYNC. it runs beside the query that built those arguments
	genql.RegisterFunction("crashslow", func(_ *genql.Query, _ genql.Map, _ *genql.FunctionOptions, args []any) (any, error) {
		n := len(fmt.Sprint(args...))
		if os.Getenv("VERIF_CRASH_MARK") == "" { // the race pass needs one read only: it orders accesses, not times
			for t0 := time.Now(); time.Since(t0) < 15*time.Millisecond; {
				n += len(fmt.Sprint(args...))
			}
		}
		return float64(n), nil
	})
}

func runOneCrashCase(c crashCase) (class string, detail string) {
	defer func() {
		if r := recover(); r != nil {
			class, detail = "panic-escaped", fmt.Sprint(r)
		}
	}()
	atomic.StoreInt32(&crashMode, int32(c.Fail))
	crashTrigger.Store(c.Trigger)
	var opts []genql.QueryOption
	if c.Wrapped {
		opts = append(opts, genql.Wrapped())
	}
	if c.PG {
		opts = append(opts, genql.PostgresEscapingDialect())
	}
	if c.Idiom {
		opts = append(opts, genql.IdomaticArrays())
	}
	if strings.Contains(c.SQL, "big4k") {
		// a long table built here (not carried by every case): 4100 rows, one of which has a scalar where the others
		// have an object, so that a sort key / path read fails on exactly one row
		rows := make([]any, 4100)
		for i := range rows {
			rows[i] = map[string]any{"id": float64(i), "k": map[string]any{"v": float64((i * 7919) % 4099)}, "s": strings.Repeat("a", i%7)}
		}
		rows[2050].(map[string]any)["k"] = float64(3)
		doc := make(map[string]any, len(c.Doc)+1)
		for k, v := range c.Doc {
			doc[k] = v
		}
		doc["big4k"] = rows
		c.Doc = doc
	}
	q, err := genql.New(c.Doc, c.SQL, opts...)
	if err != nil {
		return "error", ""
	}
	_, err = q.Exec()
	if err != nil {
		return "error", ""
	}
	return "result", ""
}

func runCrashChild(tier string, seed uint64, out string) {
	// `out` is the batch file; one line per case on stdout: "START id" before, "END id class" after.
	registerCrashFunctions()
	raw, err := os.ReadFile(flagIn)
	must(err)
	var cases []crashCase
	must(json.Unmarshal(raw, &cases))
	w := bufio.NewWriter(os.Stdout)
	mark := os.Getenv("VERIF_CRASH_MARK") != ""
	for _, c := range cases {
		fmt.Fprintf(w, "START %d\n", c.ID)
		w.Flush()
		if mark { // the race pass attributes each report on stderr to the case that was running
			fmt.Fprintf(os.Stderr, "\n@@CASE %d\n", c.ID)
		}
		class, detail := runOneCrashCase(c)
		// give stray goroutines (SPIN) a moment to die loudly while this case is still the culprit
		if strings.Contains(strings.ToLower(c.SQL), "spin") || strings.Contains(strings.ToLower(c.SQL), "async") {
			time.Sleep(3 * time.Millisecond)
		}
		fmt.Fprintf(w, "END %d %s %s\n", c.ID, class, strings.ReplaceAll(detail, "\n", " "))
		w.Flush()
	}
}

// ---------- generation ----------

func mutateSQL(r *Rand, s string) string {
	toks := strings.Fields(s)
	if len(toks) == 0 {
		return s
	}
	switch r.Intn(9) {
	case 0: // delete a token
		i := r.Intn(len(toks))
		toks = append(toks[:i], toks[i+1:]...)
	case 1: // duplicate a token
		i := r.Intn(len(toks))
		toks = append(toks[:i+1], toks[i:]...)
	case 2: // swap two tokens
		i, j := r.Intn(len(toks)), r.Intn(len(toks))
		toks[i], toks[j] = toks[j], toks[i]
	case 3: // unbalance brackets / quotes
		i := r.Intn(len(toks))
		toks[i] = Pick(r, []string{"(", ")", "[", "]", "'", "\"", "`", "[1, 2", "1]", "((", "))"}) + toks[i]
	case 4: // keyword substitution
		i := r.Intn(len(toks))
		toks[i] = Pick(r, []string{"NATURAL", "JOIN", "UNION", "WITH", "RECURSIVE", "NULL", "*", "DISTINCT", "EXISTS", "CASE", "END", "LIMIT", "-1", "AS", "IN", "INTO", "USING", "OVER", "ASYNC.crashf(1)"})
	case 5: // cut the tail
		toks = toks[:r.Intn(len(toks))+1]
	case 6: // raw byte injection
		i := r.Intn(len(toks))
		toks[i] += string([]byte{byte(r.Intn(256)), byte(r.Intn(256))})
	case 7: // out-of-range index in a path
		for i, t := range toks {
			if strings.EqualFold(t, "FROM") && i+1 < len(toks) {
				toks[i+1] = "`" + strings.Trim(toks[i+1], "`") + Pick(r, []string{"[5]", "[(0:9)]", "[(2:1)]", "[each:0]", "[0:0:0:0]", "[keep=>7]", "[-1]", "{x|number}", "::[3]",
					"[first]", "[(0:1:2)]", "[(a:b)]", "[(1)]", "::[last]", "[99999999999999999999]"}) + "`"
				break
			}
		}
	default: // duplicate a whole clause
		i := r.Intn(len(toks))
		toks = append(toks, toks[i:]...)
	}
	return strings.Join(toks, " ")
}

var crashCorpus = []string{
	"SELECT * FROM t NATURAL JOIN u",
	"SELECT * FROM t x NATURAL JOIN u y",
	"SELECT a FROM t UNION SELECT a FROM u UNION SELECT a FROM t",
	"SELECT a FROM t UNION ALL SELECT a FROM u UNION SELECT a FROM t UNION ALL SELECT a FROM u",
	"WITH a AS (SELECT * FROM a) SELECT * FROM a",
	"WITH a AS (SELECT * FROM b), b AS (SELECT * FROM a) SELECT * FROM a",
	"WITH a AS (SELECT * FROM b), b AS (SELECT * FROM c), c AS (SELECT * FROM a) SELECT * FROM c",
	"SELECT [1, 2 AS v FROM dual",
	"SELECT 1] AS v FROM dual",
	"SELECT [[1, 2], [3] AS v FROM dual",
	"SELECT * FROM `t[5]`",
	"SELECT * FROM `t[(0:9)]`",
	"SELECT * FROM `t[each:0]`",
	"SELECT * FROM `t[first]`",
	"SELECT * FROM `t[(0:1:2)]`",
	"SELECT id FROM t WHERE id IN (SELECT id FROM `<-.t[(a:b)]`)",
	"SELECT DISTINCT * FROM t WHERE n1 > 0",
	"SELECT DISTINCT * FROM t WHERE EXISTS (SELECT * FROM items WHERE p > 0)",
	"SELECT ASYNC.crashf(id DIV 0) AS v FROM t",
	"SELECT ASYNC.crashf(1 << (0 - id)) AS v FROM t",
	"SELECT SPINASYNC.crashf(id DIV (id - 1)) FROM t",
	"SELECT SPIN.crashf(SUBSTR(s1, 5, 100)) FROM t",
	"SELECT ONCE.crashf(id DIV 0) AS v FROM t",
	"SELECT DISTINCT (SELECT p FROM items) AS s, * FROM t",
	"SELECT DISTINCT (SELECT * FROM dual) AS s, * FROM t",
	// PARALLEL joins over many keys whose ON fails / panics on every key, and PARALLEL joins nested in the ON of a
	// PARALLEL join over many keys: bounded worker pools and process-wide limits must not block for ever
	"SELECT * FROM big40 AS a PARALLEL JOIN big40 AS b ON a.k >= b.k AND crashfall(a.k)",
	"SELECT * FROM big AS a PARALLEL JOIN big AS b ON a.k = b.k AND crashfall(a.k)",
	"SELECT * FROM big40 AS a PARALLEL LEFT JOIN big40 AS b ON a.k != b.k AND crashfall(b.k)",
	"SELECT x.id AS id FROM big x PARALLEL JOIN big y ON x.id = y.id AND EXISTS (SELECT p.id FROM `<-`.big40 p PARALLEL JOIN `<-`.big40 q ON p.id = q.id)",
	"SELECT x.id AS id FROM big x PARALLEL JOIN big y ON x.id >= y.id AND EXISTS (SELECT p.id FROM `<-`.big40 p PARALLEL JOIN `<-`.big40 q ON p.id = q.id)",
	// long inputs: a sort whose key cannot be read on one row of 4100; wildcard patterns that a backtracking matcher
	// would take for ever on; AWAIT over a subquery / EXISTS / ASYNC call (post-processors registering post-processors)
	"SELECT * FROM big4k ORDER BY `k.v`",
	"SELECT id, k FROM big4k ORDER BY `k.v` DESC, id LIMIT 5",
	"SELECT * FROM big4k WHERE id != 2050 ORDER BY `k.v` LIMIT 3",
	"SELECT COUNT(*) AS c FROM big4k WHERE s LIKE '%a%a%a%a%a%a%b'",
	"SELECT id FROM t WHERE 'aaaaaaaaaaaaaaaaaaaaaaaaaaaaaaaaaaaaaaaaaaaaaaaaaaaaaaaaaaaaaaaaaaaaaaaaaaaaaaaaaaaaaaaaaaaaaaaa' LIKE '%a%a%a%a%a%a%a%a%a%a%a%a%a%a%a%a%a%a%a%a%a%a%a%a%b'",
	"SELECT id FROM t WHERE 'aaaaaaaaaaaaaaaaaaaaaaaaaaaaaaaaaaaaaaaaaaaaaaaaaaaaaaaaaaaaaaaaaaaaaaaaaaaaaaaaaaaaaaaaaaaaaaaa' NOT LIKE '%a_a%a_a%a_a%a_a%a_a%a_a%a_a%a_a%a_a%a_a%a_a%a_a%b'",
	"SELECT AWAIT((SELECT id FROM `<-.u` LIMIT 1)) AS e FROM t",
	"SELECT AWAIT(EXISTS (SELECT * FROM items WHERE p > 0)) AS e FROM t",
	"SELECT AWAIT(ASYNC.crashf(id)) AS e FROM t",
	"WITH c AS (SELECT AWAIT((SELECT id FROM `<-.u` LIMIT 1)) AS e FROM t) SELECT * FROM c",
	"SELECT AWAIT((SELECT id FROM `<-.u` LIMIT 1)) AS e FROM t UNION ALL SELECT AWAIT(id) AS e FROM u",
	// a CTE that reads itself through the backward reference from a row-scoped subquery / EXISTS / IN of its own body
	"WITH a AS (SELECT id, (SELECT id FROM `<-`.a LIMIT 1) AS x FROM t) SELECT * FROM a",
	"WITH a AS (SELECT id FROM t WHERE EXISTS (SELECT id FROM `<-`.a)) SELECT * FROM a",
	"WITH a AS (SELECT id FROM t WHERE id IN (SELECT id FROM `<-`.a)) SELECT * FROM a",
	"WITH a AS (SELECT id, (SELECT id FROM `<-a` LIMIT 1) AS x FROM t) SELECT * FROM a",
	"WITH a AS (SELECT id FROM b), b AS (SELECT id, (SELECT id FROM `<-`.a LIMIT 1) AS x FROM t) SELECT * FROM a",
	// the backward reference selected as a VALUE: the row then points at the enclosing scope, which must not come to
	// contain the result (memoised CTE rows) — formatting such a row (DISTINCT, UNION, GROUP BY) would never end
	"WITH c AS (SELECT (SELECT `<-` AS p FROM dual) AS x FROM t) SELECT DISTINCT * FROM c",
	"WITH c AS (SELECT (SELECT `<-` AS p FROM dual) AS x FROM t) SELECT * FROM c UNION SELECT * FROM c",
	"WITH c AS (SELECT id, (SELECT `<-` AS p FROM dual) AS x FROM t) SELECT x, COUNT(*) AS k FROM c GROUP BY x",
	"WITH c AS (SELECT (SELECT `<-` AS p FROM dual) AS x FROM t), d AS (SELECT DISTINCT * FROM c) SELECT DISTINCT * FROM d",
	"WITH c AS (SELECT (SELECT `<-.<-` AS p FROM items LIMIT 1) AS x FROM t) SELECT DISTINCT * FROM c ORDER BY x",
	"SELECT DISTINCT * FROM (SELECT (SELECT `<-` AS p FROM dual) AS x FROM t) AS d",
	"SELECT DISTINCT (SELECT `<-` AS p FROM dual) AS x, * FROM t",
	"WITH c AS (SELECT id FROM t) SELECT DISTINCT (SELECT `<-` AS p FROM dual) AS x FROM c",
	// D79: memoised calls (ONCE. / GLOBAL. / whole-table aggregates) in the ON clause of a PARALLEL join: every goroutine of
	// the join reads and writes the query's memo (decided on every run by the race pass, on some runs by the plain pass)
	"SELECT x.id FROM t x PARALLEL LEFT JOIN u y ON x.n1 < y.n1 AND ONCE.IF(x.id > 1, ONCE.crashf((SELECT p FROM items LIMIT 1)), (SELECT p FROM items LIMIT 1)) IS NOT NULL",
	"SELECT a.id FROM big AS a PARALLEL JOIN big AS b ON a.k = b.k AND ONCE.crashf(a.k) IS NOT NULL",
	"SELECT a.id FROM big40 AS a PARALLEL JOIN big40 AS b ON a.k >= b.k AND GLOBAL.crashf((SELECT id FROM `<-.u`)) IS NOT NULL",
	"SELECT a.id FROM big40 AS a PARALLEL LEFT JOIN big40 AS b ON a.k = b.k AND COUNT(*) > 0",
	"SELECT * FROM t ORDER BY (SELECT 1 FROM dual)",
	"SELECT * FROM t x PARALLEL JOIN u y ON x.n1 = y.n1 AND x.b1",
	"SELECT * FROM t x PARALLEL LEFT JOIN u y ON NOT x.n1",
	"SELECT * FROM t x PARALLEL HASH_JOIN u y ON x.n1 = y.n1",
	"SELECT ASYNC.crashf(id) AS v FROM t",
	"SELECT SPIN.crashf(id) FROM t",
	"SELECT SPINASYNC.crashf(id) FROM t",
	"SELECT ONCE.crashf(id) AS v FROM t",
	"SELECT crashf(id) AS v FROM t",
	"SELECT id FROM t WHERE crashf(id) > 0",
	"SELECT (SELECT ASYNC.crashf(p) AS v FROM items) AS s FROM t",
	"SELECT * FROM (SELECT ASYNC.crashf(id) AS v FROM t) AS d",
	"SELECT SUBSTR(s1, 5, 100) AS v FROM t",
	"SELECT ELEMENTAT(ARRAY(1,2), -1) AS v FROM dual",
	"SELECT IF(NULL, 1, 2) AS v FROM dual",
	"SELECT 1 DIV 0 AS v FROM dual",
	"SELECT 1 << -1 AS v FROM dual",
	"SELECT a FROM t GROUP BY a + 1",
	"SELECT * FROM t LIMIT 3 OFFSET 2",
	"SELECT * FROM t WHERE id > 1 LIMIT 2 OFFSET 2",
	"SELECT COUNT(*) FROM t x JOIN u y ON x.n1 = y.n1",
	"SELECT AWAIT(1) FROM t",
	"SELECT FUSE(o) FROM t",
	"SELECT GLOBAL.crashf((SELECT id FROM t)) AS v FROM t",
	"INSERT INTO t VALUES (1)",
	"DELETE FROM t",
	"SELECT",
	"",
	"\x00\xff\xfe",
}

func genCrashCases(r *Rand, tier string) []crashCase {
	n := 1
	if tier == "thorough" {
		n = 10
	}
	var out []crashCase
	id := 0
	mkDoc := func() map[string]any {
		t := genTable(r, 4)
		for _, row := range t.rows {
			m := row.(map[string]any)
			k := r.Intn(3)
			items := make([]any, k)
			for j := range items {
				items[j] = map[string]any{"p": float64(r.Intn(4))}
			}
			m["items"] = items
		}
		u := genTable(r, 3)
		if r.Chance(12) {
			for _, row := range t.rows {
				row.(map[string]any)["<-"] = "src"
				row.(map[string]any)["->"] = "dst"
			}
		}
		big := make([]any, 70)
		for i := range big {
			big[i] = map[string]any{"k": float64(i), "id": float64(i)}
		}
		return map[string]any{"t": t.rows, "u": u.rows, "n": []any{t.rows, u.rows}, "vals": []any{map[string]any{"v": float64(1)}}, "big": big, "big40": big[:40]}
	}
	add := func(sql string, doc map[string]any, tags ...string) {
		// all 2^3 option combinations for a share of the cases, a random one otherwise
		combos := []int{r.Intn(8)}
		if r.Chance(15) {
			combos = []int{0, 1, 2, 3, 4, 5, 6, 7}
		}
		for _, o := range combos {
			modes := []int{1 + r.Intn(3)}
			if strings.Contains(sql, "crashfall") {
				modes = []int{1, 2, 3} // error, panic with a non-error value, panic with an error value
			}
			for _, mode := range modes {
				c := crashCase{ID: id, SQL: sql, Doc: doc, Wrapped: o&1 != 0, PG: o&2 != 0, Idiom: o&4 != 0, Tags: append([]string{}, tags...)}
				if strings.Contains(sql, "crashf") {
					c.Fail = mode
					c.Trigger = float64(1 + r.Intn(4))
					c.Tags = append(c.Tags, fmt.Sprintf("failmode:%d", c.Fail))
				}
				out = append(out, c)
				id++
			}
		}
	}
	for round := 0; round < n; round++ {
		for _, s := range crashCorpus {
			for o := 0; o < 8; o++ {
				c := crashCase{ID: id, SQL: s, Doc: mkDoc(), Wrapped: o&1 != 0, PG: o&2 != 0, Idiom: o&4 != 0, Tags: []string{"corpus"}}
				if strings.Contains(s, "crashf") {
					c.Fail = 1 + (o+round)%3
					c.Trigger = float64(1 + r.Intn(3))
				}
				out = append(out, c)
				id++
			}
		}
		var grammar []string
		for _, g := range [][]Case{genC01(r, "quick")[:120], genC02(r, "quick")[:120], genC03(r, "quick")[:80], genC05(r, "quick")[600:680],
			genC06(r, "quick")[:80], genC07(r, "quick")[:120], genC08(r, "quick")[:60], genC04(r, "quick")[:84]} {
			for _, c := range g {
				switch v := c.Input.(type) {
				case engIn:
					grammar = append(grammar, v.SQL)
				case c07In:
					grammar = append(grammar, v.SQL)
				}
			}
		}
		for _, s := range grammar {
			add(s, mkDoc(), "grammar")
		}
		for i := 0; i < 700; i++ {
			s := Pick(r, grammar)
			for k := 1 + r.Intn(3); k > 0; k-- {
				s = mutateSQL(r, s)
			}
			add(s, mkDoc(), "mutated")
		}
		for i := 0; i < 150; i++ {
			b := make([]byte, r.Intn(40))
			for j := range b {
				if r.Chance(70) {
					b[j] = "SELECT FROM WHERE *,()'\"`[]=<>-+ tau01._"[r.Intn(40)]
				} else {
					b[j] = byte(r.Intn(256))
				}
			}
			add(string(b), mkDoc(), "raw")
		}
		for i := 0; i < 150; i++ {
			qual := Pick(r, []string{"", "ASYNC.", "SPIN.", "SPINASYNC.", "ONCE."})
			var s string
			switch r.Intn(5) {
			case 4:
				s = "SELECT id, " + qual + "crashf(" + Pick(r, []string{"id DIV 0", "id DIV (id - 2)", "1 << (0 - id)", "SUBSTR(s1, 3, 50)"}) + ") AS v FROM t"
			case 0:
				s = "SELECT id, " + qual + "crashf(id) AS v FROM t"
			case 1:
				s = "SELECT id, (SELECT " + qual + "crashf(p) AS v FROM items) AS s FROM t"
			case 2:
				s = "SELECT * FROM (SELECT " + qual + "crashf(id) AS v, id FROM t) AS d WHERE d.id > 0"
			default:
				s = "SELECT x.id FROM t x " + Pick(r, []string{"PARALLEL JOIN", "PARALLEL LEFT JOIN", "PARALLEL HASH_JOIN", "JOIN"}) + " u y ON x.n1 " + Pick(r, cmpOps) + " y.n1 WHERE " + qual + "crashf(x.id) IS NOT NULL"
			}
			add(s, mkDoc(), "userfunc", "qual:"+qual)
		}
		// qualified calls whose ARGUMENT LIST is drawn from the whole expression grammar: row-scoped and root subqueries,
		// EXISTS, IN (subquery), AWAIT, and other qualified calls (ONCE inside ONCE, ASYNC inside ONCE, ...), two levels deep —
		// every strategy evaluates its arguments somewhere (inline, under a memo, in a goroutine), and whatever an argument
		// registers on the query (post-processors, waits, memo entries) must not block the strategy that is evaluating it.
		// Positions: select item, WHERE, ON of a (PARALLEL) join, derived table, CTE, UNION operand.
		nArgs := 130
		for i := 0; i < nArgs; i++ {
			call := genNestedCall(r, 2)
			var s string
			switch r.Intn(8) {
			case 0, 1, 2:
				s = "SELECT id, " + call + " AS v FROM t"
			case 3:
				s = "SELECT id FROM t WHERE " + call + " IS NOT NULL"
			case 4:
				s = "SELECT x.id FROM t x " + Pick(r, []string{"PARALLEL JOIN", "JOIN", "PARALLEL LEFT JOIN", "LEFT JOIN"}) + " u y ON x.n1 " + Pick(r, cmpOps) + " y.n1 AND " + strings.ReplaceAll(call, "(id", "(x.id") + " IS NOT NULL"
			case 5:
				s = "SELECT * FROM (SELECT id, " + call + " AS v FROM t) AS d WHERE d.id > 0"
			case 6:
				s = "WITH c AS (SELECT id, " + call + " AS v FROM t) SELECT * FROM c"
			default:
				s = "SELECT id FROM u UNION ALL SELECT " + call + " AS id FROM t"
			}
			add(s, mkDoc(), "call-arguments")
		}
	}
	return out
}

// genNestedCall: a (qualified) function call whose arguments may hold subqueries, EXISTS, AWAIT and further qualified calls.
func genNestedCall(r *Rand, depth int) string {
	qual := Pick(r, []string{"", "ASYNC.", "SPIN.", "SPINASYNC.", "ONCE.", "ONCE.", "ONCE.", "GLOBAL.", "SCOPED."})
	arg := func() string {
		k := r.Intn(12)
		if depth <= 0 && k >= 8 {
			k = r.Intn(8)
		}
		switch k {
		case 0:
			return Pick(r, []string{"id", "n1", "s1", "'lit'", "3", "NULL"})
		case 1:
			return "id"
		case 2: // row subquery over a root table through the back-reference
			return "(SELECT " + Pick(r, []string{"id", "n1"}) + " FROM `<-.u` ORDER BY id LIMIT 1)"
		case 3: // row subquery over an array of the row
			return "(SELECT p FROM items LIMIT 1)"
		case 4:
			return "EXISTS (SELECT * FROM items WHERE p > " + Pick(r, []string{"0", "1", "id"}) + ")"
		case 5:
			return "id IN (SELECT id FROM `<-.u`)"
		case 6:
			return "AWAIT(ASYNC.crashf(id))"
		case 7:
			return "(SELECT ASYNC.crashf(p) AS v FROM items LIMIT 1)"
		case 8, 9:
			return genNestedCall(r, depth-1)
		case 10:
			return "IF(EXISTS (SELECT * FROM `<-.u` WHERE id > 1), " + genNestedCall(r, depth-1) + ", 'small')"
		default:
			return "CONCAT(" + genNestedCall(r, depth-1) + ", '!')"
		}
	}
	switch r.Intn(4) {
	case 0:
		return qual + "CONCAT(" + arg() + ", '-', " + arg() + ")"
	case 1:
		return qual + "IF(" + Pick(r, []string{"id > 1", "EXISTS (SELECT * FROM items WHERE p > 0)", "id IN (SELECT id FROM `<-.u`)"}) + ", " + arg() + ", " + arg() + ")"
	default:
		return qual + "crashf(" + arg() + ")"
	}
}

type crashFailure struct {
	Case   crashCase `json:"case"`
	Kind   string    `json:"kind"`
	Detail string    `json:"detail"`
}

func runCrash(tier string, seed uint64, out string) {
	r := NewRand(seed)
	cases := genCrashCases(r, tier)
	self, err := os.Executable()
	must(err)
	hist := map[string]int{}
	tagHist := map[string]int{}
	var failures []crashFailure
	retried := map[int]bool{}
	const batch = 250
	for lo := 0; lo < len(cases) && len(failures) < 3; lo += batch {
		hi := lo + batch
		if hi > len(cases) {
			hi = len(cases)
		}
		pending := cases[lo:hi]
		for len(pending) > 0 {
			bf := filepath.Join(out, "batch.json")
			writeJSON(bf, pending)
			// generous under load; a case blamed for a timeout is re-run alone before it is reported
			limit := 60 * time.Second
			if len(pending) == 1 {
				limit = 30 * time.Second
			}
			ctx, cancel := context.WithTimeout(context.Background(), limit)
			cmd := exec.CommandContext(ctx, self, "aux", "crashchild", "-in", bf)
			cmd.Env = append(os.Environ(), "GOTRACEBACK=single")
			var stderr strings.Builder
			cmd.Stderr = &stderr
			stdout, _ := cmd.Output()
			timedOut := ctx.Err() != nil
			cancel()
			done := map[int]bool{}
			started := -1
			for _, line := range strings.Split(string(stdout), "\n") {
				f := strings.SplitN(line, " ", 4)
				if len(f) >= 2 && f[0] == "START" {
					fmt.Sscan(f[1], &started)
				}
				if len(f) >= 3 && f[0] == "END" {
					var cid int
					fmt.Sscan(f[1], &cid)
					done[cid] = true
					hist[f[2]]++
					if f[2] == "panic-escaped" {
						detail := ""
						if len(f) == 4 {
							detail = f[3]
						}
						failures = append(failures, crashFailure{Case: caseByID(pending, cid), Kind: "panic-escaped", Detail: detail})
					}
				}
			}
			var rest []crashCase
			culprit := -1
			for _, c := range pending {
				if !done[c.ID] {
					if culprit < 0 {
						culprit = c.ID
						kind := "process-died"
						if timedOut {
							kind = "timeout"
							// confirm: re-run the batch up to and including the blamed case (a hang may depend on
							// the cases before it); if that finishes, the batch was merely slow on a loaded machine
							if !retried[c.ID] {
								retried[c.ID] = true
								var prefix []crashCase
								for _, pc := range pending {
									prefix = append(prefix, pc)
									if pc.ID == c.ID {
										break
									}
								}
								if prefixCompletes(self, out, prefix) {
									continue
								}
							}
						}
						hist[kind]++
						msg := stderr.String()
						if len(msg) > 20000 { // a fatal error prints every goroutine: the stage matches known call sites in it
							msg = msg[:20000]
						}
						failures = append(failures, crashFailure{Case: c, Kind: kind, Detail: msg})
						continue
					}
					rest = append(rest, c)
				}
			}
			_ = started
			pending = rest
			if len(failures) >= 3 {
				pending = nil
			}
		}
	}
	for _, c := range cases {
		for _, t := range c.Tags {
			tagHist[t]++
		}
	}
	os.Remove(filepath.Join(out, "batch.json"))
	race := map[string]any{"ran": false}
	if rexe := os.Getenv("VERIF_RACE_EXE"); rexe != "" {
		race = runRacePass(rexe, out, cases, NewRand(seed^0x9e3779b97f4a7c15))
	}
	samples := []any{}
	for i := 0; i < len(cases) && len(samples) < 5; i += len(cases)/5 + 1 {
		samples = append(samples, map[string]any{"sql": cases[i].SQL, "wrapped": cases[i].Wrapped, "pg": cases[i].PG, "idiom": cases[i].Idiom})
	}
	writeJSON(filepath.Join(out, "crash.json"), map[string]any{"cases": len(cases), "outcomes": hist, "streams": tagHist, "failures": failures, "samples": samples, "race": race})
}

// ---------- race pass ----------
// A map that one goroutine writes while another reads or writes it makes the Go runtime end the process with
// "fatal error: concurrent map ..." (no recover can catch it) — but only on the schedules where the two accesses
// overlap, which the plain pass meets rarely. The race pass runs every case that starts goroutines (PARALLEL joins,
// ASYNC / SPIN / SPINASYNC calls) plus a stream of "reader" cases once more in a child built with the race detector,
// which reports two unordered accesses whether or not they overlapped on this run. Only reports in which an access is
// a MAP operation of the runtime are C10 matters (they are the ones the runtime turns into a fatal error); the others
// are counted in the evidence.

type raceReport struct {
	Case   crashCase `json:"case"`
	Map    bool      `json:"map"`
	Sig    []string  `json:"sig"` // first genql frame of each access, function name only
	Report string    `json:"report"`
	Frames []string  `json:"frames"` // every distinct genql function of the whole report (the text above is cut)
}

var raceSQL = []string{"PARALLEL", "ASYNC.", "SPIN."}

func genReaderCases(r *Rand, doc func() map[string]any, id int) []crashCase {
	var out []crashCase
	args := []string{
		"(SELECT ASYNC.crashf(p) AS v FROM items LIMIT 1)", "(SELECT ASYNC.crashf(p) AS v FROM items)", "(SELECT p, ASYNC.crashf(p) AS v FROM items)",
		"items", "(SELECT * FROM items)", "(SELECT id, ASYNC.crashf(id) AS v FROM `<-.u`)", "(SELECT ONCE.crashf(p) AS v FROM items)", "id",
	}
	for _, qual := range []string{"SPIN.", "SPINASYNC.", "ASYNC.", "ONCE.", ""} {
		for _, arg := range args {
			var sqls []string
			sqls = append(sqls, "SELECT id, "+qual+"crashslow("+arg+") AS s FROM t")
			sqls = append(sqls, "SELECT id, "+qual+"crashslow("+arg+") AS s, ASYNC.crashf(id) AS w FROM t")
			sqls = append(sqls, "SELECT id FROM t WHERE "+qual+"crashslow("+arg+") IS NOT NULL OR id > 0")
			sqls = append(sqls, "SELECT x.id FROM t x PARALLEL JOIN u y ON x.n1 "+Pick(r, cmpOps)+" y.n1 AND "+qual+"crashslow("+strings.ReplaceAll(arg, "id", "x.id")+") IS NOT NULL")
			sqls = append(sqls, "SELECT * FROM (SELECT id, "+qual+"crashslow("+arg+") AS s FROM t) AS d")
			for _, q := range sqls {
				o := r.Intn(8)
				out = append(out, crashCase{ID: id, SQL: q, Doc: doc(), Wrapped: o&1 != 0, PG: o&2 != 0, Idiom: o&4 != 0, Tags: []string{"readers"}, Trigger: float64(1 + r.Intn(4))})
				id++
			}
		}
	}
	return out
}

func runRacePass(rexe, out string, cases []crashCase, r *Rand) map[string]any {
	var sel []crashCase
	var doc map[string]any
	for _, c := range cases {
		up := strings.ToUpper(c.SQL)
		for _, k := range raceSQL {
			if strings.Contains(up, k) && !strings.Contains(c.SQL, "big4k") {
				sel = append(sel, c)
				break
			}
		}
		if doc == nil && len(c.Doc) > 0 {
			doc = c.Doc
		}
	}
	sel = append(sel, genReaderCases(r, func() map[string]any { return doc }, len(cases))...)
	byID := map[int]crashCase{}
	for _, c := range sel {
		byID[c.ID] = c
	}
	res := map[string]any{"ran": true, "cases": len(sel)}
	var reports []raceReport
	other := 0
	done := 0
	const batch = 400
	for lo := 0; lo < len(sel); lo += batch {
		hi := lo + batch
		if hi > len(sel) {
			hi = len(sel)
		}
		bf := filepath.Join(out, "racebatch.json")
		writeJSON(bf, sel[lo:hi])
		ctx, cancel := context.WithTimeout(context.Background(), 300*time.Second)
		cmd := exec.CommandContext(ctx, rexe, "aux", "crashchild", "-in", bf)
		cmd.Env = append(os.Environ(), "GORACE=halt_on_error=0 exitcode=0", "VERIF_CRASH_MARK=1", "GOTRACEBACK=single")
		var stderr strings.Builder
		cmd.Stderr = &stderr
		stdout, err := cmd.Output()
		timedOut := ctx.Err() != nil
		cancel()
		os.Remove(bf)
		done += strings.Count(string(stdout), "\nEND ") + btoi(strings.HasPrefix(string(stdout), "END "))
		if i := strings.Index(stderr.String(), "fatal error: concurrent map"); err != nil && !timedOut && i >= 0 {
			// the accesses overlapped for real in the race child: the goroutine dump is the report (the rest of
			// this batch is not run; the plain pass has run every case)
			dump := stderr.String()[i:]
			cur := -1
			if j := strings.LastIndex(stderr.String()[:i], "\n@@CASE "); j >= 0 {
				fmt.Sscan(stderr.String()[j+len("\n@@CASE "):], &cur)
			}
			frames := raceFrames(dump)
			if len(dump) > 6000 {
				dump = dump[:6000]
			}
			reports = append(reports, raceReport{Case: byID[cur], Map: true, Sig: []string{"fatal error in the race child"}, Report: dump, Frames: frames})
			continue
		}
		if timedOut || err != nil {
			// the plain pass decides crashes and hangs; a race child that does not complete leaves the pass undecided
			msg := stderr.String()
			if len(msg) > 400 {
				msg = msg[len(msg)-400:]
			}
			res["error"] = fmt.Sprintf("race child did not complete (timeout=%v err=%v): %s", timedOut, err, msg)
			break
		}
		cur := -1
		for _, chunk := range strings.Split(stderr.String(), "\n@@CASE ") {
			body := chunk
			if nl := strings.IndexByte(chunk, '\n'); nl >= 0 {
				var id int
				if _, e := fmt.Sscan(chunk[:nl], &id); e == nil {
					cur, body = id, chunk[nl+1:]
				}
			}
			for _, rep := range strings.Split(body, "WARNING: DATA RACE")[1:] {
				if i := strings.Index(rep, "=================="); i >= 0 {
					rep = rep[:i]
				}
				isMap, sig := classifyRace(rep)
				if !isMap {
					other++
					continue
				}
				frames := raceFrames(rep)
				if len(rep) > 6000 {
					rep = rep[:6000]
				}
				reports = append(reports, raceReport{Case: byID[cur], Map: true, Sig: sig, Report: rep, Frames: frames})
			}
		}
	}
	res["completed"] = done
	res["other_races"] = other
	res["map_races"] = reports
	return res
}

func raceFrames(rep string) []string {
	seen := map[string]bool{}
	var out []string
	for _, l := range strings.Split(rep, "\n") {
		f := strings.TrimSpace(l)
		if strings.HasPrefix(f, "github.com/vedadiyan/genql.") && !seen[f] {
			seen[f] = true
			out = append(out, strings.TrimPrefix(f, "github.com/vedadiyan/"))
		}
	}
	return out
}

func btoi(b bool) int {
	if b {
		return 1
	}
	return 0
}

// classifyRace: is an access of the report a map operation of the runtime, and which genql function made each access.
func classifyRace(rep string) (bool, []string) {
	isMap := false
	var sig []string
	for _, part := range strings.Split(rep, "\n\n") {
		t := strings.TrimSpace(part)
		head := strings.ToLower(t)
		if !(strings.HasPrefix(head, "read at") || strings.HasPrefix(head, "write at") || strings.HasPrefix(head, "previous read at") || strings.HasPrefix(head, "previous write at")) {
			continue // "Goroutine N created at:" stacks
		}
		first := ""
		lines := strings.Split(t, "\n")
		for i, l := range lines {
			f := strings.TrimSpace(l)
			if strings.HasPrefix(f, "runtime.map") || strings.HasPrefix(f, "reflect.map") || strings.HasPrefix(f, "reflect.(*MapIter)") {
				isMap = true
			}
			if first == "" && strings.HasPrefix(f, "github.com/vedadiyan/genql.") && i+1 < len(lines) && strings.Contains(lines[i+1], "/repo/") {
				first = strings.TrimSuffix(strings.TrimPrefix(f, "github.com/vedadiyan/genql."), "()")
			}
		}
		kind := "read"
		if strings.Contains(strings.SplitN(head, " at", 2)[0], "write") {
			kind = "write"
		}
		sig = append(sig, kind+":"+first)
	}
	return isMap, sig
}

// prefixCompletes re-runs a batch prefix in a fresh child with a generous timeout.
func prefixCompletes(self, out string, prefix []crashCase) bool {
	bf := filepath.Join(out, "confirm.json")
	writeJSON(bf, prefix)
	defer os.Remove(bf)
	ctx, cancel := context.WithTimeout(context.Background(), 45*time.Second)
	defer cancel()
	cmd := exec.CommandContext(ctx, self, "aux", "crashchild", "-in", bf)
	stdout, _ := cmd.Output()
	if ctx.Err() != nil {
		return false
	}
	last := prefix[len(prefix)-1].ID
	return strings.Contains(string(stdout), fmt.Sprintf("END %d ", last))
}

func caseByID(cs []crashCase, id int) crashCase {
	for _, c := range cs {
		if c.ID == id {
			return c
		}
	}
	return crashCase{ID: id}
}
