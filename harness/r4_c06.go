package main

// Round-4 streams of C06 (DISTINCT, UNION), registered beside genC06 through extraStreams.
//
//  distinct-over-groups   SELECT DISTINCT over a GROUPED query whose select list does not determine the group (part of the
//                         grouping key, aggregates only, key part + aggregate): two groups can yield the same OUTPUT row and
//                         DISTINCT must collapse them; with and without HAVING and a window
//  distinct-order-window  SELECT DISTINCT .. ORDER BY <all output columns> LIMIT n [OFFSET m] over rows with scattered
//                         duplicates: the window counts DISTINCT rows of the ordered sequence (the order is total on the
//                         distinct rows, so the exact sequence is determined)
//  union-with-levels      unions whose own WITH clause lists 0..8 CTEs over operands that bring their own WITH clause (same
//                         or different CTE names on the two sides), inherit the union's, or read a table directly: every
//                         operand is evaluated with ITS definitions, whatever the other operands declare

import "fmt"

func genC06Round4(r *Rand, tier string) []Case {
	var out []Case
	thorough := tier == "thorough"
	scale := func(quick, th int) int {
		if thorough {
			return th
		}
		return quick
	}
	agg := func(fn, col string) *Expr {
		if col == "" {
			return &Expr{K: "agg", Name: fn, Star: true}
		}
		return &Expr{K: "agg", Name: fn, Path: []string{col}}
	}

	// ---- distinct-over-groups
	for i := scale(120, 1500); i > 0; i-- {
		n := r.Intn(10)
		rows := make([]any, n)
		regions := []string{"north", "south", "east"}[:2+r.Intn(2)]
		products := []string{"ant", "bee", "cat", "dog"}[:2+r.Intn(3)]
		for j := range rows {
			rows[j] = map[string]any{"id": float64(j + 1), "region": Pick(r, regions), "product": Pick(r, products),
				"qty": float64(1 + r.Intn(3)), "flag": r.Bool()}
		}
		tags := []string{"r4:distinct-over-groups"}
		q := &Stmt{From: &From{K: "table", Path: []string{"t"}}, Distinct: r.Chance(85)}
		q.Group = [][]string{{"region", "product"}, {"product", "region"}, {"region", "product", "flag"}, {"qty", "region"}, {"region"}}[r.Intn(5)]
		switch r.Intn(5) {
		case 0: // part of the key
			q.Items = []Item{{E: Col(q.Group[0])}}
			tags = append(tags, "items:key-part")
		case 1: // aggregates only
			q.Items = []Item{{E: agg("count", ""), Alias: "c"}}
			if r.Bool() {
				q.Items = append(q.Items, Item{E: agg(Pick(r, []string{"sum", "max", "min"}), "qty"), Alias: "a"})
			}
			tags = append(tags, "items:aggregates-only")
		case 2: // part of the key and an aggregate
			q.Items = []Item{{E: Col(q.Group[len(q.Group)-1])}, {E: agg(Pick(r, []string{"count", "max", "min", "sum"}), "qty"), Alias: "a"}}
			tags = append(tags, "items:key-part+aggregate")
		case 3: // a renamed key part
			q.Items = []Item{{E: Col(q.Group[0]), Alias: "g"}}
			tags = append(tags, "items:key-part-alias")
		default: // the whole key (each group row is distinct already)
			for _, g := range q.Group {
				q.Items = append(q.Items, Item{E: Col(g)})
			}
			tags = append(tags, "items:whole-key")
		}
		if r.Chance(20) {
			q.Having = Cmp(Pick(r, []string{">=", "<", "!="}), agg("count", ""), Num(float64(1+r.Intn(2))))
			tags = append(tags, "having")
		}
		if r.Chance(20) {
			q.Where = Cmp("!=", Col("id"), Num(float64(1+r.Intn(n+1))))
		}
		if r.Chance(30) {
			q.Limit = intp(r.Intn(4))
			if r.Bool() {
				q.Offset = intp(r.Intn(3))
				q.LimitComma = r.Bool()
			}
			tags = append(tags, "window")
		}
		tags = append(tags, fmt.Sprintf("groupcols:%d", len(q.Group)), fmt.Sprintf("distinct:%v", q.Distinct))
		out = append(out, mkCase(map[string]any{"t": rows}, q, tags, true))
	}

	// ---- distinct-order-window
	for i := scale(120, 1500); i > 0; i-- {
		n := 1 + r.Intn(12)
		rows := make([]any, n)
		ca, cb := 2+r.Intn(5), 1+r.Intn(3)
		for j := range rows {
			rows[j] = map[string]any{"id": float64(j + 1), "a": float64(r.Intn(ca)), "b": []string{"x", "y", "z"}[r.Intn(cb)], "c": float64(r.Intn(2))}
		}
		tags := []string{"r4:distinct-order-window"}
		q := &Stmt{From: &From{K: "table", Path: []string{"t"}}, Distinct: true}
		switch r.Intn(3) {
		case 0:
			q.Items = []Item{{E: Col("a")}}
		case 1:
			q.Items = []Item{{E: Col("a")}, {E: Col("b")}}
		default:
			q.Items = []Item{{E: Col("b"), Alias: "k"}, {E: Col("a")}, {E: Col("c")}}
		}
		// every output column is a key (in a random order, random directions): no two distinct rows tie
		names := []string{}
		for _, it := range q.Items {
			names = append(names, it.name())
		}
		for j := len(names) - 1; j > 0; j-- {
			k := r.Intn(j + 1)
			names[j], names[k] = names[k], names[j]
		}
		for _, c := range names {
			q.Order = append(q.Order, OrderKey{Path: []string{c}, Asc: r.Bool()})
		}
		if r.Chance(85) {
			q.Limit = intp(r.Intn(5))
			if r.Chance(40) {
				q.Offset = intp(r.Intn(4))
				q.LimitComma = r.Bool()
			}
			tags = append(tags, "window")
		}
		if r.Chance(15) {
			q.Where = Cmp("!=", Col("id"), Num(float64(1+r.Intn(n))))
		}
		tags = append(tags, fmt.Sprintf("columns:%d", len(names)))
		out = append(out, mkCase(map[string]any{"t": rows}, q, tags, true))
	}

	// ---- union-with-levels
	for i := scale(160, 2000); i > 0; i-- {
		doc := map[string]any{"t": genDupTable(r, 6), "u": genDupTable(r, 5), "w": genDupTable(r, 4)}
		if r.Bool() {
			// plain rows: which operand contributed a row is visible in the result
			for ti, tb := range []string{"t", "u", "w"} {
				k := 1 + r.Intn(4)
				rows := make([]any, k)
				for j := range rows {
					rows[j] = map[string]any{"a": float64(10*ti + r.Intn(3)), "b": tb}
				}
				doc[tb] = rows
			}
		}
		tabs := []string{"t", "u", "w"}
		read := func(src string) *Stmt {
			q := &Stmt{From: &From{K: "table", Path: []string{src}}, Items: []Item{{E: Col("a")}}}
			if r.Chance(30) {
				q.Items = []Item{{Star: true}}
			}
			return q
		}
		nLevel := r.Intn(9)
		var level []CTE
		for k := 1; k <= nLevel; k++ {
			level = append(level, CTE{Name: fmt.Sprintf("k%d", k), Q: read(Pick(r, tabs))})
		}
		tags := []string{"r4:union-with-levels", fmt.Sprintf("union-ctes:%d", nLevel)}
		own := 0
		operand := func() *Stmt {
			switch {
			case r.Chance(65):
				// its own WITH: one or two CTEs, named like the other operand's, like a CTE of the union, or on its own
				own++
				name := Pick(r, []string{"d", "d", "e", "k1", "k2"})
				q := read(name)
				q.With = []CTE{{Name: name, Q: read(Pick(r, tabs))}}
				if r.Chance(30) {
					other := Pick(r, []string{"f", "k3", "e2"})
					q.With = append([]CTE{{Name: other, Q: read(Pick(r, tabs))}}, q.With...)
				}
				return q
			case nLevel > 0 && r.Chance(60):
				return read(level[r.Intn(nLevel)].Name) // inherits the union's WITH
			default:
				return read(Pick(r, tabs))
			}
		}
		q := &Stmt{Union: true, All: r.Chance(60), L: operand(), R: operand()}
		if r.Chance(25) {
			q = &Stmt{Union: true, All: r.Chance(60), L: q, R: operand()}
			tags = append(tags, "branches:3")
		} else {
			tags = append(tags, "branches:2")
		}
		q.With = level
		if r.Chance(20) {
			q.Limit = intp(r.Intn(6))
			if r.Bool() {
				q.Offset = intp(r.Intn(3))
			}
			tags = append(tags, "union-limit")
		}
		tags = append(tags, fmt.Sprintf("operands-with-own-with:%d", own))
		out = append(out, mkCase(doc, q, tags, true))
	}
	return out
}

func init() {
	extraStreams["C06"] = append(extraStreams["C06"], genC06Round4)
}
