package main

// Round 4 streams of C19 (a failure anywhere surfaces as an error), appended by propC19.Generate through extraStreams.
//
//  r4:operand-kinds        arithmetic whose TWO operands are columns (or literals), with the value kinds of one planted row
//                          drawn from the full matrix {number, NULL, missing, text, boolean, object, array} x the same on
//                          the right, for every arithmetic operator, in the select list, in WHERE, behind a filter that
//                          removes the row, and inside a CTE body / derived table / row-scoped subquery. Whether the query
//                          fails is known by construction: evaluation is left to right, a NULL operand makes the result
//                          NULL without looking further, any other non-number is a type error.
//  r4:qualified-arguments  a call with an execution strategy (ASYNC, SPIN, SPINASYNC) evaluates its ARGUMENT LIST
//                          synchronously: a fault-injecting function (every invocation index k), RAISE / RAISE_WHEN, a type
//                          error or a failing row-scoped subquery written inside the arguments must fail the query exactly
//                          like in an unqualified call. The model has no goroutines; it is given what such a select item
//                          denotes for its row (c19ModelView below), so these cases stay inside the model: fault-free
//                          result, Err for every trigger, plus the property's own statement on the real runs.

import (
	"encoding/json"
	"fmt"
	"strings"
)

// c19ModelView: the query as the model sees it. FunExpr (plsql.go) evaluates the argument list of an ASYNC / SPIN /
// SPINASYNC call synchronously, in place, and only then starts the goroutine; for the identity functions of the harness
// (idf, slowf) the select item therefore denotes, for its row,
//
//	ASYNC.f(x)              the value of x (the slot is resolved before Exec returns)            ->  x AS alias
//	SPIN.f(x), SPINASYNC.f(x)   no column, after x has been evaluated (a failure of x fails the row)
//	                                                    ->  RAISE_WHEN((x IS NULL) AND (x IS NOT NULL), '') AS alias
//
// (RAISE_WHEN with a false condition adds no column; the model evaluates both operands of AND, x being pure there).
// Only whole select items with an alias are rewritten, at every nesting level; anything else keeps its qualifier and
// stays out of model. Computed from Q on every observation, so a replay file cannot hand the model another question.
func c19ModelView(q *Stmt) (*Stmt, bool) {
	raw, err := json.Marshal(q)
	if err != nil {
		return q, false
	}
	var c Stmt
	if json.Unmarshal(raw, &c) != nil {
		return q, false
	}
	changed := false
	var walkS func(s *Stmt)
	var walkE func(e *Expr)
	var walkF func(f *From)
	walkE = func(e *Expr) {
		if e == nil {
			return
		}
		for _, x := range []*Expr{e.A, e.B, e.C, e.Else} {
			walkE(x)
		}
		for _, x := range e.Items {
			walkE(x)
		}
		for _, w := range e.Whens {
			walkE(w[0])
			walkE(w[1])
		}
		if e.Q != nil {
			walkS(e.Q)
		}
	}
	walkF = func(f *From) {
		if f == nil {
			return
		}
		walkE(f.On)
		walkF(f.L)
		walkF(f.R)
		if f.Q != nil {
			walkS(f.Q)
		}
	}
	walkS = func(s *Stmt) {
		if s == nil {
			return
		}
		for i := range s.Items {
			it := &s.Items[i]
			if e := it.E; e != nil && e.K == "call" && it.Alias != "" && len(e.Items) == 1 {
				name, qual := strings.ToLower(e.Name), strings.ToLower(e.Qual)
				if name == "idf" || name == "slowf" {
					x := e.Items[0]
					switch qual {
					case "async":
						it.E = x
						changed = true
					case "spin", "spinasync":
						it.E = &Expr{K: "call", Name: "RAISE_WHEN", Items: []*Expr{
							And(&Expr{K: "is", Op: "NULL", A: x}, &Expr{K: "is", Op: "NOT NULL", A: x}), Str("")}}
						changed = true
					}
				}
			}
			walkE(it.E)
		}
		walkE(s.Where)
		walkE(s.Having)
		walkF(s.From)
		walkS(s.L)
		walkS(s.R)
		for _, c := range s.With {
			walkS(c.Q)
		}
	}
	walkS(&c)
	if !changed {
		return q, false
	}
	return &c, true
}

var r4Kinds = []string{"number", "null", "missing", "text", "boolean", "object", "array"}

func r4KindValue(r *Rand, kind string) (any, bool) {
	switch kind {
	case "number":
		return Pick(r, []float64{1, 2, 3}), true
	case "null":
		return nil, true
	case "missing":
		return nil, false
	case "text":
		return Pick(r, []string{"two", "x", "7", ""}), true
	case "boolean":
		return r.Bool(), true
	case "object":
		return map[string]any{"k": float64(1)}, true
	default:
		return []any{float64(1)}, true
	}
}

// r4ArithFails: does  left op right  fail for operands of these kinds?
func r4ArithFails(lk, rk string) bool {
	switch lk {
	case "null", "missing":
		return false // NULL without looking at the right operand
	case "number":
		return !(rk == "null" || rk == "missing" || rk == "number")
	}
	return true
}

var r4ArithOps = []string{"+", "-", "*", "/", "DIV", "%", "&", "|", "^", "<<", ">>"}

func r4OperandKinds(r *Rand, tier string) []Case {
	n, cap := 44, 12
	if tier == "thorough" {
		n, cap = 500, 40
	}
	var out []Case
	for i := 0; i < n; i++ {
		d := c19GenDoc(r, 5)
		rows := d.t.rows
		set := func(m map[string]any, col, kind string) {
			if v, present := r4KindValue(r, kind); present {
				m[col] = v
			} else {
				delete(m, col)
			}
		}
		// every row: numbers, now and then NULL / missing (never a failure)
		for _, row := range rows {
			m := row.(map[string]any)
			set(m, "a", Pick(r, []string{"number", "number", "number", "null", "missing"}))
			set(m, "b", Pick(r, []string{"number", "number", "number", "null", "missing"}))
		}
		op := Pick(r, r4ArithOps)
		var e *Expr
		lk, rk := Pick(r, r4Kinds), Pick(r, r4Kinds)
		if i%2 == 0 {
			// the pairings next to a NULL / missing operand are a third of the matrix: draw them as often as the rest
			if r.Bool() {
				rk = Pick(r, []string{"null", "missing"})
			} else {
				lk = Pick(r, []string{"null", "missing"})
			}
		}
		fires := false
		planted := float64(0)
		form := "columns"
		if r.Chance(20) {
			// literal operands (text, number, boolean, NULL); the right one may also be a column
			form = "literals"
			lit := func(kind string) *Expr {
				switch kind {
				case "number":
					return Num(Pick(r, []float64{1, 2, 3}))
				case "text":
					return Str(Pick(r, []string{"x", "two", "7"}))
				case "boolean":
					return &Expr{K: "bool", Bool: r.Bool()}
				}
				return &Expr{K: "null"}
			}
			lks := []string{"number", "text", "boolean", "null"}
			lk, rk = Pick(r, lks), Pick(r, lks)
			e = Bin(op, lit(lk), lit(rk))
			if r.Chance(40) {
				// right operand: a column that is missing on every row
				rk = "missing"
				e = Bin(op, lit(lk), Col("nosuch"))
			}
			fires = len(rows) > 0 && r4ArithFails(lk, rk)
		} else {
			e = Bin(op, Col("a"), Col("b"))
			if len(rows) > 0 {
				m := Pick(r, rows).(map[string]any)
				set(m, "a", lk)
				set(m, "b", rk)
				planted = m["id"].(float64)
				fires = r4ArithFails(lk, rk)
			}
		}
		q := &Stmt{From: c19From("t"), Items: []Item{{E: Col("id")}, {E: e, Alias: "f"}}}
		pos := Pick(r, []string{"select", "select", "where", "filtered", "cte", "derived", "subquery-root", "nested-arith"})
		switch pos {
		case "where":
			q.Items = []Item{{E: Col("id")}}
			q.Where = &Expr{K: "is", Op: Pick(r, []string{"NULL", "NOT NULL"}), A: e}
		case "filtered":
			if form == "columns" && len(rows) > 0 {
				// the planted row is removed by WHERE (which does not touch the operands): no failure
				q.Where = Cmp("!=", Col("id"), Num(planted))
				fires = false
			}
		case "cte", "derived", "subquery-root":
			q = c19Wrap(r, d, q, pos, "x")
			if pos == "subquery-root" {
				fires = fires && len(d.doc["vals"].([]any)) > 0
			}
		case "nested-arith":
			// the operator sits below another one: (a op b) + 1 and 1 + (a op b) fail or are NULL alike
			if r.Bool() {
				q.Items[1].E = Bin("+", e, Num(1))
			} else {
				q.Items[1].E = Bin("*", Num(2), e)
			}
		}
		tags := []string{"r4:operand-kinds", "operands:" + form, "left:" + lk, "right:" + rk, "op:" + op, fmt.Sprintf("typeerr-fires:%v", fires)}
		out = append(out, c19Case(d, q, "typeerr", "operand-kinds/"+pos, cap, c19Boolp(fires), false, fires, tags...))
	}
	return out
}

func r4QualifiedArguments(r *Rand, tier string) []Case {
	n, cap := 12, 12
	if tier == "thorough" {
		n, cap = 90, 40
	}
	var out []Case
	quals := []string{"SPINASYNC", "ASYNC", "SPIN"}
	for i := 0; i < n; i++ {
		d := c19GenDoc(r, 4)
		rows := d.t.rows
		qual := quals[i%len(quals)]
		if r.Chance(15) {
			qual = Pick(r, []string{"SpinAsync", "spinasync", "Async", "spin"}) // the qualifier is matched without regard to case
		}
		qcall := func(arg *Expr) *Expr {
			return &Expr{K: "call", Qual: qual, Name: Pick(r, []string{"idf", "slowf"}), Items: []*Expr{arg}}
		}
		kind, how := "fault", Pick(r, []string{"fault", "fault", "fault-in-arith", "fault-in-call", "raise", "raise_when", "typeerr", "subquery-fault"})
		if how == "raise_when" && strings.EqualFold(qual, "async") {
			// not generated: RAISE_WHEN with a false condition returns the engine's omit marker, and an ASYNC call that
			// receives it as an argument hands it on into the result row on the clean tree (a C12 matter — results are
			// plain data — reported separately; nothing fails, so it is outside what this property is about)
			how = "raise"
		}
		var expect *bool
		var arg *Expr
		nontrivial := len(rows) >= 1
		switch how {
		case "fault":
			arg = c19Call("qa", Col("id"))
		case "fault-in-arith":
			arg = Bin("+", Col("n1"), c19Call("qa", Col("id"), Num(1)))
		case "fault-in-call":
			arg = c19Call("qo", c19Call("qi", Col("id")))
		case "subquery-fault":
			arg = &Expr{K: "sub", Q: &Stmt{From: c19From("items"), Items: []Item{{E: c19Call("qs", Col("u")), Alias: "f"}}}}
		case "raise":
			kind = "raise"
			arg = &Expr{K: "call", Name: "RAISE", Items: []*Expr{Str("boom")}}
			expect = c19Boolp(len(rows) > 0)
			nontrivial = len(rows) > 0
		case "raise_when":
			kind = "raise"
			v, present := float64(99), false
			if len(d.ids) > 0 && r.Chance(75) {
				v, present = Pick(r, d.ids), true
			}
			arg = &Expr{K: "call", Name: "RAISE_WHEN", Items: []*Expr{Cmp("=", Col("id"), Num(v)), Str("boom")}}
			expect = c19Boolp(present)
			nontrivial = present
		default:
			kind = "typeerr"
			arg = Bin(Pick(r, []string{"+", "*", "-"}), Col("s1"), Num(1)) // s1 is a string on every row
			expect = c19Boolp(len(rows) > 0)
			nontrivial = len(rows) > 0
		}
		q := &Stmt{From: c19From("t"), Items: []Item{{E: Col("id")}, {E: qcall(arg), Alias: "f"}}}
		pos := Pick(r, []string{"select", "select", "derived", "cte"})
		switch pos {
		case "derived", "cte":
			q = c19Wrap(r, d, q, pos, "x")
		}
		tags := []string{"r4:qualified-arguments", "qualifier:" + qual, "argument:" + how}
		out = append(out, c19Case(d, q, kind, "qualified-arguments/"+pos, cap, expect, false, nontrivial, tags...))
	}
	return out
}

func init() {
	extraStreams["C19"] = append(extraStreams["C19"], r4OperandKinds, r4QualifiedArguments)
}
