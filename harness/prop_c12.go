package main

import (
	"strings"
	"encoding/json"
	"fmt"
	"reflect"
	"time"

	"github.com/vedadiyan/genql"
)

// ---------- C12: results are plain, self-contained data; evaluation is deterministic ----------

// plainProblem walks a result by Go type: anything other than nil|bool|float64|string|[]any|
// map[string]any is a leak; a `<-` key or a reference cycle is reported as well.
func plainProblem(v any, path string, onPath map[uintptr]bool, depth int) string {
	if depth > 100 {
		return path + ": deeper than 100 levels (cycle?)"
	}
	switch t := v.(type) {
	case nil, bool, float64, string:
		return ""
	case int, int64: // COUNT / CHANGETYPE(..,'integer'): JSON numbers
		return ""
	case []any:
		for i, x := range t {
			if p := plainProblem(x, fmt.Sprintf("%s[%d]", path, i), onPath, depth+1); p != "" {
				return p
			}
		}
		return ""
	case map[string]any:
		ptr := reflect.ValueOf(t).Pointer()
		if onPath[ptr] {
			return path + ": reference cycle"
		}
		onPath[ptr] = true
		defer delete(onPath, ptr)
		for k, x := range t {
			if k == "<-" || strings.HasSuffix(k, ".<-") {
				// (the second form: a fused row's marker blended in under the item's prefix — no generated document has such a key)
				return path + ": navigation key `<-` in result"
			}
			if p := plainProblem(x, path+"."+k, onPath, depth+1); p != "" {
				return p
			}
		}
		return ""
	}
	return fmt.Sprintf("%s: engine-internal or non-JSON value of type %T", path, v)
}

func init() {
	// slowf: identity after a short sleep, so that an ASYNC slot read before the wait is still empty
	genql.RegisterFunction("slowf", func(_ *genql.Query, _ genql.Map, _ *genql.FunctionOptions, args []any) (any, error) {
		if len(args) != 1 {
			return nil, fmt.Errorf("slowf takes one argument")
		}
		time.Sleep(3 * time.Millisecond)
		return args[0], nil
	})
	genql.RegisterFunction("idf", func(_ *genql.Query, _ genql.Map, _ *genql.FunctionOptions, args []any) (any, error) {
		if len(args) != 1 {
			return nil, fmt.Errorf("idf takes one argument")
		}
		return args[0], nil
	})
}

type propC12 struct{ engineProp }

// the expression forms of the matrix, each usable as a value
func c12Forms(r *Rand, t table) map[string]*Expr {
	var sub []string
	pred := genPred(r, t, 1, &sub)
	for _, s := range sub {
		if s == "op:in-subquery" || s == "op:notin-subquery" {
			pred = Cmp("<", Col("n1"), Num(2))
		}
	}
	subq := &Stmt{From: &From{K: "table", Path: []string{"items"}}, Items: []Item{{E: Col("p")}}}
	return map[string]*Expr{
		"column":     Col("n1"),
		"string-col": Col("s1"),
		"path":       Col("o", "p", "q"),
		"object-col": Col("o"),
		"missing":    Col("missing"),
		"number":     Num(2.5),
		"string":     Str("lit"),
		"bool":       {K: "bool", Bool: true},
		"null":       {K: "null"},
		"arith":      Bin("+", Col("n1"), Num(1)),
		"arith-null": Bin("*", Col("missing"), Num(2)),
		"neg":        {K: "un", Op: "-", A: Col("n2")},
		"tilde":      {K: "un", Op: "~", A: Num(5)},
		"bang":       {K: "un", Op: "!", A: Cmp(">", Col("n1"), Num(1))},
		"compare":    Cmp("<=", Col("n1"), Col("n2")),
		"like":       {K: "like", A: Col("s1"), B: Str("a%")},
		"in":         {K: "in", A: Col("n1"), Items: []*Expr{Num(1), Bin("+", Num(1), Num(1)), Col("n2")}},
		"between":    {K: "between", A: Col("n1"), B: Num(0), C: Bin("+", Num(1), Num(1))},
		"is-null":    {K: "is", Op: "NULL", A: Col("z")},
		"and":        And(Cmp(">", Col("n1"), Num(0)), pred),
		"case-col":   {K: "case", Whens: [][2]*Expr{{Cmp(">", Col("n1"), Num(1)), Col("s1")}}, Else: Col("s2")},
		"case-arith": {K: "case", Whens: [][2]*Expr{{pred, Bin("-", Col("n1"), Num(1))}}},
		"case-lit":   {K: "case", Whens: [][2]*Expr{{pred, Str("yes")}}, Else: Str("no")},
		"subquery":   {K: "sub", Q: subq},
		"exists":     {K: "exists", Q: &Stmt{From: &From{K: "table", Path: []string{"items"}}, Items: []Item{{Star: true}}, Where: Cmp(">", Col("p"), Num(1))}},
		"async-call": {K: "call", Qual: "ASYNC", Name: "idf", Items: []*Expr{Col("n1")}},
		"async-arith": {K: "call", Qual: "ASYNC", Name: "idf", Items: []*Expr{Bin("+", Col("n1"), Num(1))}},
		"async-str":  {K: "call", Qual: "ASYNC", Name: "idf", Items: []*Expr{Str("s")}},
		"call":       {K: "call", Name: "idf", Items: []*Expr{Bin("*", Col("n1"), Num(2))}},
		"call-col":   {K: "call", Name: "idf", Items: []*Expr{Col("o")}},
		// a row-scoped subquery over dual whose own select item is an ASYNC call: its slot is resolved by the
		// subquery's post-processors, which the enclosing query must adopt
		"subquery-async": {K: "sub", Q: &Stmt{From: &From{K: "dual"}, Items: []Item{{E: &Expr{K: "call", Qual: "ASYNC", Name: "slowf", Items: []*Expr{Col("n1")}}, Alias: "e"}}}},
		"async-slow":     {K: "call", Qual: "ASYNC", Name: "slowf", Items: []*Expr{Col("n2")}},
		// the backward reference selected as a VALUE: the enclosing scope as plain data (no lazy CTE entry, no cycle)
		"backref-value": {K: "sub", Q: &Stmt{From: &From{K: "dual"}, Items: []Item{{E: Col("<-"), Alias: "p"}}}},
		// ASYNC on immediate, marker-returning built-ins under any spelling of their names: an error, never a marker in the row
		"async-immediate-fuse":   {K: "call", Qual: "ASYNC", Name: "FUSE", Items: []*Expr{Col("o")}},
		"async-immediate-setvar": {K: "call", Qual: "Async", Name: "SetVar", Items: []*Expr{Str("k"), Col("n1")}},
		"async-immediate-report": {K: "call", Qual: "ASYNC", Name: "Report_When", Items: []*Expr{Cmp(">", Col("n1"), Num(100)), Str("x")}},
		// a value tuple as a value: its members are plain values
		"tuple": {K: "tuple", Items: []*Expr{Num(1), Str("a"), Bin("+", Col("n1"), Num(1)), Col("s1")}},
	}
}

func isBoolForm(name string) bool {
	switch name {
	case "bool", "bang", "compare", "like", "in", "between", "is-null", "and", "exists":
		return true
	}
	return false
}

func genC12(r *Rand, tier string) []Case {
	rounds := 2
	if tier == "thorough" {
		rounds = 20
	}
	var out []Case
	for round := 0; round < rounds; round++ {
		t := genTable(r, 4)
		for len(t.rows) < 2 {
			t = genTable(r, 4)
		}
		for _, row := range t.rows {
			m := row.(map[string]any)
			k := r.Intn(3)
			items := make([]any, k)
			for j := range items {
				items[j] = map[string]any{"p": float64(r.Intn(4))}
			}
			m["items"] = items
		}
		doc := map[string]any{"t": t.rows, "u": genTable(r, 3).rows, "nn": []any{t.rows, []any{}, t.rows[:1]}}
		// a join with many distinct keys under LIMIT: the window must be the same rows on every run
		{
			nk := Pick(r, []int{40, 300})
			big := make([]any, nk)
			bigr := make([]any, nk)
			for i := range big {
				big[i] = map[string]any{"k": float64(i), "v": float64(i % 7)}
				bigr[i] = map[string]any{"m": float64(nk - 1 - i), "w": float64(i % 3)}
			}
			jq := &Stmt{From: &From{K: "join", JT: "inner", Strat: Pick(r, []string{"auto", "hash"}),
				L: &From{K: "table", Path: []string{"big"}, Alias: "x"}, R: &From{K: "table", Path: []string{"bigr"}, Alias: "y"},
				On: Cmp("=", Col("x", "k"), Col("y", "m"))}, Items: []Item{{Star: true}}, Limit: intp(5), Offset: intp(r.Intn(3))}
			c := mkCase(map[string]any{"big": big, "bigr": bigr}, jq, []string{"form:join", "pos:join-limit-40-keys"}, true)
			in := c.Input.(engIn)
			in.Repeat = 6
			c.Input = in
			c.Key = "join-limit|" + fmt.Sprint(round)
			out = append(out, c)
		}
		// a WITH clause in scope while the row is the query's own scope (FROM dual): star and plain columns only
		{
			cte := []CTE{{Name: "c", Q: &Stmt{From: &From{K: "table", Path: []string{"t"}}, Items: []Item{{E: Col("id")}}}}}
			for i, items := range [][]Item{{{Star: true}}, {{Star: true}, {E: Num(1), Alias: "q"}}, {{E: Col("t"), Alias: "tt"}, {E: Num(1), Alias: "q"}}} {
				c := mkCase(doc, &Stmt{From: &From{K: "dual"}, Items: items, With: cte}, []string{"form:cte-in-scope-dual-star", fmt.Sprintf("pos:%d", i)}, true)
				c.Key = fmt.Sprintf("cte-dual|%d|%d", i, round)
				out = append(out, c)
			}
		}
		forms := c12Forms(r, t)
		base := func() *Stmt { return &Stmt{From: &From{K: "table", Path: []string{"t"}}} }
		add := func(q *Stmt, form, pos string, repeat int) {
			c := mkCase(doc, q, []string{"form:" + form, "pos:" + pos}, true)
			in := c.Input.(engIn)
			in.Repeat = repeat
			c.Input = in
			c.Key = form + "|" + pos + "|" + fmt.Sprint(round)
			out = append(out, c)
		}
		for name, f := range forms {
			async := name == "async-call" || name == "async-arith" || name == "async-str" || name == "async-slow" || name == "subquery-async" || strings.HasPrefix(name, "async-immediate")
			// 1. select-list item
			q := base()
			q.Items = []Item{{E: Col("id")}, {E: f, Alias: "v"}}
			add(q, name, "select-item", 2)
			if async && name != "subquery-async" && !strings.HasPrefix(name, "async-immediate") {
				// ... followed by an effect-only item (no column) that carries the same alias: the slot is still this item's
				q2 := base()
				q2.Items = []Item{{E: Col("id")}, {E: f, Alias: "v"}, {E: &Expr{K: "call", Qual: "SPIN", Name: "idf", Items: []*Expr{Num(1)}}, Alias: "v"}}
				add(q2, name, "select-item-then-omitted-same-alias", 2)
			}
			if async && name != "subquery-async" && !strings.HasPrefix(name, "async-immediate") {
				// ... in both sides of a UNION (distinct): equal rows are duplicates once the calls have completed
				ub := base()
				ub.Items = []Item{{E: Col("id")}, {E: f, Alias: "v"}}
				add(&Stmt{Union: true, All: false, L: ub, R: ub}, name, "union-distinct-sides", 2)
				add(&Stmt{Union: true, All: false, L: &Stmt{Union: true, All: true, L: ub, R: ub}, R: ub, Limit: intp(2)}, name, "union-distinct-chain-limit", 2)
			}
			if async {
				// ... also over the inner dimensions of a multi-dimensional FROM
				nq := &Stmt{From: &From{K: "table", Path: []string{"nn"}}, Items: []Item{{E: Col("id")}, {E: f, Alias: "v"}}}
				add(nq, name, "select-item-nested-from", 2)
				// ... and as the column of a derived table that is an operand of a join
				if name != "subquery-async" {
					dq := base()
					dq.Items = []Item{{E: Col("id")}, {E: f, Alias: "v"}}
					for _, side := range []string{"left", "right"} {
						d := &From{K: "derived", Q: dq, Alias: "x"}
						u := &From{K: "table", Path: []string{"u"}, Alias: "y"}
						jf := &From{K: "join", JT: "inner", Strat: "auto", L: d, R: u, On: Cmp("=", Col("x", "id"), Col("y", "id"))}
						if side == "right" {
							jf.L, jf.R = u, d
						}
						add(&Stmt{From: jf, Items: []Item{{Star: true}}}, name, "derived-join-operand-"+side, 2)
					}
				}
				continue // the property speaks of ASYNC calls used directly as select-list items
			}
			// 2. select item together with *
			q = base()
			q.Items = []Item{{Star: true}, {E: f, Alias: "v"}}
			add(q, name, "select-with-star", 2)
			// 3. CASE branch
			q = base()
			q.Items = []Item{{E: &Expr{K: "case", Whens: [][2]*Expr{{Cmp(">", Col("id"), Num(1)), f}}, Else: f}, Alias: "v"}}
			add(q, name, "case-branch", 2)
			// 4. function argument
			q = base()
			q.Items = []Item{{E: &Expr{K: "call", Name: "idf", Items: []*Expr{f}}, Alias: "v"}}
			add(q, name, "function-argument", 2)
			// 5. derived table column, re-selected
			inner := base()
			inner.Items = []Item{{E: Col("id")}, {E: f, Alias: "v"}}
			q = &Stmt{From: &From{K: "derived", Q: inner, Alias: "d"}, Items: []Item{{E: Col("d", "v"), Alias: "w"}, {Star: true}}}
			add(q, name, "derived-column", 2)
			// 6. CTE column
			q = &Stmt{From: &From{K: "table", Path: []string{"c"}}, Items: []Item{{Star: true}}, With: []CTE{{Name: "c", Q: inner}}}
			add(q, name, "cte-column", 2)
			// 7. union branch
			q = &Stmt{Union: true, All: r.Bool(), L: inner, R: inner}
			add(q, name, "union-branch", 2)
			// 8. DISTINCT + ORDER BY over it
			q = base()
			q.Items = []Item{{E: f, Alias: "v"}, {E: Col("id")}}
			q.Distinct = true
			q.Order = []OrderKey{{Path: []string{"id"}, Asc: false}}
			add(q, name, "distinct-ordered", 2)
			// 9. grouped: the form as an extra select item next to aggregates (evaluated on the group row)
			q = base()
			q.Group = []string{"s1"}
			q.Items = []Item{{E: Col("s1")}, {E: &Expr{K: "agg", Name: "count", Star: true}, Alias: "c"}, {E: f, Alias: "v"}}
			add(q, name, "group-item", 2)
			// 10. join output
			jq := &Stmt{From: &From{K: "join", JT: Pick(r, []string{"inner", "left", "right"}), Strat: Pick(r, []string{"auto", "parallel", "hash"}),
				L: &From{K: "table", Path: []string{"t"}, Alias: "x"}, R: &From{K: "table", Path: []string{"u"}, Alias: "y"},
				On: Cmp(Pick(r, cmpOps), Col("x", "n1"), Col("y", "n1"))}, Items: []Item{{Star: true}}}
			add(jq, name, "join-star", 0)
			if isBoolForm(name) {
				// 11. WHERE / HAVING operand
				q = base()
				q.Items = []Item{{Star: true}}
				q.Where = f
				add(q, name, "where", 2)
			} else {
				q = base()
				q.Items = []Item{{E: Col("id")}}
				q.Where = &Expr{K: "is", Op: "NOT NULL", A: f}
				add(q, name, "where-operand", 2)
				q = base()
				q.Items = []Item{{E: Col("id")}}
				q.Where = &Expr{K: "in", A: Col("n1"), Items: []*Expr{f, Num(1)}}
				add(q, name, "in-list-element", 2)
			}
		}
	}
	return out
}

func (p propC12) Observe(raw json.RawMessage) (Observed, error) {
	var in engIn
	if err := json.Unmarshal(raw, &in); err != nil {
		return Observed{}, err
	}
	obs, err := observeEngine(in)
	if err != nil {
		return obs, err
	}
	// type walk, cycle check and JSON round trip on the RAW result of the real engine
	doc := deepCopy(in.Doc).(map[string]any)
	func() {
		defer func() { recover() }()
		q, err := genql.New(doc, in.Q.SQL())
		if err != nil {
			return
		}
		rows, err := q.Exec()
		if err != nil {
			return
		}
		if p := plainProblem(anySlice(rows), "$", map[uintptr]bool{}, 0); p != "" {
			obs.CoqObs = "Panic"
			obs.Tags = append(obs.Tags, "not-plain")
			obs.Note = map[string]any{"sql": in.Q.SQL(), "problem": p}
			return
		}
		if _, err := json.Marshal(rows); err != nil {
			if !containsNonFinite(rows) {
				obs.CoqObs = "Panic"
				obs.Tags = append(obs.Tags, "not-json")
				obs.Note = map[string]any{"sql": in.Q.SQL(), "problem": "encoding/json: " + err.Error()}
			}
		}
	}()
	return obs, nil
}

func containsNonFinite(v any) bool {
	switch t := v.(type) {
	case float64:
		return t != t || t > 1.7976931348623157e308 || t < -1.7976931348623157e308
	case []any:
		for _, x := range t {
			if containsNonFinite(x) {
				return true
			}
		}
	case map[string]any:
		for _, x := range t {
			if containsNonFinite(x) {
				return true
			}
		}
	}
	return false
}

func init() {
	register(propC12{engineProp{id: "C12", checkFn: "EngineRun.check_c12", gen: genC12,
		rule: "a generated matrix of ~30 expression forms (columns, paths, literals, arithmetic incl. NULL operands, unary, comparisons, LIKE/IN/BETWEEN/IS, boolean connectives, CASE returning a column / arithmetic / literal, row-scoped subquery, EXISTS, plain and ASYNC user-function calls) x 12 clause positions (select item, next to *, CASE branch, function argument, derived-table column, CTE column, union branch, DISTINCT+ORDER BY, group item, join output, WHERE / WHERE operand, IN-list element); each result is walked by Go type (anything but nil|bool|number|string|[]any|map is a leak), checked for `<-` keys and reference cycles, marshalled with encoding/json, compared with the model, and the query is executed twice on equal inputs (identical sequence; joins: equal multiset); every case is non-trivial; further streams (r4_c12.go): value tuples of 2-4 members drawn from columns of every type, arithmetic that is NULL on some rows only (NULL / missing operands), literals of every type and unary minus, as select item / function argument / CASE branch / derived-table column (out of model: judged by the type walk, JSON round trip and second run); star projections over the backward reference `<-` itself (select-list subquery, derived table inside it, subquery of a query over a CTE, subquery inside a CTE body) with 0-3 common table expressions in scope, used or not (compared with the model)"}})
}

// ---------- ASYNC x nesting matrix (used by C12 itself and, as a stage, by C13 and C14) ----------
// Every way a query can be nested inside another one (derived table, row-scoped subquery, EXISTS, inner dimension of a
// multi-dimensional FROM, CTE body, UNION side, join operand) hands the inner query's outstanding ASYNC calls to the
// enclosing query. The matrix composes two levels of nesting of different kinds around one ASYNC select item with a
// latency: when Exec returns, the slot holds the value (model: the unqualified call's value).
func genAsyncNesting(r *Rand, tier string) []Case {
	rounds := 2
	if tier == "thorough" {
		rounds = 12
	}
	var out []Case
	for round := 0; round < rounds; round++ {
		t := genTable(r, 3)
		for len(t.rows) < 2 {
			t = genTable(r, 3)
		}
		for _, row := range t.rows {
			m := row.(map[string]any)
			k := 1 + r.Intn(2)
			items := make([]any, k)
			for j := range items {
				items[j] = map[string]any{"p": float64(r.Intn(4))}
			}
			m["items"] = items
		}
		doc := map[string]any{"t": t.rows, "u": genTable(r, 3).rows, "nn": []any{t.rows, []any{}, t.rows[:1]},
			"nnn": []any{[]any{t.rows[:1], t.rows}, []any{}, []any{t.rows}}}
		call := func(arg *Expr) *Expr {
			return &Expr{K: "call", Qual: "ASYNC", Name: Pick(r, []string{"slowf", "idf", "slowf"}), Items: []*Expr{arg}}
		}
		// level-1 queries producing column v from an ASYNC call
		flat := func(src []string) *Stmt {
			return &Stmt{From: &From{K: "table", Path: src}, Items: []Item{{E: Col("id")}, {E: call(Col("n1")), Alias: "v"}}}
		}
		dualq := func(arg *Expr) *Stmt {
			return &Stmt{From: &From{K: "dual"}, Items: []Item{{E: call(arg), Alias: "v"}}}
		}
		inner := map[string]func() *Stmt{
			"flat":      func() *Stmt { return flat([]string{"t"}) },
			"two-dim":   func() *Stmt { return flat([]string{"nn"}) },
			"three-dim": func() *Stmt { return flat([]string{"nnn"}) },
			"derived": func() *Stmt {
				return &Stmt{From: &From{K: "derived", Q: flat([]string{"t"}), Alias: "y"}, Items: []Item{{E: Col("y", "id"), Alias: "id"}, {E: Col("y", "v"), Alias: "v"}}}
			},
			"derived-star": func() *Stmt {
				return &Stmt{From: &From{K: "derived", Q: flat([]string{"t"}), Alias: "y"}, Items: []Item{{Star: true}}}
			},
			"cte": func() *Stmt {
				return &Stmt{From: &From{K: "table", Path: []string{"c"}}, Items: []Item{{Star: true}}, With: []CTE{{Name: "c", Q: flat([]string{"t"})}}}
			},
			"union": func() *Stmt { return &Stmt{Union: true, All: true, L: flat([]string{"t"}), R: flat([]string{"u"})} },
			// UNION (distinct) of the same rows: the duplicates are recognised once the calls have completed
			"union-distinct": func() *Stmt {
				f := &Stmt{From: &From{K: "table", Path: []string{"t"}}, Items: []Item{{E: Col("id")}, {E: &Expr{K: "call", Qual: "ASYNC", Name: "slowf", Items: []*Expr{Col("n1")}}, Alias: "v"}}}
				return &Stmt{Union: true, All: false, L: f, R: f}
			},
			"join-operand": func() *Stmt {
				return &Stmt{From: &From{K: "join", JT: "inner", Strat: "auto", L: &From{K: "derived", Q: flat([]string{"t"}), Alias: "x"}, R: &From{K: "table", Path: []string{"u"}, Alias: "y"},
					On: Cmp("=", Col("x", "id"), Col("y", "id"))}, Items: []Item{{Star: true}}}
			},
		}
		add := func(q *Stmt, in, outer string) {
			c := mkCase(doc, q, []string{"inner:" + in, "outer:" + outer}, true)
			e := c.Input.(engIn)
			e.Repeat = 2
			c.Input = e
			c.Key = in + "|" + outer + "|" + fmt.Sprint(round)
			out = append(out, c)
		}
		for name, mk := range inner {
			add(mk(), name, "top")
			// level 2: the level-1 query nested once more
			add(&Stmt{From: &From{K: "derived", Q: mk(), Alias: "d"}, Items: []Item{{Star: true}}}, name, "derived")
			add(&Stmt{From: &From{K: "table", Path: []string{"w"}}, Items: []Item{{Star: true}}, With: []CTE{{Name: "w", Q: mk()}}}, name, "cte")
			if name != "union" && name != "union-distinct" {
				add(&Stmt{Union: true, All: true, L: mk(), R: mk()}, name, "union-side")
			}
			// as a row-scoped subquery / EXISTS of an outer row: the level-1 source is re-rooted through the back-reference
			reroot := func(q *Stmt) *Stmt {
				c := *q
				var fix func(f *From) *From
				fix = func(f *From) *From {
					g := *f
					switch f.K {
					case "table":
						if len(f.Path) > 0 && (f.Path[0] == "t" || f.Path[0] == "u" || f.Path[0] == "nn" || f.Path[0] == "nnn") {
							g.Path = append([]string{"<-"}, f.Path...)
						}
					case "derived":
						g.Q = nil
						qq := *f.Q
						qq.From = fix(f.Q.From)
						g.Q = &qq
					case "join":
						g.L, g.R = fix(f.L), fix(f.R)
					}
					return &g
				}
				if c.Union || len(c.With) > 0 {
					return nil
				}
				c.From = fix(q.From)
				return &c
			}
			if rq := reroot(mk()); rq != nil {
				add(&Stmt{From: &From{K: "table", Path: []string{"t"}}, Items: []Item{{E: Col("id")}, {E: &Expr{K: "sub", Q: rq}, Alias: "s"}}}, name, "row-subquery")
			}
		}
		// an ASYNC call handed on through many ASYNC calls: nested in each other's arguments (12 deep), and as a column
		// passed on by ASYNC calls of two nested derived tables — the slot chain is followed to its value
		{
			e := call(Col("n1"))
			for d := 0; d < 12; d++ {
				e = &Expr{K: "call", Qual: "ASYNC", Name: "idf", Items: []*Expr{e}}
			}
			add(&Stmt{From: &From{K: "table", Path: []string{"t"}}, Items: []Item{{E: Col("id")}, {E: e, Alias: "v"}}}, "async-in-async-arguments-12-deep", "top")
			l1 := &Stmt{From: &From{K: "table", Path: []string{"t"}}, Items: []Item{{E: Col("id")}, {E: call(Col("n1")), Alias: "d"}}}
			l2 := &Stmt{From: &From{K: "derived", Q: l1, Alias: "q"}, Items: []Item{{E: Col("q", "id"), Alias: "id"}, {E: &Expr{K: "call", Qual: "ASYNC", Name: "idf", Items: []*Expr{Col("q", "d")}}, Alias: "e"}}}
			l3 := &Stmt{From: &From{K: "derived", Q: l2, Alias: "q2"}, Items: []Item{{E: Col("q2", "id"), Alias: "id"}, {E: &Expr{K: "call", Qual: "ASYNC", Name: "slowf", Items: []*Expr{Col("q2", "e")}}, Alias: "g"}}}
			add(l3, "async-column-passed-on-by-async-twice", "top")
			l4 := &Stmt{From: &From{K: "derived", Q: l3, Alias: "q3"}, Items: []Item{{E: &Expr{K: "call", Qual: "ASYNC", Name: "idf", Items: []*Expr{Col("q3", "g")}}, Alias: "h"}}}
			add(l4, "async-column-passed-on-by-async-three-times", "top")
		}
		// the ASYNC call directly in a row-scoped subquery over dual whose FROM is a derived table (no direct call in the middle query)
		mid := &Stmt{From: &From{K: "derived", Q: dualq(Col("<-", "n1")), Alias: "y"}, Items: []Item{{E: Col("y", "v"), Alias: "v"}}}
		add(&Stmt{From: &From{K: "table", Path: []string{"t"}}, Items: []Item{{E: Col("id")}, {E: &Expr{K: "sub", Q: mid}, Alias: "s"}}}, "dual-derived", "row-subquery")
		add(&Stmt{From: &From{K: "table", Path: []string{"t"}}, Items: []Item{{E: Col("id")}},
			Where: &Expr{K: "exists", Q: &Stmt{From: &From{K: "derived", Q: dualq(Num(1)), Alias: "y"}, Items: []Item{{Star: true}}}}}, "dual-derived", "exists")
	}
	return out
}

type propAsyncNesting struct{ propC12 }

func init() {
	register(propAsyncNesting{propC12{engineProp{id: "ASYNCNEST", checkFn: "EngineRun.check_c12", gen: genAsyncNesting,
		rule: "one ASYNC select item (with and without latency) inside every level-1 nesting (flat, 2- and 3-dimensional FROM, derived table re-projected or passed on with *, CTE, UNION side, join operand) x every level-2 nesting (top, derived, CTE, UNION side, row-scoped subquery); plus dual-in-derived under a row subquery / EXISTS; the raw result is type-walked (an unresolved slot is a leak) and compared with the model; each query runs twice"}}})
}
