package main

// C20 — SETVAR/GETVAR behave as per-key registers in evaluation order.
// A case is a document, the caller's variable map (or none), and 1-4 queries that are run one after
// the other with genql.WithVars(theSameMap).  Observable: per query the rows Exec returned (or the
// error class) and a snapshot of the caller's map right after it.  The Coq side runs Model/Vars.v
// on the same sequence and, independently, the register specification on the observation.

import (
	"encoding/json"
	"fmt"
	"strings"

	"github.com/vedadiyan/genql"
)

// a CASE branch: a call-free expression, or the call SETVAR(key, e)
type c20Branch struct {
	Set bool   `json:"set,omitempty"`
	Key *Expr  `json:"key,omitempty"`
	E   *Expr  `json:"e"`
	Fn  string `json:"fn,omitempty"`
}

type c20Arm struct {
	Cond *Expr     `json:"cond"`
	B    c20Branch `json:"b"`
}

func (b c20Branch) sql() string {
	if b.Set {
		fn := b.Fn
		if fn == "" {
			fn = "SETVAR"
		}
		return call(fn, b.Key, b.E).SQL()
	}
	return b.E.SQL()
}

func (b c20Branch) coq() string {
	if b.Set {
		return "(BSet " + b.Key.Coq() + " " + b.E.Coq() + ")"
	}
	return "(BExpr " + b.E.Coq() + ")"
}

type c20Item struct {
	K     string     `json:"k"`               // set | get | pure | case
	Whens []c20Arm   `json:"whens,omitempty"` // case: WHEN cond THEN branch ...
	Else  *c20Branch `json:"else,omitempty"`  // case: ELSE branch (nil = none)
	Key   *Expr      `json:"key,omitempty"`
	E     *Expr      `json:"e,omitempty"`
	Name  string     `json:"name,omitempty"`  // get/pure: output name (pure column without alias: the column)
	Alias bool       `json:"alias,omitempty"` // pure column item / set item: spell an alias
	Fn    string     `json:"fn,omitempty"`    // spelling of the function name (SETVAR, setvar, SetVar ...)
}

type c20Query struct {
	Table string    `json:"table"` // table of the document; "" = dual
	Where *Expr     `json:"where,omitempty"`
	Items []c20Item `json:"items"`
	// Limit / Offset (LimitComma: the `LIMIT off, n` spelling): a window over the rows the query returns. The variable
	// model (Model/Vars.v) has no LIMIT clause and is given the query WITHOUT it: a window selects among the rows
	// that were produced, it does not change which rows are evaluated, so the caller's map after the query — the
	// observable the model is compared with — is that of the unwindowed query. The rows are tied in two steps, see
	// Observe: the real engine also runs the unwindowed query from a copy of the same map; its rows go to the model,
	// provided the windowed rows are exactly rows[offset : offset+limit] of them.
	Limit      *int `json:"limit,omitempty"`
	Offset     *int `json:"offset,omitempty"`
	LimitComma bool `json:"limit_comma,omitempty"`
}

type c20In struct {
	Doc  map[string]any `json:"doc"`
	Mode string         `json:"mode"` // map | none (no WithVars) | nil (WithVars(nil))
	Vars map[string]any `json:"vars,omitempty"`
	Qs   []c20Query     `json:"qs"`
	SQL  []string       `json:"sql,omitempty"` // informational
	// Consts: the queries are also given constants (WithConstants) named like the variable keys, with other values,
	// and callbacks: variables and constants are separate name spaces, a key never set still reads NULL
	Consts bool `json:"consts,omitempty"`
}

func call(name string, args ...*Expr) *Expr { return &Expr{K: "call", Name: name, Items: args} }

func (it c20Item) sql() string {
	switch it.K {
	case "case":
		s := "CASE"
		for _, w := range it.Whens {
			s += " WHEN " + w.Cond.SQL() + " THEN " + w.B.sql()
		}
		if it.Else != nil {
			s += " ELSE " + it.Else.sql()
		}
		return s + " END AS " + sqlIdent(it.Name)
	case "set":
		s := call(it.fn("SETVAR"), it.Key, it.E).SQL()
		if it.Alias {
			s += " AS ignored"
		}
		return s
	case "get":
		return call(it.fn("GETVAR"), it.Key).SQL() + " AS " + sqlIdent(it.Name)
	default:
		if it.E.K == "col" && !it.Alias {
			return it.E.SQL()
		}
		return it.E.SQL() + " AS " + sqlIdent(it.Name)
	}
}

func (it c20Item) fn(def string) string {
	if it.Fn != "" {
		return it.Fn
	}
	return def
}

func (it c20Item) coq() string {
	switch it.K {
	case "case":
		ws := make([]string, len(it.Whens))
		for i, w := range it.Whens {
			ws[i] = "(" + w.Cond.Coq() + ", " + w.B.coq() + ")"
		}
		el := "None"
		if it.Else != nil {
			el = "(Some " + it.Else.coq() + ")"
		}
		return "(VCase " + coqList(ws) + " " + el + " " + coqStr(it.Name) + ")"
	case "set":
		return "(VSet " + it.Key.Coq() + " " + it.E.Coq() + ")"
	case "get":
		return "(VGet " + it.Key.Coq() + " " + coqStr(it.Name) + ")"
	default:
		return "(VPure " + it.E.Coq() + " " + coqStr(it.Name) + ")"
	}
}

func (q c20Query) sql() string {
	parts := make([]string, len(q.Items))
	for i, it := range q.Items {
		parts[i] = it.sql()
	}
	from := "dual"
	if q.Table != "" {
		from = sqlIdent(q.Table)
	}
	s := "SELECT " + strings.Join(parts, ", ") + " FROM " + from
	if q.Where != nil {
		s += " WHERE " + q.Where.SQL()
	}
	return s + (&Stmt{Limit: q.Limit, Offset: q.Offset, LimitComma: q.LimitComma}).limitSQL()
}

// c20Window is rows[offset : offset+limit] the way LIMIT / OFFSET cut a result (nothing when the offset is past the end)
func c20Window(rows []any, limit, offset *int) []any {
	off, n := 0, len(rows)
	if offset != nil {
		off = *offset
	}
	if limit != nil {
		n = *limit
	}
	if off >= len(rows) {
		return nil
	}
	if n > len(rows)-off {
		n = len(rows) - off
	}
	return rows[off : off+n]
}

func coqRow(m map[string]any) string {
	v := coqValue(m) // "(VObj [...])"
	return strings.TrimSuffix(strings.TrimPrefix(v, "(VObj "), ")")
}

func (q c20Query) coq(doc map[string]any) string {
	items := make([]string, len(q.Items))
	for i, it := range q.Items {
		items[i] = it.coq()
	}
	var rows []string
	if q.Table == "" {
		rows = []string{coqRow(doc)} // FROM dual: the document itself is the one current row
	} else if t, ok := doc[q.Table].([]any); ok {
		for _, r := range t {
			rows = append(rows, coqRow(r.(map[string]any)))
		}
	}
	return "(Build_query " + coqOptExpr(q.Where) + " " + coqList(items) + ", " + coqList(rows) + ")"
}

func coqVars(m map[string]any, present bool) string {
	if !present {
		return "None"
	}
	return "(Some " + coqRow(m) + ")"
}

// ---------- plug-in ----------

type propC20 struct{}

func init() { register(propC20{}) }

func (propC20) ID() string { return "C20" }
func (propC20) Imports() []string {
	return []string{"Base.Prelude", "Base.Value", "Model.Ast", "Model.Vars", "Run.C20Run"}
}
func (propC20) CheckFn() string        { return "C20Run.check" }
func (propC20) InputType() string      { return "C20Run.input" }
func (propC20) ObsType() string        { return "C20Run.obs" }
func (propC20) Exhaustive(string) bool { return false }
func (propC20) Rule() string {
	return "sequences of 1-4 queries sharing one caller map (empty or pre-populated; plus streams without WithVars / WithVars(nil)); each query: 1-5 select items (SETVAR / GETVAR / pure) over a 0-6 row table or dual, 1-3 literal keys plus keys taken from columns, values = literals, columns, arithmetic, counters SETVAR(k, GETVAR(k)+n1), copies, CASE; optional WHERE (pure or reading GETVAR('lim')); a systematic sweep of the SETVAR position x list length x row count; a look-alike stream (consecutive writes to one key of values that differ in kind but print the same under %v, across positions / rows / queries, compared type-exactly); two large tables (600 and 1100 rows: prev<-id chain and a counter); a window stream (LIMIT / OFFSET in both spellings, below / at / above the number of rows passing WHERE, over row- and history-dependent SETVARs; the model sees the query without its window, the real engine also runs it unwindowed and the windowed rows must be the window of those rows); observable = rows of every query and the caller's map after every query (also after a failing one); non-trivial = the sequence has a SETVAR and a GETVAR item, some query returned at least one row and the map changed; distinct = distinct (document, map, queries)"
}

func (propC20) Observe(raw json.RawMessage) (Observed, error) {
	var in c20In
	if err := json.Unmarshal(raw, &in); err != nil {
		return Observed{}, err
	}
	doc := deepCopy(in.Doc).(map[string]any)
	var vars map[string]any
	if in.Mode == "map" {
		vars = map[string]any{}
		for k, v := range in.Vars {
			vars[k] = deepCopy(v)
		}
	}
	initial := coqVars(vars, in.Mode == "map")
	before := fmt.Sprint(coqValue(vars))
	var obs, qs, sqls []string
	var notes []any
	tags := []string{"mode:" + in.Mode, fmt.Sprintf("queries:%d", len(in.Qs))}
	anyRows, sawErr := false, false
	for _, q := range in.Qs {
		sql := q.sql()
		sqls = append(sqls, sql)
		mkOpts := func(vars map[string]any) []genql.QueryOption {
			var opts []genql.QueryOption
			switch in.Mode {
			case "map":
				opts = append(opts, genql.WithVars(vars))
			case "nil":
				opts = append(opts, genql.WithVars(nil))
			}
			if in.Consts {
				cm := map[string]any{"lim": float64(-5), "": "empty"}
				for _, k := range c20Keys {
					cm[k] = "constant-of-" + k
				}
				for k := range in.Vars {
					cm[k] = float64(0.25)
				}
				opts = append(opts, genql.WithConstants(cm), genql.UnReportedErrors(func(error) {}), genql.CompletedCallback(func() {}))
			}
			return opts
		}
		var varsBefore map[string]any
		if q.Limit != nil && vars != nil {
			varsBefore = deepCopy(anyMapOrNil(vars)).(map[string]any)
		}
		out := runEngine(doc, sql, mkOpts(vars)...)
		var windowed any
		if q.Limit != nil {
			windowed = jsonSafe(anySlice(out.Rows))
			if q.Offset != nil && *q.Offset < 0 || *q.Limit < 0 {
				return Observed{}, fmt.Errorf("negative LIMIT / OFFSET")
			}
			// the same query without its window, from a copy of the map as it was: its rows are what the model is asked
			// about, once the windowed rows have been seen to be exactly their window. The map stays the windowed run's.
			tags = append(tags, "window:limit")
			if q.Offset != nil {
				tags = append(tags, "window:offset")
			}
			ref := q
			ref.Limit, ref.Offset = nil, nil
			all := runEngine(deepCopy(in.Doc).(map[string]any), ref.sql(), mkOpts(varsBefore)...)
			if out.Class == "ok" && all.Class == "ok" {
				if len(all.Rows) > len(out.Rows) {
					tags = append(tags, "window:cuts-rows")
				}
				if coqEngineObs(engineOut{Class: "ok", Rows: c20Window(all.Rows, q.Limit, q.Offset)}) == coqEngineObs(out) {
					out.Rows = all.Rows
				} else {
					// reported as a mismatch whatever the model says: no model row equals the marker
					tags = append(tags, "window:rows-are-not-the-window")
					out.Rows = append(append([]any{}, out.Rows...), "<<not the window of the unwindowed rows>>")
				}
			}
		}
		snap := deepCopy(anyMapOrNil(vars))
		store := "None"
		if in.Mode == "map" {
			store = "(Some " + coqRow(snap.(map[string]any)) + ")"
		}
		obs = append(obs, "("+coqEngineObs(out)+", "+store+")")
		qs = append(qs, q.coq(in.Doc))
		tags = append(tags, "outcome:"+out.Class)
		if out.Class == "ok" && len(out.Rows) > 0 {
			anyRows = true
		}
		if out.Class != "ok" {
			sawErr = true
		}
		note := map[string]any{"sql": sql, "class": out.Class, "err": out.Err,
			"rows": jsonSafe(anySlice(out.Rows)), "vars_after": jsonSafe(snap)}
		if q.Limit != nil {
			// "rows" are then the rows of the unwindowed run (what the model is asked about)
			note["rows_returned_with_the_window"] = windowed
		}
		notes = append(notes, note)
	}
	if sawErr {
		tags = append(tags, "seq:has-error")
	}
	changed := fmt.Sprint(coqValue(vars)) != before
	if changed {
		tags = append(tags, "map:changed")
	}
	coqIn := "(" + coqValue(anyMap(in.Doc)) + ", " + initial + ", " + coqList(qs) + ")"
	return Observed{CoqIn: coqIn, CoqObs: coqList(obs), Note: notes, Tags: tags,
		Trivial: !anyRows || !changed}, nil
}

func anyMapOrNil(m map[string]any) any {
	if m == nil {
		return nil
	}
	return m
}

// ---------- generator ----------

var c20Keys = []string{"k1", "k2", "k3"}

type c20Gen struct {
	r    *Rand
	tags map[string]bool
	lim  bool // the map has a numeric 'lim' that only ever receives numbers
}

func (g *c20Gen) tag(s string) { g.tags[s] = true }

func (g *c20Gen) key() *Expr {
	r := g.r
	switch p := r.Intn(100); {
	case p < 62:
		g.tag("key:literal")
		return Str(Pick(r, c20Keys))
	case p < 78:
		g.tag("key:str-column")
		return Col(Pick(r, []string{"s1", "s2"}))
	case p < 86:
		g.tag("key:num-column")
		return Col(Pick(r, []string{"n1", "id"}))
	case p < 91:
		g.tag("key:num-literal")
		return Num(float64(r.Intn(3)))
	case p < 94:
		g.tag("key:null")
		return &Expr{K: "null"}
	case p < 96:
		g.tag("key:bool")
		return &Expr{K: "bool", Bool: r.Bool()}
	case p < 98:
		g.tag("key:missing-column")
		return Col("nokey")
	default:
		g.tag("key:object-column")
		return Col("o")
	}
}

func (g *c20Gen) getvar(k *Expr) *Expr {
	return call(Pick(g.r, []string{"GETVAR", "GETVAR", "getvar", "GetVar"}), k)
}

// a value expression; may read the store
func (g *c20Gen) value(self *Expr, allowErr bool) *Expr {
	r := g.r
	numcol := func() *Expr { return Col(Pick(r, []string{"n1", "n2", "id"})) }
	switch p := r.Intn(100); {
	case p < 10:
		g.tag("val:num-literal")
		return Num(Pick(r, numPool))
	case p < 15:
		if r.Chance(40) {
			g.tag("val:str-literal-lookalike")
			return Str(Pick(r, []string{"0", "1", "2", "5", "10", "-1", "0.5", "true", "false", "<nil>"}))
		}
		g.tag("val:str-literal")
		return Str(Pick(r, strPool))
	case p < 18:
		g.tag("val:null/bool-literal")
		if r.Bool() {
			return &Expr{K: "null"}
		}
		return &Expr{K: "bool", Bool: r.Bool()}
	case p < 32:
		g.tag("val:num-column")
		return numcol()
	case p < 38:
		g.tag("val:str-column")
		return Col(Pick(r, []string{"s1", "s2"}))
	case p < 42:
		g.tag("val:other-column")
		return Col(Pick(r, []string{"b1", "z", "o", "missing"}))
	case p < 46:
		g.tag("val:nested-column")
		return Col("o", "p", "q")
	case p < 56:
		g.tag("val:arith")
		return Bin(Pick(r, []string{"+", "-", "*"}), numcol(), Pick(r, []*Expr{numcol(), Num(float64(r.Intn(4)))}))
	case p < 74:
		g.tag("val:counter")
		return Bin(Pick(r, []string{"+", "+", "-", "*"}), g.getvar(self), Pick(r, []*Expr{numcol(), Num(1), Num(float64(r.Intn(3) + 1))}))
	case p < 80:
		g.tag("val:copy")
		return g.getvar(Str(Pick(r, c20Keys)))
	case p < 86:
		g.tag("val:two-reads")
		return Bin("+", g.getvar(Str(Pick(r, c20Keys))), g.getvar(Str(Pick(r, c20Keys))))
	case p < 92:
		g.tag("val:case")
		return &Expr{K: "case", Whens: [][2]*Expr{{Cmp(Pick(r, cmpOps), numcol(), Num(float64(r.Intn(4)))), numcol()}}, Else: g.getvar(self)}
	case p < 95:
		g.tag("val:comparison")
		return Cmp(Pick(r, cmpOps), numcol(), numcol())
	default:
		if allowErr {
			switch r.Intn(4) {
			case 0:
				g.tag("val:err-string-arith")
				return Bin("+", Col(Pick(r, []string{"s1", "s2"})), Num(1))
			case 1:
				g.tag("val:err-getvar-arity0")
				return call("GETVAR")
			case 2:
				g.tag("val:err-getvar-arity2")
				return call("GETVAR", Str("k1"), Str("k2"))
			default:
				g.tag("val:err-row-dependent")
				// fails only on rows whose n1 is not above the constant: CASE falls to a string sum
				return &Expr{K: "case", Whens: [][2]*Expr{{Cmp(">", Col("n1"), Num(Pick(r, numPool))), Col("n1")}}, Else: Bin("+", Col("s1"), Num(1))}
			}
		}
		g.tag("val:num-column")
		return numcol()
	}
}

func (g *c20Gen) pure(i int) c20Item {
	r := g.r
	switch r.Intn(4) {
	case 0:
		c := Pick(r, []string{"id", "n1", "s1", "b1", "z"})
		g.tag("pure:column")
		return c20Item{K: "pure", E: Col(c), Name: c}
	case 1:
		g.tag("pure:column-alias")
		return c20Item{K: "pure", E: Col(Pick(r, []string{"id", "n1", "s1"})), Name: fmt.Sprintf("c%d", i), Alias: true}
	case 2:
		g.tag("pure:arith")
		return c20Item{K: "pure", E: Bin(Pick(r, []string{"+", "*"}), Col("id"), Num(float64(r.Intn(3)))), Name: fmt.Sprintf("c%d", i)}
	default:
		g.tag("pure:literal")
		return c20Item{K: "pure", E: Pick(r, []*Expr{Num(7), Str("lit"), {K: "null"}}), Name: fmt.Sprintf("c%d", i)}
	}
}

// a CASE condition: pure, or reading the store
func (g *c20Gen) cond(allowErr bool) *Expr {
	r := g.r
	numcol := func() *Expr { return Col(Pick(r, []string{"n1", "n2", "id"})) }
	switch p := r.Intn(100); {
	case p < 40:
		g.tag("cond:pure-cmp")
		return Cmp(Pick(r, cmpOps), numcol(), Num(Pick(r, numPool)))
	case p < 60:
		g.tag("cond:getvar-is-null")
		return &Expr{K: "is", Op: Pick(r, []string{"NULL", "NOT NULL"}), A: g.getvar(Str(Pick(r, c20Keys)))}
	case p < 82:
		g.tag("cond:getvar-cmp")
		return Cmp(Pick(r, cmpOps), g.getvar(Str(Pick(r, c20Keys))), Pick(r, []*Expr{numcol(), Num(Pick(r, numPool))}))
	case p < 88:
		g.tag("cond:bool-literal")
		return &Expr{K: "bool", Bool: r.Bool()}
	case p < 92:
		g.tag("cond:str-eq")
		return Cmp("=", Col("s1"), Col("s2"))
	default:
		if allowErr {
			switch r.Intn(4) {
			case 0:
				g.tag("cond:err-bool-column")
				return Col("b1")
			case 1:
				g.tag("cond:err-getvar-raw")
				return g.getvar(Str(Pick(r, c20Keys)))
			case 2:
				g.tag("cond:err-null")
				return &Expr{K: "null"}
			default:
				g.tag("cond:err-string-arith")
				return Cmp(">", Bin("+", Col("s1"), Num(1)), Num(0))
			}
		}
		g.tag("cond:pure-cmp")
		return Cmp(Pick(r, cmpOps), numcol(), numcol())
	}
}

func (g *c20Gen) branch(allowErr bool, wantSet bool) c20Branch {
	r := g.r
	if wantSet {
		k := g.key()
		g.tag("branch:set")
		return c20Branch{Set: true, Key: k, E: g.value(k, allowErr), Fn: Pick(r, []string{"", "", "setvar", "SetVar"})}
	}
	g.tag("branch:expr")
	switch r.Intn(5) {
	case 0:
		return c20Branch{E: Col(Pick(r, []string{"id", "n1", "s1", "b1", "z"}))}
	case 1:
		return c20Branch{E: Bin(Pick(r, []string{"+", "*"}), Col("id"), Num(float64(r.Intn(3))))}
	case 2:
		return c20Branch{E: Pick(r, []*Expr{Num(7), Str("lit"), {K: "null"}, {K: "bool", Bool: true}})}
	case 3:
		if allowErr {
			g.tag("branch:expr-err")
			return c20Branch{E: Bin("+", Col("s1"), Num(1))}
		}
		return c20Branch{E: Col("o", "p", "q")}
	default:
		return c20Branch{E: Col(Pick(r, []string{"n2", "s2"}))}
	}
}

func (g *c20Gen) caseItem(i int, allowErr bool) c20Item {
	r := g.r
	it := c20Item{K: "case", Name: fmt.Sprintf("w%d", i)}
	if r.Chance(10) && i > 0 {
		it.Name = fmt.Sprintf("g%d", i-1)
		g.tag("case:name-clash")
	}
	arms := 1
	if r.Chance(30) {
		arms = r.Range(2, 3)
	}
	g.tag(fmt.Sprintf("case:arms%d", arms))
	anySet := false
	for a := 0; a < arms; a++ {
		set := r.Chance(60)
		anySet = anySet || set
		it.Whens = append(it.Whens, c20Arm{Cond: g.cond(allowErr), B: g.branch(allowErr, set)})
	}
	switch p := r.Intn(100); {
	case p < 20:
		g.tag("case:no-else")
	default:
		set := !anySet || r.Chance(35)
		b := g.branch(allowErr, set)
		it.Else = &b
		if set {
			g.tag("case:else-set")
		} else {
			g.tag("case:else-expr")
		}
	}
	return it
}

func (g *c20Gen) query(tables []string, allowErr bool) c20Query {
	r := g.r
	q := c20Query{Table: Pick(r, tables)}
	if r.Chance(6) {
		q.Table = ""
		g.tag("from:dual")
	}
	n := r.Range(1, 5)
	hasSet, hasGet := false, false
	for i := 0; i < n; i++ {
		switch p := r.Intn(100); {
		case p < 42:
			k := g.key()
			it := c20Item{K: "set", Key: k, E: g.value(k, allowErr), Fn: Pick(r, []string{"", "", "setvar", "SetVar"}), Alias: r.Chance(10)}
			if it.Alias {
				g.tag("set:aliased")
			}
			q.Items = append(q.Items, it)
			hasSet = true
		case p < 84:
			name := fmt.Sprintf("g%d", i)
			if r.Chance(8) && i > 0 {
				name = fmt.Sprintf("g%d", i-1) // duplicate output name: the later item wins
				g.tag("names:duplicate")
			}
			q.Items = append(q.Items, c20Item{K: "get", Key: g.key(), Name: name, Fn: Pick(r, []string{"", "", "getvar", "GetVar"})})
			hasGet = true
		default:
			q.Items = append(q.Items, g.pure(i))
		}
	}
	if hasSet && !hasGet {
		g.tag("list:set-without-get")
	}
	onlySets := true
	for _, it := range q.Items {
		if it.K != "set" {
			onlySets = false
		}
	}
	if onlySets {
		g.tag("list:only-setvar")
	}
	g.tag(fmt.Sprintf("items:%d", n))
	if q.Table != "" {
		switch p := r.Intn(100); {
		case p < 62:
			g.tag("where:none")
		case p < 78:
			g.tag("where:pure")
			q.Where = Cmp(Pick(r, cmpOps), Col(Pick(r, []string{"id", "n1"})), Num(float64(r.Intn(5))))
		default:
			if g.lim {
				g.tag("where:getvar")
				q.Where = Cmp(Pick(r, cmpOps), Col(Pick(r, []string{"id", "n1"})), g.getvar(Str("lim")))
				if r.Bool() {
					// and move the limit inside the same query: WHERE must not see it
					g.tag("where:getvar+setvar-same-key")
					q.Items = append(q.Items, c20Item{K: "set", Key: Str("lim"),
						E: Pick(r, []*Expr{Num(float64(r.Intn(5))), Bin("+", g.getvar(Str("lim")), Num(1)), Col("id")})})
				}
			} else {
				g.tag("where:none")
			}
		}
	}
	if q.Table != "" && r.Chance(10) {
		g.tag("window:random")
		l := r.Intn(5)
		q.Limit = &l
		if r.Bool() {
			o := r.Intn(4)
			q.Offset = &o
			q.LimitComma = r.Bool()
		}
	}
	return q
}

func c20InitialVars(r *Rand, g *c20Gen) map[string]any {
	m := map[string]any{}
	if r.Chance(35) {
		g.tag("init:empty")
		return m
	}
	g.tag("init:populated")
	for _, k := range c20Keys {
		if r.Chance(60) {
			m[k] = Pick(r, []any{0.0, 1.0, 5.0, -2.0, 0.5, "txt", nil, true, 10.0})
		}
	}
	if r.Chance(60) {
		m["lim"] = float64(r.Intn(5))
		g.lim = true
	}
	if r.Chance(20) {
		m["untouched"] = map[string]any{"deep": []any{1.0, "x"}}
	}
	if r.Chance(20) {
		m[Pick(r, strPool)] = Pick(r, numPool) // may coincide with a key taken from a string column
	}
	return m
}

func genC20(r *Rand, tier string) []Case {
	n := 1100
	if tier == "thorough" {
		n = 11000
	}
	var out []Case
	mk := func(in c20In, tags map[string]bool, nontrivial bool) {
		for _, q := range in.Qs {
			in.SQL = append(in.SQL, q.sql())
		}
		var ts []string
		for t := range tags {
			ts = append(ts, t)
		}
		sortStrings(ts)
		if in.Mode == "map" && len(out)%4 == 3 {
			in.Consts = true
			ts = append(ts, "options:constants-named-like-keys")
		}
		out = append(out, Case{Input: in, Tags: ts, Nontrivial: nontrivial})
	}
	// (1) systematic sweep: one key, SETVAR at every position of lists of every length, every row count
	for rows := 0; rows <= 6; rows++ {
		for n := 1; n <= 5; n++ {
			for pos := 0; pos < n; pos++ {
				t := genTable(r, 0)
				t.rows = nil
				for i := 0; i < rows; i++ {
					t.rows = append(t.rows, map[string]any{"id": float64(i + 1), "n1": Pick(r, numPool), "s1": Pick(r, []string{"a", "b"})})
				}
				var items []c20Item
				for i := 0; i < n; i++ {
					if i == pos {
						val := Pick(r, []*Expr{Col("id"), Bin("+", call("GETVAR", Str("k1")), Col("id")), Bin("*", Col("id"), Num(10))})
						items = append(items, c20Item{K: "set", Key: Str("k1"), E: val})
					} else {
						items = append(items, c20Item{K: "get", Key: Str("k1"), Name: fmt.Sprintf("g%d", i)})
					}
				}
				rowsAny := make([]any, len(t.rows))
				copy(rowsAny, t.rows)
				in := c20In{Doc: map[string]any{"t": rowsAny}, Mode: "map", Vars: map[string]any{"k1": 100.0},
					Qs: []c20Query{{Table: "t", Items: items}, {Table: "t", Items: []c20Item{{K: "get", Key: Str("k1"), Name: "after"}}}}}
				mk(in, map[string]bool{"stream:sweep": true, fmt.Sprintf("sweep:pos%d/%d", pos, n): true, fmt.Sprintf("tablerows:%d", rows): true}, rows > 0 && n > 1)
			}
		}
	}
	// (1b) failure stream: a query that fails half-way (value, key, WHERE, arity) between a query
	// that fills the registers and one that reads them back
	failKinds := []string{"string-arith", "getvar-arity0", "getvar-arity2", "row-dependent", "key-path", "where", "get-key-path"}
	reps := 18
	if tier == "thorough" {
		reps = 120
	}
	for _, kind := range failKinds {
		for rep := 0; rep < reps; rep++ {
			g := &c20Gen{r: r, tags: map[string]bool{"stream:failure": true, "fail:" + kind: true}}
			t := genTable(r, 6)
			doc := map[string]any{"t": t.rows}
			setup := c20Query{Table: "t"}
			for _, k := range c20Keys {
				if r.Chance(70) {
					setup.Items = append(setup.Items, c20Item{K: "set", Key: Str(k), E: g.value(Str(k), false)})
				}
			}
			setup.Items = append(setup.Items, c20Item{K: "get", Key: Str("k1"), Name: "g"})
			bad := c20Query{Table: "t"}
			nb := r.Range(1, 4)
			at := r.Intn(nb)
			if r.Chance(60) {
				nb = r.Range(2, 4)
				at = nb - 1
			}
			for i := 0; i < nb; i++ {
				if i != at {
					k := g.key()
					if r.Chance(70) {
						bad.Items = append(bad.Items, c20Item{K: "set", Key: k, E: g.value(k, false)})
					} else {
						bad.Items = append(bad.Items, c20Item{K: "get", Key: k, Name: fmt.Sprintf("g%d", i)})
					}
					continue
				}
				switch kind {
				case "string-arith":
					bad.Items = append(bad.Items, c20Item{K: "set", Key: Str("k2"), E: Bin("+", Col("s1"), Num(1))})
				case "getvar-arity0":
					bad.Items = append(bad.Items, c20Item{K: "set", Key: Str("k2"), E: call("GETVAR")})
				case "getvar-arity2":
					bad.Items = append(bad.Items, c20Item{K: "set", Key: Str("k2"), E: call("GETVAR", Str("k1"), Str("k2"))})
				case "row-dependent":
					bad.Items = append(bad.Items, c20Item{K: "set", Key: Str("k2"),
						E: &Expr{K: "case", Whens: [][2]*Expr{{Cmp("<=", Col("id"), Num(float64(r.Intn(5)))), Col("id")}}, Else: Bin("+", Col("s1"), Num(1))}})
				case "key-path":
					bad.Items = append(bad.Items, c20Item{K: "set", Key: Col("s1", "x"), E: Num(1)})
				case "get-key-path":
					bad.Items = append(bad.Items, c20Item{K: "get", Key: Col("s1", "x"), Name: "bad"})
				case "where":
					bad.Items = append(bad.Items, c20Item{K: "set", Key: Str("k2"), E: Col("id")})
					bad.Where = Cmp(">", Bin("+", Col("s1"), Num(1)), Num(2))
				}
			}
			after := c20Query{Table: "t", Items: []c20Item{{K: "get", Key: Str("k1"), Name: "a1"}, {K: "get", Key: Str("k2"), Name: "a2"}, {K: "get", Key: Str("k3"), Name: "a3"}}}
			g.tag(fmt.Sprintf("tablerows:%d", len(t.rows)))
			mk(c20In{Doc: doc, Mode: "map", Vars: c20InitialVars(r, g), Qs: []c20Query{setup, bad, after}}, g.tags, len(t.rows) > 0)
		}
	}
	// (1c) look-alike values: consecutive writes to ONE key whose values differ in kind but print
	// the same under %v (1 / '1', TRUE / 'true', NULL / '<nil>', [1 2] / '[1 2]', map / its text),
	// across select-list positions, across rows and across queries, each followed by a GETVAR.
	// Rows and map are compared type-exactly (VNum / VStr / VBool / VNull / VArr / VObj).
	type pair struct {
		name string
		a, b *Expr // same text, different kind
		ga   any   // Go value of a (for pre-populated maps and mixed columns)
		gb   any
	}
	nul := func() *Expr { return &Expr{K: "null"} }
	boolE := func(b bool) *Expr { return &Expr{K: "bool", Bool: b} }
	pairs := []pair{
		{"num1", Num(1), Str("1"), 1.0, "1"},
		{"num7", Num(7), Str("7"), 7.0, "7"},
		{"num0", Num(0), Str("0"), 0.0, "0"},
		{"frac", Num(0.5), Str("0.5"), 0.5, "0.5"},
		{"neg", Num(-2), Str("-2"), -2.0, "-2"},
		{"true", boolE(true), Str("true"), true, "true"},
		{"false", boolE(false), Str("false"), false, "false"},
		{"null", nul(), Str("<nil>"), nil, "<nil>"},
		{"array", Col("arr"), Str("[1 2]"), []any{1.0, 2.0}, "[1 2]"},
		{"object", Col("ob"), Str("map[a:1]"), map[string]any{"a": 1.0}, "map[a:1]"},
		{"arith", Bin("+", Col("id"), Num(0)), Col("ids"), nil, nil}, // id+0 (number) vs the column holding its text
	}
	lreps := 2
	if tier == "thorough" {
		lreps = 12
	}
	for _, pr := range pairs {
		for _, swap := range []bool{false, true} {
			a, b, ga, gb := pr.a, pr.b, pr.ga, pr.gb
			if swap {
				a, b, ga, gb = b, a, gb, ga
			}
			for rep := 0; rep < lreps; rep++ {
				nrows := r.Range(1, 4)
				var rows []any
				for i := 0; i < nrows; i++ {
					row := map[string]any{"id": float64(i + 1), "ids": fmt.Sprintf("%d", i+1), "arr": []any{1.0, 2.0}, "ob": map[string]any{"a": 1.0}}
					// a column that alternates the two kinds from row to row
					if pr.ga != nil || pr.name == "null" {
						if i%2 == 0 {
							row["mix"] = ga
						} else {
							row["mix"] = gb
						}
					}
					rows = append(rows, row)
				}
				doc := map[string]any{"t": rows}
				k := Str(Pick(r, c20Keys))
				get := func(n string) c20Item { return c20Item{K: "get", Key: k, Name: n} }
				set := func(e *Expr) c20Item { return c20Item{K: "set", Key: k, E: e} }
				tagsFor := func(place string) map[string]bool {
					return map[string]bool{"stream:lookalike": true, "look:" + pr.name: true, "look:place-" + place: true, fmt.Sprintf("look:swap-%v", swap): true}
				}
				// positions within one row (and, with several rows, b of row i then a of row i+1)
				mk(c20In{Doc: doc, Mode: "map", Vars: map[string]any{}, Qs: []c20Query{
					{Table: "t", Items: []c20Item{set(a), get("g1"), set(b), get("g2")}},
					{Table: "t", Items: []c20Item{get("after")}}}}, tagsFor("positions"), true)
				// across queries sharing the map; the first value may also come from the caller
				vars := map[string]any{}
				q1 := []c20Query{{Table: "t", Items: []c20Item{set(a), get("g1")}}}
				if pr.name != "arith" && r.Bool() {
					vars[k.Str] = ga
					q1 = nil
				}
				mk(c20In{Doc: doc, Mode: "map", Vars: vars, Qs: append(q1,
					c20Query{Table: "t", Items: []c20Item{get("before"), set(b), get("g2")}},
					c20Query{Table: "t", Items: []c20Item{get("after")}},
					c20Query{Table: "t", Items: []c20Item{set(a)}},
					c20Query{Table: "t", Items: []c20Item{get("last")}})}, tagsFor("queries"), true)
				// across rows: the written value alternates in kind from row to row
				if pr.ga != nil || pr.name == "null" {
					mk(c20In{Doc: doc, Mode: "map", Vars: map[string]any{}, Qs: []c20Query{
						{Table: "t", Items: []c20Item{get("prev"), set(Col("mix")), get("seen")}},
						{Table: "t", Items: []c20Item{get("after")}}}}, tagsFor("rows"), nrows > 1)
				}
			}
		}
	}
	// (1e) windows: LIMIT / OFFSET (both spellings) smaller than, equal to and larger than the number of rows that pass
	// WHERE, over select lists whose SETVAR values depend on the row (last id) or on the history (a counter, a running
	// sum, the previous row's id): every row that passes WHERE is evaluated, in source order, whether or not the window
	// keeps it; a later query over the same map (windowed itself) reads the last values
	wreps := 1
	if tier == "thorough" {
		wreps = 8
	}
	for rep := 0; rep < wreps; rep++ {
		for nrows := 1; nrows <= 5; nrows++ {
			for lim := 0; lim <= nrows+1; lim++ {
				for _, off := range []int{-1, 0, 1, nrows - 1, nrows + 1} {
					if off > nrows+1 || (off == nrows-1 && off <= 1) {
						continue
					}
					rows := make([]any, nrows)
					for i := range rows {
						rows[i] = map[string]any{"id": float64(i + 1), "n1": Pick(r, numPool), "s1": Pick(r, []string{"a", "b"})}
					}
					items := []c20Item{{K: "pure", E: Col("id"), Name: "id"}}
					for _, it := range []c20Item{
						{K: "set", Key: Str("last"), E: Col("id")},
						{K: "set", Key: Str("n"), E: &Expr{K: "case", Whens: [][2]*Expr{{&Expr{K: "is", Op: "NULL", A: call("GETVAR", Str("n"))}, Num(1)}}, Else: Bin("+", call("GETVAR", Str("n")), Num(1))}},
						{K: "get", Key: Str("last"), Name: "seen"},
						{K: "set", Key: Str("sum"), E: Bin("+", call("GETVAR", Str("sum")), Col("n1"))},
						{K: "get", Key: Str("n"), Name: "cnt"},
						{K: "set", Key: Col("s1"), E: Col("id")},
					} {
						if r.Chance(55) {
							items = append(items, it)
						}
					}
					if len(items) == 1 {
						items = append(items, c20Item{K: "set", Key: Str("last"), E: Col("id")})
					}
					l := lim
					q := c20Query{Table: "t", Items: items, Limit: &l}
					if off >= 0 {
						o := off
						q.Offset = &o
						q.LimitComma = r.Bool()
					}
					if r.Chance(25) {
						q.Where = Cmp(Pick(r, []string{">", "<=", "!="}), Col("id"), Num(float64(r.Intn(nrows+1))))
					}
					one := 1
					after := c20Query{Table: "t", Items: []c20Item{{K: "get", Key: Str("last"), Name: "last"}, {K: "get", Key: Str("n"), Name: "n"},
						{K: "get", Key: Str("sum"), Name: "sum"}, {K: "get", Key: Str("a"), Name: "a"}}}
					if r.Bool() {
						after.Limit = &one
					}
					mk(c20In{Doc: map[string]any{"t": rows}, Mode: "map", Vars: map[string]any{"sum": 0.0}, Qs: []c20Query{q, after}},
						map[string]bool{"stream:window": true, fmt.Sprintf("tablerows:%d", nrows): true,
							fmt.Sprintf("window:limit%s", map[bool]string{true: "<rows", false: ">=rows"}[lim < nrows]): true}, nrows > 1)
				}
			}
		}
	}
	// (1d) large tables: the evaluation order must hold at any size (a chain prev <- id and a counter)
	for _, nrows := range []int{600, 1100} {
		rows := make([]any, nrows)
		for i := range rows {
			rows[i] = map[string]any{"id": float64(i + 1)}
		}
		items := []c20Item{{K: "get", Key: Str("p"), Name: "prev"}, {K: "set", Key: Str("p"), E: Col("id")},
			{K: "set", Key: Str("c"), E: Bin("+", call("GETVAR", Str("c")), Num(1))}}
		if nrows > 1000 {
			items = append(items, c20Item{K: "get", Key: Str("c"), Name: "n"})
		}
		mk(c20In{Doc: map[string]any{"t": rows}, Mode: "map", Vars: map[string]any{"c": 0.0},
			Qs: []c20Query{{Table: "t", Items: items}}},
			map[string]bool{"stream:large": true, fmt.Sprintf("size:%d", nrows): true}, true)
	}
	// (2) random sequences
	for i := 0; i < n; i++ {
		g := &c20Gen{r: r, tags: map[string]bool{}}
		mode := "map"
		switch p := r.Intn(100); {
		case p < 6:
			mode = "none"
		case p < 9:
			mode = "nil"
		}
		var vars map[string]any
		if mode == "map" {
			vars = c20InitialVars(r, g)
		}
		t, u := genTable(r, 6), genTable(r, 4)
		doc := map[string]any{"t": t.rows, "u": u.rows}
		g.tag(fmt.Sprintf("tablerows:%d", len(t.rows)))
		nq := r.Range(1, 4)
		allowErr := r.Chance(25)
		if allowErr {
			g.tag("stream:may-fail")
		} else {
			g.tag("stream:valid")
		}
		var qs []c20Query
		hasSet, hasGet := false, false
		for j := 0; j < nq; j++ {
			q := g.query([]string{"t", "t", "u"}, allowErr)
			for _, it := range q.Items {
				hasSet = hasSet || it.K == "set"
				hasGet = hasGet || it.K == "get"
			}
			qs = append(qs, q)
		}
		mk(c20In{Doc: doc, Mode: mode, Vars: vars, Qs: qs}, g.tags, hasSet && hasGet && mode == "map")
	}
	// (3) CASE items whose branches are SETVAR calls, among the other item forms
	nc := 700
	if tier == "thorough" {
		nc = 7000
	}
	for i := 0; i < nc; i++ {
		g := &c20Gen{r: r, tags: map[string]bool{"stream:case": true}}
		mode := "map"
		if r.Chance(6) {
			mode = "none"
		}
		var vars map[string]any
		if mode == "map" {
			vars = c20InitialVars(r, g)
		}
		t, u := genTable(r, 6), genTable(r, 4)
		doc := map[string]any{"t": t.rows, "u": u.rows}
		g.tag(fmt.Sprintf("tablerows:%d", len(t.rows)))
		allowErr := r.Chance(25)
		nq := r.Range(1, 3)
		var qs []c20Query
		for j := 0; j < nq; j++ {
			q := g.query([]string{"t", "t", "u"}, allowErr)
			// replace / insert 1-2 CASE items
			for c := r.Range(1, 2); c > 0; c-- {
				pos := r.Intn(len(q.Items) + 1)
				it := g.caseItem(pos, allowErr)
				items := append([]c20Item{}, q.Items[:pos]...)
				items = append(items, it)
				q.Items = append(items, q.Items[pos:]...)
			}
			qs = append(qs, q)
		}
		qs = append(qs, c20Query{Table: "t", Items: []c20Item{{K: "get", Key: Str("k1"), Name: "a1"}, {K: "get", Key: Str("k2"), Name: "a2"}, {K: "get", Key: Str("k3"), Name: "a3"}}})
		mk(c20In{Doc: doc, Mode: mode, Vars: vars, Qs: qs}, g.tags, mode == "map")
	}
	return out
}

func (propC20) Generate(r *Rand, tier string) []Case { return genC20(r, tier) }
