package main

// r4_defects.go — streams for four defects of the clean library that a round-4 mutation agent ran into while probing
// (D72..D75; repaired by fix: commits). Each is a CLASS of queries the matrices did not reach:
//   C04: a join whose operands are BOTH derived tables (each alone was covered);
//   C12: a value tuple nested in a value tuple; FUSE over a row-scoped `SELECT * FROM dual`; a star over the aliased
//        backward reference (FROM `<-` x) while a WITH clause is in scope.

import "fmt"

func init() {
	extraStreams["C04"] = append(extraStreams["C04"], genC04Derived)
	extraStreams["C12"] = append(extraStreams["C12"], genC12Round4)
}

func genC04Derived(r *Rand, tier string) []Case {
	n := 8
	if tier == "thorough" {
		n = 60
	}
	var out []Case
	for i := 0; i < n; i++ {
		lcols := []string{"k", "z"}
		rcols := []string{"m", "b"}
		doc := map[string]any{"l": genJoinTable(r, 5, lcols, "ls", false), "r": genJoinTable(r, 5, rcols, "rs", false)}
		var ontags []string
		on := genOn(r, "x", "y", lcols, rcols, "ls", "rs", &ontags)
		operand := func(tbl, alias string, kind int) *From {
			switch kind {
			case 0:
				return &From{K: "table", Path: []string{tbl}, Alias: alias}
			case 1:
				return &From{K: "derived", Alias: alias, Q: &Stmt{From: &From{K: "table", Path: []string{tbl}}, Items: []Item{{Star: true}}}}
			default:
				return &From{K: "derived", Alias: alias, Q: &Stmt{From: &From{K: "table", Path: []string{tbl}}, Items: []Item{{Star: true}},
					Where: Cmp(">=", Col("rid"), Num(float64(r.Intn(3))))}}
			}
		}
		for _, kinds := range [][2]int{{1, 1}, {2, 1}, {1, 2}, {2, 2}, {1, 0}, {0, 2}} {
			jt := Pick(r, []string{"inner", "left", "right"})
			st := Pick(r, []string{"auto", "hash", "parallel", "parallelhash"})
			from := &From{K: "join", JT: jt, Strat: st, L: operand("l", "x", kinds[0]), R: operand("r", "y", kinds[1]), On: on}
			q := &Stmt{From: from, Items: []Item{{Star: true}}}
			tags := append([]string{"type:" + jt, "strategy:" + st, fmt.Sprintf("operands:derived-%d-%d", kinds[0], kinds[1])}, ontags...)
			out = append(out, mkCase(doc, q, tags, true))
		}
	}
	return out
}

func genC12Round4(r *Rand, tier string) []Case {
	rounds := 1
	if tier == "thorough" {
		rounds = 10
	}
	var out []Case
	for round := 0; round < rounds; round++ {
		t := genTable(r, 4)
		for len(t.rows) < 2 {
			t = genTable(r, 4)
		}
		doc := map[string]any{"t": t.rows, "u": genTable(r, 3).rows}
		base := func() *Stmt { return &Stmt{From: &From{K: "table", Path: []string{"t"}}} }
		add := func(q *Stmt, form, pos string) {
			c := mkCase(doc, q, []string{"form:" + form, "pos:" + pos}, true)
			in := c.Input.(engIn)
			in.Repeat = 2
			c.Input = in
			c.Key = form + "|" + pos + "|" + fmt.Sprint(round)
			out = append(out, c)
		}
		arith := Bin("+", Col("n1"), Num(1))
		nullArith := Bin("+", Col("n1"), Col("z"))
		tuple := func(items ...*Expr) *Expr { return &Expr{K: "tuple", Items: items} }
		nested := map[string]*Expr{
			"tuple-in-tuple":        tuple(tuple(arith, Str("s")), Col("id")),
			"tuple-in-tuple-last":   tuple(Col("id"), tuple(Str("s"), arith)),
			"tuple-depth-3":         tuple(tuple(tuple(arith), Col("s1")), Str("x")),
			"tuple-in-tuple-null":   tuple(tuple(nullArith, Col("id")), Col("id")),
			"tuple-of-plain-tuples": tuple(tuple(Col("id"), Col("s1")), tuple(Col("n1"))),
		}
		for name, f := range nested {
			q := base()
			q.Items = []Item{{E: Col("id")}, {E: f, Alias: "v"}}
			add(q, name, "select-item")
			q = base()
			q.Items = []Item{{E: &Expr{K: "call", Name: "idf", Items: []*Expr{f}}, Alias: "v"}}
			add(q, name, "function-argument")
			q = base()
			q.Items = []Item{{E: &Expr{K: "case", Whens: [][2]*Expr{{Cmp(">", Col("id"), Num(1)), f}}, Else: f}, Alias: "v"}}
			add(q, name, "case-branch")
		}
		// D76 (known finding, not repaired: what an effect-only call or FUSE means inside a tuple is not documented):
		// the omit / fuse marker of such a member stays in the array. The signature tag marks exactly these forms.
		for name, f := range map[string]*Expr{
			"tuple-spin-member":      tuple(&Expr{K: "call", Qual: "SPIN", Name: "idf", Items: []*Expr{Col("n1")}}, Num(1)),
			"tuple-spinasync-member": tuple(Col("id"), &Expr{K: "call", Qual: "SPINASYNC", Name: "idf", Items: []*Expr{Col("n1")}}),
			"tuple-fuse-member":      tuple(&Expr{K: "call", Name: "FUSE", Items: []*Expr{Col("o")}}, Num(1)),
		} {
			q := base()
			q.Items = []Item{{E: Col("id")}, {E: f, Alias: "v"}}
			c := mkCase(doc, q, []string{"form:" + name, "pos:select-item", "tuple.marker-member"}, true)
			c.Key = name + "|" + fmt.Sprint(round)
			out = append(out, c)
		}
		// a hash join on TWO column pairs, repeated: the same rows on every run (the key text is built in one fixed
		// column order for every row of both sides)
		{
			jdoc := map[string]any{"l": genJoinTable(r, 5, []string{"k", "z"}, "ls", false), "r": genJoinTable(r, 5, []string{"m", "b"}, "rs", false)}
			for _, row := range jdoc["l"].([]any) {
				m := row.(map[string]any)
				jdoc["r"] = append(jdoc["r"].([]any), map[string]any{"rid": 90.0 + m["rid"].(float64), "m": m["k"], "b": m["z"], "rs": m["ls"], "o": m["o"]})
			}
			on := And(Cmp("=", Col("x", "k"), Col("y", "m")), Cmp("=", Col("y", "rs"), Col("x", "ls")))
			for _, st := range []string{"auto", "hash"} { // (PARALLEL variants may legitimately return the rows in another order)
				jq := &Stmt{From: &From{K: "join", JT: Pick(r, []string{"inner", "left", "right"}), Strat: st,
					L: &From{K: "table", Path: []string{"l"}, Alias: "x"}, R: &From{K: "table", Path: []string{"r"}, Alias: "y"}, On: on}, Items: []Item{{Star: true}}}
				c := mkCase(jdoc, jq, []string{"form:join", "pos:two-column-hash-join-repeated"}, true)
				in := c.Input.(engIn)
				in.Repeat = 8
				c.Input = in
				c.Key = "join2|" + st + "|" + fmt.Sprint(round)
				out = append(out, c)
			}
		}
		// D77: an ASYNC call whose argument is an effect-only call that did not fire resolves to the omit marker
		for name, arg := range map[string]*Expr{
			"async-of-raise-when-quiet": {K: "call", Name: "RAISE_WHEN", Items: []*Expr{Cmp("=", Col("id"), Num(99)), Str("boom")}},
			"async-of-spin":             {K: "call", Qual: "SPIN", Name: "idf", Items: []*Expr{Col("n1")}},
		} {
			for _, qual := range []string{"ASYNC", ""} {
				q := base()
				q.Items = []Item{{E: Col("id")}, {E: &Expr{K: "call", Qual: qual, Name: "idf", Items: []*Expr{arg}}, Alias: "f"}}
				add(q, name, "select-item-"+qual)
			}
		}
		// FUSE over a row-scoped subquery whose row is the scope itself
		for i, sub := range []*Stmt{
			{From: &From{K: "dual"}, Items: []Item{{Star: true}}},
			{From: &From{K: "dual"}, Items: []Item{{Star: true}, {E: Num(1), Alias: "one"}}},
		} {
			q := base()
			q.Items = []Item{{E: &Expr{K: "call", Name: "FUSE", Items: []*Expr{{K: "sub", Q: sub}}}}}
			add(q, "fuse-subquery-dual-star", fmt.Sprint("select-item-", i))
			q = base()
			q.Items = []Item{{E: Col("id")}, {E: &Expr{K: "call", Name: "FUSE", Items: []*Expr{{K: "sub", Q: sub}}}, Alias: "f"}}
			add(q, "fuse-subquery-dual-star-prefixed", fmt.Sprint("select-item-", i))
		}
		// star over the backward reference, aliased and not, with and without a WITH clause in scope
		cte := []CTE{{Name: "c", Q: &Stmt{From: &From{K: "table", Path: []string{"t"}}, Items: []Item{{E: Col("id")}}}}}
		for _, alias := range []string{"", "x"} {
			for _, with := range []bool{false, true} {
				sub := &Stmt{From: &From{K: "table", Path: []string{"<-"}, Alias: alias}, Items: []Item{{Star: true}}}
				q := base()
				q.Items = []Item{{E: Col("id")}, {E: &Expr{K: "sub", Q: sub}, Alias: "s"}}
				if with {
					q.With = cte
				}
				add(q, "star-over-back-reference", fmt.Sprintf("alias:%q,with:%v", alias, with))
			}
		}
	}
	return out
}
