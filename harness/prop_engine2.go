package main

import (
	"fmt"
	"math"
)

// bigRows: a long table (sizes chosen to cross 64 / 256 / 512 / 1024 / 4096 and not to be multiples of them)
func bigRows(n int) []any {
	rows := make([]any, n)
	for i := range rows {
		m := map[string]any{"id": float64(i + 1), "n1": float64(i % 7), "n2": float64((i * 37) % 11), "s1": []string{"a", "b", "ab", ""}[i%4]}
		if i%5 != 0 {
			m["k"] = float64((i * 13) % 97)
		} else if i%10 == 0 {
			m["k"] = nil
		}
		rows[i] = m
	}
	return rows
}

// ---------- C02: projection ----------

var binOps = []string{"+", "-", "*", "/", "DIV", "%", "&", "|", "^", "<<", ">>"}

func genNumExpr(r *Rand, t table, depth int, tags *[]string) *Expr {
	tag := func(s string) { *tags = append(*tags, "op:"+s) }
	if depth == 0 || r.Chance(25) {
		switch r.Intn(8) {
		case 0, 1, 2:
			tag("col")
			return Col(Pick(r, t.numCols))
		case 3:
			tag("path")
			return Col("o", "p", "q")
		case 4:
			tag("missing")
			return Col(Pick(r, []string{"missing", "z"}))
		default:
			tag("const")
			return Num(Pick(r, []float64{0, 1, 2, 3, 7, 10, 0.5, 1.5, 2.25, -1, -3, 64, 1000, 2147483647}))
		}
	}
	switch r.Intn(10) {
	case 0:
		op := Pick(r, []string{"-", "~"})
		tag("un" + op)
		return &Expr{K: "un", Op: op, A: genNumExpr(r, t, depth-1, tags)}
	case 1:
		tag("case")
		n := 1 + r.Intn(2)
		e := &Expr{K: "case"}
		for i := 0; i < n; i++ {
			var sub []string
			cond := genPred(r, t, 1, &sub)
			e.Whens = append(e.Whens, [2]*Expr{cond, genNumExpr(r, t, depth-1, tags)})
		}
		if r.Bool() {
			e.Else = genNumExpr(r, t, depth-1, tags)
		}
		return e
	case 2:
		op := Pick(r, []string{"<<", ">>"})
		tag("bin" + op)
		return Bin(op, genNumExpr(r, t, depth-1, tags), Num(float64(Pick(r, []int{-1, 0, 1, 2, 31, 62, 63, 64, 70}))))
	default:
		op := Pick(r, binOps)
		tag("bin" + op)
		return Bin(op, genNumExpr(r, t, depth-1, tags), genNumExpr(r, t, depth-1, tags))
	}
}

func genItems(r *Rand, t table, maxDepth int, tags *[]string) []Item {
	n := 1 + r.Intn(5)
	var items []Item
	aliases := []string{"v1", "v2", "v3", "w", "n1"}
	for i := 0; i < n; i++ {
		switch r.Intn(9) {
		case 0:
			*tags = append(*tags, "item:star")
			items = append(items, Item{Star: true})
		case 1:
			*tags = append(*tags, "item:col")
			items = append(items, Item{E: Col(Pick(r, []string{"n1", "s1", "b1", "z", "o", "missing", "id"}))})
		case 2:
			*tags = append(*tags, "item:col-alias")
			items = append(items, Item{E: Col(Pick(r, []string{"n1", "s1", "b1", "z", "o"})), Alias: Pick(r, aliases)})
		case 3:
			*tags = append(*tags, "item:path")
			items = append(items, Item{E: Col(Pick(r, [][]string{{"o", "p", "q"}, {"o", "k"}, {"o", "p"}, {"o", "nope", "q"}, {"n1", "x"}})...), Alias: Pick(r, aliases)})
		case 4:
			*tags = append(*tags, "item:literal")
			items = append(items, Item{E: Pick(r, []*Expr{Str("lit"), Num(4.5), {K: "bool", Bool: true}, {K: "null"}}), Alias: Pick(r, aliases)})
		case 5:
			*tags = append(*tags, "item:bang")
			var sub []string
			items = append(items, Item{E: &Expr{K: "un", Op: "!", A: genPred(r, t, 1, &sub)}, Alias: Pick(r, aliases)})
		default:
			*tags = append(*tags, "item:expr")
			items = append(items, Item{E: genNumExpr(r, t, 1+r.Intn(maxDepth), tags), Alias: Pick(r, aliases)})
		}
	}
	return items
}

func genC02(r *Rand, tier string) []Case {
	n := 900
	if tier == "thorough" {
		n = 12000
	}
	var out []Case
	for i := 0; i < n; i++ {
		t := genTable(r, 5)
		if r.Chance(15) && len(t.rows) > 0 {
			// rows with no or few keys: the projection of a kept row may be the empty object
			k := r.Intn(len(t.rows))
			t.rows[k] = map[string]any{}
			if r.Bool() && len(t.rows) > 1 {
				t.rows[(k+1)%len(t.rows)] = map[string]any{"id": float64(99)}
			}
		}
		var tags []string
		if r.Chance(20) {
			// keys spelled like paths next to the nested objects those paths lead into: a reference is a path
			for _, row := range t.rows {
				m := row.(map[string]any)
				if len(m) > 0 {
					m["o.k"] = "dotted-key"
					m["o.p.q"] = float64(-77)
				}
			}
			tags = append(tags, "rows:look-alike-dotted-keys")
		}
		doc := map[string]any{"t": t.rows}
		items := genItems(r, t, 4, &tags)
		if r.Chance(15) {
			// arithmetic whose operands are literals and a CASE with literal branches but a row-dependent condition
			cond := Cmp(Pick(r, cmpOps), Col(Pick(r, t.numCols)), Num(t.numConst(r)))
			cs := &Expr{K: "case", Whens: [][2]*Expr{{cond, Num(float64(10 + r.Intn(3)))}}, Else: Num(float64(20 + r.Intn(3)))}
			if r.Bool() {
				cs.Else = nil
			}
			items = append(items, Item{E: Bin(Pick(r, []string{"*", "+", "-"}), cs, Num(2)), Alias: "cv"})
			tags = append(tags, "item:case-literal-arith")
		}
		q := &Stmt{From: &From{K: "table", Path: []string{"t"}}, Items: items}
		if r.Chance(30) {
			var sub []string
			q.Where = genPred(r, t, 1, &sub)
		}
		nontrivial := len(t.rows) >= 1
		if r.Chance(6) {
			// the same select list over dual: one result row computed from constants (columns are missing)
			q.From = &From{K: "dual"}
			q.Where = nil
			tags = append(tags, "from:dual")
			nontrivial = true
		}
		if q.From.K == "table" && r.Chance(10) {
			// the table under an alias — also one spelled like the table itself — with alias-qualified references
			alias := Pick(r, []string{"x", "t", "T", "t"})
			ok := true
			for _, it := range q.Items {
				if it.Star || it.E == nil {
					ok = false
				}
			}
			if ok {
				q.From.Alias = alias
				for i := range q.Items {
					if q.Items[i].Alias == "" {
						q.Items[i].Alias = q.Items[i].name()
					}
					q.Items[i].E = qualifyCols(q.Items[i].E, alias)
				}
				q.Where = qualifyCols(q.Where, alias)
				tags = append(tags, "from:aliased", "alias:"+alias)
			}
		}
		tags = append(tags, fmt.Sprintf("items:%d", len(items)))
		if r.Chance(12) && respell(r, q) {
			tags = append(tags, "literals:respelt")
		}
		out = append(out, mkCase(doc, q, tags, nontrivial))
	}
	// long tables: one output row per kept row, each computed from its own row, whatever the length
	sizes := []int{300, 4099}
	if tier == "thorough" {
		sizes = []int{65, 257, 300, 1025, 4099, 5003}
	}
	for _, n := range sizes {
		q := &Stmt{From: &From{K: "table", Path: []string{"big"}}, Items: []Item{{E: Col("id")}, {E: Bin("+", Bin("*", Col("n1"), Num(2)), Col("n2")), Alias: "v"}, {E: Col("s1"), Alias: "s"}}}
		if n < 1000 {
			q.Where = Cmp("!=", Col("n2"), Num(3))
		}
		out = append(out, mkCase(map[string]any{"big": bigRows(n)}, q, []string{"long-table", fmt.Sprintf("rows:%d", n)}, true))
	}
	return out
}

// ---------- C03: grouping and aggregates ----------

func genAggItem(r *Rand, tags *[]string, alias string) Item {
	fn := Pick(r, []string{"count", "sum", "min", "max", "avg"})
	*tags = append(*tags, "agg:"+fn)
	if fn == "count" && r.Chance(60) {
		return Item{E: &Expr{K: "agg", Name: "count", Star: true}, Alias: alias}
	}
	if r.Chance(25) {
		// nested columns that share their leaf name: net.amount / tax.amount
		*tags = append(*tags, "agg:nested-path")
		return Item{E: &Expr{K: "agg", Name: fn, Path: []string{Pick(r, []string{"net", "tax"}), Pick(r, []string{"amount", "qty"})}}, Alias: alias}
	}
	col := Pick(r, []string{"n1", "n2", "id", "z", "N1"})
	if col == "N1" {
		// a column whose name differs from n1 only by letter case: keys are case-sensitive
		*tags = append(*tags, "agg:case-variant-column")
	}
	if fn == "avg" {
		col = Pick(r, []string{"n1", "n2", "id"})
	}
	return Item{E: &Expr{K: "agg", Name: fn, Path: []string{col}}, Alias: alias}
}

func genGroupTable(r *Rand, maxRows int) table {
	t := genTable(r, maxRows)
	gk := []any{"x", "y", "z", float64(1), float64(2), nil}
	// 0 and -0 are one number: rows carrying either belong to one group
	zeros := r.Chance(15)
	// values of different kinds whose %v texts coincide must still form different groups
	mixed := [][]any{{float64(1), "1"}, {nil, "<nil>"}, {true, "true"}, {float64(1), "1", true, "true", nil, "<nil>"}}[r.Intn(4)]
	useMixed := r.Chance(20)
	for _, row := range t.rows {
		m := row.(map[string]any)
		m["net"] = map[string]any{"amount": Pick(r, numPool[:7]), "qty": Pick(r, numPool[:5])}
		m["tax"] = map[string]any{"amount": Pick(r, numPool[3:9]), "qty": Pick(r, numPool[2:8])}
		m["N1"] = Pick(r, numPool[:6])
		m["g1"] = Pick(r, gk[:2+r.Intn(2)])
		if useMixed {
			m["g1"] = Pick(r, mixed)
		}
		switch r.Intn(4) {
		case 0:
			m["g2"] = nil
		case 1: // missing
		default:
			m["g2"] = Pick(r, gk[3:5])
			if zeros {
				m["g2"] = Pick(r, []any{float64(0), math.Copysign(0, -1), float64(1)})
			}
		}
	}
	return t
}

func genHaving(r *Rand, tags *[]string) *Expr {
	*tags = append(*tags, "having")
	agg := &Expr{K: "agg", Name: "count", Star: true}
	if r.Bool() {
		agg = &Expr{K: "agg", Name: Pick(r, []string{"sum", "max", "min"}), Path: []string{Pick(r, []string{"n1", "id"})}}
	}
	return Cmp(Pick(r, cmpOps), agg, Num(float64(r.Intn(4))))
}

func genC03(r *Rand, tier string) []Case {
	n := 700
	if tier == "thorough" {
		n = 8000
	}
	var out []Case
	for i := 0; i < n; i++ {
		t := genGroupTable(r, 8)
		doc := map[string]any{"t": t.rows}
		var tags []string
		q := &Stmt{From: &From{K: "table", Path: []string{"t"}}}
		if r.Chance(55) {
			var sub []string
			q.Where = genPred(r, t, 1, &sub)
			tags = append(tags, "where")
		}
		grouped := r.Chance(70)
		focus := false
		if grouped {
			q.Group = [][]string{{"g1"}, {"g2"}, {"g1", "g2"}, {"s1"}, {"n1"}, {"b1"}, {"g1", "s1", "b1"}}[r.Intn(7)]
			tags = append(tags, fmt.Sprintf("groupcols:%d", len(q.Group)))
			switch r.Intn(3) {
			case 0: // keys + aggregates
				for _, g := range q.Group {
					q.Items = append(q.Items, Item{E: Col(g)})
				}
			case 1: // star (keys + members)
				q.Items = append(q.Items, Item{Star: true})
				tags = append(tags, "group-star")
			default: // aggregates only, with GROUP BY
				tags = append(tags, "group-allagg")
			}
			if r.Chance(40) {
				q.Having = genHaving(r, &tags)
			}
			if r.Chance(15) {
				// DISTINCT and a LIMIT window over the group rows (no ORDER BY): the window applies after the
				// duplicates are gone, so every group must have been formed and projected
				q.Distinct = true
				q.Limit = intp(1 + r.Intn(3))
				if r.Bool() {
					q.Offset = intp(r.Intn(3))
				}
				tags = append(tags, "group-distinct-limit")
				if r.Bool() {
					// many groups, few distinct projections: the window must be cut after the duplicates are removed
					q.Group = []string{Pick(r, []string{"n1", "s1", "n2"})}
					q.Items = nil
					q.Having = nil
					focus = true
					tags = append(tags, "group-distinct-limit-counts")
				}
			}
		} else {
			tags = append(tags, "whole-table")
		}
		k := 1 + r.Intn(4)
		if focus {
			k = 0
			q.Items = append(q.Items, Item{E: &Expr{K: "agg", Name: "count", Star: true}, Alias: "a0"})
		}
		if !grouped && r.Chance(10) {
			// the same function over two columns whose names differ only by letter case
			fn := Pick(r, []string{"sum", "min", "max", "avg", "count"})
			q.Items = append(q.Items, Item{E: &Expr{K: "agg", Name: fn, Path: []string{"N1"}}, Alias: "up"},
				Item{E: &Expr{K: "agg", Name: fn, Path: []string{"n1"}}, Alias: "low"})
			tags = append(tags, "agg:same-fn-case-variant-columns")
		}
		for j := 0; j < k; j++ {
			q.Items = append(q.Items, genAggItem(r, &tags, fmt.Sprintf("a%d", j)))
		}
		if len(q.Items) == 0 {
			q.Items = append(q.Items, genAggItem(r, &tags, "a0"))
		}
		if r.Chance(10) && respell(r, q) {
			tags = append(tags, "literals:respelt")
		}
		c := mkCase(doc, q, tags, len(t.rows) >= 2)
		in := c.Input.(engIn)
		in.Repeat = 6
		if tier == "thorough" {
			in.Repeat = 24
		}
		c.Input = in
		out = append(out, c)
	}
	// long member lists: an aggregate covers every member of its group, however many there are, and NULL members are
	// ignored wherever they sit (whole aligned blocks of them included)
	for _, n := range []int{300, 700} {
		rows := bigRows(n)
		for i, row := range rows {
			m := row.(map[string]any)
			m["amount"] = float64(i%9 + 1)
			if i < 256 || (i >= 512 && i < 600) {
				m["amount"] = nil
			}
			m["g"] = []string{"one", "one", "one", "two"}[i%4]
		}
		doc := map[string]any{"t": rows}
		items := []Item{{E: &Expr{K: "agg", Name: "sum", Path: []string{"amount"}}, Alias: "s"}, {E: &Expr{K: "agg", Name: "count", Star: true}, Alias: "c"},
			{E: &Expr{K: "agg", Name: "max", Path: []string{"amount"}}, Alias: "mx"}, {E: &Expr{K: "agg", Name: "min", Path: []string{"n1"}}, Alias: "mn"}, {E: &Expr{K: "agg", Name: "sum", Path: []string{"n2"}}, Alias: "s2"}}
		out = append(out, mkCase(doc, &Stmt{From: &From{K: "table", Path: []string{"t"}}, Items: items}, []string{"long-table", "whole-table", fmt.Sprintf("rows:%d", n)}, true))
		out = append(out, mkCase(doc, &Stmt{From: &From{K: "table", Path: []string{"t"}}, Group: []string{"g"}, Items: append([]Item{{E: Col("g")}}, items...)}, []string{"long-table", "grouped", fmt.Sprintf("rows:%d", n)}, true))
	}
	return out
}

// ---------- C05: ORDER BY + LIMIT/OFFSET ----------

func intp(i int) *int { return &i }

func genC05(r *Rand, tier string) []Case {
	n := 500
	if tier == "thorough" {
		n = 6000
	}
	var out []Case
	add := func(t table, q *Stmt, tags []string) {
		out = append(out, mkCase(map[string]any{"t": t.rows}, q, tags, len(t.rows) >= 2))
	}
	// exhaustive (limit, offset) sweep over one table, with and without a WHERE that leaves spare capacity
	sweep := genTable(r, 0)
	for i := 0; i < 5; i++ {
		sweep.rows = append(sweep.rows, map[string]any{"id": float64(i + 1), "n1": float64(i % 3), "s1": "r"})
	}
	maxL := 8
	for lim := -1; lim <= maxL; lim++ {
		for off := -1; off <= maxL; off++ {
			for _, wh := range []bool{false, true} {
				for _, comma := range []bool{false, true} {
					if lim < 0 || (comma && off < 0) {
						if !(lim < 0 && off < 0 && !comma) {
							continue
						}
					}
					q := selectStar("t", nil)
					if wh {
						q.Where = Cmp(">", Col("id"), Num(1))
					}
					tags := []string{"sweep"}
					if lim >= 0 {
						q.Limit = intp(lim)
					}
					if off >= 0 {
						q.Offset = intp(off)
						q.LimitComma = comma
					}
					add(sweep, q, tags)
				}
			}
		}
	}
	// machine-integer edge: LIMIT + OFFSET beyond MaxInt64 must still be the exact window
	const maxInt = int(^uint(0) >> 1)
	for _, lo := range [][2]int{{maxInt, 1}, {maxInt, 0}, {maxInt - 1, 3}, {maxInt, 4}, {maxInt, 9}} {
		for _, comma := range []bool{false, true} {
			q := selectStar("t", nil)
			q.Limit, q.Offset, q.LimitComma = intp(lo[0]), intp(lo[1]), comma
			add(sweep, q, []string{"sweep", "limit:maxint"})
		}
	}
	for i := 0; i < n; i++ {
		t := genTable(r, 7)
		for _, row := range t.rows {
			m := row.(map[string]any)
			if r.Chance(25) {
				m["k"] = nil
			} else if r.Chance(85) {
				m["k"] = Pick(r, numPool[:6])
			}
		}
		var tags []string
		q := selectStar("t", nil)
		if r.Chance(12) && len(t.rows) >= 2 {
			// a sort key path that runs through a scalar on some row: a type error that must surface
			t.rows[r.Intn(len(t.rows))].(map[string]any)["o"] = float64(3)
			tags = append(tags, "order-key-type-error")
			q.Order = append(q.Order, OrderKey{Path: []string{"o", "p", "q"}, Asc: r.Bool()})
		}
		nk := 1 + r.Intn(3)
		// {"o","k"} renders as the qualified name o.k (qualifier + column), the three-step path as one quoted name
		keys := [][]string{{"n1"}, {"n2"}, {"s1"}, {"s2"}, {"k"}, {"id"}, {"o", "p", "q"}, {"o", "k"}}
		for j := 0; j < nk; j++ {
			k := Pick(r, keys)
			asc := r.Bool()
			q.Order = append(q.Order, OrderKey{Path: k, Asc: asc})
			tags = append(tags, fmt.Sprintf("key:%s:%v", k[0], asc))
		}
		tags = append(tags, fmt.Sprintf("keys:%d", nk))
		if r.Chance(30) {
			var sub []string
			q.Where = genPred(r, t, 1, &sub)
		}
		if r.Chance(50) {
			q.Limit = intp(r.Intn(9))
			if r.Chance(60) {
				q.Offset = intp(r.Intn(9))
				q.LimitComma = r.Bool()
			}
			tags = append(tags, "window")
		}
		if r.Chance(30) {
			q.Items = []Item{{E: Col("id")}, {E: Col("n1")}, {E: Col("s1"), Alias: "s"}}
			if q.Order[0].Path[0] == "s1" {
				q.Order[0].Path = []string{"s"}
			}
		}
		if r.Chance(10) {
			// a window without ORDER BY over rows whose projection needs a whole-table aggregate: the aggregate is over
			// every row that passed WHERE, not over the rows of the window
			agg := &Expr{K: "agg", Name: Pick(r, []string{"sum", "avg", "max", "count"}), Path: []string{"n1"}}
			var e *Expr
			if r.Bool() {
				e = Bin("-", Bin("*", Col("n1"), Num(100)), agg)
			} else {
				e = &Expr{K: "case", Whens: [][2]*Expr{{Cmp(">", Col("n1"), agg), Num(1)}}, Else: Num(0)}
			}
			q.Order = nil
			q.Items = []Item{{E: Col("id")}, {E: e, Alias: "rel"}}
			q.Limit = intp(1 + r.Intn(4))
			q.Offset = intp(r.Intn(3))
			tags = append(tags, "window-over-nested-aggregate")
		} else if r.Chance(12) {
			// the prepared query is executed twice (first over emptied rows): nothing of the first window may survive
			tags = append(tags, "re-executed")
			out = append(out, mkCase(map[string]any{"t": t.rows}, q, tags, len(t.rows) >= 2))
			c := out[len(out)-1]
			in := c.Input.(engIn)
			in.Reexec = true
			c.Input = in
			c.Key += "|reexec"
			out[len(out)-1] = c
			continue
		}
		if r.Chance(15) && respell(r, q) {
			tags = append(tags, "literals:respelt")
		}
		add(t, q, tags)
	}
	// long tables (crossing 512): both directions, NULL / missing keys; windows at the front and in the middle of the
	// rows with a key (rows whose first key is NULL come last in no particular order: a window must not cut into them)
	for _, n := range []int{513, 700} {
		for _, asc := range []bool{true, false} {
			for _, win := range [][2]int{{5, 0}, {7, 300}} {
				q := &Stmt{From: &From{K: "table", Path: []string{"t"}}, Items: []Item{{E: Col("id")}, {E: Col("k")}}, Order: []OrderKey{{Path: []string{"k"}, Asc: asc}, {Path: []string{"id"}, Asc: true}},
					Limit: intp(win[0]), Offset: intp(win[1])}
				out = append(out, mkCase(map[string]any{"t": bigRows(n)}, q, []string{"long-table", fmt.Sprintf("rows:%d", n), fmt.Sprintf("asc:%v", asc)}, true))
			}
		}
	}
	return out
}

// ---------- C06: DISTINCT and UNION ----------

func deepValue(depth int, leaf any) any {
	v := leaf
	for i := 0; i < depth; i++ {
		if i%2 == 0 {
			v = []any{v}
		} else {
			v = map[string]any{"d": v}
		}
	}
	return v
}

func genDupTable(r *Rand, maxRows int) []any {
	protos := []map[string]any{
		{"a": float64(1), "b": "x"}, {"a": "1", "b": "x"}, {"a": "1 b:x"}, {"a": float64(1)}, {"a": float64(2), "b": "y"},
		{"a": "map[", "b": "[1 2]"}, {"a": []any{float64(1), float64(2)}, "b": "z"}, {"a": "[1 2]", "b": "z"}, {"a": nil, "b": "x"}, {"a": "<nil>", "b": "x"},
		{"a": true}, {"a": "true"}, {"a": map[string]any{"c": float64(1)}}, {"a": "map[c:1]"},
		// nested values whose %v texts coincide
		{"a": []any{"new york"}}, {"a": []any{"new", "york"}}, {"a": []any{float64(1)}}, {"a": []any{"1"}},
		{"a": map[string]any{"k": nil}}, {"a": map[string]any{"k": "<nil>"}},
		{"a": map[string]any{"k": "v w:z"}}, {"a": map[string]any{"k": "v", "w": "z"}},
		{"a": []any{[]any{float64(1), float64(2)}}}, {"a": []any{"[1 2]"}},
		// values nested deeper than 32 levels that differ only at the bottom
		{"a": deepValue(34, float64(1))}, {"a": deepValue(34, float64(2))}, {"a": deepValue(34, float64(1))}, {"a": deepValue(33, float64(1))},
		// column NAMES with punctuation that a name:value, rendering would confuse with another row's columns
		{"a": float64(1), "b": float64(2)}, {"a:1,b": float64(2)}, {"a": float64(1), "b:2,c": float64(3)}, {"a:1": float64(1)}, {"a": "1,b:2"},
		{"a\":1,\"b": float64(2)}, {"a": float64(1), "b": "x", "": "x"}, {"a b": "x"},
	}
	k := 1 + r.Intn(4)
	var pool []map[string]any
	for i := 0; i < k; i++ {
		pool = append(pool, Pick(r, protos))
	}
	if r.Chance(10) {
		pool = protos[len(protos)-8:] // the column-name family together
	} else if r.Chance(8) {
		pool = protos[len(protos)-12 : len(protos)-8] // the deep-value family together
	}
	n := r.Intn(maxRows + 1)
	rows := make([]any, n)
	for i := range rows {
		rows[i] = deepCopy(anyMap(Pick(r, pool)))
	}
	return rows
}

func genC06(r *Rand, tier string) []Case {
	n := 700
	if tier == "thorough" {
		n = 8000
	}
	var out []Case
	for i := 0; i < n; i++ {
		doc := map[string]any{"t": genDupTable(r, 8), "u": genDupTable(r, 5), "w": genDupTable(r, 4)}
		var tags []string
		branch := func(tb string) *Stmt {
			q := &Stmt{From: &From{K: "table", Path: []string{tb}}}
			switch r.Intn(3) {
			case 0:
				q.Items = []Item{{Star: true}}
			case 1:
				q.Items = []Item{{E: Col("a")}}
			default:
				q.Items = []Item{{E: Col("b"), Alias: "a"}, {E: Col("a"), Alias: "b"}}
			}
			return q
		}
		var q *Stmt
		if r.Chance(40) {
			q = branch("t")
			q.Distinct = true
			tags = append(tags, "distinct")
			if r.Chance(25) {
				q.Limit = intp(r.Intn(4))
				tags = append(tags, "distinct-limit")
			}
		} else {
			k := 2 + r.Intn(3)
			tabs := []string{"t", "u", "w", "t"}
			q = branch(tabs[0])
			if r.Chance(20) {
				q.Distinct = true
			}
			for j := 1; j < k; j++ {
				all := r.Bool()
				tags = append(tags, map[bool]string{true: "union-all", false: "union"}[all])
				if q.Union && r.Chance(25) {
					// the union built so far becomes a parenthesised LEFT operand with its own window
					q.Limit = intp(1 + r.Intn(3))
					if r.Bool() {
						q.Offset = intp(r.Intn(2))
					}
					tags = append(tags, "union-left-operand-with-limit")
				}
				q = &Stmt{Union: true, All: all, L: q, R: branch(tabs[j])}
			}
			tags = append(tags, fmt.Sprintf("branches:%d", k))
			if r.Chance(30) {
				q.Limit = intp(r.Intn(6))
				if r.Chance(30) {
					q.Limit = intp(8 + r.Intn(5)) // two-digit and >= 8: a zero-padded spelling must still mean this number
				}
				if r.Bool() {
					q.Offset = intp(r.Intn(4))
				}
				tags = append(tags, "union-limit")
			}
		}
		if r.Chance(6) {
			// a UNION whose operands have their own WITH, as the body of a CTE that both sides of an outer UNION ALL read:
			// the same parsed union is built twice and must give the same rows both times
			own := func(name, tb string) *Stmt {
				return &Stmt{From: &From{K: "table", Path: []string{name}}, Items: []Item{{E: Col("a")}},
					With: []CTE{{Name: name, Q: &Stmt{From: &From{K: "table", Path: []string{tb}}, Items: []Item{{E: Col("a")}}}}}}
			}
			body := &Stmt{Union: true, All: r.Bool(), L: own("x", "t"), R: own("y", "u")}
			read := func() *Stmt { return &Stmt{From: &From{K: "table", Path: []string{"cw"}}, Items: []Item{{Star: true}}} }
			q = &Stmt{Union: true, All: true, With: []CTE{{Name: "cw", Q: body}}, L: read(), R: read()}
			tags = []string{"union-body-built-twice"}
		}
		if r.Chance(12) && respell(r, q) {
			tags = append(tags, "literals:respelt")
		}
		out = append(out, mkCase(doc, q, tags, true))
	}
	// long tables with many duplicates: DISTINCT and UNION keep the first occurrence of each row, in order
	for _, n := range []int{300, 777} {
		rows := make([]any, n)
		for i := range rows {
			rows[i] = map[string]any{"a": float64((i * 7) % 23), "b": []string{"x", "y", "z"}[(i/5)%3]}
		}
		doc := map[string]any{"t": rows, "u": rows[:n/3]}
		sel := func(tb string) *Stmt { return &Stmt{From: &From{K: "table", Path: []string{tb}}, Items: []Item{{Star: true}}} }
		d := sel("t")
		d.Distinct = true
		out = append(out, mkCase(doc, d, []string{"long-table", "distinct"}, true))
		out = append(out, mkCase(doc, &Stmt{Union: true, All: false, L: sel("t"), R: sel("u"), Limit: intp(40)}, []string{"long-table", "union"}, true))
		out = append(out, mkCase(doc, &Stmt{Union: true, All: true, L: sel("u"), R: sel("t"), Limit: intp(9), Offset: intp(n)}, []string{"long-table", "union-all"}, true))
	}
	return out
}

// ---------- C08: multi-dimensional FROM ----------

func genNested(r *Rand, t table, depth int) []any {
	n := r.Intn(4)
	if depth > 2 {
		n = 1 + r.Intn(2) // deep sources: few siblings per level, but every level present
	}
	out := make([]any, 0, n)
	for i := 0; i < n; i++ {
		if depth <= 1 {
			k := r.Intn(4)
			inner := make([]any, 0, k)
			for j := 0; j < k && len(t.rows) > 0; j++ {
				inner = append(inner, deepCopy(Pick(r, t.rows)))
			}
			out = append(out, inner)
		} else {
			out = append(out, genNested(r, t, depth-1))
		}
	}
	return out
}

func genC08(r *Rand, tier string) []Case {
	n := 600
	if tier == "thorough" {
		n = 6000
	}
	var out []Case
	for i := 0; i < n; i++ {
		t := genTable(r, 5)
		depth := 1 + r.Intn(2)
		if r.Chance(8) {
			depth = 4 + r.Intn(3) // five to seven array levels
		}
		doc := map[string]any{"n": genNested(r, t, depth)}
		var tags []string
		tags = append(tags, fmt.Sprintf("nest:%d", depth+1))
		q := &Stmt{From: &From{K: "table", Path: []string{"n"}}}
		doc["thr"] = t.numConst(r)
		doc["vals"] = []any{map[string]any{"v": t.numConst(r)}, map[string]any{"v": t.numConst(r)}}
		if r.Chance(70) {
			var sub []string
			q.Where = genPred(r, t, 2, &sub)
			for _, s := range sub {
				if s == "op:in-subquery" || s == "op:notin-subquery" {
					q.Where = Cmp(">", Col("n1"), Num(t.numConst(r)))
				}
			}
			tags = append(tags, "where")
			if r.Chance(30) {
				// the predicate navigates back to the root document from inside the inner arrays
				switch r.Intn(2) {
				case 0:
					q.Where = Cmp(Pick(r, cmpOps), Col(Pick(r, t.numCols)), Col("<-", "thr"))
				default:
					q.Where = &Expr{K: "insub", A: Col(Pick(r, t.numCols)), Q: &Stmt{From: &From{K: "table", Path: []string{"<-", "vals"}}, Items: []Item{{E: Col("v")}}}}
				}
				tags = append(tags, "where:back-navigation")
			}
		}
		if r.Chance(12) {
			// whole-table aggregates inside every inner dimension
			q.Items = []Item{genAggItem(r, &tags, "a0"), genAggItem(r, &tags, "a1")}
			tags = append(tags, "items:aggregate")
		} else if r.Chance(35) {
			q.Items = []Item{{Star: true}}
			tags = append(tags, "items:star")
		} else {
			q.Items = genItems(r, t, 2, &tags)
		}
		if r.Chance(25) {
			q.From.Fn = "mix"
			tags = append(tags, "mix")
		}
		if r.Chance(8) {
			// the nested source sits under a key spelled like the pseudo table
			doc["dual"] = doc["n"]
			delete(doc, "n")
			q.From.Path = []string{"dual"}
			tags = append(tags, "source-key-named-dual")
		}
		c := mkCase(doc, q, tags, true)
		if nn, ok := doc["n"].([]any); ok && len(nn) >= 1 && r.Chance(20) {
			// the same inner array (one object, not a copy) appears more than once
			k := r.Intn(len(nn))
			if inner, ok := nn[k].([]any); ok && len(inner) > 0 {
				doc["n"] = append(append([]any{}, nn...), deepCopy(inner), deepCopy(inner))
				c = mkCase(doc, q, append(tags, "shared-inner-arrays"), true)
				in := c.Input.(engIn)
				in.ShareEqual = true
				c.Input = in
				c.Key += "|shared"
			}
		}
		out = append(out, c)
	}
	// a few documents with LARGE inner arrays next to small ones: each inner result must stay at its position
	for i := 0; i < 2; i++ {
		var nested []any
		for _, size := range [][]int{{300, 2, 0, 260, 1}, {1, 257, 3, 300}}[i] {
			inner := make([]any, size)
			for j := range inner {
				inner[j] = map[string]any{"id": float64(j), "n1": float64(j % 5)}
			}
			nested = append(nested, inner)
		}
		q := &Stmt{From: &From{K: "table", Path: []string{"n"}}, Items: []Item{{E: Col("id")}}, Where: Cmp("<", Col("n1"), Num(float64(1+i)))}
		out = append(out, mkCase(map[string]any{"n": nested}, q, []string{"large-inner-arrays"}, true))
	}
	return out
}

func init() {
	register(engineProp{id: "C02", checkFn: "EngineRun.check_seq", gen: genC02,
		rule: "random tables x select lists of 1-5 items (star, columns with/without alias, nested paths, missing keys, literals, expression trees of depth <= 4 over all 11 binary operators, unary - ~ !, CASE; shift counts -1..70; NULL operands) with optional WHERE; observable: the exact sequence of output objects (keys and values, numbers as bit patterns) or error; non-trivial = at least one source row and a non-error, non-empty result"})
	register(engineProp{id: "C03", checkFn: "EngineRun.check_seq", gen: genC03,
		rule: "tables of 0-8 rows with low-cardinality group keys (strings, numbers, NULL, missing) x GROUP BY over 1-3 columns (or none: whole-table aggregates) x optional WHERE / HAVING x select lists of 1-4 aggregates (same function on different columns included) with keys, star or aggregates only; every query is executed 6 times (24 thorough) and all runs must return the identical sequence; observable: sequence of group rows; non-trivial = >= 2 source rows, non-error, non-empty"})
	register(engineProp{id: "C05", checkFn: "EngineRun.check_order", gen: genC05,
		rule: "exhaustive sweep of (limit, offset) in {none,0..8}^2 x both spellings x with/without a WHERE that leaves spare capacity on a 5-row table, plus random tables (0-7 rows) with 1-3 sort keys (ties, NULL / missing keys, nested key path, both directions) and random windows; observable: the sequence of sort-key tuples, the multiset of rows, or error; non-trivial = >= 2 source rows, non-error, non-empty"})
	register(engineProp{id: "C06", checkFn: "EngineRun.check_seq", gen: genC06,
		rule: "tables with planted duplicates built from rows that differ only in kind or in how %v prints them (1 vs \"1\", \"1 b:x\", \"map[\", nested arrays/objects vs their text) x SELECT DISTINCT, and UNION / UNION ALL chains of 2-4 branches with random ALL flags, projections and LIMIT/OFFSET; observable: the exact sequence of rows; every case is non-trivial"})
	register(engineProp{id: "C08", checkFn: "EngineRun.check_seq", gen: genC08,
		rule: "documents holding arrays of arrays (depth 2-3, ragged, empty inner arrays) x filter/projection queries (C01 predicates, C02 select lists), a quarter of them through mix=>; FROM sources that are selectors over 2- and 3-dimensional documents (keep=> with each / index / slice per dimension, flattening brackets, pipes, `::`, mix=> first or last), resolved in the model by the C09 reader model; observable: the nested result; every case is non-trivial"})
}
