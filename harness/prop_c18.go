package main

import (
	"encoding/json"
	"errors"
	"fmt"
	"go/ast"
	"go/parser"
	"go/token"
	"math"
	"path/filepath"
	"reflect"
	"runtime"
	"sort"
	"strconv"
	"strings"

	"github.com/vedadiyan/genql"
)

// C18 — built-in functions obey their algebraic contracts.  Every case is one expression
// `f(args...)` (arguments: literals, document columns, nested calls) evaluated by the real
// engine through SQL: `SELECT <expr> AS v FROM dual` or per row `SELECT <expr> AS v FROM t`.

type c18Expr struct {
	Lit  *c18Lit   `json:"lit,omitempty"`
	Fn   string    `json:"fn,omitempty"`
	Args []c18Expr `json:"args,omitempty"`
}

type c18Lit struct {
	V   any    `json:"v"`
	How string `json:"how"` // "sql": SQL literal, "col": a column of the document
}

type c18In struct {
	Kind   string          `json:"kind"` // "expr" | "registry"
	Form   string          `json:"form"` // "dual" | "row"
	// Ctx: where the SELECT that evaluates the expression sits — "" (top level), "union" (both sides of a UNION ALL),
	// "cte" (body of a CTE read by the outer query), "derived" (a derived table). Cb: a completion callback and an
	// error callback are installed. Neither may change what a built-in returns (options reach every sub-query).
	Ctx string `json:"ctx,omitempty"`
	Cb  bool   `json:"cb,omitempty"`
	Consts *map[string]any `json:"consts"`
	Vars   *map[string]any `json:"vars"`
	Expr   c18Expr         `json:"expr"`
}

type propC18 struct{}

func init() { register(propC18{}) }

func (propC18) ID() string { return "C18" }
func (propC18) Imports() []string {
	return []string{"Base.Prelude", "Base.Value", "Model.Funcs", "Model.FuncsInst", "Spec.FuncSpec", "Run.C18Run"}
}
func (propC18) CheckFn() string        { return "C18Run.check" }
func (propC18) InputType() string      { return "c18_case" }
func (propC18) ObsType() string        { return "c18_obs" }
func (propC18) Exhaustive(string) bool { return false }
func (propC18) Rule() string {
	return "one built-in call (possibly with nested calls as arguments) per case, evaluated through SQL on the real engine; structured streams per function (array shapes x indices -2..n+1/fractional/huge/NULL, all bases/algorithms/type names in mixed case plus unknown ones, every scalar kind, arrays empty/nested/with NULLs), every registered name x arities 0..4, random nested expressions, and the registration table; results are rendered type-exactly (a Go int, an Ommit, a nil slice or nil map in the place of an array / object is a tag no model value equals: ARRAY() is the empty array, not a missing one); a case is non-trivial when the call has at least one argument and is not a pure wrong-arity probe; distinct = distinct (form, context, expression)"
}

// ---------- expression helpers ----------

func c18L(v any) c18Expr { return c18Expr{Lit: &c18Lit{V: v, How: "sql"}} }
func c18C(v any) c18Expr { return c18Expr{Lit: &c18Lit{V: v, How: "col"}} }
func c18F(fn string, args ...c18Expr) c18Expr {
	if args == nil {
		args = []c18Expr{}
	}
	return c18Expr{Fn: fn, Args: args}
}

// sqlSafe: strings that can be written as a plain SQL literal without any escaping question
func c18SQLSafe(s string) bool {
	for i := 0; i < len(s); i++ {
		c := s[i]
		if !(c >= 'a' && c <= 'z' || c >= 'A' && c <= 'Z' || c >= '0' && c <= '9' || c == ' ' || c == '_' || c == '.' || c == '-' || c == '+' || c == '=' || c == ':' || c == '<' || c == '>' || c == '[' || c == ']') {
			return false
		}
	}
	return true
}

func c18SQLNumber(f float64) (string, bool) {
	if math.IsNaN(f) || math.IsInf(f, 0) {
		return "", false
	}
	if f == 0 && math.Signbit(f) {
		return "-0", true
	}
	a := math.Abs(f)
	if a != 0 && (a >= 1e15 || a < 1e-6) {
		return strconv.FormatFloat(f, 'e', -1, 64), true
	}
	return strconv.FormatFloat(f, 'f', -1, 64), true
}

// valueOf normalises a literal (possibly decoded from JSON) to genql's data types
func c18Norm(v any) any {
	switch t := v.(type) {
	case []any:
		out := make([]any, len(t))
		for i, x := range t {
			out[i] = c18Norm(x)
		}
		return out
	case map[string]any:
		out := map[string]any{}
		for k, x := range t {
			out[k] = c18Norm(x)
		}
		return out
	case int:
		return float64(t)
	case json.Number:
		f, _ := t.Float64()
		return f
	}
	return v
}

type c18Render struct {
	cols map[string]any
	n    int
}

func (r *c18Render) expr(e c18Expr) string {
	if e.Lit != nil {
		v := c18Norm(e.Lit.V)
		if e.Lit.How == "sql" {
			switch t := v.(type) {
			case nil:
				return "NULL"
			case bool:
				if t {
					return "true"
				}
				return "false"
			case float64:
				if s, ok := c18SQLNumber(t); ok {
					return s
				}
			case string:
				if c18SQLSafe(t) {
					return "'" + t + "'"
				}
			}
		}
		name := fmt.Sprintf("c%d", r.n)
		r.n++
		r.cols[name] = deepCopy(v)
		return name
	}
	parts := make([]string, len(e.Args))
	for i, a := range e.Args {
		parts[i] = r.expr(a)
	}
	return e.Fn + "(" + strings.Join(parts, ", ") + ")"
}

// c18Val renders an engine result; Go ints, Ommit and int64 get the reserved tags of Model/Funcs.v
func c18Val(v any) string {
	switch t := v.(type) {
	case int:
		return "(VObj [(\"<<int>>\"%string, VStr " + coqStr(strconv.Itoa(t)) + ")])"
	case int64:
		return "(VObj [(\"<<int64>>\"%string, VNull)])"
	case genql.Ommit:
		return "(VObj [(\"<<omit>>\"%string, VBool " + coqBool(bool(t)) + ")])"
	case []any:
		if t == nil {
			// a nil slice is not the empty array: it serialises as JSON null, is not DeepEqual to []any{} and prints as
			// []interface {}(nil). A function that returns "an array" returns a non-nil slice; no model value equals this tag
			return "(VObj [(\"<<nil-slice>>\"%string, VNull)])"
		}
		items := make([]string, len(t))
		for i, x := range t {
			items[i] = c18Val(x)
		}
		return "(VArr " + coqList(items) + ")"
	case map[string]any:
		if t == nil {
			return "(VObj [(\"<<nil-map>>\"%string, VNull)])"
		}
		keys := make([]string, 0, len(t))
		for k := range t {
			keys = append(keys, k)
		}
		sort.Strings(keys)
		items := make([]string, len(keys))
		for i, k := range keys {
			items[i] = "(" + coqStr(k) + ", " + c18Val(t[k]) + ")"
		}
		return "(VObj " + coqList(items) + ")"
	}
	return coqValue(v)
}

func c18Obj(m map[string]any) string {
	keys := make([]string, 0, len(m))
	for k := range m {
		keys = append(keys, k)
	}
	sort.Strings(keys)
	items := make([]string, len(keys))
	for i, k := range keys {
		items[i] = "(" + coqStr(k) + ", " + c18Val(c18Norm(m[k])) + ")"
	}
	return coqList(items)
}

func (e c18Expr) coq() string {
	if e.Lit != nil {
		return "(Lit " + c18Val(c18Norm(e.Lit.V)) + ")"
	}
	parts := make([]string, len(e.Args))
	for i, a := range e.Args {
		parts[i] = a.coq()
	}
	return "(Call " + coqStr(e.Fn) + " " + coqList(parts) + ")"
}

func c18CollectStrings(v any, acc map[string]bool) {
	switch t := v.(type) {
	case string:
		acc[t] = true
	case []any:
		for _, x := range t {
			c18CollectStrings(x, acc)
		}
	case map[string]any:
		for _, x := range t {
			c18CollectStrings(x, acc)
		}
	}
}

func (e c18Expr) strings(acc map[string]bool) {
	if e.Lit != nil {
		c18CollectStrings(c18Norm(e.Lit.V), acc)
		return
	}
	for _, a := range e.Args {
		a.strings(acc)
	}
}

func c18IsASCII(s string) bool {
	for i := 0; i < len(s); i++ {
		if s[i] >= 0x80 {
			return false
		}
	}
	return true
}

// ---------- running the real engine ----------

type c18Res struct {
	class string // "ok" | "error" | "panic"
	val   any
	omit  bool // column v absent from the row
	note  string
}

func c18Run(form string, e c18Expr, consts, vars *map[string]any, padding bool) (res c18Res) {
	return c18RunCtx(form, "", false, e, consts, vars, padding)
}

func c18RunCtx(form, ctx string, cb bool, e c18Expr, consts, vars *map[string]any, padding bool) (res c18Res) {
	r := &c18Render{cols: map[string]any{}}
	sqlExpr := r.expr(e)
	doc := map[string]any{}
	var sql string
	if form == "row" {
		row := map[string]any{}
		for k, v := range r.cols {
			row[k] = v
		}
		rows := []any{row}
		if padding {
			row2 := map[string]any{}
			for k, v := range r.cols {
				row2[k] = deepCopy(v)
			}
			rows = append(rows, row2)
		}
		doc["t"] = rows
		sql = "SELECT " + sqlExpr + " AS v FROM t"
	} else {
		for k, v := range r.cols {
			doc[k] = v
		}
		if padding {
			doc["zz_pad"] = []any{1.0, "x"}
		}
		sql = "SELECT " + sqlExpr + " AS v FROM dual"
	}
	switch ctx {
	case "union":
		sql = sql + " UNION ALL " + sql
	case "cte":
		sql = "WITH c AS (" + sql + ") SELECT v FROM c"
	case "derived":
		sql = "SELECT d.v AS v FROM (" + sql + ") AS d"
	}
	res.note = sql
	defer func() {
		if p := recover(); p != nil {
			res = c18Res{class: "panic", note: sql + fmt.Sprintf(" -- ESCAPED PANIC %v", p)}
		}
	}()
	var opts []genql.QueryOption
	if consts != nil {
		m := map[string]any{}
		for k, v := range *consts {
			m[k] = deepCopy(c18Norm(v))
		}
		opts = append(opts, genql.WithConstants(m))
	}
	if vars != nil {
		m := map[string]any{}
		for k, v := range *vars {
			m[k] = deepCopy(c18Norm(v))
		}
		opts = append(opts, genql.WithVars(m))
	}
	if cb {
		opts = append(opts, genql.CompletedCallback(func() {}), genql.UnReportedErrors(func(error) {}))
	}
	q, err := genql.New(doc, sql, opts...)
	if err != nil {
		return c18Res{class: "error", note: sql + " -- New: " + err.Error()}
	}
	rs, err := q.Exec()
	if err != nil {
		var re runtime.Error
		if errors.As(err, &re) {
			return c18Res{class: "panic", note: sql + " -- recovered: " + err.Error()}
		}
		return c18Res{class: "error", note: sql + " -- " + err.Error()}
	}
	if len(rs) == 0 {
		return c18Res{class: "ok", val: "<<no rows>>", note: sql}
	}
	var first any
	for i, row := range rs {
		m, ok := row.(map[string]any)
		if !ok {
			return c18Res{class: "ok", val: fmt.Sprintf("<<row is %T>>", row), note: sql}
		}
		v, has := m["v"]
		if !has {
			v = genql.Ommit(true)
		}
		if i == 0 {
			first = v
		} else if !reflect.DeepEqual(first, v) && !(c18IsNaN(first) && c18IsNaN(v)) {
			return c18Res{class: "ok", val: "<<rows differ>>", note: sql}
		}
	}
	return c18Res{class: "ok", val: first, note: sql}
}

func c18IsNaN(v any) bool {
	f, ok := v.(float64)
	return ok && math.IsNaN(f)
}

func c18IsLowerHex(s string) bool {
	for i := 0; i < len(s); i++ {
		c := s[i]
		if !(c >= '0' && c <= '9' || c >= 'a' && c <= 'f') {
			return false
		}
	}
	return true
}

// ---------- the registration table, read from the source of the package under test ----------

func c18SourceDir() string {
	pc := reflect.ValueOf(genql.Guard).Pointer()
	file, _ := runtime.FuncForPC(pc).FileLine(pc)
	return filepath.Dir(file)
}

func c18Registry() ([][2]string, error) {
	fset := token.NewFileSet()
	f, err := parser.ParseFile(fset, filepath.Join(c18SourceDir(), "functions.go"), nil, 0)
	if err != nil {
		return nil, err
	}
	var out [][2]string
	for _, d := range f.Decls {
		fd, ok := d.(*ast.FuncDecl)
		if !ok || fd.Name.Name != "init" || fd.Recv != nil {
			continue
		}
		ast.Inspect(fd.Body, func(n ast.Node) bool {
			ce, ok := n.(*ast.CallExpr)
			if !ok {
				return true
			}
			id, ok := ce.Fun.(*ast.Ident)
			if !ok || len(ce.Args) != 2 {
				return true
			}
			if id.Name != "RegisterFunction" && id.Name != "RegisterImmediateFunction" {
				return true
			}
			bl, ok := ce.Args[0].(*ast.BasicLit)
			if !ok || bl.Kind != token.STRING {
				return true
			}
			name, _ := strconv.Unquote(bl.Value)
			imm := "false"
			if id.Name == "RegisterImmediateFunction" {
				imm = "true"
			}
			out = append(out, [2]string{strings.ToLower(name), imm})
			return true
		})
	}
	return out, nil
}

// ---------- Observe ----------

func (propC18) Observe(raw json.RawMessage) (Observed, error) {
	var in c18In
	dec := json.NewDecoder(strings.NewReader(string(raw)))
	if err := dec.Decode(&in); err != nil {
		return Observed{}, err
	}
	if in.Kind == "registry" {
		reg, err := c18Registry()
		if err != nil {
			return Observed{}, err
		}
		items := make([]string, len(reg))
		note := []string{}
		for i, e := range reg {
			// the dynamic registry must agree with the source about immediacy
			if genql.IsImmediateFunction(e[0]) != (e[1] == "true") {
				e[1] = "dynamic-disagrees"
			}
			items[i] = "(" + coqStr(e[0]) + ", " + e[1] + ")"
			note = append(note, e[0]+":"+e[1])
		}
		return Observed{CoqIn: "CRegistry", CoqObs: "(OReg " + coqList(items) + ")", Note: note, Tags: []string{"kind:registry"}}, nil
	}
	if in.Form != "row" {
		in.Form = "dual"
	}
	res := c18RunCtx(in.Form, in.Ctx, in.Cb, in.Expr, in.Consts, in.Vars, false)
	top := strings.ToLower(in.Expr.Fn)
	tags := []string{"class:" + res.class, "form:" + in.Form}
	if in.Ctx != "" {
		tags = append(tags, "ctx:"+in.Ctx)
	}
	if in.Cb {
		tags = append(tags, "callbacks-installed")
	}
	if in.Expr.Fn != "" {
		tags = append(tags, "fn:"+top, fmt.Sprintf("nargs:%d", len(in.Expr.Args)))
	}
	var obs string
	switch res.class {
	case "error":
		obs = "OError"
	case "panic":
		// a recovered runtime.Error.  Run/C18Run.v accepts it as the API-level error it is exactly
		// where the repaired model itself predicts a panic caught by exec's recover frame — the
		// one such site is SETVAR on a query built without WithVars (nil-map write; not a C18
		// defect) — and reports it as a D41-style defect everywhere else.
		obs = "OPanicked"
	default:
		s, isStr := res.val.(string)
		if isStr && (top == "hash" || top == "encode") {
			other := "row"
			if in.Form == "row" {
				other = "dual"
			}
			res2 := c18Run(other, in.Expr, in.Consts, in.Vars, true)
			det := res2.class == "ok" && reflect.DeepEqual(res2.val, res.val)
			rt := "None"
			if top == "encode" && len(in.Expr.Args) == 2 {
				// DECODE of the very string the engine produced, with the value of the base argument
				b := c18Run("dual", in.Expr.Args[1], in.Consts, in.Vars, false)
				if b.class == "ok" {
					d := c18Run("dual", c18F("DECODE", c18C(s), c18C(b.val)), nil, nil, false)
					if d.class == "ok" {
						rt = "(Some " + c18Val(d.val) + ")"
					}
				}
			}
			obs = fmt.Sprintf("(OStr %d%%nat %s %s %s)", len(s), coqBool(c18IsLowerHex(s)), coqBool(det), rt)
			tags = append(tags, "opaque:"+top)
		} else {
			obs = "(OVal " + c18Val(res.val) + ")"
			tags = append(tags, "kind:"+c18KindOf(res.val))
		}
	}
	// known finding D42: CONCAT with a NULL argument
	if top == "concat" {
		for _, a := range in.Expr.Args {
			ar := c18Run("dual", a, in.Consts, in.Vars, false)
			if ar.class == "ok" && ar.val == nil {
				tags = append(tags, "concat.null-arg")
				break
			}
		}
	}
	// case table for the non-ASCII strings of the case (the Unicode oracle itself)
	strs := map[string]bool{}
	in.Expr.strings(strs)
	var keys []string
	strs2 := map[string]bool{}
	for s := range strs {
		if !c18IsASCII(s) {
			// the string and its images, so that nested case-map calls stay inside the table
			for _, x := range []string{s, strings.ToLower(s), strings.ToUpper(s)} {
				if !c18IsASCII(x) && !strs2[x] {
					strs2[x] = true
					keys = append(keys, x)
				}
			}
		}
	}
	sort.Strings(keys)
	tab := make([]string, len(keys))
	for i, s := range keys {
		tab[i] = "(" + coqStr(s) + ", (" + coqStr(strings.ToLower(s)) + ", " + coqStr(strings.ToUpper(s)) + "))"
	}
	if len(keys) > 0 {
		tags = append(tags, "unicode")
	}
	consts, vars := "None", "None"
	if in.Consts != nil {
		consts = "(Some " + c18Obj(*in.Consts) + ")"
		tags = append(tags, "ctx:consts")
	}
	if in.Vars != nil {
		vars = "(Some " + c18Obj(*in.Vars) + ")"
		tags = append(tags, "ctx:vars")
	}
	coqIn := "(CExpr " + consts + " " + vars + " " + coqList(tab) + " " + in.Expr.coq() + ")"
	return Observed{CoqIn: coqIn, CoqObs: obs, Note: map[string]any{"sql": res.note, "class": res.class, "value": fmt.Sprintf("%#v", res.val)}, Tags: tags}, nil
}

func c18KindOf(v any) string {
	switch v.(type) {
	case nil:
		return "null"
	case bool:
		return "bool"
	case float64:
		return "number"
	case string:
		return "string"
	case []any:
		return "array"
	case map[string]any:
		return "object"
	}
	return fmt.Sprintf("%T", v)
}

// ---------- generators ----------

var c18Names = []string{"sum", "avg", "min", "max", "count", "concat", "first", "last", "elementat", "defaultkey",
	"changetype", "unwind", "if", "fuse", "daterange", "constant", "getvar", "setvar", "raise_when", "raise",
	"report_when", "report", "hash", "encode", "decode", "timestamp", "array", "to_lower", "to_upper"}

var c18Aggr = map[string]bool{"sum": true, "avg": true, "min": true, "max": true, "count": true}

func c18MixCase(r *Rand, s string) string {
	switch r.Intn(4) {
	case 0:
		return s
	case 1:
		return strings.ToUpper(s)
	}
	b := []byte(s)
	for i := range b {
		if b[i] >= 'a' && b[i] <= 'z' && r.Bool() {
			b[i] -= 32
		}
	}
	return string(b)
}

var c18Nums = []float64{0, 1, 2, 3, -1, -2, 0.5, 1.5, -0.5, 2.25, 10, 100, 255, 1000000, 123456, 1234567, 1e21, 0.125, 0.0009765625, -7.75, 42, 0.001}
var c18Strs = []string{"", "a", "abc", "Hello World", "AbC", "1", "1.5", "-12", "2020-01-01", "true", "<nil>", "x y", "[1 2]", "base64", "MiXeD_9"}
var c18Weird = []string{"it's", "a,b", "q\"q", "tab\there", "back\\slash", "π", "Ünïcödé", "ΟΔΥΣΣΕΥΣ", "straße", "İstanbul", "ǅungla", "日本語", "K", "ŉ", "%s", "a\nb"}

func (g *c18Gen) scalar() any {
	r := g.r
	switch r.Intn(8) {
	case 0:
		return nil
	case 1:
		return r.Bool()
	case 2, 3, 4:
		return Pick(r, c18Nums)
	case 5, 6:
		return Pick(r, c18Strs)
	}
	return Pick(r, c18Weird)
}

func (g *c18Gen) array(depth int) []any {
	r := g.r
	n := r.Intn(5)
	out := make([]any, n)
	for i := range out {
		if depth > 0 && r.Chance(30) {
			out[i] = g.array(depth - 1)
		} else {
			out[i] = g.scalar()
		}
	}
	return out
}

func (g *c18Gen) value() any {
	if g.r.Chance(30) {
		return g.array(2)
	}
	return g.scalar()
}

// lit wraps a value as an SQL literal when possible (half of the time), else as a column
func (g *c18Gen) lit(v any) c18Expr {
	switch v.(type) {
	case []any, map[string]any:
		return c18C(v)
	}
	if g.r.Bool() {
		return c18L(v)
	}
	return c18C(v)
}

// arr gives an array-valued expression: a column, or ARRAY(...) of the elements
func (g *c18Gen) arr(a []any) c18Expr {
	if g.r.Bool() {
		return c18C(a)
	}
	args := make([]c18Expr, len(a))
	for i, x := range a {
		if sub, ok := x.([]any); ok {
			args[i] = g.arr(sub)
		} else {
			args[i] = g.lit(x)
		}
	}
	return c18F(c18MixCase(g.r, "array"), args...)
}

type c18Gen struct {
	r   *Rand
	out []Case
}

func (g *c18Gen) add(e c18Expr, consts, vars *map[string]any, nontrivial bool, tags ...string) {
	form := "dual"
	if g.r.Chance(35) && !c18HasAggr(e) {
		form = "row"
	}
	in := c18In{Kind: "expr", Form: form, Consts: consts, Vars: vars, Expr: e}
	if c18ContextFree(e) && !c18HasAggr(e) {
		if g.r.Chance(18) {
			in.Ctx = Pick(g.r, []string{"union", "cte", "derived"})
		}
		in.Cb = g.r.Chance(30)
	}
	g.out = append(g.out, Case{Input: in, Tags: tags, Nontrivial: nontrivial})
}

// c18ContextFree: no call with an effect or an effect-only result (their evaluation count / column is context dependent)
func c18ContextFree(e c18Expr) bool {
	if e.Lit != nil {
		return true
	}
	switch strings.ToLower(e.Fn) {
	case "setvar", "getvar", "report", "report_when", "raise", "raise_when", "timestamp", "fuse", "async", "await":
		return false
	}
	for _, a := range e.Args {
		if !c18ContextFree(a) {
			return false
		}
	}
	return true
}

func c18HasAggr(e c18Expr) bool {
	if e.Lit != nil {
		return false
	}
	if c18Aggr[strings.ToLower(e.Fn)] {
		return true
	}
	for _, a := range e.Args {
		if c18HasAggr(a) {
			return true
		}
	}
	return false
}

var c18Arrays = [][]any{
	{}, {1.0}, {1.0, 2.0, 3.0}, {"a", "b"}, {nil}, {nil, 1.0, nil}, {[]any{1.0, 2.0}, 3.0, nil, []any{[]any{4.0}}},
	{[]any{}, []any{}}, {true, "x", 2.5, nil, []any{"y"}}, {[]any{nil}, []any{[]any{}}}, {"", 0.0, false},
}

func (g *c18Gen) indexing(rep int) {
	r := g.r
	for k := 0; k < rep; k++ {
		for _, a := range c18Arrays {
			n := len(a)
			g.add(c18F(c18MixCase(r, "first"), g.arr(a)), nil, nil, true, "stream:indexing")
			g.add(c18F(c18MixCase(r, "last"), g.arr(a)), nil, nil, true, "stream:indexing")
			idx := []float64{}
			for i := -2; i <= n+1; i++ {
				idx = append(idx, float64(i))
			}
			idx = append(idx, 0.5, -0.5, float64(n)-0.5, 1.75, -1.25, 1e30, -1e30, 4294967296, -4294967296, math.Copysign(0, -1))
			for _, i := range idx {
				g.add(c18F(c18MixCase(r, "elementat"), g.arr(a), g.lit(i)), nil, nil, true, "stream:indexing")
			}
		}
		// NULL / non-array first argument, NULL / non-number index
		for _, f := range []string{"first", "last", "unwind"} {
			for _, v := range []any{nil, "abc", 1.0, true} {
				g.add(c18F(c18MixCase(r, f), g.lit(v)), nil, nil, true, "stream:indexing")
			}
			g.add(c18F(c18MixCase(r, f), c18C(map[string]any{"a": 1.0})), nil, nil, true, "stream:indexing")
		}
		for _, v := range []any{nil, "abc", 1.0, true} {
			g.add(c18F(c18MixCase(r, "elementat"), g.lit(v), g.lit(0.0)), nil, nil, true, "stream:indexing")
		}
		for _, i := range []any{nil, "0", true, []any{0.0}} {
			g.add(c18F(c18MixCase(r, "elementat"), g.arr([]any{1.0, 2.0}), g.lit(i)), nil, nil, true, "stream:indexing")
		}
		g.add(c18F("elementat", c18L(nil), c18L(nil)), nil, nil, true, "stream:indexing")
	}
}

func (g *c18Gen) unwindArray(rep int) {
	r := g.r
	for k := 0; k < rep; k++ {
		for _, a := range c18Arrays {
			g.add(c18F(c18MixCase(r, "unwind"), g.arr(a)), nil, nil, true, "stream:unwind")
			g.add(c18F(c18MixCase(r, "unwind"), c18F("unwind", g.arr(a))), nil, nil, true, "stream:unwind")
		}
		for i := 0; i < 12; i++ {
			a := g.array(3)
			g.add(c18F(c18MixCase(r, "unwind"), g.arr(a)), nil, nil, true, "stream:unwind")
			n := r.Intn(5)
			args := make([]c18Expr, n)
			for j := range args {
				v := g.value()
				if arr, ok := v.([]any); ok {
					args[j] = g.arr(arr)
				} else {
					args[j] = g.lit(v)
				}
			}
			g.add(c18F(c18MixCase(r, "array"), args...), nil, nil, n > 0, "stream:array")
		}
	}
}

func (g *c18Gen) concat(rep int) {
	r := g.r
	for k := 0; k < rep; k++ {
		g.add(c18F("concat"), nil, nil, false, "stream:concat")
		for i := 0; i < 30; i++ {
			n := 1 + r.Intn(4)
			args := make([]c18Expr, n)
			for j := range args {
				var v any
				if i%3 == 0 {
					// non-NULL scalars only: the claimed region
					for v == nil {
						v = g.scalar()
					}
				} else {
					v = g.value()
				}
				args[j] = g.lit(v)
			}
			g.add(c18F(c18MixCase(r, "concat"), args...), nil, nil, true, "stream:concat")
		}
		g.add(c18F("CONCAT", c18L("a"), c18L(nil)), nil, nil, true, "stream:concat")
		g.add(c18F("CONCAT", c18L("a"), c18F("first", c18F("array"))), nil, nil, true, "stream:concat")
		g.add(c18F("CONCAT", c18F("changetype", c18L("12"), c18L("integer")), c18L("x")), nil, nil, true, "stream:concat")
	}
}

func (g *c18Gen) ifs(rep int) {
	r := g.r
	for k := 0; k < rep; k++ {
		conds := []c18Expr{c18L(true), c18L(false), c18C(true), c18C(false), c18L(nil), c18C(nil), c18L(1.0), c18L("true"), c18C([]any{true}),
			c18F("first", c18C([]any{true})), c18F("first", c18C([]any{})), c18F("if", c18L(true), c18L(false), c18L(true))}
		for _, c := range conds {
			for i := 0; i < 3; i++ {
				g.add(c18F(c18MixCase(r, "if"), c, g.lit(g.value()), g.lit(g.value())), nil, nil, true, "stream:if")
			}
		}
		g.add(c18F("if", c18L(true), c18L(nil), c18L(1.0)), nil, nil, true, "stream:if")
		g.add(c18F("if", c18L(false), c18L(1.0), c18L(nil)), nil, nil, true, "stream:if")
	}
}

func (g *c18Gen) caseMaps(rep int) {
	r := g.r
	for k := 0; k < rep; k++ {
		for _, f := range []string{"to_lower", "to_upper"} {
			for _, s := range c18Strs {
				g.add(c18F(c18MixCase(r, f), g.lit(s)), nil, nil, true, "stream:case")
			}
			for _, s := range c18Weird {
				g.add(c18F(c18MixCase(r, f), c18C(s)), nil, nil, true, "stream:case")
			}
			for _, v := range []any{nil, 1.0, true, []any{"A"}} {
				g.add(c18F(c18MixCase(r, f), g.lit(v)), nil, nil, true, "stream:case")
			}
			g.add(c18F(f, c18F(f, c18C("MiXed É"))), nil, nil, true, "stream:case")
		}
		g.add(c18F("to_lower", c18F("to_upper", c18L("MiXeD"))), nil, nil, true, "stream:case")
	}
}

var c18Types = []string{"array", "string", "double", "integer", "ARRAY", "String", "DOUBLE", "InTeGeR", "float", "int", "", "number", "strİng", "double "}

func (g *c18Gen) changetype(rep int) {
	r := g.r
	numStrs := []string{"0", "1", "-1", "+5", "1.5", "-0.25", "1e3", "1E-2", "12345678", "0.001", ".5", "5.", "1e+21", "-0", "007", "9007199254740993", "1e400",
		"abc", "", " 1", "1 ", "1.2.3", "e5", "1e", "--1", "0x10", "1_0", "inf", "NaN", "Infinity", "9223372036854775807", "9223372036854775808", "-9223372036854775808", "12a"}
	for k := 0; k < rep; k++ {
		for _, t := range c18Types {
			for i := 0; i < 4; i++ {
				g.add(c18F(c18MixCase(r, "changetype"), g.lit(g.value()), g.lit(t)), nil, nil, true, "stream:changetype")
			}
			g.add(c18F("changetype", c18L(nil), g.lit(t)), nil, nil, true, "stream:changetype")
		}
		for _, s := range numStrs {
			g.add(c18F("changetype", g.lit(s), c18L("double")), nil, nil, true, "stream:changetype")
			g.add(c18F("changetype", g.lit(s), c18L("integer")), nil, nil, true, "stream:changetype")
		}
		for _, x := range c18Nums {
			// string <-> double round trips
			g.add(c18F("changetype", c18F("changetype", g.lit(x), c18L("string")), c18L("double")), nil, nil, true, "stream:changetype", "roundtrip")
			g.add(c18F("changetype", g.lit(x), c18L("integer")), nil, nil, true, "stream:changetype")
			g.add(c18F("changetype", g.lit(x), c18L("string")), nil, nil, true, "stream:changetype")
		}
		for _, s := range []string{"1.5", "-0.25", "1e+21", "100", "0.001"} {
			g.add(c18F("changetype", c18F("changetype", g.lit(s), c18L("double")), c18L("string")), nil, nil, true, "stream:changetype", "roundtrip")
		}
		for _, t := range []any{nil, 1.0, true, []any{"string"}} {
			g.add(c18F("changetype", g.lit(1.0), g.lit(t)), nil, nil, true, "stream:changetype")
			g.add(c18F("changetype", c18L(nil), g.lit(t)), nil, nil, true, "stream:changetype")
		}
		g.add(c18F("changetype", c18F("changetype", c18L("12"), c18L("integer")), c18L("double")), nil, nil, true, "stream:changetype")
		g.add(c18F("elementat", c18C([]any{1.0, 2.0}), c18F("changetype", c18L("1"), c18L("integer"))), nil, nil, true, "stream:changetype")
	}
}

func (g *c18Gen) daterange(rep int) {
	r := g.r
	for k := 0; k < rep; k++ {
		vals := []any{"2020-01-01", "2021-12-31", "2020", "", nil, 1.0, 2020.0, true, []any{"a"}, "x y"}
		for _, a := range vals {
			for _, b := range vals {
				if r.Chance(45) {
					g.add(c18F(c18MixCase(r, "daterange"), g.lit(a), g.lit(b)), nil, nil, true, "stream:daterange")
				}
			}
		}
		g.add(c18F("DATERANGE", c18L("2020"), c18L("2021")), nil, nil, true, "stream:daterange")
		g.add(c18F("first", c18F("DATERANGE", c18L("2020"), c18L("2021"))), nil, nil, true, "stream:daterange")
		g.add(c18F("last", c18F("DATERANGE", c18L("2020"), c18L("2021"))), nil, nil, true, "stream:daterange")
	}
}

func (g *c18Gen) constants(rep int) {
	r := g.r
	for k := 0; k < rep; k++ {
		cs := map[string]any{"k": 5.0, "name": "genql", "1": "one", "flag": true, "nil": nil, "arr": []any{1.0, "a", nil}, "<nil>": "null-key", "true": 0.5, "K": "upper"}
		keys := []any{"k", "name", "1", 1.0, "flag", true, "nil", "arr", nil, "missing", "K", "", 2.0, []any{"k"}}
		for _, key := range keys {
			c := cs
			g.add(c18F(c18MixCase(r, "constant"), g.lit(key)), &c, nil, true, "stream:constant")
			if r.Chance(40) {
				g.add(c18F(c18MixCase(r, "constant"), g.lit(key)), nil, nil, true, "stream:constant")
			}
		}
		// options must reach every sub-query: CONSTANT / GETVAR-free expressions inside a UNION side, a CTE body and a
		// derived table, with and without callbacks installed
		for _, ctx := range []string{"union", "cte", "derived"} {
			for _, cb := range []bool{false, true} {
				c := cs
				in := c18In{Kind: "expr", Form: Pick(r, []string{"dual", "row"}), Consts: &c, Expr: c18F(c18MixCase(r, "constant"), g.lit(Pick(r, keys[:8]))), Ctx: ctx, Cb: cb}
				g.out = append(g.out, Case{Input: in, Tags: []string{"stream:constant", "options-in-subquery"}, Nontrivial: true})
			}
		}
		empty := map[string]any{}
		g.add(c18F("constant", c18L("k")), &empty, nil, true, "stream:constant")
		c := cs
		g.add(c18F("elementat", c18F("constant", c18L("arr")), c18L(1.0)), &c, nil, true, "stream:constant")
	}
}

var c18Algs = []string{"sha1", "sha256", "sha512", "md5", "SHA1", "Sha256", "sHa512", "MD5", "sha224", "sha-256", "", "crc32", "md5 "}
var c18Bases = []string{"base64", "base32", "hex", "BASE64", "Base32", "HeX", "bAsE64", "base16", "", "base58", "hex "}

func (g *c18Gen) hashes(rep int) {
	r := g.r
	for k := 0; k < rep; k++ {
		for _, a := range c18Algs {
			for i := 0; i < 4; i++ {
				g.add(c18F(c18MixCase(r, "hash"), g.lit(g.scalar()), g.lit(a)), nil, nil, true, "stream:hash")
			}
			g.add(c18F("hash", g.arr(g.array(1)), g.lit(a)), nil, nil, true, "stream:hash")
		}
		for _, a := range []any{nil, 1.0, true, []any{"md5"}} {
			g.add(c18F("hash", g.lit(g.scalar()), g.lit(a)), nil, nil, true, "stream:hash")
			g.add(c18F("hash", g.arr(g.array(1)), g.lit(a)), nil, nil, true, "stream:hash")
		}
		g.add(c18F("hash", c18C(map[string]any{"a": 1.0}), c18L("md5")), nil, nil, true, "stream:hash")
	}
}

func (g *c18Gen) codecs(rep int) {
	r := g.r
	for k := 0; k < rep; k++ {
		for _, b := range c18Bases {
			for i := 0; i < 5; i++ {
				v := g.scalar()
				g.add(c18F(c18MixCase(r, "encode"), g.lit(v), g.lit(b)), nil, nil, true, "stream:codec")
				g.add(c18F(c18MixCase(r, "decode"), c18F(c18MixCase(r, "encode"), g.lit(v), g.lit(b)), g.lit(b)), nil, nil, true, "stream:codec", "roundtrip")
				// same base, different spelling / a different base
				b2 := Pick(r, c18Bases)
				g.add(c18F("decode", c18F("encode", g.lit(v), g.lit(b)), g.lit(b2)), nil, nil, true, "stream:codec")
			}
			g.add(c18F("encode", g.arr(g.array(1)), g.lit(b)), nil, nil, true, "stream:codec")
			for _, s := range []string{"", "zz", "00", "ab", "====", "AAAA", "MFRGG===", "YWJj", "616263", "6", "0g"} {
				if r.Chance(50) {
					g.add(c18F("decode", g.lit(s), g.lit(b)), nil, nil, true, "stream:codec")
				}
			}
		}
		for _, a := range []any{nil, 1.0, true, []any{"hex"}} {
			g.add(c18F("encode", g.lit(g.scalar()), g.lit(a)), nil, nil, true, "stream:codec")
			g.add(c18F("decode", g.lit("00"), g.lit(a)), nil, nil, true, "stream:codec")
			g.add(c18F("decode", g.lit(a), g.lit("hex")), nil, nil, true, "stream:codec")
			g.add(c18F("decode", g.lit(a), g.lit("nope")), nil, nil, true, "stream:codec")
			g.add(c18F("decode", g.lit(a), c18L(nil)), nil, nil, true, "stream:codec")
		}
		g.add(c18F("decode", c18F("encode", c18F("changetype", c18L("12"), c18L("integer")), c18L("hex")), c18L("hex")), nil, nil, true, "stream:codec")
	}
}

// every registered name x arities 0..4 x argument templates
func (g *c18Gen) arities(rep int) {
	r := g.r
	templates := []func(i int) any{
		func(int) any { return nil },
		func(int) any { return 1.0 },
		func(int) any { return "hex" },
		func(int) any { return true },
		func(i int) any {
			if i == 0 {
				return []any{1.0, 2.0}
			}
			return float64(i - 1)
		},
	}
	names := append([]string{}, c18Names...)
	// plus whatever the source registers today that the list above does not know
	if reg, err := c18Registry(); err == nil {
		known := map[string]bool{}
		for _, n := range names {
			known[n] = true
		}
		for _, e := range reg {
			if !known[e[0]] {
				known[e[0]] = true
				names = append(names, e[0])
			}
		}
	}
	names = append(names, "nosuchfunction", "firstt")
	for k := 0; k < rep; k++ {
		for _, name := range names {
			for n := 0; n <= 4; n++ {
				if name == "count" && n == 0 {
					continue // COUNT() reads the row set: C03
				}
				for ti, t := range templates {
					if n == 0 && ti > 0 {
						continue
					}
					args := make([]c18Expr, n)
					for i := range args {
						v := t(i)
						if arr, ok := v.([]any); ok {
							args[i] = c18F("array", c18L(arr[0]), c18L(arr[1]))
						} else {
							args[i] = c18L(v)
						}
					}
					vars := map[string]any{"a": 1.0}
					var vp *map[string]any
					if r.Bool() {
						vp = &vars
					}
					consts := map[string]any{"hex": "c", "1": "one"}
					g.add(c18F(c18MixCase(r, name), args...), &consts, vp, false, "stream:arity")
				}
			}
		}
	}
}

func (g *c18Gen) sideEffecting(rep int) {
	for k := 0; k < rep; k++ {
		vars := map[string]any{"a": 1.0, "s": "x"}
		for _, vp := range []*map[string]any{nil, &vars} {
			g.add(c18F("setvar", c18L("a"), c18L(2.0)), nil, vp, true, "stream:vars")
			g.add(c18F("setvar", c18L(nil), c18L(nil)), nil, vp, true, "stream:vars")
			g.add(c18F("getvar", c18L("a")), nil, vp, true, "stream:vars")
			g.add(c18F("getvar", c18L("zz")), nil, vp, true, "stream:vars")
			g.add(c18F("array", c18F("setvar", c18L("b"), c18L(1.0))), nil, vp, true, "stream:vars")
		}
		for _, c := range []any{true, false, nil, 1.0, "true"} {
			g.add(c18F("raise_when", g.lit(c), c18L("boom")), nil, nil, true, "stream:raise")
			g.add(c18F("report_when", g.lit(c), c18L("boom")), nil, nil, true, "stream:raise")
		}
		g.add(c18F("raise", c18L("boom")), nil, nil, true, "stream:raise")
		g.add(c18F("report", c18L("boom")), nil, nil, true, "stream:raise")
		g.add(c18F("timestamp"), nil, nil, true, "stream:raise")
		for _, a := range [][]any{{1.0, 2.0, 3.0}, {}, {nil, nil}, {1.0, nil, "2.5"}, {"x"}, {3.0, -1.0, 2.0}, {true}, {[]any{1.0}}} {
			for _, f := range []string{"sum", "avg", "min", "max", "count"} {
				args := make([]c18Expr, len(a))
				for i, x := range a {
					if sub, ok := x.([]any); ok {
						args[i] = c18F("array", c18L(sub[0]))
					} else {
						args[i] = c18L(x)
					}
				}
				g.add(c18F(f, c18F("array", args...)), nil, nil, true, "stream:aggr")
			}
		}
		for _, f := range []string{"sum", "avg", "min", "max", "count"} {
			g.add(c18F(f, c18L(nil)), nil, nil, true, "stream:aggr")
			g.add(c18F(f, c18L("abc")), nil, nil, true, "stream:aggr")
		}
		g.add(c18F("defaultkey", c18C(map[string]any{"only": 7.0})), nil, nil, true, "stream:defaultkey")
		g.add(c18F("defaultkey", c18C(map[string]any{})), nil, nil, true, "stream:defaultkey")
		g.add(c18F("defaultkey", c18C(map[string]any{"a": 1.0, "b": 2.0})), nil, nil, true, "stream:defaultkey")
		g.add(c18F("defaultkey", c18L(nil)), nil, nil, true, "stream:defaultkey")
		g.add(c18F("defaultkey", c18L(1.0)), nil, nil, true, "stream:defaultkey")
		g.add(c18F("fuse", c18L(nil)), nil, nil, true, "stream:defaultkey")
		g.add(c18F("fuse", c18L(1.0)), nil, nil, true, "stream:defaultkey")
	}
}

// random nested expressions over the pure in-scope functions
func (g *c18Gen) randomExpr(depth int) c18Expr {
	r := g.r
	if depth == 0 || r.Chance(25) {
		v := g.value()
		if arr, ok := v.([]any); ok {
			return g.arr(arr)
		}
		return g.lit(v)
	}
	sub := func() c18Expr { return g.randomExpr(depth - 1) }
	switch r.Intn(12) {
	case 0:
		return c18F(c18MixCase(r, "first"), sub())
	case 1:
		return c18F(c18MixCase(r, "last"), sub())
	case 2:
		return c18F(c18MixCase(r, "elementat"), sub(), g.lit(float64(r.Range(-1, 3))))
	case 3:
		return c18F(c18MixCase(r, "unwind"), sub())
	case 4:
		n := r.Intn(4)
		args := make([]c18Expr, n)
		for i := range args {
			args[i] = sub()
		}
		return c18F(c18MixCase(r, "array"), args...)
	case 5:
		return c18F(c18MixCase(r, "concat"), sub(), sub())
	case 6:
		return c18F(c18MixCase(r, "if"), g.lit(Pick(r, []any{true, false, true, false, nil})), sub(), sub())
	case 7:
		return c18F(c18MixCase(r, "changetype"), sub(), g.lit(Pick(r, c18Types)))
	case 8:
		return c18F(c18MixCase(r, "daterange"), sub(), sub())
	case 9:
		return c18F(c18MixCase(r, "to_lower"), sub())
	case 10:
		return c18F(c18MixCase(r, "to_upper"), sub())
	}
	return c18F(c18MixCase(r, "decode"), c18F(c18MixCase(r, "encode"), sub(), c18L("hex")), c18L("HEX"))
}

func (propC18) Generate(r *Rand, tier string) []Case {
	// util.go's NewRand(seed) streams for consecutive seeds are shifts of one another (the state
	// advances by the same constant the seed is multiplied with); reseed from a mixed output
	r = NewRand(r.U64() ^ 0xC18C18C18)
	g := &c18Gen{r: r}
	rep := 1
	nrand := 500
	if tier == "thorough" {
		rep = 8
		nrand = 6000
	}
	g.out = append(g.out, Case{Input: c18In{Kind: "registry"}, Tags: []string{"stream:registry"}, Nontrivial: true})
	g.indexing(rep)
	g.unwindArray(rep)
	g.concat(rep)
	g.ifs(rep)
	g.caseMaps(rep)
	g.changetype(rep)
	g.daterange(rep)
	g.constants(rep)
	g.hashes(rep)
	// long payloads: the round trip holds whatever the length of the encoded text (one line of more than 64 KiB included)
	sizes := []int{1000, 34000} // 34 000 bytes are 68 000 hex digits: one line of more than 64 KiB
	if tier == "thorough" {
		sizes = []int{1000, 34000, 50000, 80000}
	}
	for _, n := range sizes {
		long := strings.Repeat("payload-0123456789-", n/19+1)[:n]
		bases := []string{"base64", "hex", "base32"}
		if n == 34000 && tier != "thorough" {
			bases = []string{"hex"}
		}
		for _, b := range bases {
			g.out = append(g.out, Case{Input: c18In{Kind: "expr", Form: "row", Expr: c18F("decode", c18F("encode", c18C(long), c18L(b)), c18L(b))},
				Tags: []string{"stream:codec", "roundtrip", fmt.Sprintf("long-payload:%d", n)}, Nontrivial: true})
		}
		if n <= 1000 || tier == "thorough" {
			g.out = append(g.out, Case{Input: c18In{Kind: "expr", Form: "row", Expr: c18F("hash", c18C(long), c18L("sha256"))}, Tags: []string{"stream:hash", fmt.Sprintf("long-payload:%d", n)}, Nontrivial: true})
			g.out = append(g.out, Case{Input: c18In{Kind: "expr", Form: "row", Expr: c18F("to_upper", c18C(long))}, Tags: []string{"stream:case", fmt.Sprintf("long-payload:%d", n)}, Nontrivial: true})
		}
	}
	g.codecs(rep)
	g.arities(rep)
	g.sideEffecting(rep)
	for i := 0; i < nrand; i++ {
		e := g.randomExpr(3)
		if e.Lit != nil {
			e = c18F("array", e)
		}
		g.add(e, nil, nil, true, "stream:random")
	}
	return g.out
}
