package main

// c08extra.go — C08 over selector sources, observed on the real code alone (the model-vs-code cases over such sources
// are the stream r5_c08.go, From kind "sel"): selector paths that
// KEEP the dimensions of a multi-dimensional array (`n[keep=>each]`, `grid[keep=>each:0]`, kept slices, a kept
// selection continued with `::`), next to plain keys, key paths and flattening selectors that still resolve to an
// array of arrays. OBSERVATIONAL / METAMORPHIC stage: the property's own statement is checked on the real code.
// For a source S that the library's own reader (genql.ExecReader, no top-level function) resolves to an array of
// arrays, and a filter/projection query Q:
//   nesting     Q over `S` has the nesting of what S resolves to (one inner result per inner array, at every depth)
//   per-inner   each innermost result equals Q run directly on that innermost array (supplied as a plain table)
//   mix         Q over `mix=>S` equals the concatenation of those innermost results
//   vharness aux c08extra -tier T -seed N -out <dir>      (with -in <failure file>: re-runs that one case)

import (
	"encoding/json"
	"fmt"
	"os"
	"path/filepath"

	genql "github.com/vedadiyan/genql"
)

func init() { auxRegistry["c08extra"] = runC08Extra }

type c08Case struct {
	Doc    map[string]any `json:"doc"`
	Source string         `json:"source"`
	Q      *Stmt          `json:"q"` // FROM is the placeholder table x; the stage substitutes the source
}

// c08Sources: selector texts over the keys n (array of arrays of objects), grid (one level deeper) and wrap.n
var c08Sources = []string{
	"n", "n[keep=>each]", "n[keep=>each:each]", "n[keep=>(0:2)]", "wrap.n", "wrap.n[keep=>each]",
	"grid", "grid[keep=>each]", "grid[keep=>each:0]", "grid[keep=>each:each]", "grid[keep=>each:each:each]", "grid[keep=>each:(0:1)]",
	"grid[each]", "grid[0]", "grid[keep=>0]", "grid[keep=>(0:2)]", "grid[each]::[keep=>each]", "grid[keep=>each:0]::[keep=>each]",
}

// isNested: an array all of whose elements are arrays (of arrays ...) of objects; returns the innermost arrays in order
func c08Inner(v any, top bool, acc *[][]any) bool {
	a, ok := v.([]any)
	if !ok {
		return false
	}
	arrays, objects := 0, 0
	for _, x := range a {
		switch x.(type) {
		case []any:
			arrays++
		case map[string]any:
			objects++
		default:
			return false
		}
	}
	if arrays > 0 && objects > 0 {
		return false
	}
	if arrays == 0 {
		if top {
			return false // a flat table (or an empty array): not a multi-dimensional source
		}
		*acc = append(*acc, a)
		return true
	}
	for _, x := range a {
		if !c08Inner(x, false, acc) {
			return false
		}
	}
	return true
}

// sameNesting: res has an array wherever src has one, of the same length, down to (not including) the innermost arrays
func c08SameNesting(src, res any) bool {
	s, ok := src.([]any)
	if !ok {
		return false
	}
	inner := true
	for _, x := range s {
		if _, isArr := x.([]any); isArr {
			inner = false
		}
	}
	r, ok := res.([]any)
	if res == nil {
		r, ok = nil, true
	}
	if !ok {
		return false
	}
	if inner {
		return true
	}
	if len(r) != len(s) {
		return false
	}
	for i := range s {
		if !c08SameNesting(s[i], r[i]) {
			return false
		}
	}
	return true
}

func c08Flatten(v any, acc *[]any) {
	switch t := v.(type) {
	case []any:
		for _, x := range t {
			if _, ok := x.([]any); ok || x == nil {
				c08Flatten(x, acc)
			} else {
				*acc = append(*acc, x)
			}
		}
	}
}

func c08WithFrom(q *Stmt, f *From) *Stmt {
	c := *q
	c.From = f
	return &c
}

func c08Canon(v any) string {
	raw, err := json.Marshal(jsonSafe(v))
	if err != nil {
		return fmt.Sprintf("%#v", v)
	}
	if string(raw) == "null" {
		return "[]"
	}
	return string(raw)
}

// c08Check returns "" when the case is not applicable, "ok", or a description of the failed clause
func c08Check(c c08Case) (verdict string, detail map[string]any) {
	src, err := genql.ExecReader(deepCopy(c.Doc).(map[string]any), c.Source)
	if err != nil {
		return "", nil
	}
	var inner [][]any
	if !c08Inner(src, true, &inner) {
		return "", nil
	}
	quoted := func(s string) *From { return &From{K: "table", Path: []string{s}} }
	nestedSQL := c08WithFrom(c.Q, quoted(c.Source)).SQL()
	nested := runEngine(deepCopy(c.Doc).(map[string]any), nestedSQL)
	detail = map[string]any{"source": c.Source, "source_resolves_to": jsonSafe(src), "nested_sql": nestedSQL}
	var want []any
	for _, a := range inner {
		d := deepCopy(c.Doc).(map[string]any)
		d["x"] = deepCopy(a)
		direct := runEngine(d, c.Q.SQL())
		if direct.Class != "ok" {
			// the query fails on an inner array: then it must fail on the nested source as well; nothing more to compare
			if nested.Class == "ok" {
				detail["direct_sql"], detail["direct_error"] = c.Q.SQL(), direct.Err
				return "the query fails when run directly on an inner array but succeeds on the nested source", detail
			}
			return "ok", nil
		}
		want = append(want, direct.Rows...)
	}
	if nested.Class != "ok" {
		detail["nested_error"] = nested.Err
		return "the query succeeds on every inner array but fails on the nested source", detail
	}
	detail["nested"] = jsonSafe(anySlice(nested.Rows))
	if !c08SameNesting(src, anySlice(nested.Rows)) {
		return "nesting: the result does not have the nesting of its source", detail
	}
	var got []any
	c08Flatten(anySlice(nested.Rows), &got)
	detail["inner_results_concatenated"] = jsonSafe(anySlice(want))
	if c08Canon(anySlice(got)) != c08Canon(anySlice(want)) {
		return "per-inner: the inner results differ from the query run directly on each inner array", detail
	}
	mixSQL := c08WithFrom(c.Q, &From{K: "table", Fn: "mix", Path: []string{c.Source}}).SQL()
	mixed := runEngine(deepCopy(c.Doc).(map[string]any), mixSQL)
	detail["mix_sql"] = mixSQL
	if mixed.Class != "ok" {
		detail["mix_error"] = mixed.Err
		return "mix: the query over mix=>source fails", detail
	}
	detail["mixed"] = jsonSafe(anySlice(mixed.Rows))
	if c08Canon(anySlice(mixed.Rows)) != c08Canon(anySlice(want)) {
		return "mix: the query over mix=>source is not the concatenation of the inner results", detail
	}
	if len(want) > 0 {
		c08NonEmpty++
	}
	return "ok", nil
}

// c08NonEmpty counts the agreeing observations whose concatenated result holds at least one row
var c08NonEmpty int

func c08GenCase(r *Rand) c08Case {
	t := genTable(r, 5)
	for len(t.rows) == 0 {
		t = genTable(r, 5)
	}
	n := genNested(r, t, 1)
	for len(n) == 0 {
		n = genNested(r, t, 1)
	}
	grid := genNested(r, t, 2)
	for len(grid) == 0 || len(grid[0].([]any)) == 0 {
		grid = genNested(r, t, 2)
	}
	doc := map[string]any{"n": n, "grid": grid, "wrap": map[string]any{"n": deepCopy(n)}}
	q := &Stmt{From: &From{K: "table", Path: []string{"x"}}}
	if r.Chance(75) {
		var sub []string
		q.Where = genPred(r, t, 2, &sub)
		for _, s := range sub {
			if s == "op:in-subquery" || s == "op:notin-subquery" {
				q.Where = Cmp(Pick(r, cmpOps), Col(Pick(r, t.numCols)), Num(t.numConst(r)))
			}
		}
	}
	if r.Chance(35) {
		q.Items = []Item{{Star: true}}
	} else {
		var tags []string
		q.Items = genItems(r, t, 2, &tags)
	}
	return c08Case{Doc: doc, Source: Pick(r, c08Sources), Q: q}
}

func runC08Extra(tier string, seed uint64, out string) {
	if flagIn != "" {
		raw, err := os.ReadFile(flagIn)
		must(err)
		var rec struct {
			Case c08Case `json:"case"`
		}
		must(json.Unmarshal(raw, &rec))
		v, d := c08Check(rec.Case)
		writeJSON(filepath.Join(out, "c08extra.json"), map[string]any{"checks": 1, "verdict": v, "detail": d})
		return
	}
	n := 400
	if tier == "thorough" {
		n = 6000
	}
	// NewRand(s) and NewRand(s+1) are the same splitmix sequence one draw apart: spread the seeds over the sequence
	r := NewRand((seed+1)*0xD1342543DE82EF95 ^ 0xC08E)
	var failures []map[string]any
	checks, skipped := 0, 0
	perSource := map[string]int{}
	for i := 0; i < n; i++ {
		c := c08GenCase(r)
		v, d := c08Check(c)
		switch v {
		case "":
			skipped++
		case "ok":
			checks++
			perSource[c.Source]++
		default:
			checks++
			perSource[c.Source]++
			if len(failures) < 5 {
				failures = append(failures, map[string]any{"kind": v, "case": c, "detail": d})
			} else {
				failures = append(failures, map[string]any{"kind": v, "source": c.Source})
			}
		}
	}
	writeJSON(filepath.Join(out, "c08extra.json"), map[string]any{"generated": n, "checks": checks, "not_applicable": skipped, "non_empty_results": c08NonEmpty, "per_source": perSource, "failures": failures})
}
