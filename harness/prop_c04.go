package main

import "fmt"

// ---------- C04: joins ----------

func genJoinTable(r *Rand, maxRows int, cols []string, strCol string) []any {
	n := r.Intn(maxRows + 1)
	rows := make([]any, n)
	nums := []float64{1, 2, 3, 1, 2}
	strs := []string{"b", "a-", "-b", "a", "b-a", "", "b", "1", "1:a"}
	for i := range rows {
		row := map[string]any{"rid": float64(i + 1)}
		for _, c := range cols {
			row[c] = Pick(r, nums)
		}
		row[strCol] = Pick(r, strs)
		// a second string key column whose text concatenates ambiguously with the first
		row[strCol+"2"] = Pick(r, []string{"c", "bc", "", "-", "a"})
		if r.Chance(40) {
			row[strCol] = Pick(r, []string{"ab", "a", "abc", ""})
		}
		if r.Chance(8) {
			row[cols[0]] = nil
		}
		if r.Chance(5) {
			delete(row, cols[0])
		}
		rows[i] = row
	}
	return rows
}

func genOn(r *Rand, lcols, rcols []string, lstr, rstr string, tags *[]string) *Expr {
	cmp := func(op string) *Expr {
		var a, b *Expr
		if r.Chance(35) {
			a, b = Col("x", lstr), Col("y", rstr)
			if r.Bool() {
				a, b = Col("x", lstr+"2"), Col("y", rstr+"2")
			}
		} else {
			a, b = Col("x", Pick(r, lcols)), Col("y", Pick(r, rcols))
		}
		if r.Bool() {
			a, b = b, a
			*tags = append(*tags, "on:flipped")
		}
		return Cmp(op, a, b)
	}
	k := 1 + r.Intn(3)
	equi := r.Chance(55)
	var e *Expr
	for i := 0; i < k; i++ {
		op := "="
		if !equi {
			op = Pick(r, cmpOps)
		}
		*tags = append(*tags, "on:"+op)
		c := cmp(op)
		if e == nil {
			e = c
			continue
		}
		if equi || r.Chance(60) {
			e = And(e, c)
		} else {
			e = Or(e, c)
			*tags = append(*tags, "on:or")
		}
	}
	*tags = append(*tags, fmt.Sprintf("on:conjuncts:%d", k))
	if equi {
		*tags = append(*tags, "on:equi")
	}
	return e
}

func genC04(r *Rand, tier string) []Case {
	n := 60
	if tier == "thorough" {
		n = 700
	}
	var out []Case
	strats := []string{"auto", "hash", "straight", "parallel", "parallelhash", "parallelstraight"}
	for i := 0; i < n; i++ {
		// column names chosen so that the two sides sort differently
		lcols := []string{"k", "z"}
		rcols := []string{"m", "b"}
		doc := map[string]any{"l": genJoinTable(r, 5, lcols, "ls"), "r": genJoinTable(r, 5, rcols, "rs")}
		if r.Chance(10) {
			doc["r"] = []any{}
		}
		if r.Chance(5) {
			doc["l"] = []any{}
		}
		var ontags []string
		on := genOn(r, lcols, rcols, "ls", "rs", &ontags)
		for _, jt := range []string{"inner", "left", "right"} {
			for _, st := range strats {
				if (st == "straight" || st == "parallelstraight") && jt != "inner" {
					continue
				}
				from := &From{K: "join", JT: jt, Strat: st,
					L: &From{K: "table", Path: []string{"l"}, Alias: "x"}, R: &From{K: "table", Path: []string{"r"}, Alias: "y"}, On: on}
				q := &Stmt{From: from, Items: []Item{{Star: true}}}
				tags := append([]string{"type:" + jt, "strategy:" + st}, ontags...)
				out = append(out, mkCase(doc, q, tags, true))
			}
		}
	}
	return out
}

func init() {
	register(engineProp{id: "C04", checkFn: "EngineRun.check_join", gen: genC04,
		rule: "pairs of tables (0-5 x 0-5 rows, duplicate keys, two numeric key columns + one string key column per side with texts that collide under naive concatenation, occasional NULL / missing keys, empty sides) x ON built from 1-3 column pairs with = != < <= > >= joined by AND/OR in random order and orientation, column names chosen so the two sides sort differently; every (table pair, ON) is rendered for all 3 join types x all strategies (auto, HASH_JOIN, STRAIGHT_JOIN, PARALLEL, PARALLEL HASH_JOIN, PARALLEL STRAIGHT_JOIN: 14 renderings); observable: the multiset of merged rows, compared with the code-shaped model AND with the textbook specification; non-trivial = non-error, non-empty result"})
}
