package main

import (
	"fmt"
	"runtime"
	"sync"
	"time"
)

// ---------- C04: joins ----------

func genJoinTable(r *Rand, maxRows int, cols []string, strCol string, expo bool) []any {
	n := r.Intn(maxRows + 1)
	rows := make([]any, n)
	nums := []float64{1, 2, 3, 1, 2}
	strs := []string{"b", "a-", "-b", "a", "b-a", "", "b", "1", "1:a"}
	if expo {
		// magnitudes that %v prints in exponent form, next to strings spelling them that way
		nums = []float64{1e21, 0.000030517578125, 1, 2000000, 100000000}
		strs = []string{"1e+21", "3.0517578125e-05", "1", "1e+08", "100000000", "2e+06", "2000000"}
	}
	for i := range rows {
		row := map[string]any{"rid": float64(i + 1)}
		for _, c := range cols {
			row[c] = Pick(r, nums)
		}
		row[strCol] = Pick(r, strs)
		// a second string key column whose text concatenates ambiguously with the first
		row[strCol+"2"] = Pick(r, []string{"c", "bc", "", "-", "a"})
		if r.Chance(40) {
			row[strCol] = Pick(r, []string{"ab", "a", "abc", ""})
		}
		if r.Chance(8) {
			row[cols[0]] = nil
		}
		if r.Chance(5) {
			delete(row, cols[0])
		}
		// a nested key column; now and then the parent is a scalar, so that reading the key fails in mid-row
		row["o"] = map[string]any{"q": Pick(r, nums)}
		if r.Chance(4) {
			row["o"] = "scalar"
		}
		rows[i] = row
	}
	return rows
}

func genOn(r *Rand, la, ra string, lcols, rcols []string, lstr, rstr string, tags *[]string) *Expr {
	first := true
	cmp := func(op string) *Expr {
		var a, b *Expr
		if r.Chance(35) {
			a, b = Col(la, lstr), Col(ra, rstr)
			if r.Bool() {
				a, b = Col(la, lstr+"2"), Col(ra, rstr+"2")
			}
		} else if r.Chance(8) {
			// a numeric key column against a string key column: equal when the number's text is the string
			a, b = Col(la, Pick(r, lcols)), Col(ra, rstr)
			*tags = append(*tags, "on:number-vs-string")
		} else if !first && r.Chance(25) {
			// a later conjunct on a nested key: when its parent is a scalar the read fails after an earlier key was taken
			a, b = Col(la, "o", "q"), Col(ra, "o", "q")
			*tags = append(*tags, "on:nested-key")
		} else {
			a, b = Col(la, Pick(r, lcols)), Col(ra, Pick(r, rcols))
		}
		first = false
		if r.Bool() {
			a, b = b, a
			*tags = append(*tags, "on:flipped")
		}
		return Cmp(op, a, b)
	}
	k := 1 + r.Intn(3)
	equi := r.Chance(45)
	// mixed: an equality next to order comparisons, all joined by AND — the equality must not make the whole ON a hash key
	mixed := !equi && r.Chance(40)
	if mixed && k == 1 {
		k = 2
	}
	eqAt := r.Intn(k)
	var e *Expr
	for i := 0; i < k; i++ {
		op := "="
		if !equi {
			op = Pick(r, cmpOps)
		}
		if mixed {
			op = Pick(r, []string{"<", "<=", ">", ">=", "!="})
			if i == eqAt {
				op = "="
			}
		}
		*tags = append(*tags, "on:"+op)
		c := cmp(op)
		if e == nil {
			e = c
			continue
		}
		if equi || mixed || r.Chance(60) {
			e = And(e, c)
		} else {
			e = Or(e, c)
			*tags = append(*tags, "on:or")
		}
	}
	*tags = append(*tags, fmt.Sprintf("on:conjuncts:%d", k))
	if equi {
		*tags = append(*tags, "on:equi")
	}
	if mixed {
		*tags = append(*tags, "on:equality-and-order-comparisons")
	}
	return e
}

func genC04(r *Rand, tier string) []Case {
	n := 60
	if tier == "thorough" {
		n = 320
	}
	var out []Case
	strats := []string{"auto", "hash", "straight", "parallel", "parallelhash", "parallelstraight"}
	for i := 0; i < n; i++ {
		// column names chosen so that the two sides sort differently
		lcols := []string{"k", "z"}
		rcols := []string{"m", "b"}
		expo := r.Chance(12)
		doc := map[string]any{"l": genJoinTable(r, 5, lcols, "ls", expo), "r": genJoinTable(r, 5, rcols, "rs", expo)}
		if r.Chance(10) {
			doc["r"] = []any{}
		}
		if r.Chance(5) {
			doc["l"] = []any{}
		}
		var ontags []string
		failing := false
		// aliases: mostly unrelated names; sometimes one alias is a proper prefix of the other (either side)
		al := Pick(r, [][2]string{{"x", "y"}, {"x", "y"}, {"x", "y"}, {"u", "us"}, {"t2", "t"}, {"o", "ol"}, {"yy", "y"}, {"t", "T"}, {"Ord", "ord"}})
		la, ra := al[0], al[1]
		ontags = append(ontags, map[bool]string{true: "alias:plain", false: "alias:prefix-of-other"}[la == "x"])
		on := genOn(r, la, ra, lcols, rcols, "ls", "rs", &ontags)
		if r.Chance(15) {
			// two adjacent string key columns whose texts concatenate ambiguously: ("ab","c") vs ("a","bc") vs ("abc","")
			amb := [][2]string{{"ab", "c"}, {"a", "bc"}, {"abc", ""}, {"", "abc"}, {"ab", "c"}}
			for _, side := range []string{"l", "r"} {
				for _, row := range doc[side].([]any) {
					p := Pick(r, amb)
					m := row.(map[string]any)
					if side == "l" {
						m["ls"], m["ls2"] = p[0], p[1]
					} else {
						m["rs"], m["rs2"] = p[0], p[1]
					}
				}
			}
			on = And(Cmp("=", Col(la, "ls"), Col(ra, "rs")), Cmp("=", Col(ra, "rs2"), Col(la, "ls2")))
			ontags = []string{"on:two-string-keys", "on:equi", "on:="}
		}
		if expo {
			// a numeric key column against a string key column whose strings spell the numbers as %v prints them
			on = Cmp("=", Col(la, "k"), Col(ra, "rs"))
			if r.Bool() {
				on = Cmp("=", Col(ra, "rs"), Col(la, "k"))
			}
			ontags = []string{"on:number-vs-string-exponent-form", "on:equi", "on:="}
		}
		if !expo && r.Chance(12) && len(doc["l"].([]any)) >= 2 && len(doc["r"].([]any)) >= 1 {
			// a key read that fails in mid-row (second key column, not the first row); every rendering of it is an
			// error, and the well-formed joins generated next run in the same process right after these failures
			rows := doc["l"].([]any)
			rows[1+r.Intn(len(rows)-1)].(map[string]any)["o"] = "scalar"
			on = And(Cmp("=", Col(la, "k"), Col(ra, "m")), Cmp("=", Col(la, "o", "q"), Col(ra, "o", "q")))
			ontags = []string{"on:failing-nested-key", "on:equi", "on:="}
			failing = true
		}
		for _, jt := range []string{"inner", "left", "right"} {
			for _, st := range strats {
				if (st == "straight" || st == "parallelstraight") && jt != "inner" {
					continue
				}
				from := &From{K: "join", JT: jt, Strat: st,
					L: &From{K: "table", Path: []string{"l"}, Alias: la}, R: &From{K: "table", Path: []string{"r"}, Alias: ra}, On: on}
				q := &Stmt{From: from, Items: []Item{{Star: true}}}
				tags := append([]string{"type:" + jt, "strategy:" + st}, ontags...)
				out = append(out, mkCase(doc, q, tags, true))
				if failing {
					// state left behind by the failed call must not leak into the next one: a well-formed hash join whose
					// first left row has a partner runs in the same process straight after every failing rendering
					cdoc := map[string]any{"l": []any{map[string]any{"rid": 1.0, "k": 1.0, "o": map[string]any{"q": 2.0}}, map[string]any{"rid": 2.0, "k": 2.0, "o": map[string]any{"q": 2.0}}},
						"r": []any{map[string]any{"rid": 1.0, "m": 1.0, "o": map[string]any{"q": 2.0}}, map[string]any{"rid": 2.0, "m": 2.0, "o": map[string]any{"q": 2.0}}}}
					cfrom := &From{K: "join", JT: "inner", Strat: Pick(r, []string{"hash", "auto", "parallelhash"}),
						L: &From{K: "table", Path: []string{"l"}, Alias: la}, R: &From{K: "table", Path: []string{"r"}, Alias: ra}, On: on}
					out = append(out, mkCase(cdoc, &Stmt{From: cfrom, Items: []Item{{Star: true}}}, []string{"after-failed-join"}, true))
				}
			}
		}
	}
	return out
}

func init() {
	register(engineProp{id: "C04", checkFn: "EngineRun.check_join", gen: genC04,
		rule: "pairs of tables (0-5 x 0-5 rows, duplicate keys, two numeric key columns + one string key column per side with texts that collide under naive concatenation, occasional NULL / missing keys, empty sides) x ON built from 1-3 column pairs with = != < <= > >= joined by AND/OR in random order and orientation, column names chosen so the two sides sort differently; every (table pair, ON) is rendered for all 3 join types x all strategies (auto, HASH_JOIN, STRAIGHT_JOIN, PARALLEL, PARALLEL HASH_JOIN, PARALLEL STRAIGHT_JOIN: 14 renderings); observable: the multiset of merged rows, compared with the code-shaped model AND with the textbook specification; non-trivial = non-error, non-empty result; further streams (r4_c04.go): equi-joins in which one column of one side is compared with SEVERAL columns of the other side (2-3 conjuncts, shared column on either or both sides, numeric or string keys) over tables holding rows whose key columns all carry one value, all 14 renderings; two-column string keys whose values contain a byte a key encoding might use in-band (every control character 0x00-0x1f, DEL, punctuation, digit+colon, NBSP, U+2028) and tie when the two columns are written one after the other in either column order, within one side and across sides, one hash-path and one nested-loop rendering each (all 14 in the thorough tier) plus non-equi ON"})
}

// ---------- C04 stress: PARALLEL drivers against the sequential ones on large key sets ----------
// Justified by C04_parallel_schedules (every schedule yields a permutation of the sequential result):
// on the real code the multiset of a PARALLEL join must equal that of the sequential join, whatever the
// interleaving. Large key counts make slice reallocation / lost appends observable.

func init() { auxRegistry["c04stress"] = runC04Stress }

func rowsFingerprint(rows []any) map[string]int {
	m := map[string]int{}
	for _, r := range rows {
		m[fmt.Sprintf("%#v", r)]++
	}
	return m
}

func sameMultiset(a, b map[string]int) bool {
	if len(a) != len(b) {
		return false
	}
	for k, v := range a {
		if b[k] != v {
			return false
		}
	}
	return true
}

func runC04Stress(tier string, seed uint64, out string) {
	r := NewRand(seed)
	rounds := 25
	if tier == "thorough" {
		rounds = 300
	}
	type failure struct {
		SQL  string `json:"sql"`
		Keys int    `json:"keys"`
		Want int    `json:"want_rows"`
		Got  int    `json:"got_rows"`
		Err  string `json:"err,omitempty"`
	}
	var failures []failure
	runs := 0
	for round := 0; round < rounds && len(failures) < 5; round++ {
		keys := []int{2000, 300, 1200}[round%3]
		l := make([]any, 0, keys)
		rt := make([]any, 0, keys)
		for i := 0; i < keys; i++ {
			l = append(l, map[string]any{"k": float64(i), "v": float64(r.Intn(5))})
			if r.Chance(70) {
				rt = append(rt, map[string]any{"m": float64(i), "w": float64(r.Intn(5))})
			}
			if r.Chance(10) {
				rt = append(rt, map[string]any{"m": float64(i), "w": float64(9)})
			}
		}
		doc := map[string]any{"l": l, "r": rt}
		type variant struct{ seq, par, on string }
		vs := []variant{
			{"JOIN", "PARALLEL JOIN", "x.k = y.m"},
			{"JOIN", "PARALLEL HASH_JOIN", "x.k = y.m"},
			{"LEFT JOIN", "PARALLEL LEFT JOIN", "x.k = y.m"},
			{"RIGHT JOIN", "PARALLEL RIGHT HASH_JOIN", "x.k = y.m"},
		}
		if keys <= 300 {
			vs = append(vs, variant{"JOIN", "PARALLEL JOIN", "x.k = y.m AND x.v <= y.w"}, variant{"LEFT JOIN", "PARALLEL LEFT JOIN", "x.v < y.w AND x.k = y.m"})
		}
		for _, v := range vs {
			seqSQL := "SELECT * FROM l x " + v.seq + " r y ON " + v.on
			parSQL := "SELECT * FROM l x " + v.par + " r y ON " + v.on
			want := runEngine(deepCopy(anyMap(doc)).(map[string]any), seqSQL)
			got := runEngine(deepCopy(anyMap(doc)).(map[string]any), parSQL)
			runs++
			if want.Class != got.Class || !sameMultiset(rowsFingerprint(want.Rows), rowsFingerprint(got.Rows)) {
				failures = append(failures, failure{SQL: parSQL, Keys: keys, Want: len(want.Rows), Got: len(got.Rows), Err: got.Err})
			}
		}
	}
	writeJSON(out+"/c04stress.json", map[string]any{"rounds": rounds, "runs": runs, "failures": failures, "cases": runs,
		"samples": []any{map[string]any{"par": "SELECT * FROM l x PARALLEL HASH_JOIN r y ON x.k = y.m", "keys": 2000}}})
}

// ---------- C04 stress, second driver: the PARALLEL nested loop with large batches per left key ----------
// The first driver above mostly exercises the hash path (one small batch per key). Here the ON clause is not a pure
// conjunction of equalities (or the join is a PARALLEL STRAIGHT_JOIN), so every left key is matched against every right
// key by its own goroutine and contributes a batch of hundreds to thousands of merged rows (many duplicates per key on
// both sides, wide comparisons such as != < <=). The same query is repeated many times, by several callers at once (each on
// its own copy of the document) and with more Ps than cores, so that a goroutine is likely to be descheduled between two
// steps of its hand-over; every single result must be the multiset of the sequential join (C04_parallel_schedules).

func init() { auxRegistry["c04nested"] = runC04Nested }

// pairKey identifies a merged row {x: l, y: r} by the rid of its two sides (-1 = NULL side, -2 = not such a row).
func pairKeys(rows []any) map[[2]int]int {
	m := map[[2]int]int{}
	side := func(v any) int {
		switch t := v.(type) {
		case nil:
			return -1
		case map[string]any:
			if f, ok := t["rid"].(float64); ok {
				return int(f)
			}
		}
		return -2
	}
	for _, r := range rows {
		row, ok := r.(map[string]any)
		if !ok || len(row) != 2 {
			m[[2]int{-2, -2}]++
			continue
		}
		m[[2]int{side(row["x"]), side(row["y"])}]++
	}
	return m
}

func samePairs(a, b map[[2]int]int) bool {
	if len(a) != len(b) {
		return false
	}
	for k, v := range a {
		if b[k] != v {
			return false
		}
	}
	return true
}

func runC04Nested(tier string, seed uint64, out string) {
	r := NewRand(seed ^ 0xC04)
	budget, maxRuns, minRounds := 11*time.Second, 900, 3
	if tier == "thorough" {
		budget, maxRuns, minRounds = 90*time.Second, 12000, 12
	}
	callers := 4
	old := runtime.GOMAXPROCS(0)
	procs := 4 * runtime.NumCPU()
	if procs < 16 {
		procs = 16
	}
	if procs > 128 {
		procs = 128
	}
	runtime.GOMAXPROCS(procs)
	defer runtime.GOMAXPROCS(old)
	type failure struct {
		SQL   string `json:"sql"`
		Shape string `json:"shape"`
		Want  int    `json:"want_rows"`
		Got   int    `json:"got_rows"`
		Run   int    `json:"run"`
		Err   string `json:"err,omitempty"`
	}
	var failures []failure
	var samples []any
	runs, rounds := 0, 0
	start := time.Now()
	for (time.Since(start) < budget || rounds < minRounds) && runs < maxRuns && len(failures) < 3 {
		rounds++
		// tables: lk x ld left rows, rk x rd right rows (d duplicates of every key), a second column for a two-part ON
		lk, ld := 20+r.Intn(100), 1+r.Intn(6)
		rk, rd := 15+r.Intn(30), 1+r.Intn(5)
		if r.Chance(20) {
			lk, ld, rk, rd = 150+r.Intn(200), 1, 100+r.Intn(100), 1 // many distinct keys, no duplicates
		}
		for lk*ld*rk*rd > 50000 { // at most about 50 000 result rows per run (four callers hold a result each)
			lk, rk = lk*3/4, rk*4/5
		}
		var l, rt []any
		for i := 0; i < lk; i++ {
			for d := 0; d < ld; d++ {
				l = append(l, map[string]any{"rid": float64(len(l)), "k": float64(i), "v": float64(r.Intn(3))})
			}
		}
		for i := 0; i < rk; i++ {
			for d := 0; d < rd; d++ {
				rt = append(rt, map[string]any{"rid": float64(len(rt)), "m": float64(i + r.Intn(2)*lk/3), "w": float64(r.Intn(3))})
			}
		}
		doc := map[string]any{"l": l, "r": rt}
		on := Pick(r, []string{"x.k != y.m", "x.k != y.m", "y.m != x.k", "x.k < y.m", "x.k >= y.m", "x.k != y.m AND x.v <= y.w", "x.k < y.m OR x.k > y.m", "x.k = y.m OR x.v != y.w"})
		type variant struct{ seq, par string }
		v := Pick(r, []variant{{"JOIN", "PARALLEL JOIN"}, {"JOIN", "PARALLEL JOIN"}, {"LEFT JOIN", "PARALLEL LEFT JOIN"}, {"RIGHT JOIN", "PARALLEL RIGHT JOIN"}, {"STRAIGHT_JOIN", "PARALLEL STRAIGHT_JOIN"}})
		if v.seq == "STRAIGHT_JOIN" && r.Bool() {
			on = "x.v = y.w" // an equi-join forced onto the nested loop: few keys, very large batches
		}
		shape := fmt.Sprintf("%d keys x %d rows (left), %d keys x %d rows (right)", lk, ld, rk, rd)
		seqSQL := "SELECT * FROM l x " + v.seq + " r y ON " + on
		parSQL := "SELECT * FROM l x " + v.par + " r y ON " + on
		want := runEngine(deepCopy(anyMap(doc)).(map[string]any), seqSQL)
		wantPairs := pairKeys(want.Rows)
		wantFull := rowsFingerprint(want.Rows)
		if len(samples) < 3 {
			samples = append(samples, map[string]any{"par": parSQL, "shape": shape, "rows": len(want.Rows)})
		}
		reps := 6
		var mu sync.Mutex
		var wg sync.WaitGroup
		for c := 0; c < callers; c++ {
			wg.Add(1)
			go func(c int) {
				defer wg.Done()
				mine := deepCopy(anyMap(doc)).(map[string]any)
				for i := 0; i < reps; i++ {
					got := runEngine(mine, parSQL)
					ok := got.Class == want.Class && samePairs(pairKeys(got.Rows), wantPairs)
					if ok && c == 0 && i == 0 {
						ok = sameMultiset(rowsFingerprint(got.Rows), wantFull) // the full rows once per round
					}
					mu.Lock()
					runs++
					if !ok && len(failures) < 3 {
						failures = append(failures, failure{SQL: parSQL, Shape: shape, Want: len(want.Rows), Got: len(got.Rows), Run: runs, Err: got.Err})
					}
					mu.Unlock()
				}
			}(c)
		}
		wg.Wait()
	}
	writeJSON(out+"/c04nested.json", map[string]any{"rounds": rounds, "runs": runs, "cases": runs, "failures": failures, "samples": samples,
		"gomaxprocs": procs, "callers": callers, "seconds": time.Since(start).Seconds()})
}
