package main

import "fmt"

// ---------- C04: joins ----------

func genJoinTable(r *Rand, maxRows int, cols []string, strCol string, expo bool) []any {
	n := r.Intn(maxRows + 1)
	rows := make([]any, n)
	nums := []float64{1, 2, 3, 1, 2}
	strs := []string{"b", "a-", "-b", "a", "b-a", "", "b", "1", "1:a"}
	if expo {
		// magnitudes that %v prints in exponent form, next to strings spelling them that way
		nums = []float64{1e21, 0.000030517578125, 1, 2000000, 100000000}
		strs = []string{"1e+21", "3.0517578125e-05", "1", "1e+08", "100000000", "2e+06", "2000000"}
	}
	for i := range rows {
		row := map[string]any{"rid": float64(i + 1)}
		for _, c := range cols {
			row[c] = Pick(r, nums)
		}
		row[strCol] = Pick(r, strs)
		// a second string key column whose text concatenates ambiguously with the first
		row[strCol+"2"] = Pick(r, []string{"c", "bc", "", "-", "a"})
		if r.Chance(40) {
			row[strCol] = Pick(r, []string{"ab", "a", "abc", ""})
		}
		if r.Chance(8) {
			row[cols[0]] = nil
		}
		if r.Chance(5) {
			delete(row, cols[0])
		}
		// a nested key column; now and then the parent is a scalar, so that reading the key fails in mid-row
		row["o"] = map[string]any{"q": Pick(r, nums)}
		if r.Chance(4) {
			row["o"] = "scalar"
		}
		rows[i] = row
	}
	return rows
}

func genOn(r *Rand, la, ra string, lcols, rcols []string, lstr, rstr string, tags *[]string) *Expr {
	first := true
	cmp := func(op string) *Expr {
		var a, b *Expr
		if r.Chance(35) {
			a, b = Col(la, lstr), Col(ra, rstr)
			if r.Bool() {
				a, b = Col(la, lstr+"2"), Col(ra, rstr+"2")
			}
		} else if r.Chance(8) {
			// a numeric key column against a string key column: equal when the number's text is the string
			a, b = Col(la, Pick(r, lcols)), Col(ra, rstr)
			*tags = append(*tags, "on:number-vs-string")
		} else if !first && r.Chance(25) {
			// a later conjunct on a nested key: when its parent is a scalar the read fails after an earlier key was taken
			a, b = Col(la, "o", "q"), Col(ra, "o", "q")
			*tags = append(*tags, "on:nested-key")
		} else {
			a, b = Col(la, Pick(r, lcols)), Col(ra, Pick(r, rcols))
		}
		first = false
		if r.Bool() {
			a, b = b, a
			*tags = append(*tags, "on:flipped")
		}
		return Cmp(op, a, b)
	}
	k := 1 + r.Intn(3)
	equi := r.Chance(45)
	// mixed: an equality next to order comparisons, all joined by AND — the equality must not make the whole ON a hash key
	mixed := !equi && r.Chance(40)
	if mixed && k == 1 {
		k = 2
	}
	eqAt := r.Intn(k)
	var e *Expr
	for i := 0; i < k; i++ {
		op := "="
		if !equi {
			op = Pick(r, cmpOps)
		}
		if mixed {
			op = Pick(r, []string{"<", "<=", ">", ">=", "!="})
			if i == eqAt {
				op = "="
			}
		}
		*tags = append(*tags, "on:"+op)
		c := cmp(op)
		if e == nil {
			e = c
			continue
		}
		if equi || mixed || r.Chance(60) {
			e = And(e, c)
		} else {
			e = Or(e, c)
			*tags = append(*tags, "on:or")
		}
	}
	*tags = append(*tags, fmt.Sprintf("on:conjuncts:%d", k))
	if equi {
		*tags = append(*tags, "on:equi")
	}
	if mixed {
		*tags = append(*tags, "on:equality-and-order-comparisons")
	}
	return e
}

func genC04(r *Rand, tier string) []Case {
	n := 60
	if tier == "thorough" {
		n = 320
	}
	var out []Case
	strats := []string{"auto", "hash", "straight", "parallel", "parallelhash", "parallelstraight"}
	for i := 0; i < n; i++ {
		// column names chosen so that the two sides sort differently
		lcols := []string{"k", "z"}
		rcols := []string{"m", "b"}
		expo := r.Chance(12)
		doc := map[string]any{"l": genJoinTable(r, 5, lcols, "ls", expo), "r": genJoinTable(r, 5, rcols, "rs", expo)}
		if r.Chance(10) {
			doc["r"] = []any{}
		}
		if r.Chance(5) {
			doc["l"] = []any{}
		}
		var ontags []string
		failing := false
		// aliases: mostly unrelated names; sometimes one alias is a proper prefix of the other (either side)
		al := Pick(r, [][2]string{{"x", "y"}, {"x", "y"}, {"x", "y"}, {"u", "us"}, {"t2", "t"}, {"o", "ol"}, {"yy", "y"}, {"t", "T"}, {"Ord", "ord"}})
		la, ra := al[0], al[1]
		ontags = append(ontags, map[bool]string{true: "alias:plain", false: "alias:prefix-of-other"}[la == "x"])
		on := genOn(r, la, ra, lcols, rcols, "ls", "rs", &ontags)
		if r.Chance(15) {
			// two adjacent string key columns whose texts concatenate ambiguously: ("ab","c") vs ("a","bc") vs ("abc","")
			amb := [][2]string{{"ab", "c"}, {"a", "bc"}, {"abc", ""}, {"", "abc"}, {"ab", "c"}}
			for _, side := range []string{"l", "r"} {
				for _, row := range doc[side].([]any) {
					p := Pick(r, amb)
					m := row.(map[string]any)
					if side == "l" {
						m["ls"], m["ls2"] = p[0], p[1]
					} else {
						m["rs"], m["rs2"] = p[0], p[1]
					}
				}
			}
			on = And(Cmp("=", Col(la, "ls"), Col(ra, "rs")), Cmp("=", Col(ra, "rs2"), Col(la, "ls2")))
			ontags = []string{"on:two-string-keys", "on:equi", "on:="}
		}
		if expo {
			// a numeric key column against a string key column whose strings spell the numbers as %v prints them
			on = Cmp("=", Col(la, "k"), Col(ra, "rs"))
			if r.Bool() {
				on = Cmp("=", Col(ra, "rs"), Col(la, "k"))
			}
			ontags = []string{"on:number-vs-string-exponent-form", "on:equi", "on:="}
		}
		if !expo && r.Chance(12) && len(doc["l"].([]any)) >= 2 && len(doc["r"].([]any)) >= 1 {
			// a key read that fails in mid-row (second key column, not the first row); every rendering of it is an
			// error, and the well-formed joins generated next run in the same process right after these failures
			rows := doc["l"].([]any)
			rows[1+r.Intn(len(rows)-1)].(map[string]any)["o"] = "scalar"
			on = And(Cmp("=", Col(la, "k"), Col(ra, "m")), Cmp("=", Col(la, "o", "q"), Col(ra, "o", "q")))
			ontags = []string{"on:failing-nested-key", "on:equi", "on:="}
			failing = true
		}
		for _, jt := range []string{"inner", "left", "right"} {
			for _, st := range strats {
				if (st == "straight" || st == "parallelstraight") && jt != "inner" {
					continue
				}
				from := &From{K: "join", JT: jt, Strat: st,
					L: &From{K: "table", Path: []string{"l"}, Alias: la}, R: &From{K: "table", Path: []string{"r"}, Alias: ra}, On: on}
				q := &Stmt{From: from, Items: []Item{{Star: true}}}
				tags := append([]string{"type:" + jt, "strategy:" + st}, ontags...)
				out = append(out, mkCase(doc, q, tags, true))
				if failing {
					// state left behind by the failed call must not leak into the next one: a well-formed hash join whose
					// first left row has a partner runs in the same process straight after every failing rendering
					cdoc := map[string]any{"l": []any{map[string]any{"rid": 1.0, "k": 1.0, "o": map[string]any{"q": 2.0}}, map[string]any{"rid": 2.0, "k": 2.0, "o": map[string]any{"q": 2.0}}},
						"r": []any{map[string]any{"rid": 1.0, "m": 1.0, "o": map[string]any{"q": 2.0}}, map[string]any{"rid": 2.0, "m": 2.0, "o": map[string]any{"q": 2.0}}}}
					cfrom := &From{K: "join", JT: "inner", Strat: Pick(r, []string{"hash", "auto", "parallelhash"}),
						L: &From{K: "table", Path: []string{"l"}, Alias: la}, R: &From{K: "table", Path: []string{"r"}, Alias: ra}, On: on}
					out = append(out, mkCase(cdoc, &Stmt{From: cfrom, Items: []Item{{Star: true}}}, []string{"after-failed-join"}, true))
				}
			}
		}
	}
	return out
}

func init() {
	register(engineProp{id: "C04", checkFn: "EngineRun.check_join", gen: genC04,
		rule: "pairs of tables (0-5 x 0-5 rows, duplicate keys, two numeric key columns + one string key column per side with texts that collide under naive concatenation, occasional NULL / missing keys, empty sides) x ON built from 1-3 column pairs with = != < <= > >= joined by AND/OR in random order and orientation, column names chosen so the two sides sort differently; every (table pair, ON) is rendered for all 3 join types x all strategies (auto, HASH_JOIN, STRAIGHT_JOIN, PARALLEL, PARALLEL HASH_JOIN, PARALLEL STRAIGHT_JOIN: 14 renderings); observable: the multiset of merged rows, compared with the code-shaped model AND with the textbook specification; non-trivial = non-error, non-empty result"})
}

// ---------- C04 stress: PARALLEL drivers against the sequential ones on large key sets ----------
// Justified by C04_parallel_schedules (every schedule yields a permutation of the sequential result):
// on the real code the multiset of a PARALLEL join must equal that of the sequential join, whatever the
// interleaving. Large key counts make slice reallocation / lost appends observable.

func init() { auxRegistry["c04stress"] = runC04Stress }

func rowsFingerprint(rows []any) map[string]int {
	m := map[string]int{}
	for _, r := range rows {
		m[fmt.Sprintf("%#v", r)]++
	}
	return m
}

func sameMultiset(a, b map[string]int) bool {
	if len(a) != len(b) {
		return false
	}
	for k, v := range a {
		if b[k] != v {
			return false
		}
	}
	return true
}

func runC04Stress(tier string, seed uint64, out string) {
	r := NewRand(seed)
	rounds := 25
	if tier == "thorough" {
		rounds = 300
	}
	type failure struct {
		SQL  string `json:"sql"`
		Keys int    `json:"keys"`
		Want int    `json:"want_rows"`
		Got  int    `json:"got_rows"`
		Err  string `json:"err,omitempty"`
	}
	var failures []failure
	runs := 0
	for round := 0; round < rounds && len(failures) < 5; round++ {
		keys := []int{2000, 300, 1200}[round%3]
		l := make([]any, 0, keys)
		rt := make([]any, 0, keys)
		for i := 0; i < keys; i++ {
			l = append(l, map[string]any{"k": float64(i), "v": float64(r.Intn(5))})
			if r.Chance(70) {
				rt = append(rt, map[string]any{"m": float64(i), "w": float64(r.Intn(5))})
			}
			if r.Chance(10) {
				rt = append(rt, map[string]any{"m": float64(i), "w": float64(9)})
			}
		}
		doc := map[string]any{"l": l, "r": rt}
		type variant struct{ seq, par, on string }
		vs := []variant{
			{"JOIN", "PARALLEL JOIN", "x.k = y.m"},
			{"JOIN", "PARALLEL HASH_JOIN", "x.k = y.m"},
			{"LEFT JOIN", "PARALLEL LEFT JOIN", "x.k = y.m"},
			{"RIGHT JOIN", "PARALLEL RIGHT HASH_JOIN", "x.k = y.m"},
		}
		if keys <= 300 {
			vs = append(vs, variant{"JOIN", "PARALLEL JOIN", "x.k = y.m AND x.v <= y.w"}, variant{"LEFT JOIN", "PARALLEL LEFT JOIN", "x.v < y.w AND x.k = y.m"})
		}
		for _, v := range vs {
			seqSQL := "SELECT * FROM l x " + v.seq + " r y ON " + v.on
			parSQL := "SELECT * FROM l x " + v.par + " r y ON " + v.on
			want := runEngine(deepCopy(anyMap(doc)).(map[string]any), seqSQL)
			got := runEngine(deepCopy(anyMap(doc)).(map[string]any), parSQL)
			runs++
			if want.Class != got.Class || !sameMultiset(rowsFingerprint(want.Rows), rowsFingerprint(got.Rows)) {
				failures = append(failures, failure{SQL: parSQL, Keys: keys, Want: len(want.Rows), Got: len(got.Rows), Err: got.Err})
			}
		}
	}
	writeJSON(out+"/c04stress.json", map[string]any{"rounds": rounds, "runs": runs, "failures": failures, "cases": runs,
		"samples": []any{map[string]any{"par": "SELECT * FROM l x PARALLEL HASH_JOIN r y ON x.k = y.m", "keys": 2000}}})
}
