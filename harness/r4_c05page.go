package main

// r4_c05page.go — OBSERVATIONAL (metamorphic) stage of C05, outside the Coq model: the engine checks evaluate the model
// with `no_call`, so a select list that calls a function is out of model. What C05 states about LIMIT / OFFSET does
// not depend on what the select list computes:
//
//     Q LIMIT n OFFSET m (either spelling)  ==  the elements m .. m+n-1 that exist of the sequence Q yields without LIMIT
//
// This driver checks that equation on the real code for select lists whose items depend on WHICH rows were projected
// before: ONCE.-qualified built-ins over a row-dependent argument (documented: evaluated for the first row of the
// result, reused for the rest), a registered row-numbering function (state), plain built-in calls — with and without
// WHERE / ORDER BY (total, the unique id last) / DISTINCT, for a sweep of windows (0, inside, straddling the end,
// beyond the end; both spellings).
//   vharness aux c05page -tier quick|thorough -seed N -out <dir>

import (
	"fmt"
	"path/filepath"
	"reflect"
	"sync/atomic"

	genql "github.com/vedadiyan/genql"
)

var c05pageSeq int64

func init() {
	auxRegistry["c05page"] = runC05Page
	genql.RegisterFunction("r4rownum", func(_ *genql.Query, _ genql.Map, _ *genql.FunctionOptions, _ []any) (any, error) {
		return float64(atomic.AddInt64(&c05pageSeq, 1)), nil
	})
}

func runC05Page(tier string, seed uint64, out string) {
	r := NewRand(seed ^ 0xc05)
	n := 150
	if tier == "thorough" {
		n = 2500
	}
	var failures []map[string]any
	checks, bases, skipped := 0, 0, 0
	dist := map[string]int{}
	call := func(qual, name string, args ...*Expr) *Expr { return &Expr{K: "call", Qual: qual, Name: name, Items: args} }
	for i := 0; i < n; i++ {
		t := genTable(r, 8)
		doc := map[string]any{"t": t.rows}
		q := &Stmt{From: &From{K: "table", Path: []string{"t"}}, Items: []Item{{E: Col("id")}}}
		kinds := map[string]bool{}
		for k := 1 + r.Intn(2); k > 0; k-- {
			alias := fmt.Sprintf("f%d", k)
			switch r.Intn(6) {
			case 0:
				q.Items = append(q.Items, Item{E: call("ONCE", "TO_UPPER", Col(Pick(r, t.strCols))), Alias: alias})
				kinds["once"] = true
			case 1:
				q.Items = append(q.Items, Item{E: call("ONCE", "CONCAT", Col(Pick(r, t.strCols)), Str("!")), Alias: alias})
				kinds["once"] = true
			case 2:
				q.Items = append(q.Items, Item{E: call("ONCE", "TO_LOWER", Col(Pick(r, t.strCols))), Alias: alias})
				kinds["once"] = true
			case 3:
				q.Items = append(q.Items, Item{E: call("", "R4ROWNUM"), Alias: alias})
				kinds["stateful"] = true
			case 4:
				q.Items = append(q.Items, Item{E: Bin("+", Bin("*", call("", "R4ROWNUM"), Num(100)), Col("id")), Alias: alias})
				kinds["stateful"] = true
			default:
				q.Items = append(q.Items, Item{E: call("", "TO_UPPER", Col(Pick(r, t.strCols))), Alias: alias})
				kinds["plain-call"] = true
			}
		}
		if r.Chance(35) {
			var sub []string
			q.Where = genPred(r, t, 1, &sub)
			kinds["where"] = true
		}
		if r.Chance(35) {
			q.Order = []OrderKey{{Path: []string{Pick(r, []string{"id", "f1"})}, Asc: r.Bool()}, {Path: []string{"id"}, Asc: r.Bool()}}
			kinds["order-by"] = true
		} else if r.Chance(15) {
			q.Distinct = true
			kinds["distinct"] = true
		}
		run := func(s *Stmt) engineOut {
			atomic.StoreInt64(&c05pageSeq, 0)
			return runEngine(deepCopy(doc).(map[string]any), s.SQL())
		}
		all := run(q)
		if all.Class != "ok" {
			skipped++ // the query fails without a window too (a WHERE over a NULL operand ...): nothing to cut a page from
			continue
		}
		bases++
		for k := range kinds {
			dist[k]++
		}
		L := len(all.Rows)
		for _, w := range [][2]int{{0, 0}, {1, 0}, {2, 1}, {1, L - 1}, {3, L - 2}, {L, 1}, {2, L}, {L + 3, 0}, {r.Intn(L + 2), r.Intn(L + 2)}, {r.Intn(4), 1 + r.Intn(3)}} {
			lim, off := w[0], w[1]
			if lim < 0 || off < 0 {
				continue
			}
			p := *q
			p.Limit = intp(lim)
			switch r.Intn(3) {
			case 0:
				if off == 0 {
					break
				}
				fallthrough
			case 1:
				p.Offset = intp(off)
			default:
				p.Offset, p.LimitComma = intp(off), true
			}
			lo, hi := off, off+lim
			if lo > L {
				lo = L
			}
			if hi > L {
				hi = L
			}
			want := append([]any{}, all.Rows[lo:hi]...)
			got := run(&p)
			checks++
			if got.Class != "ok" {
				failures = append(failures, map[string]any{"kind": "page-fails", "sql": p.SQL(), "doc": jsonSafe(anyMap(doc)),
					"detail": fmt.Sprintf("the paged query ends with %s (%s); without LIMIT the query returns %d rows", got.Class, got.Err, L)})
				continue
			}
			if !(len(got.Rows) == 0 && len(want) == 0) && !reflect.DeepEqual(got.Rows, want) {
				failures = append(failures, map[string]any{"kind": "page-is-not-a-slice", "sql": p.SQL(), "doc": jsonSafe(anyMap(doc)),
					"detail": fmt.Sprintf("got %v, want the elements %d..%d of the result without LIMIT: %v", jsonSafe(anySlice(got.Rows)), lo, hi-1, jsonSafe(anySlice(want)))})
			}
		}
	}
	writeJSON(filepath.Join(out, "c05page.json"), map[string]any{"checks": checks, "base_queries": bases, "skipped_failing_base": skipped, "distribution": dist, "failures": failures})
}
