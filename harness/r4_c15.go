package main

// r4_c15.go — C15 through the ENGINE: "the comparison used by WHERE, ORDER BY, IN ...". The pair sweep of prop_c15.go
// calls compare.Compare and the ORDER BY comparator directly; this stream (property id C15W, run by the C15 stage
// `comparison-in-queries`, bin/stage_c15.py) asks the same question where a query uses the comparison: a column that
// holds numbers AND strings (numeric-looking ones included) is compared, by every comparison operator, BETWEEN /
// NOT BETWEEN (bounds in either order, numbers, strings, columns, mixed), IN / NOT IN and column-to-column, with
// constants of the other kind; and ORDER BY with two keys whose first key ties ACROSS kinds (7 and "7"). The real
// engine's rows are compared with the engine model (Model/Eval.v EBetween/ECmp/EIn -> vcompare, Model/Exec.v sort)
// by EngineRun.check_seq — the check of the engine property C01, whose generator keeps every column to one kind.
//
// A case is an ordinary engine case (engIn): `./bin/check C01 --replay <file>` replays it through code and model.

import "fmt"

var c15wNums = []float64{0, 1, 2, 5, 7, 9, 10, 11, 100, -1, -2, -15, 1.5, 2.5, 1e6, 0.5}
var c15wStrs = []string{"5", "10", "9", "-15", "-1", "-2", "1e+06", "1.5", "07", "100", "11", "2", "0", "", "a", "abc", "1", "7", "2.50"}

func c15wValue(r *Rand) any {
	if r.Bool() {
		return Pick(r, c15wNums)
	}
	return Pick(r, c15wStrs)
}

func c15wLit(v any) *Expr {
	switch t := v.(type) {
	case float64:
		return Num(t)
	case string:
		return Str(t)
	}
	panic("c15wLit")
}

func c15wTable(r *Rand, n int) []any {
	rows := make([]any, n)
	for i := range rows {
		rows[i] = map[string]any{"id": float64(i + 1), "v": c15wValue(r), "w": c15wValue(r),
			"lo": Pick(r, c15wNums), "hi": Pick(r, c15wNums)}
	}
	return rows
}

func genC15W(r *Rand, tier string) []Case {
	var out []Case
	scale := 1
	if tier == "thorough" {
		scale = 8
	}
	from := func() *From { return &From{K: "table", Path: []string{"t"}} }
	sel := func(w *Expr) *Stmt {
		return &Stmt{From: from(), Items: []Item{{E: Col("id")}, {E: Col("v")}}, Where: w}
	}
	kind := func(v any) string {
		if _, ok := v.(float64); ok {
			return "num"
		}
		return "str"
	}
	// (1) every string-looking value of the pool as the point, against every pair of numeric bounds written the wrong
	// way round numerically whose decimal texts are in order byte-wise — and the right way round —, BETWEEN and NOT
	// BETWEEN, literal bounds and column bounds. One table holding the whole value pool.
	var pool []any
	for _, s := range c15wStrs {
		pool = append(pool, s)
	}
	for _, f := range c15wNums {
		pool = append(pool, f)
	}
	bounds := [][2]float64{{10, 9}, {9, 10}, {10, 2}, {100, 11}, {-1, -2}, {-2, -1}, {1e6, 2}, {1, 1}, {0, 100}, {11, 5}, {2.5, 10}, {-15, 7}}
	for _, b := range bounds {
		rows := make([]any, len(pool))
		for i, v := range pool {
			rows[i] = map[string]any{"id": float64(i + 1), "v": v, "lo": b[0], "hi": b[1]}
		}
		for _, neg := range []bool{false, true} {
			tag := fmt.Sprintf("between:num-bounds:%s", map[bool]string{true: "lower>upper", false: "lower<=upper"}[b[0] > b[1]])
			out = append(out, mkCase(map[string]any{"t": rows}, sel(&Expr{K: "between", Neg: neg, A: Col("v"), B: Num(b[0]), C: Num(b[1])}),
				[]string{"c15w:between", tag, "bounds:literal"}, true))
			out = append(out, mkCase(map[string]any{"t": rows}, sel(&Expr{K: "between", Neg: neg, A: Col("v"), B: Col("lo"), C: Col("hi")}),
				[]string{"c15w:between", tag, "bounds:column"}, true))
		}
	}
	// (2) random mixed tables x one comparison construct
	for i := 0; i < 110*scale; i++ {
		doc := map[string]any{"t": c15wTable(r, r.Range(2, 6))}
		var w *Expr
		var tags []string
		switch r.Intn(5) {
		case 0:
			op := Pick(r, cmpOps)
			c := c15wValue(r)
			tags = []string{"c15w:cmp" + op, "const:" + kind(c)}
			if r.Bool() {
				w = Cmp(op, Col("v"), c15wLit(c))
			} else {
				w = Cmp(op, c15wLit(c), Col("v"))
			}
		case 1:
			op := Pick(r, cmpOps)
			tags = []string{"c15w:col" + op + "col"}
			w = Cmp(op, Col("v"), Col("w"))
		case 2:
			lo, hi := c15wValue(r), c15wValue(r)
			neg := r.Bool()
			tags = []string{"c15w:between", "bounds:" + kind(lo) + "/" + kind(hi)}
			w = &Expr{K: "between", Neg: neg, A: Col(Pick(r, []string{"v", "w"})), B: c15wLit(lo), C: c15wLit(hi)}
		case 3:
			neg := r.Bool()
			tags = []string{"c15w:between", "bounds:column"}
			w = &Expr{K: "between", Neg: neg, A: Col("v"), B: Col(Pick(r, []string{"lo", "w"})), C: Col(Pick(r, []string{"hi", "w"}))}
		default:
			neg := r.Bool()
			var items []*Expr
			for k := r.Range(1, 4); k > 0; k-- {
				items = append(items, c15wLit(c15wValue(r)))
			}
			tags = []string{"c15w:in"}
			w = &Expr{K: "in", Neg: neg, A: Col("v"), Items: items}
		}
		if r.Chance(25) {
			w = Not(w)
			tags = append(tags, "c15w:not")
		}
		out = append(out, mkCase(doc, sel(w), tags, true))
	}
	// (3) ORDER BY g, seq: g holds a single-digit number or its decimal text (so the order of the texts IS the order of
	// the numbers and every pair of values is ordered the same way whichever rule applies); rows tie on g across
	// kinds and stand in the input against the order of seq, which is unique: one sorted sequence exists.
	for i := 0; i < 40*scale; i++ {
		n := r.Range(2, 7)
		perm := make([]int, n)
		for j := range perm {
			perm[j] = j
		}
		for j := n - 1; j > 0; j-- {
			k := r.Intn(j + 1)
			perm[j], perm[k] = perm[k], perm[j]
		}
		digits := []int{r.Intn(10), r.Intn(10)}
		rows := make([]any, n)
		for j := range rows {
			d := Pick(r, digits)
			var g any = float64(d)
			if r.Bool() {
				g = fmt.Sprint(d)
			}
			rows[j] = map[string]any{"id": float64(j + 1), "g": g, "seq": float64(perm[j])}
		}
		q := &Stmt{From: from(), Items: []Item{{E: Col("id")}, {E: Col("g")}, {E: Col("seq")}},
			Order: []OrderKey{{Path: []string{"g"}, Asc: r.Bool()}, {Path: []string{"seq"}, Asc: r.Bool()}}}
		out = append(out, mkCase(map[string]any{"t": rows}, q, []string{"c15w:order-by-two-keys", "tie:number-vs-text"}, true))
	}
	return out
}

func init() {
	register(engineProp{id: "C15W", checkFn: "EngineRun.check_seq", gen: genC15W,
		rule: "the comparison inside queries: a column holding numbers and strings (numeric-looking, empty, prefixes) compared with constants and columns of either kind by = != < <= > >=, [NOT] BETWEEN with numeric / string / column bounds in either order (a sweep of numerically reversed numeric bounds whose decimal texts are in byte order against every string of the pool), [NOT] IN; ORDER BY on two keys whose first key ties between a number and its decimal text; observable: the exact sequence of rows"})
}
