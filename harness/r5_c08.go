package main

// r5_c08.go — a C08 stream whose FROM is a SELECTOR (round 5). The table name of a query is resolved by the library's path
// reader (ExecReader): besides a key path it may keep the dimensions of a multi-dimensional array (`n[keep=>each]`,
// `grid[keep=>each:0]`, kept slices), flatten some of them (`grid[each:each]`), reshape the rows (`n{id, n1}`), continue
// with the result (`t::sub`, `grid[each]::[keep=>each]`) or apply a top-level function (`mix=>grid[keep=>each:0]`,
// `n[keep=>each]::mix=>`). Such a source is a MODEL-VS-CODE case: the query AST carries the C09 selector syntax tree (From
// kind "sel", Model/Ast.v FSel) and the engine model resolves it with the C09 reader model (Model/SelReader.v), then applies
// the query to every innermost array. Documents are 2- and 3-dimensional (ragged, empty inner arrays); the filters empty
// some inner arrays, whose place in the nesting must be kept.

import (
	"fmt"
)

func init() {
	extraStreams["C08"] = append(extraStreams["C08"], r5C08SelectorSources)
}

func r5Key(k string) c09AStep { return c09AStep{Kind: "key", Key: k} }
func r5Each() c09ADim         { return c09ADim{K: "each"} }
func r5At(n int) c09ADim      { return c09ADim{K: "at", N: uint64(n)} }
func r5Range(b, e int) c09ADim {
	d := c09ADim{K: "range"}
	if b >= 0 {
		d.B = c09Up(b)
	}
	if e >= 0 {
		d.E = c09Up(e)
	}
	return d
}
func r5Keep(ds ...c09ADim) c09AStep  { return c09AStep{Kind: "keep", Dims: ds} }
func r5Index(ds ...c09ADim) c09AStep { return c09AStep{Kind: "index", Dims: ds} }
func r5Pipe(keys ...string) c09AStep {
	ps := make([]c09APipe, len(keys))
	for i, k := range keys {
		ps[i] = c09APipe{K: k, T: "none"}
	}
	return c09AStep{Kind: "pipe", Pipes: ps}
}
func r5Seg(steps ...c09AStep) c09ASeg { return c09ASeg{Steps: steps} }

// r5Fixed: the sources of the observational stage (c08extra.go c08Sources) and their relatives, as syntax trees
func r5Fixed() [][]c09ASeg {
	n, grid, wrap, t, sub, ab := r5Key("n"), r5Key("grid"), r5Key("wrap"), r5Key("t"), r5Key("sub"), r5Key("a b")
	e := r5Each()
	return [][]c09ASeg{
		{r5Seg(n, r5Keep(e))}, {r5Seg(n, r5Keep(e, e))}, {r5Seg(n, r5Keep(r5Range(0, 2)))}, {r5Seg(n, r5Keep(r5Range(1, -1)))},
		{r5Seg(wrap, n)}, {r5Seg(wrap, n, r5Keep(e))}, {r5Seg(wrap, n, r5Index(e))}, {r5Seg(wrap, n, r5Index(e, e))},
		{r5Seg(grid, r5Keep(e))}, {r5Seg(grid, r5Keep(e, r5At(0)))}, {r5Seg(grid, r5Keep(e, e))}, {r5Seg(grid, r5Keep(e, e, e))},
		{r5Seg(grid, r5Keep(e, r5Range(0, 1)))}, {r5Seg(grid, r5Index(e))}, {r5Seg(grid, r5Index(r5At(0)))}, {r5Seg(grid, r5Keep(r5At(0)))},
		{r5Seg(grid, r5Keep(r5Range(0, 2)))}, {r5Seg(grid, r5Index(e, e))}, {r5Seg(grid, r5Index(e, r5At(0)))},
		{r5Seg(grid, r5Index(e)), r5Seg(r5Keep(e))}, {r5Seg(grid, r5Keep(e, r5At(0))), r5Seg(r5Keep(e))},
		{r5Seg(t), r5Seg(sub)}, {r5Seg(t), r5Seg(sub, r5Keep(e))}, {r5Seg(t, sub, r5Keep(e, e))},
		{r5Seg(ab, r5Keep(e))}, {r5Seg(ab, r5Keep(e, r5At(0)))},
		{r5Seg(n, r5Pipe("id", "n1", "n2", "s1", "b1"))}, {r5Seg(grid, r5Keep(e, r5At(0)), r5Pipe("id", "n1", "s1", "s2"))},
	}
}

// r5Random: a base key path (2 or 3 array levels below it), an optional bracket step over some of the dimensions, an
// optional continuation
func r5Random(r *Rand, lens map[string]int) ([]c09ASeg, []string) {
	type base struct {
		segs  []c09ASeg
		depth int
		name  string
	}
	b := Pick(r, []base{
		{[]c09ASeg{r5Seg(r5Key("n"))}, 2, "n"}, {[]c09ASeg{r5Seg(r5Key("wrap"), r5Key("n"))}, 2, "n"},
		{[]c09ASeg{r5Seg(r5Key("grid"))}, 3, "grid"}, {[]c09ASeg{r5Seg(r5Key("grid"))}, 3, "grid"},
		{[]c09ASeg{r5Seg(r5Key("t")), r5Seg(r5Key("sub"))}, 2, "n"}, {[]c09ASeg{r5Seg(r5Key("a b"))}, 3, "grid"},
	})
	segs := append([]c09ASeg{}, b.segs...)
	var tags []string
	last := func() *c09ASeg { return &segs[len(segs)-1] }
	if r.Chance(85) {
		nd := 1 + r.Intn(b.depth)
		dims := make([]c09ADim, nd)
		top := lens[b.name]
		for i := range dims {
			switch k := r.Intn(10); {
			case k < 6:
				dims[i] = r5Each()
			case k < 8:
				dims[i] = r5At(r.Intn(2))
				if i == 0 && top > 0 {
					dims[i] = r5At(r.Intn(top + 1)) // now and then one past the end: an error on both sides
					if r.Chance(80) {
						dims[i] = r5At(r.Intn(top))
					}
				}
			default:
				lo := r.Intn(2)
				dims[i] = Pick(r, []c09ADim{r5Range(lo, -1), r5Range(-1, lo+1), r5Range(0, 1), r5Range(lo, lo+1), r5Range(-1, -1)})
			}
		}
		st := r5Keep(dims...)
		if r.Chance(35) {
			st = r5Index(dims...)
			tags = append(tags, "sel:flattening-bracket")
		} else {
			tags = append(tags, "sel:keep")
		}
		step := st
		s := last()
		s.Steps = append(append([]c09AStep{}, s.Steps...), step)
	}
	if r.Chance(15) {
		s := last()
		s.Steps = append(append([]c09AStep{}, s.Steps...), r5Pipe("id", "n1", "n2", "s1", "s2", "b1", "z"))
		tags = append(tags, "sel:pipe")
	}
	if r.Chance(20) {
		segs = append(segs, r5Seg(Pick(r, []c09AStep{r5Keep(r5Each()), r5Keep(r5Each(), r5Each()), r5Index(r5Each()), r5Keep(r5Range(0, -1))})))
		tags = append(tags, "sel:continued")
	}
	return segs, tags
}

func r5C08SelectorSources(r *Rand, tier string) []Case {
	n := 260
	if tier == "thorough" {
		n = 3000
	}
	fixed := r5Fixed()
	var out []Case
	for i := 0; i < n; i++ {
		t := genTable(r, 5)
		for len(t.rows) == 0 {
			t = genTable(r, 5)
		}
		nn := genNested(r, t, 1)
		for len(nn) == 0 {
			nn = genNested(r, t, 1)
		}
		grid := genNested(r, t, 2)
		for len(grid) == 0 || len(grid[0].([]any)) == 0 {
			grid = genNested(r, t, 2)
		}
		doc := map[string]any{"n": nn, "grid": grid, "wrap": map[string]any{"n": deepCopy(nn)}, "t": map[string]any{"sub": deepCopy(nn)},
			"a b": deepCopy(grid)}
		var segs []c09ASeg
		tags := []string{"selector-source"}
		if i < 2*len(fixed) {
			segs = append([]c09ASeg{}, fixed[i%len(fixed)]...)
			tags = append(tags, "sel:fixed")
		} else {
			var more []string
			segs, more = r5Random(r, map[string]int{"n": len(nn), "grid": len(grid)})
			tags = append(tags, more...)
		}
		if len(segs) > 1 {
			tags = append(tags, "sel:double-colon")
		}
		// flattening with the top-level function: on the first selector of the chain, or as a last selector of its own
		switch k := r.Intn(10); {
		case k < 2:
			fn := "mix"
			first := segs[0]
			first.Fn = &fn
			segs = append([]c09ASeg{first}, segs[1:]...)
			tags = append(tags, "mix", "mix:first-selector")
		case k < 3:
			fn := "mix"
			segs = append(segs, c09ASeg{Fn: &fn, Steps: []c09AStep{}})
			tags = append(tags, "mix", "mix:last-selector")
		}
		q := &Stmt{From: SelFrom(segs)}
		// the filter: most often one that empties some inner arrays and keeps rows of others
		switch k := r.Intn(10); {
		case k < 1:
		case k < 4:
			q.Where = Cmp(Pick(r, []string{">", "<", ">=", "<=", "=", "!="}), Col("id"), Num(float64(1+r.Intn(len(t.rows)))))
			tags = append(tags, "where", "where:id")
		case k < 6:
			q.Where = Cmp(Pick(r, cmpOps), Col(Pick(r, t.numCols)), Num(t.numConst(r)))
			tags = append(tags, "where")
		case k < 7:
			q.Where = Cmp(Pick(r, []string{"=", "!=", "<", ">="}), Col(Pick(r, t.strCols)), Str(t.strConst(r)))
			tags = append(tags, "where")
		default:
			var sub []string
			q.Where = genPred(r, t, 2, &sub)
			for _, s := range sub {
				if s == "op:in-subquery" || s == "op:notin-subquery" {
					q.Where = Cmp("<=", Col("n1"), Num(t.numConst(r)))
				}
			}
			tags = append(tags, "where")
		}
		switch k := r.Intn(20); {
		case k < 2:
			q.Items = []Item{genAggItem(r, &tags, "a0"), genAggItem(r, &tags, "a1")}
			tags = append(tags, "items:aggregate")
		case k < 8:
			q.Items = []Item{{Star: true}}
			tags = append(tags, "items:star")
		case k < 11:
			q.Items = []Item{{E: Col("id")}, {E: Bin("+", Col("n1"), Num(1)), Alias: "c"}, {E: Col("s1")}}
		default:
			q.Items = genItems(r, t, 2, &tags)
		}
		tags = append(tags, fmt.Sprintf("sel:segments:%d", len(segs)))
		out = append(out, mkCase(doc, q, tags, true))
	}
	return out
}
