module verif/harness

go 1.23.0

require (
	github.com/vedadiyan/genql v0.0.0
	github.com/vedadiyan/sqlparser/v2 v2.0.3
)

require (
	github.com/golang/glog v0.0.0-20160126235308-23def4e6c14b // indirect
	github.com/planetscale/vtprotobuf v0.6.0 // indirect
	github.com/spf13/pflag v1.0.5 // indirect
	golang.org/x/sys v0.33.0 // indirect
	google.golang.org/protobuf v1.33.0 // indirect
)

replace github.com/vedadiyan/genql => /repo
