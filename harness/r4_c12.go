package main

// Round 4 streams of C12 (results are plain data), registered through extraStreams.
//
//  r4:tuple-members   value tuples (a, b, ...) as values, with members drawn from every kind of expression: columns of each
//                     type, arithmetic whose operands are NULL / missing on SOME rows of the table, literals of each type,
//                     unary minus. Which members are wrappers inside the engine depends on the row (a computed number is a
//                     pointer that is nil when an operand is NULL), so every tuple shape is evaluated over rows with and
//                     without the NULL. A tuple has no term in the model: these cases are out of model and only the
//                     observations on the real result count (Go-type walk, JSON round trip, second run).
//  r4:scope-star      star projections whose current row is a SCOPE map rather than a table row: a nested query (select-list
//                     subquery, derived table inside one, subquery of a query over a CTE, subquery inside a CTE body) reading
//                     FROM the backward reference `<-` itself, while the enclosing query has common table expressions in
//                     scope (used or not); compared with the model. Restricted to the first level of nesting: one level
//                     further down the scope map itself has a `<-` key, which the Go code deletes from star projections in
//                     a post-processor and the model keeps (a stated limit of the model, see ASSUME C12 query_ok).

import "fmt"

func r4TupleMembers(r *Rand, tier string) []Case {
	n := 18
	if tier == "thorough" {
		n = 150
	}
	var out []Case
	// rows: n1, n2 numbers; z and w are NULL, missing or a number, independently per row — with at least one row of
	// each kind for z; s1 string, b1 bool, o object
	mkRows := func() []any {
		k := 3 + r.Intn(3)
		rows := make([]any, k)
		for i := range rows {
			row := map[string]any{"id": float64(i + 1), "n1": Pick(r, numPool), "n2": Pick(r, numPool), "s1": Pick(r, strPool), "b1": r.Bool(),
				"o": map[string]any{"q": Pick(r, numPool)}}
			kind := r.Intn(3)
			if i < 3 {
				kind = i
			}
			switch kind {
			case 0:
				row["z"] = nil
			case 1:
				row["z"] = Pick(r, numPool)
			}
			switch r.Intn(3) {
			case 0:
				row["w"] = nil
			case 1:
				row["w"] = Pick(r, numPool)
			}
			rows[i] = row
		}
		return rows
	}
	ops := []string{"+", "-", "*", "/", "%"}
	nullable := func() *Expr {
		switch r.Intn(6) {
		case 0:
			return Bin(Pick(r, ops), Col("n1"), Col("z"))
		case 1:
			return Bin(Pick(r, ops), Col("z"), Num(2))
		case 2:
			return Bin(Pick(r, ops), Col("missing"), Col("n2"))
		case 3:
			return Bin("+", Bin("*", Col("z"), Num(2)), Col("n1"))
		case 4:
			return Bin(Pick(r, ops), Col("n2"), Col("w"))
		default:
			return Bin(Pick(r, ops), Num(1), Col("z"))
		}
	}
	plain := func() (*Expr, string) {
		switch r.Intn(8) {
		case 0:
			return Col("n1"), "col-num"
		case 1:
			return Col("s1"), "col-str"
		case 2:
			return Col("z"), "col-nullable"
		case 3:
			return Col("o"), "col-object"
		case 4:
			return Num(Pick(r, numPool[:6])), "lit-num"
		case 5:
			return &Expr{K: "null"}, "lit-null"
		case 6:
			return &Expr{K: "bool", Bool: r.Bool()}, "lit-bool"
		default:
			return Col("b1"), "col-bool"
		}
	}
	for i := 0; i < n; i++ {
		doc := map[string]any{"t": mkRows()}
		k := 2 + r.Intn(3)
		var members []*Expr
		var tags []string
		// the tuple's wrappers: only NULL-able arithmetic (most tuples), or a mix with literal strings / certain numbers
		mix := r.Chance(35)
		nn := 1 + r.Intn(2)
		for j := 0; j < k; j++ {
			switch {
			case j < nn:
				members = append(members, nullable())
				tags = append(tags, "member:arith-nullable")
			case mix && r.Chance(50):
				switch r.Intn(3) {
				case 0:
					members = append(members, Str(Pick(r, strPool)))
					tags = append(tags, "member:lit-str")
				case 1:
					members = append(members, Bin("+", Col("n1"), Num(1)))
					tags = append(tags, "member:arith")
				default:
					members = append(members, &Expr{K: "un", Op: "-", A: Col("n2")})
					tags = append(tags, "member:neg")
				}
			default:
				e, tg := plain()
				members = append(members, e)
				tags = append(tags, "member:"+tg)
			}
		}
		// member order at random
		for j := len(members) - 1; j > 0; j-- {
			o := r.Intn(j + 1)
			members[j], members[o] = members[o], members[j]
		}
		tup := &Expr{K: "tuple", Items: members}
		pos := Pick(r, []string{"select-item", "select-item", "function-argument", "derived-column", "case-branch"})
		q := &Stmt{From: &From{K: "table", Path: []string{"t"}}}
		switch pos {
		case "select-item":
			q.Items = []Item{{E: Col("id")}, {E: tup, Alias: "v"}}
		case "function-argument":
			q.Items = []Item{{E: Col("id")}, {E: &Expr{K: "call", Name: "idf", Items: []*Expr{tup}}, Alias: "v"}}
		case "case-branch":
			q.Items = []Item{{E: Col("id")}, {E: &Expr{K: "case", Whens: [][2]*Expr{{Cmp(">", Col("id"), Num(1)), tup}}, Else: tup}, Alias: "v"}}
		default:
			inner := &Stmt{From: &From{K: "table", Path: []string{"t"}}, Items: []Item{{E: Col("id")}, {E: tup, Alias: "v"}}}
			q = &Stmt{From: &From{K: "derived", Q: inner, Alias: "d"}, Items: []Item{{E: Col("d", "v"), Alias: "w"}, {Star: true}}}
		}
		c := mkCase(doc, q, append([]string{"r4:tuple-members", "form:tuple", "pos:" + pos, fmt.Sprintf("members:%d", k)}, tags...), true)
		in := c.Input.(engIn)
		in.Repeat = 2
		c.Input = in
		out = append(out, c)
	}
	return out
}

func r4ScopeStar(r *Rand, tier string) []Case {
	n := 36
	if tier == "thorough" {
		n = 300
	}
	var out []Case
	for i := 0; i < n; i++ {
		t := genTable(r, 3)
		for len(t.rows) < 1 {
			t = genTable(r, 3)
		}
		doc := map[string]any{"t": t.rows, "meta": map[string]any{"ip": Pick(r, strPool), "n": Pick(r, numPool)}}
		if r.Bool() {
			doc["u"] = genTable(r, 2).rows
		}
		// 0-2 common table expressions of the outermost query
		var with []CTE
		nc := r.Intn(3)
		if i%3 != 0 && nc == 0 {
			nc = 1
		}
		for j := 0; j < nc; j++ {
			body := &Stmt{From: &From{K: "table", Path: []string{"t"}}, Items: []Item{{E: Col("id")}}}
			switch r.Intn(3) {
			case 0:
				body.Where = Cmp(Pick(r, cmpOps), Col("id"), Num(float64(1+r.Intn(2))))
			case 1:
				body.Items = []Item{{Star: true}}
			}
			with = append(with, CTE{Name: fmt.Sprintf("c%d", j+1), Q: body})
		}
		// the star projection over the backward reference
		items := [][]Item{{{Star: true}}, {{Star: true}}, {{Star: true}, {E: Num(1), Alias: "q"}}, {{E: Col("meta"), Alias: "m"}, {Star: true}}}
		scope := &Stmt{From: &From{K: "table", Path: []string{"<-"}}, Items: Pick(r, items)}
		nest := Pick(r, []string{"subquery", "subquery", "subquery-in-derived", "subquery-of-cte-source", "subquery-in-cte-body"})
		outer := &Stmt{From: &From{K: "table", Path: []string{"t"}}, Items: []Item{{E: Col("id")}, {E: &Expr{K: "sub", Q: scope}, Alias: "scope"}}, With: with}
		var tags []string
		switch nest {
		case "subquery-in-derived":
			// the scope is read by a derived table inside the row-scoped subquery
			mid := &Stmt{From: &From{K: "derived", Q: scope, Alias: "d"}, Items: []Item{{Star: true}}}
			outer.Items[1].E = &Expr{K: "sub", Q: mid}
		case "subquery-of-cte-source":
			// the outer query reads one of its CTEs; the subquery reads the scope
			if len(with) > 0 {
				outer.From = &From{K: "table", Path: []string{with[0].Name}}
			}
		case "subquery-in-cte-body":
			// the star over the scope sits in the body of a CTE that the outer query selects from
			body := &Stmt{From: &From{K: "table", Path: []string{"t"}}, Items: []Item{{E: Col("id")}, {E: &Expr{K: "sub", Q: scope}, Alias: "scope"}}}
			with = append(with, CTE{Name: "cs", Q: body})
			outer = &Stmt{From: &From{K: "table", Path: []string{"cs"}}, Items: []Item{{Star: true}}, With: with}
		}
		if len(with) > 0 && nest != "subquery-in-cte-body" && r.Chance(35) {
			// the CTE is also used, through the backward reference, by the outer WHERE
			outer.Where = &Expr{K: "insub", A: Col("id"), Q: &Stmt{From: &From{K: "table", Path: []string{"<-", with[0].Name}}, Items: []Item{{E: Col("id")}}}}
			tags = append(tags, "cte-used-in-where")
		}
		tags = append(tags, "r4:scope-star", "form:star-over-backref", "pos:"+nest, fmt.Sprintf("ctes:%d", len(with)))
		c := mkCase(doc, outer, tags, true)
		in := c.Input.(engIn)
		in.Repeat = 2
		c.Input = in
		out = append(out, c)
	}
	return out
}

func init() {
	extraStreams["C12"] = append(extraStreams["C12"], r4TupleMembers, r4ScopeStar)
}
