package main

// collide.go — targeted search used only after a digest obligation broke (state-inventory/*-digest): the models
// decide identity of join keys, DISTINCT rows and distinct=> elements on the text itself; the code goes through a
// digest. If the digest is no longer collision-resistant, a birthday search over a few hundred thousand distinct
// values on the REAL code finds two values the code confuses; the minimal two-value case is written in corpus
// format and then goes through the ordinary correspondence (model vs code in Coq) to become the replay.
//
//   vharness aux collide-C04|collide-C06|collide-C09 -out <dir>

import (
	"encoding/json"
	"fmt"
	"os"
	"path/filepath"

	genql "github.com/vedadiyan/genql"
)

func init() {
	auxRegistry["collide-C04"] = func(tier string, seed uint64, out string) { runCollide("C04", out) }
	auxRegistry["collide-C06"] = func(tier string, seed uint64, out string) { runCollide("C06", out) }
	auxRegistry["collide-C09"] = func(tier string, seed uint64, out string) { runCollide("C09", out) }
}

const collideN = 260000

func collideValues(kind int) []any {
	// pseudo-random, pairwise distinct values (sequential numbers are too regular for a birthday search:
	// FNV-1a has no collision at all among the texts of 1..260000)
	vals := make([]any, 0, collideN)
	seen := map[uint64]bool{}
	x := uint64(0x9E3779B97F4A7C15)
	for len(vals) < collideN {
		x += 0x9E3779B97F4A7C15
		z := x
		z = (z ^ (z >> 30)) * 0xBF58476D1CE4E5B9
		z = (z ^ (z >> 27)) * 0x94D049BB133111EB
		z ^= z >> 31
		z &= (1 << 40) - 1
		if seen[z] {
			continue
		}
		seen[z] = true
		switch kind {
		case 0:
			vals = append(vals, float64(z))
		default:
			vals = append(vals, fmt.Sprintf("%x", z))
		}
	}
	return vals
}

func writeCorpusCase(out, name string, input any, tags []string) {
	must(os.MkdirAll(out, 0o755))
	raw, err := json.Marshal(map[string]any{"input": input, "tags": tags})
	must(err)
	must(os.WriteFile(filepath.Join(out, name), raw, 0o644))
}

// firstIndexDropping returns the smallest p such that f(prefix[0:p] + [b]) loses b (b is dropped as a "duplicate").
func firstIndexDropping(vals []any, b any, drops func(xs []any) bool) int {
	lo, hi := 1, len(vals) // invariant: drops(vals[:hi]+b) holds, fails for vals[:lo-1]+b
	for lo < hi {
		mid := (lo + hi) / 2
		if drops(append(append([]any{}, vals[:mid]...), b)) {
			hi = mid
		} else {
			lo = mid + 1
		}
	}
	return lo
}

func runCollide(pid, out string) {
	must(os.MkdirAll(out, 0o755))
	found := 0
	report := map[string]any{"property": pid, "values_tried": collideN}
	for kind := 0; kind < 2 && found == 0; kind++ {
		vals := collideValues(kind)
		switch pid {
		case "C04":
			l := make([]any, len(vals))
			r := make([]any, len(vals))
			for i, v := range vals {
				l[i] = map[string]any{"k": v}
				r[i] = map[string]any{"m": v}
			}
			from := &From{K: "join", JT: "inner", Strat: "hash", L: &From{K: "table", Path: []string{"l"}, Alias: "x"},
				R: &From{K: "table", Path: []string{"r"}, Alias: "y"}, On: Cmp("=", Col("x", "k"), Col("y", "m"))}
			q := &Stmt{From: from, Items: []Item{{Star: true}}}
			res := runEngine(map[string]any{"l": l, "r": r}, q.SQL())
			if res.Class != "ok" {
				report["note"] = "large join failed: " + res.Err
				continue
			}
			for _, row := range res.Rows {
				m, _ := row.(map[string]any)
				x, _ := m["x"].(map[string]any)
				y, _ := m["y"].(map[string]any)
				if x == nil || y == nil || x["k"] == y["m"] {
					continue
				}
				a, b := x["k"], y["m"]
				doc := map[string]any{"l": []any{map[string]any{"k": a}, map[string]any{"k": b}}, "r": []any{map[string]any{"m": a}, map[string]any{"m": b}}}
				for _, st := range []string{"hash", "auto", "straight"} {
					from2 := *from
					from2.Strat = st
					q2 := &Stmt{From: &from2, Items: []Item{{Star: true}}}
					writeCorpusCase(out, fmt.Sprintf("collision-%d-%s.json", found, st), engIn{Doc: doc, Q: q2, SQL: q2.SQL()}, []string{"digest-collision"})
				}
				found++
				report["pair"] = []any{a, b}
				break
			}
			if found == 0 && len(res.Rows) != len(vals) {
				report["note"] = fmt.Sprintf("join of %d distinct keys returned %d rows but no mismatching pair", len(vals), len(res.Rows))
			}
		case "C06":
			run := func(xs []any) []any {
				t := make([]any, len(xs))
				for i, v := range xs {
					t[i] = map[string]any{"v": v}
				}
				q := &Stmt{From: &From{K: "table", Path: []string{"t"}}, Items: []Item{{E: Col("v")}}, Distinct: true}
				res := runEngine(map[string]any{"t": t}, q.SQL())
				if res.Class != "ok" {
					return nil
				}
				return res.Rows
			}
			rows := run(vals)
			if rows == nil || len(rows) == len(vals) {
				continue
			}
			seen := map[any]bool{}
			for _, row := range rows {
				if m, ok := row.(map[string]any); ok {
					seen[m["v"]] = true
				}
			}
			for _, b := range vals {
				if seen[b] {
					continue
				}
				drops := func(xs []any) bool { rs := run(xs); return rs != nil && len(rs) < len(xs) }
				p := firstIndexDropping(vals, b, drops)
				a := vals[p-1]
				t := []any{map[string]any{"v": a}, map[string]any{"v": b}}
				q := &Stmt{From: &From{K: "table", Path: []string{"t"}}, Items: []Item{{E: Col("v")}}, Distinct: true}
				writeCorpusCase(out, fmt.Sprintf("collision-%d.json", found), engIn{Doc: map[string]any{"t": t}, Q: q, SQL: q.SQL()}, []string{"digest-collision"})
				found++
				report["pair"] = []any{a, b}
				break
			}
		case "C09":
			run := func(xs []any) []any {
				rs, err := genql.ExecReader(map[string]any{"vals": xs}, "distinct=>vals")
				if err != nil {
					return nil
				}
				arr, _ := rs.([]any)
				return arr
			}
			rows := run(vals)
			if rows == nil || len(rows) == len(vals) {
				continue
			}
			seen := map[any]bool{}
			for _, v := range rows {
				seen[v] = true
			}
			for _, b := range vals {
				if seen[b] {
					continue
				}
				drops := func(xs []any) bool { rs := run(xs); return rs != nil && len(rs) < len(xs) }
				p := firstIndexDropping(vals, b, drops)
				a := vals[p-1]
				fn := "distinct"
				in := c09In{Doc: map[string]any{"vals": []any{a, b}}, Sel: "distinct=>vals", Stream: "corpus",
					Ast: []c09ASeg{{Steps: []c09AStep{{Kind: "key", Key: "vals"}}, Fn: &fn}}}
				writeCorpusCase(out, fmt.Sprintf("collision-%d.json", found), in, []string{"digest-collision"})
				found++
				report["pair"] = []any{a, b}
				break
			}
		}
	}
	report["found"] = found
	writeJSON(filepath.Join(out, "collide.json"), report)
}
