// C13 — multi-goroutine stress driver (vharness aux c13stress).  Run as a CHILD process of the
// check (normally the -race build): any race report, fatal error, crash or hang kills / marks
// this process, and the parent reads the log.
//
// One ROUND = G goroutines (2..32) released together by a barrier, each with its own list of jobs:
//
//	reader  genql.ExecReader(doc, selector)   fresh selector texts (never seen by the cache, several
//	        goroutines issue the SAME fresh text at the same moment) and cached ones
//	query   genql.New(doc, sql) + Exec        filters, row-scoped subqueries (incl. `<-`), EXISTS,
//	        ORDER BY/LIMIT, GROUP BY, DISTINCT, UNION, CTE, PARALLEL (hash) joins, ASYNC / SPINASYNC /
//	        ONCE functions, SETVAR/GETVAR
//
//	        ONCE functions, SETVAR/GETVAR, open-ended ranges `(k:end)` in selectors (the private documents differ in
//	        the length of those arrays; alone = the closed spelling `(k:len)`), SPINASYNC calls with nothing else
//	        deferred over flat / 2- / 3-dimensional tables (tallied: all completed when Exec returns)
//
// on a PRIVATE document (separate documents) or on THE shared document of the round.  After the
// goroutines have joined, the main goroutine re-executes every job alone on a pristine deep copy of the
// document and compares (cross-talk); the shared document is compared with its pristine copy.
package main

import (
	"encoding/json"
	"fmt"
	"go/ast"
	"go/parser"
	"go/token"
	"os"
	"os/exec"
	"path/filepath"
	"reflect"
	"runtime"
	"sort"
	"strconv"
	"strings"
	"sync"
	"sync/atomic"
	"time"

	"github.com/vedadiyan/genql"
)

type c13Job struct {
	Kind    string `json:"kind"`             // reader | query
	Text    string `json:"text"`             // selector text or SQL
	Shared  bool   `json:"shared,omitempty"` // runs on the round's shared document
	Ordered bool   `json:"ordered,omitempty"`
	Tag     string `json:"tag"`
	Vars    bool   `json:"vars,omitempty"` // query constructed with its own WithVars map
	// LenKey: the text has an open-ended range whose `end` is the length of the document's top-level array LenKey: the
	// run alone uses the closed spelling (k:len) of the same range, which must give the same answer
	LenKey string `json:"lenkey,omitempty"`
	// Marks: the text calls SPINASYNC.C13MARK($TOK, ...) once per result row ($TOK is replaced by a fresh token per
	// execution): when Exec returns, every one of these calls has completed (the caller reads the tally without a lock)
	Marks bool `json:"marks,omitempty"`
	// Want (with Marks): the number of calls when it is not the number of result rows (the select list with the calls
	// is a derived table / CTE / union side, whose consumer reshapes a multi-dimensional result): the rows of the sources
	Want int `json:"want,omitempty"`
}

// c13MarkRec: tally of the C13MARK calls of ONE execution. The function updates it under mu; the goroutine that called
// Exec reads n WITHOUT the lock once Exec has returned: by then the library's goroutines have finished (wg.Wait), so the
// plain read is ordered after every update. A call still running at that point is a data race AND a short tally.
type c13MarkRec struct {
	mu sync.Mutex
	n  int
}

var c13Marks sync.Map // token (float64) -> *c13MarkRec
var c13MarkTok atomic.Int64
var c13UnfinishedMu sync.Mutex
var c13Unfinished []string

// c13Closed: the closed spelling of an open-ended range for an array of length n
func c13Closed(text string, n int) string {
	return strings.ReplaceAll(strings.ReplaceAll(text, ":end)", ":"+strconv.Itoa(n)+")"), "(begin:", "(0:")
}

func c13Leaves(v any) int {
	switch t := v.(type) {
	case []any:
		n := 0
		for _, x := range t {
			n += c13Leaves(x)
		}
		return n
	case map[string]any:
		return 1
	}
	return 0
}

// c13Ragged gives the arrays that open-ended ranges are taken of (r<nonce>, and xs of every row of rr<nonce>) length n
func c13Ragged(doc map[string]any, nonce string, n int) {
	mk := func(off int) []any {
		a := make([]any, n)
		for i := range a {
			a[i] = float64(off + i)
		}
		return a
	}
	doc["r"+nonce] = mk(0)
	if rows, ok := doc["rr"+nonce].([]any); ok {
		for i, row := range rows {
			row.(map[string]any)["xs"] = mk(10 * (i + 1))
		}
	}
}

type c13Mismatch struct {
	Round      int    `json:"round"`
	Goroutine  int    `json:"goroutine"`
	Job        c13Job `json:"job"`
	Concurrent string `json:"concurrent"`
	Alone      string `json:"alone"`
}

type c13Summary struct {
	Seed        uint64         `json:"seed"`
	Tier        string         `json:"tier"`
	Seconds     float64        `json:"seconds"`
	Gomaxprocs  int            `json:"gomaxprocs"`
	Rounds      int            `json:"rounds"`
	Jobs        int            `json:"jobs"`
	FreshTexts  int            `json:"fresh_selector_texts"`
	Goroutines  map[string]int `json:"rounds_by_goroutines"`
	Kinds       map[string]int `json:"jobs_by_kind"`
	Outcomes    map[string]int `json:"outcomes"`
	Mismatches  []c13Mismatch  `json:"mismatches"`
	SharedDirty int            `json:"shared_document_modified"`
	Panics      int            `json:"recovered_panics"`
	Done        bool           `json:"done"`
}

var c13sink atomic.Int64

func init() {
	// registry writes happen here (package initialisation), before any query runs
	genql.RegisterExternalFunction("c13echo", func(args []any) (any, error) {
		if len(args) == 0 {
			return nil, nil
		}
		return args[0], nil
	})
	genql.RegisterExternalFunction("c13slow", func(args []any) (any, error) {
		runtime.Gosched()
		time.Sleep(20 * time.Microsecond)
		if len(args) == 0 {
			return nil, nil
		}
		return args[0], nil
	})
	genql.RegisterExternalFunction("c13sink", func(args []any) (any, error) {
		c13sink.Add(1)
		return nil, nil
	})
	genql.RegisterExternalFunction("c13mark", func(args []any) (any, error) {
		runtime.Gosched()
		d := 200 * time.Microsecond
		if len(args) > 2 {
			if ms, ok := args[2].(float64); ok {
				d = time.Duration(ms * float64(time.Millisecond))
			}
		}
		time.Sleep(d)
		if len(args) > 0 {
			if v, ok := c13Marks.Load(args[0]); ok {
				m := v.(*c13MarkRec)
				m.mu.Lock()
				m.n++
				m.mu.Unlock()
			}
		}
		return nil, nil
	})
	auxRegistry["c13stress"] = c13Stress
}

// c13Doc builds a document; nonce makes key names (hence selector texts) fresh.
func c13Doc(r *Rand, nonce string) map[string]any {
	nu := r.Range(3, 7)
	users := make([]any, 0, nu)
	names := []string{"ann", "bob", "cy", "dee", "eve", "al", "bea", "abe"}
	cities := []string{"rome", "oslo", "lima"}
	for i := 1; i <= nu; i++ {
		items := make([]any, 0)
		for k := 0; k < r.Intn(4); k++ {
			items = append(items, map[string]any{"p": float64(r.Intn(5)), "w": Pick(r, []string{"x", "y"})})
		}
		users = append(users, map[string]any{
			"id": float64(i), "name": Pick(r, names), "age": float64(r.Range(18, 60)), "city": Pick(r, cities),
			"items": items, "tags": []any{Pick(r, cities), float64(i)},
			"f" + nonce: float64(i * 7),
			"g" + nonce: map[string]any{"h" + nonce: []any{float64(i), float64(i + 1), float64(i + 2)}},
		})
	}
	no := r.Range(2, 8)
	orders := make([]any, 0, no)
	for j := 1; j <= no; j++ {
		orders = append(orders, map[string]any{"oid": float64(j), "uid": float64(r.Range(1, nu+1)), "total": float64(r.Intn(100)), "sku": Pick(r, []string{"a", "b", "c"})})
	}
	vals := make([]any, 0)
	for k := 0; k < r.Range(1, 4); k++ {
		vals = append(vals, map[string]any{"v": float64(r.Intn(6))})
	}
	inner := map[string]any{}
	for k := 0; k < 6; k++ {
		inner["j"+strconv.Itoa(k)] = float64(r.Intn(1000))
	}
	// a table whose rows carry an array (open-ended ranges), and two- / three-dimensional tables (inner dimensions)
	rr := make([]any, 0)
	for k := 0; k < r.Range(1, 3); k++ {
		rr = append(rr, map[string]any{"id": float64(k + 1)})
	}
	cell := func(lo, n int) []any {
		a := make([]any, n)
		for i := range a {
			a[i] = map[string]any{"id": float64(lo + i)}
		}
		return a
	}
	n1, n2 := r.Range(1, 3), r.Range(0, 2)
	grid := []any{cell(1, n1), cell(n1+1, n2), cell(n1+n2+1, 1)}
	cube := []any{[]any{cell(1, 2), cell(3, 1)}, []any{}, []any{cell(4, r.Range(1, 2))}}
	doc := map[string]any{"users": users, "orders": orders, "vals": vals,
		"m" + nonce: map[string]any{"a": inner, "b": []any{float64(1), float64(2), float64(3), float64(4)}},
		"rr" + nonce: rr, "grid" + nonce: grid, "cube" + nonce: cube}
	c13Ragged(doc, nonce, r.Range(0, 6))
	return doc
}

// c13Jobs: the job list of one goroutine. hot are selector texts issued by every goroutine of the round.
func c13Jobs(r *Rand, nonce string, g int, n int, hot []c13Job) []c13Job {
	var out []c13Job
	u := "u" + nonce + "g" + strconv.Itoa(g) // unique per goroutine as well
	readers := func(i int) c13Job {
		k := strconv.Itoa(i)
		switch r.Intn(11) {
		case 9: // open-ended range: `end` is the length of the array at hand (private documents differ in it)
			return c13Job{Kind: "reader", Text: "r" + nonce + "[(" + strconv.Itoa(r.Intn(3)) + ":end)]", Tag: "reader-fresh-open-range", LenKey: "r" + nonce}
		case 10:
			return c13Job{Kind: "reader", Text: "r" + nonce + Pick(r, []string{"[(begin:end)]", "[keep=>(begin:end)]", "[(begin:end)][0]"}), Tag: "reader-fresh-open-range", LenKey: "r" + nonce}
		case 0:
			return c13Job{Kind: "reader", Text: "m" + nonce + ".a.j" + strconv.Itoa(r.Intn(6)), Tag: "reader-cached-round"}
		case 1:
			return c13Job{Kind: "reader", Text: "users[" + strconv.Itoa(r.Intn(3)) + "].name", Tag: "reader-cached-global"}
		case 2: // fresh text by a leading-zero spelling of the index, unique to this goroutine
			return c13Job{Kind: "reader", Text: "users[" + strings.Repeat("0", 1+g) + nonce[len(nonce)-1:] + k + "0" + "].id", Tag: "reader-fresh-error"}
		case 3:
			return c13Job{Kind: "reader", Text: "users[(0:" + strconv.Itoa(1+r.Intn(3)) + ")].g" + nonce + ".h" + nonce + "[" + strconv.Itoa(r.Intn(3)) + "]", Tag: "reader-fresh-each"}
		case 4:
			return c13Job{Kind: "reader", Text: "m" + nonce + "::a::j" + strconv.Itoa(r.Intn(6)), Tag: "reader-fresh-compose"}
		case 5: // missing key, unique text
			return c13Job{Kind: "reader", Text: "zz" + u + "k" + k + ".x", Tag: "reader-fresh-missing"}
		case 6: // malformed selector: the parse-error path (unlock + return)
			return c13Job{Kind: "reader", Text: "users[1:x" + u + k + "]", Tag: "reader-fresh-malformed"}
		case 7:
			return c13Job{Kind: "reader", Text: Pick(r, []string{"", "distinct=>"}) + "users{name,f" + nonce + Pick(r, []string{"", "|string", "|number"}) + "}", Tag: "reader-fresh-pipe"}
		default:
			return c13Job{Kind: "reader", Text: "m" + nonce + ".b[(" + strconv.Itoa(r.Intn(2)) + ":" + strconv.Itoa(2+r.Intn(2)) + ")]", Tag: "reader-fresh-range"}
		}
	}
	queries := func(i int) c13Job {
		al := "c" + u + "i" + strconv.Itoa(i) // fresh alias: fresh column selector text inside the engine
		f := "f" + nonce
		switch r.Intn(22) {
		case 19: // an open-ended range in a column selector; every xs of the document has the length of r<nonce>
			return c13Job{Kind: "query", Ordered: true, Tag: "q-open-range", LenKey: "r" + nonce,
				Text: "SELECT id, `xs[(" + strconv.Itoa(r.Intn(3)) + ":end)]` AS " + al + " FROM rr" + nonce}
		case 20, 21: // SPINASYNC with nothing else deferred in the select list, over flat / two- / three-dimensional tables
			src := Pick(r, []string{"rr", "grid", "grid", "cube"}) + nonce
			extra := Pick(r, []string{"", "", ", ONCE.C13ECHO('k') AS o", ", ASYNC.C13ECHO(id) AS a2", ", SPINASYNC.C13SINK(id)"})
			where := Pick(r, []string{"", "", " WHERE (id > 1)"})
			return c13Job{Kind: "query", Tag: "q-spinasync-dims", Marks: true,
				Text: "SELECT id AS " + al + ", SPINASYNC.C13MARK($TOK, id)" + extra + " FROM " + src + where}
		case 0:
			return c13Job{Kind: "query", Tag: "q-filter", Text: "SELECT id, name AS " + al + " FROM users WHERE ((age > " + strconv.Itoa(r.Range(18, 50)) + ") AND (name LIKE '" + Pick(r, []string{"a%", "%e", "b__", "%"}) + "'))"}
		case 1:
			return c13Job{Kind: "query", Tag: "q-subquery-row", Text: "SELECT id, (SELECT p FROM items WHERE (p > " + strconv.Itoa(r.Intn(3)) + ")) AS " + al + " FROM users"}
		case 2:
			return c13Job{Kind: "query", Tag: "q-subquery-root", Text: "SELECT id, (SELECT v FROM `<-.vals` WHERE (v >= " + strconv.Itoa(r.Intn(4)) + ")) AS " + al + " FROM users"}
		case 3:
			return c13Job{Kind: "query", Tag: "q-exists", Text: "SELECT id, " + f + " FROM users WHERE (EXISTS (SELECT * FROM items WHERE (p " + Pick(r, []string{">", "<=", "="}) + " " + Pick(r, []string{"id", "2", "age"}) + ")))"}
		case 4:
			return c13Job{Kind: "query", Ordered: true, Tag: "q-orderby", Text: "SELECT id, age AS " + al + " FROM users ORDER BY age DESC, id LIMIT " + strconv.Itoa(r.Range(1, 6))}
		case 5:
			return c13Job{Kind: "query", Tag: "q-parallel-join", Text: "SELECT `x.id` AS uid, `y.oid` AS " + al + " FROM users AS x PARALLEL " + Pick(r, []string{"JOIN", "LEFT JOIN", "RIGHT JOIN"}) + " orders AS y ON (`x.id` = `y.uid`)"}
		case 6:
			return c13Job{Kind: "query", Tag: "q-parallel-hash-join", Text: "SELECT `x.name` AS n, `y.total` AS " + al + " FROM users AS x PARALLEL " + Pick(r, []string{"HASH_JOIN", "LEFT HASH_JOIN", "RIGHT HASH_JOIN"}) + " orders AS y ON (`x.id` = `y.uid`)"}
		case 7:
			return c13Job{Kind: "query", Tag: "q-parallel-join-theta", Text: "SELECT `x.id` AS a, `y.oid` AS b FROM users AS x PARALLEL JOIN orders AS y ON ((`x.id` <= `y.uid`) AND (`y.total` " + Pick(r, []string{">", "<", "!="}) + " `x.age`))"}
		case 8:
			return c13Job{Kind: "query", Tag: "q-async", Text: "SELECT id, ASYNC.C13SLOW(name) AS " + al + ", ASYNC.CONCAT(name, '-', city) AS c2 FROM users"}
		case 9:
			return c13Job{Kind: "query", Tag: "q-spinasync", Text: "SELECT id, SPINASYNC.C13SINK(id), ONCE.C13ECHO('k') AS o FROM users WHERE (age >= " + strconv.Itoa(r.Range(18, 40)) + ")"}
		case 10:
			return c13Job{Kind: "query", Tag: "q-groupby", Text: "SELECT city, COUNT(*) AS n, SUM(age) AS " + al + " FROM users GROUP BY city"}
		case 11:
			return c13Job{Kind: "query", Tag: "q-distinct-union", Text: "SELECT DISTINCT city FROM users UNION ALL SELECT sku AS city FROM orders WHERE (total > " + strconv.Itoa(r.Intn(80)) + ")"}
		case 12:
			return c13Job{Kind: "query", Tag: "q-cte", Text: "WITH c AS (SELECT id, " + f + " AS w FROM users WHERE (age > 20)) SELECT id, (w + 1) AS " + al + " FROM c"}
		case 13:
			return c13Job{Kind: "query", Vars: true, Tag: "q-vars", Text: "SELECT id, SETVAR('k" + strconv.Itoa(g) + "', " + strconv.Itoa(i) + "), GETVAR('seed') AS " + al + " FROM users"}
		case 14:
			return c13Job{Kind: "query", Tag: "q-async-subquery", Text: "SELECT id, (SELECT ASYNC.C13ECHO(p) AS e FROM items) AS " + al + " FROM users"}
		case 15: // subquery inside the ON clause: evaluated by the join's goroutines, which share the query
			return c13Job{Kind: "query", Tag: "q-parallel-join-exists", Text: "SELECT `x.id` AS a, `y.oid` AS " + al + " FROM users AS x PARALLEL JOIN orders AS y ON ((`x.id` <= `y.uid`) AND (EXISTS (SELECT * FROM `<-.vals` WHERE (v > " + strconv.Itoa(r.Intn(3)) + "))))"}
		case 17: // an ON clause that FAILS for every left key: all join goroutines report an error at once
			return c13Job{Kind: "query", Tag: "q-parallel-join-failing-on", Text: "SELECT `x.id` AS a, `y.oid` AS " + al + " FROM users AS x PARALLEL " + Pick(r, []string{"JOIN", "LEFT JOIN"}) + " orders AS y ON (((`x.id` <= `y.uid`) AND (`y.total` > `x.age`)) AND `y.missing`)"}
		case 16:
			return c13Job{Kind: "query", Tag: "q-star-await", Text: "SELECT *, (SELECT AWAIT(`q.e`) AS r FROM (SELECT ASYNC.C13SLOW(id) AS e) AS q) AS " + al + " FROM users"}
		default:
			return c13Job{Kind: "query", Tag: "q-derived", Text: "SELECT `d.id` AS i, `d.name` AS " + al + " FROM (SELECT * FROM users ORDER BY id DESC LIMIT 3) AS d WHERE (`d.age` > 18)"}
		}
	}
	for i := 0; i < n; i++ {
		var j c13Job
		switch {
		case len(hot) > 0 && r.Chance(25):
			j = hot[r.Intn(len(hot))]
		case r.Chance(50):
			j = readers(i)
		default:
			j = queries(i)
		}
		j.Shared = r.Chance(50)
		out = append(out, j)
	}
	return out
}

// c13Canon renders a result so that it can be compared between runs.
func c13Canon(class string, v any, ordered bool) string {
	enc := func(x any) string {
		b, err := json.Marshal(jsonSafe(normaliseValue(x)))
		if err != nil {
			return fmt.Sprintf("%v", x)
		}
		return string(b)
	}
	if rows, ok := v.([]any); ok && !ordered {
		ss := make([]string, len(rows))
		for i, x := range rows {
			ss[i] = enc(x)
		}
		sort.Strings(ss)
		return class + ":{" + strings.Join(ss, ",") + "}"
	}
	return class + ":" + enc(v)
}

func c13Run(j c13Job, doc map[string]any) (out string) {
	defer func() {
		if r := recover(); r != nil {
			out = "panic:" + fmt.Sprint(r)
		}
	}()
	switch j.Kind {
	case "reader":
		v, err := genql.ExecReader(doc, j.Text)
		if err != nil {
			return "error"
		}
		return c13Canon("ok", v, true)
	default:
		var opts []genql.QueryOption
		if j.Vars {
			opts = append(opts, genql.WithVars(map[string]any{"seed": float64(7)}))
		}
		text := j.Text
		var marks *c13MarkRec
		if j.Marks {
			tok := float64(c13MarkTok.Add(1))
			marks = &c13MarkRec{}
			c13Marks.Store(tok, marks)
			defer c13Marks.Delete(tok)
			text = strings.ReplaceAll(text, "$TOK", strconv.FormatFloat(tok, 'f', -1, 64))
		}
		q, err := genql.New(doc, text, opts...)
		if err != nil {
			return "error"
		}
		rows, err := q.Exec()
		if err != nil {
			return "error"
		}
		if marks != nil {
			// Exec has returned: the tally is read without the lock
			done, want := marks.n, c13Leaves(rows)
			if j.Want > 0 {
				want = j.Want
			}
			if done != want {
				c13UnfinishedMu.Lock()
				c13Unfinished = append(c13Unfinished, fmt.Sprintf("%s: %d of %d SPINASYNC calls had completed when Exec returned", text, done, want))
				c13UnfinishedMu.Unlock()
			}
		}
		return c13Canon("ok", rows, j.Ordered)
	}
}

func c13Stress(tier string, seed uint64, out string) {
	secs := 15.0
	if tier == "thorough" {
		secs = 40.0
	}
	if s := os.Getenv("C13_SECONDS"); s != "" {
		if f, err := strconv.ParseFloat(s, 64); err == nil {
			secs = f
		}
	}
	roundTimeout := 60 * time.Second
	r := NewRand(seed)
	sum := c13Summary{Seed: seed, Tier: tier, Gomaxprocs: runtime.GOMAXPROCS(0), Goroutines: map[string]int{}, Kinds: map[string]int{}, Outcomes: map[string]int{}}
	write := func() {
		writeJSON(filepath.Join(out, "summary.json"), sum)
	}
	start := time.Now()
	// cold start: the very first queries of this process run concurrently, each calling functions (built-in, and an
	// immediate one registered just before) — lazily built package-level tables must not be built by two queries at once
	{
		genql.RegisterImmediateFunction("c13cold", func(_ *genql.Query, _ genql.Map, _ *genql.FunctionOptions, args []any) (any, error) {
			return float64(len(args)), nil
		})
		base := c13Doc(r, "cold")
		var wg sync.WaitGroup
		gate := make(chan struct{})
		colds := []string{"SELECT to_upper(name) AS r, c13cold(id) AS k FROM users", "SELECT concat(name, '-', id) AS r FROM users WHERE to_lower(city) LIKE 'o%'",
			"SELECT c13cold(id, age) AS k FROM users", "SELECT id FROM users WHERE to_upper(name) LIKE 'A%'"}
		for g := 0; g < 16; g++ {
			wg.Add(1)
			d := deepCopy(base).(map[string]any)
			go func(g int) {
				defer wg.Done()
				<-gate
				c13Run(c13Job{Kind: "query", Text: colds[g%len(colds)], Tag: "cold-start"}, d)
			}(g)
		}
		close(gate)
		wg.Wait()
		sum.Kinds["cold-start"] += 16
	}
	// one query whose two UNION operands (inside a derived table) both read the same not-yet-evaluated CTE of the
	// enclosing query over a 600-row table: whatever the engine runs concurrently inside ONE query must not race
	{
		big := make([]any, 600)
		for i := range big {
			big[i] = map[string]any{"id": float64(i), "v": float64(i % 9)}
		}
		doc := map[string]any{"big": big}
		for i := 0; i < 12; i++ {
			res := runEngine(doc, "WITH c AS (SELECT id, v FROM big WHERE v >= 0) SELECT * FROM (SELECT id FROM c UNION ALL SELECT id FROM c WHERE v < 5) AS d")
			if res.Class != "ok" || len(res.Rows) != 600+335 {
				fmt.Fprintf(os.Stderr, "C13-CROSSTALK: nested UNION over an enclosing CTE: class=%s rows=%d err=%s (want ok, %d rows)\n", res.Class, len(res.Rows), res.Err, 600+335)
				sum.Mismatches = append(sum.Mismatches, c13Mismatch{Round: -1, Job: c13Job{Kind: "query", Text: "nested UNION over an enclosing CTE", Tag: "union-operands-share-cte"}})
				break
			}
		}
		sum.Kinds["union-operands-share-cte"] += 12
	}
	// a flood of distinct selector texts (more than 2^16) from one goroutine while others keep evaluating selectors
	// they have used before on their own documents: a bounded / recycled cache must not disturb them
	{
		var stop int32
		var wg sync.WaitGroup
		bad := make(chan string, 8)
		for g := 0; g < 4; g++ {
			wg.Add(1)
			go func(g int) {
				defer wg.Done()
				doc := map[string]any{"users": []any{map[string]any{"id": float64(g), "name": fmt.Sprintf("u%d", g)}}, "x": float64(g)}
				for atomic.LoadInt32(&stop) == 0 {
					v, err := genql.ExecReader(doc, "users[0].name")
					if err != nil || v != fmt.Sprintf("u%d", g) {
						select {
						case bad <- fmt.Sprintf("users[0].name on a private document returned %v, %v", v, err):
						default:
						}
						return
					}
					w, err := genql.ExecReader(doc, fmt.Sprintf("nokey%d_%d", g, seed))
					if err != nil || w != nil {
						select {
						case bad <- fmt.Sprintf("a missing key returned %v, %v (want NULL)", w, err):
						default:
						}
						return
					}
				}
			}(g)
		}
		fd := map[string]any{"x": float64(3)}
		for i := 0; i < 70000; i++ {
			genql.ExecReader(fd, fmt.Sprintf("fresh_%d_%d", seed, i))
		}
		atomic.StoreInt32(&stop, 1)
		wg.Wait()
		select {
		case msg := <-bad:
			fmt.Fprintf(os.Stderr, "C13-CROSSTALK: selector flood: %s\n", msg)
			sum.Mismatches = append(sum.Mismatches, c13Mismatch{Round: -2, Job: c13Job{Kind: "reader", Text: "70000 fresh selector texts next to cached ones", Tag: "selector-flood"}})
		default:
		}
		sum.Kinds["selector-flood"] += 70000
	}
	// the first evaluations of one selector text with an open-ended range happen at the same moment on separate
	// documents whose arrays have different lengths (readers and column selectors of queries), then again one after the
	// other: each goroutine gets the tail / head of ITS array (expected value computed here by slicing)
	{
		lens := []int{3, 6, 2, 9, 4, 7, 5, 8, 1, 0, 11, 6}
		for j := len(lens) - 1; j > 0; j-- {
			k := r.Intn(j + 1)
			lens[j], lens[k] = lens[k], lens[j]
		}
		k := r.Range(0, 2)
		key := fmt.Sprintf("o%d", seed)
		type form struct {
			text  string
			query bool
			want  func(a []any) (any, bool)
		}
		tail := func(a []any) (any, bool) {
			if k > len(a) {
				return nil, false
			}
			return a[k:], true
		}
		forms := []form{
			{key + "[(" + strconv.Itoa(k) + ":end)]", false, tail},
			{key + "[(begin:end)]", false, func(a []any) (any, bool) { return a, true }},
			{"SELECT id, `" + key + "x[(" + strconv.Itoa(k) + ":end)]` AS t FROM " + key + "rows", true, tail},
			{key + "[keep=>(" + strconv.Itoa(k) + ":end)]", false, tail},
		}
		var mu sync.Mutex
		var bad []string
		for _, f := range forms {
			for pass := 0; pass < 2; pass++ {
				var wg sync.WaitGroup
				gate := make(chan struct{})
				for g, n := range lens {
					arr := make([]any, n)
					for i := range arr {
						arr[i] = float64(100*g + i)
					}
					doc := map[string]any{key: arr, key + "rows": []any{map[string]any{"id": float64(g), key + "x": arr}}}
					wg.Add(1)
					go func(g, n int) {
						defer wg.Done()
						if pass == 0 {
							<-gate
						}
						w, ok := f.want(arr)
						want := "error"
						if ok {
							if f.query {
								want = c13Canon("ok", []any{map[string]any{"id": float64(g), "t": w}}, true)
							} else {
								want = c13Canon("ok", w, true)
							}
						}
						kind := "reader"
						if f.query {
							kind = "query"
						}
						got := c13Run(c13Job{Kind: kind, Text: f.text, Ordered: true, Tag: "open-range-ragged"}, doc)
						if got != want {
							mu.Lock()
							bad = append(bad, fmt.Sprintf("%s on an array of length %d returned %s, alone it is %s", f.text, n, got, want))
							mu.Unlock()
						}
					}(g, n)
					if pass == 1 {
						wg.Wait() // second pass: one after the other (cached text)
					}
				}
				close(gate)
				wg.Wait()
				sum.Kinds["open-range-ragged"] += len(lens)
			}
		}
		for i, b := range bad {
			if i < 4 {
				fmt.Fprintf(os.Stderr, "C13-CROSSTALK: open-ended range on separate documents: %s\n", b)
			}
		}
		if len(bad) > 0 {
			sum.Mismatches = append(sum.Mismatches, c13Mismatch{Round: -3, Job: c13Job{Kind: "reader", Text: bad[0], Tag: "open-range-ragged"}})
		}
	}
	// the library's own goroutines have finished when Exec returns: SPINASYNC calls of a slow function (0.3 - 3 ms) in
	// select lists that defer nothing else / a column / ONCE / ASYNC, over flat, two- and three-dimensional tables, as
	// a derived table, a CTE and a UNION side; four goroutines at a time on separate documents
	{
		srcs := []string{"rrsp", "gridsp", "cubesp"}
		lists := []string{"SPINASYNC.C13MARK($TOK, id, %v)", "id, SPINASYNC.C13MARK($TOK, id, %v)", "id, SPINASYNC.C13MARK($TOK, id, %v), ONCE.C13ECHO('k') AS o",
			"id, ASYNC.C13ECHO(id) AS a, SPINASYNC.C13MARK($TOK, id, %v)", "id, SPINASYNC.C13MARK($TOK, id, %v), SPINASYNC.C13SINK(id)"}
		var texts []string
		wants := map[string]int{}
		base := c13Doc(r, "sp")
		for _, src := range srcs {
			for _, l := range lists {
				lat := Pick(r, []string{"0.3", "1", "3"})
				sel := "SELECT " + fmt.Sprintf(l, lat) + " FROM " + src
				texts = append(texts, sel)
				var w string
				switch r.Intn(4) {
				case 0:
					w = "SELECT * FROM (" + sel + ") AS d"
					wants[w] = c13Leaves(base[src])
				case 1:
					w = "WITH w AS (" + sel + ") SELECT * FROM w"
					wants[w] = c13Leaves(base[src])
				case 2:
					w = sel + " UNION ALL SELECT id, SPINASYNC.C13MARK($TOK, id, " + lat + ") FROM rrsp"
					wants[w] = c13Leaves(base[src]) + c13Leaves(base["rrsp"])
				}
				if w != "" {
					texts = append(texts, w)
				}
			}
		}
		for lo := 0; lo < len(texts); lo += 4 {
			var wg sync.WaitGroup
			for i := lo; i < lo+4 && i < len(texts); i++ {
				wg.Add(1)
				d := deepCopy(base).(map[string]any)
				go func(t string) {
					defer wg.Done()
					c13Run(c13Job{Kind: "query", Text: t, Tag: "spinasync-dims", Marks: true, Want: wants[t]}, d)
				}(texts[i])
			}
			wg.Wait()
		}
		sum.Kinds["spinasync-dims"] += len(texts)
		c13UnfinishedMu.Lock()
		for i, u := range c13Unfinished {
			if i < 4 {
				fmt.Fprintf(os.Stderr, "C13-UNFINISHED: %s\n", u)
			}
		}
		if len(c13Unfinished) > 0 {
			sum.Mismatches = append(sum.Mismatches, c13Mismatch{Round: -4, Job: c13Job{Kind: "query", Text: c13Unfinished[0], Tag: "spinasync-dims", Marks: true}})
		}
		c13Unfinished = nil
		c13UnfinishedMu.Unlock()
	}
	gs := []int{2, 3, 4, 8, 16, 32}
	for round := 0; time.Since(start).Seconds() < secs; round++ {
		G := gs[round%len(gs)]
		nonce := fmt.Sprintf("s%dr%d", seed, round)
		base := c13Doc(r, nonce)
		shared := deepCopy(base).(map[string]any)
		// hot jobs: fresh texts that every goroutine will issue
		hot := c13Jobs(r, nonce, 99, 4, nil)
		jobs := make([][]c13Job, G)
		priv := make([]map[string]any, G)
		privBase := make([]map[string]any, G) // pristine copy of each private document
		nj := r.Range(6, 14)
		for g := 0; g < G; g++ {
			jobs[g] = c13Jobs(r, nonce, g, nj, hot)
			// separate documents are not equal documents: the arrays that open-ended ranges are taken of differ in length
			privBase[g] = deepCopy(base).(map[string]any)
			c13Ragged(privBase[g], nonce, (g*3+round)%8)
			priv[g] = deepCopy(privBase[g]).(map[string]any)
		}
		results := make([][]string, G)
		var wg sync.WaitGroup
		gate := make(chan struct{})
		for g := 0; g < G; g++ {
			wg.Add(1)
			results[g] = make([]string, len(jobs[g]))
			go func(g int) {
				defer wg.Done()
				<-gate
				for i, j := range jobs[g] {
					d := priv[g]
					if j.Shared {
						d = shared
					}
					results[g][i] = c13Run(j, d)
				}
			}(g)
		}
		done := make(chan struct{})
		go func() { wg.Wait(); close(done) }()
		close(gate)
		select {
		case <-done:
		case <-time.After(roundTimeout):
			buf := make([]byte, 1<<20)
			n := runtime.Stack(buf, true)
			fmt.Fprintf(os.Stderr, "C13-TIMEOUT: round %d with %d goroutines did not finish in %v (deadlock or livelock)\n%s\n", round, G, roundTimeout, buf[:n])
			jb, _ := json.Marshal(jobs)
			fmt.Fprintf(os.Stderr, "C13-JOBS: %s\n", jb)
			write()
			os.Exit(4)
		}
		// alone: every job again, sequentially, on a pristine copy
		for g := 0; g < G; g++ {
			for i, j := range jobs[g] {
				src := privBase[g]
				if j.Shared {
					src = base
				}
				aj := j
				if j.LenKey != "" {
					arr, _ := src[j.LenKey].([]any)
					aj.Text = c13Closed(j.Text, len(arr))
				}
				alone := c13Run(aj, deepCopy(src).(map[string]any))
				sum.Jobs++
				sum.Kinds[j.Tag]++
				if strings.Contains(j.Tag, "fresh") {
					sum.FreshTexts++
				}
				cls := alone
				if k := strings.IndexByte(cls, ':'); k >= 0 {
					cls = cls[:k]
				}
				sum.Outcomes[cls]++
				if cls != "ok" {
					sum.Outcomes[cls+":"+j.Tag]++
				}
				if strings.HasPrefix(results[g][i], "panic") || strings.HasPrefix(alone, "panic") {
					sum.Panics++
				}
				if alone != results[g][i] && len(sum.Mismatches) < 10 {
					sum.Mismatches = append(sum.Mismatches, c13Mismatch{Round: round, Goroutine: g, Job: j, Concurrent: results[g][i], Alone: alone})
					fmt.Fprintf(os.Stderr, "C13-CROSSTALK: round %d goroutine %d job %+v\n  concurrent: %s\n  alone:      %s\n", round, g, j, results[g][i], alone)
				}
			}
		}
		c13UnfinishedMu.Lock()
		for _, u := range c13Unfinished {
			fmt.Fprintf(os.Stderr, "C13-UNFINISHED: round %d: %s\n", round, u)
			if len(sum.Mismatches) < 10 {
				sum.Mismatches = append(sum.Mismatches, c13Mismatch{Round: round, Job: c13Job{Kind: "query", Text: u, Tag: "q-spinasync-dims", Marks: true}})
			}
		}
		c13Unfinished = nil
		c13UnfinishedMu.Unlock()
		if !reflect.DeepEqual(shared, base) {
			sum.SharedDirty++
			fmt.Fprintf(os.Stderr, "C13-SHARED-MODIFIED: round %d: the shared document differs from its pristine copy after the round\n", round)
		}
		sum.Rounds++
		sum.Goroutines[strconv.Itoa(G)]++
	}
	sum.Seconds = time.Since(start).Seconds()
	sum.Done = true
	write()
	if len(sum.Mismatches) > 0 || sum.SharedDirty > 0 || sum.Panics > 0 {
		os.Exit(5)
	}
}

// =====================================================================================================
// c13sites — the lock/access event translator (regenerated structural obligation of C13).
//
// For every function (or function literal) of /repo's non-test, non-verif Go files that DIRECTLY
// touches tracked state — the package-level vars cache, functions, immediateFunctions,
// topLevelFunctions, the package-level mutex mut, a field named vars (Options.vars) or a field named
// varsMut — it emits the linearised sequence of Lock/Unlock/RLock/RUnlock/Read g/Write g/Call f/Return
// events of every control-flow path, as a Coq term of type ConcEvents.site_table.
//
// What the walker does (purely syntactic: go/ast + the parser's identifier resolution, no type checker):
//   - an identifier counts as the package-level var only if it does not resolve to a local
//     declaration (parameters / := / var shadow it: join.go's local `mut`, ParseSelector's `functions`);
//   - reads: any mention in an expression; writes: assignment / op-assignment / ++ / -- to g or g[k],
//     delete(g,k), g = append(g,...); passing g itself to any other call is reported as a write;
//   - structured control flow only: if/else, switch / type switch (one path per clause, plus the
//     skip path when there is no default), for / range (body zero times or once; a body path that
//     falls through and contains a lock operation is Opaque because the lock state would not be
//     loop-invariant), break / continue without label, return, panic(...) (ends the path);
//   - defer m.Unlock() / defer func(){...}() with tracked events: replayed in LIFO order at every
//     return; goto, labels, fallthrough, select: Opaque;
//   - function literals are separate rows (Outer.litN): a goroutine or a stored closure is another
//     thread / another moment, so it must follow the discipline on its own;
//   - calls: Call f is emitted for a call to a package function or method that can reach tracked
//     state through the static call graph (by name), and Call <dynamic> for a call through a func-typed
//     variable or struct field; the criterion forbids both while a tracked lock is held.
// What it TRUSTS: that the named variables are only reachable under these names (no pointer to the map
// is taken: &g is reported as a write), that a panic does not escape between Lock and Unlock (the model
// keeps that as the explicit hypothesis parse_nopanic, discharged by C09_never_panics), and the
// by-name call graph. The -race stage validates the same facts dynamically on every run.

type c13Item struct {
	K, A string
	D    []c13Item // K == "Defer": the deferred events
}

type c13Rel struct {
	items []c13Item
	st    int // 0 normal, 1 returned, 2 break, 3 continue
}

func (p c13Rel) key() string {
	var b strings.Builder
	var rec func(it []c13Item)
	rec = func(it []c13Item) {
		for _, x := range it {
			b.WriteString(x.K + ":" + x.A + "(")
			rec(x.D)
			b.WriteString(")")
		}
	}
	rec(p.items)
	b.WriteString("#" + strconv.Itoa(p.st))
	return b.String()
}

const c13MaxPaths = 2048

func c13Dedupe(ps []c13Rel) []c13Rel {
	seen := map[string]bool{}
	var out []c13Rel
	for _, p := range ps {
		k := p.key()
		if !seen[k] {
			seen[k] = true
			out = append(out, p)
		}
	}
	if len(out) > c13MaxPaths {
		return []c13Rel{{items: []c13Item{{K: "Opaque", A: "too many paths"}}}}
	}
	return out
}

// c13Seq: run b after a (only the paths of a that are still running continue).
func c13Seq(a, b []c13Rel) []c13Rel {
	var out []c13Rel
	for _, p := range a {
		if p.st != 0 {
			out = append(out, p)
			continue
		}
		for _, q := range b {
			items := append(append([]c13Item{}, p.items...), q.items...)
			out = append(out, c13Rel{items: items, st: q.st})
		}
	}
	return c13Dedupe(out)
}

func c13One(items ...c13Item) []c13Rel { return []c13Rel{{items: items}} }

type c13Walker struct {
	fset    *token.FileSet
	pkgVars map[*ast.ValueSpec]bool // package-level var specs
	funcs   map[string]bool         // declared function and method names
	types   map[string]bool         // declared type names
	fields  map[string]bool         // struct field names
	imports map[string]bool         // import names of the current file
	reach   map[string]bool         // functions that can reach tracked state (by name)
	lits    []*ast.FuncLit          // literals met while walking the current function
	direct  bool                    // a direct tracked event was emitted
}

var c13Globals = map[string]bool{"cache": true, "functions": true, "immediateFunctions": true, "topLevelFunctions": true}

func (w *c13Walker) isPkgVar(id *ast.Ident) bool {
	if id.Obj == nil {
		return true // not declared in this file's scopes: a package-level object of another file
	}
	if vs, ok := id.Obj.Decl.(*ast.ValueSpec); ok && w.pkgVars[vs] {
		return true
	}
	return false
}

// tracked location named by an expression (without index), or "".
func (w *c13Walker) locOf(e ast.Expr) string {
	switch t := e.(type) {
	case *ast.Ident:
		if c13Globals[t.Name] && w.isPkgVar(t) {
			return t.Name
		}
	case *ast.SelectorExpr:
		if t.Sel.Name == "vars" {
			return "vars"
		}
	case *ast.ParenExpr:
		return w.locOf(t.X)
	}
	return ""
}

func (w *c13Walker) mutexOf(e ast.Expr) string {
	switch t := e.(type) {
	case *ast.Ident:
		if t.Name == "mut" && w.isPkgVar(t) {
			return "mut"
		}
	case *ast.SelectorExpr:
		if t.Sel.Name == "varsMut" {
			return "varsMut"
		}
	case *ast.ParenExpr:
		return w.mutexOf(t.X)
	case *ast.UnaryExpr:
		if t.Op == token.AND {
			return w.mutexOf(t.X)
		}
	}
	return ""
}

func (w *c13Walker) ev(k, a string) c13Item {
	if k != "Call" && k != "Opaque" {
		w.direct = true // a row is emitted only for code that touches tracked state itself
	}
	return c13Item{K: k, A: a}
}

// expression events, in evaluation order (approximately: operands left to right, then the call).
func (w *c13Walker) expr(e ast.Expr) []c13Item {
	if e == nil {
		return nil
	}
	var out []c13Item
	switch t := e.(type) {
	case *ast.Ident:
		if l := w.locOf(t); l != "" {
			out = append(out, w.ev("Read", l))
		}
	case *ast.SelectorExpr:
		if l := w.locOf(t); l != "" {
			out = append(out, w.expr(t.X)...)
			out = append(out, w.ev("Read", l))
		} else {
			out = append(out, w.expr(t.X)...)
		}
	case *ast.IndexExpr:
		out = append(out, w.expr(t.Index)...)
		out = append(out, w.expr(t.X)...)
	case *ast.SliceExpr:
		out = append(out, w.expr(t.Low)...)
		out = append(out, w.expr(t.High)...)
		out = append(out, w.expr(t.Max)...)
		out = append(out, w.expr(t.X)...)
	case *ast.StarExpr:
		out = append(out, w.expr(t.X)...)
	case *ast.UnaryExpr:
		if t.Op == token.AND {
			if l := w.locOf(t.X); l != "" { // a pointer to the tracked object escapes
				return []c13Item{w.ev("Write", l)}
			}
		}
		if t.Op == token.ARROW {
			return []c13Item{w.ev("Opaque", "channel receive")}
		}
		out = append(out, w.expr(t.X)...)
	case *ast.BinaryExpr:
		out = append(out, w.expr(t.X)...)
		out = append(out, w.expr(t.Y)...)
	case *ast.ParenExpr:
		out = append(out, w.expr(t.X)...)
	case *ast.TypeAssertExpr:
		out = append(out, w.expr(t.X)...)
	case *ast.KeyValueExpr:
		out = append(out, w.expr(t.Key)...)
		out = append(out, w.expr(t.Value)...)
	case *ast.CompositeLit:
		for _, x := range t.Elts {
			out = append(out, w.expr(x)...)
		}
	case *ast.FuncLit:
		w.lits = append(w.lits, t) // a separate row
	case *ast.CallExpr:
		out = append(out, w.call(t)...)
	case *ast.BasicLit, *ast.ArrayType, *ast.MapType, *ast.FuncType, *ast.InterfaceType, *ast.StructType, *ast.ChanType, *ast.Ellipsis:
	default:
		out = append(out, w.ev("Opaque", fmt.Sprintf("expression %T", e)))
	}
	return out
}

func (w *c13Walker) call(c *ast.CallExpr) []c13Item {
	var out []c13Item
	// mutex operations on a tracked mutex
	if sel, ok := c.Fun.(*ast.SelectorExpr); ok {
		if m := w.mutexOf(sel.X); m != "" {
			switch sel.Sel.Name {
			case "Lock", "Unlock", "RLock", "RUnlock":
				return []c13Item{w.ev(sel.Sel.Name, m)}
			default:
				return []c13Item{w.ev("Opaque", "mutex method "+sel.Sel.Name)}
			}
		}
	}
	// builtins with a tracked first argument
	if id, ok := c.Fun.(*ast.Ident); ok && id.Obj == nil {
		switch id.Name {
		case "delete":
			if len(c.Args) == 2 {
				if l := w.locOf(c.Args[0]); l != "" {
					out = append(out, w.expr(c.Args[1])...)
					return append(out, w.ev("Write", l))
				}
			}
		case "len", "cap":
			if len(c.Args) == 1 {
				if l := w.locOf(c.Args[0]); l != "" {
					return []c13Item{w.ev("Read", l)}
				}
			}
		case "append":
			if len(c.Args) >= 1 {
				if l := w.locOf(c.Args[0]); l != "" { // reads the slice; the result is written by the assignment
					out = append(out, w.ev("Read", l))
					for _, a := range c.Args[1:] {
						out = append(out, w.argument(a)...)
					}
					return out
				}
			}
		}
	}
	// arguments: a tracked object passed whole to a callee may be written by it
	switch f := c.Fun.(type) {
	case *ast.Ident, *ast.SelectorExpr:
		if s, ok := f.(*ast.SelectorExpr); ok {
			out = append(out, w.expr(s.X)...)
		}
	default:
		out = append(out, w.expr(c.Fun)...)
	}
	for _, a := range c.Args {
		out = append(out, w.argument(a)...)
	}
	// the call itself
	switch f := c.Fun.(type) {
	case *ast.Ident:
		switch {
		case f.Obj != nil && f.Obj.Kind == ast.Var:
			out = append(out, w.ev("Call", "<dynamic:"+f.Name+">"))
		case w.types[f.Name]:
			// conversion
		case w.funcs[f.Name] && w.reach[f.Name]:
			out = append(out, w.ev("Call", f.Name))
		}
	case *ast.SelectorExpr:
		if x, ok := f.X.(*ast.Ident); ok && x.Obj == nil && w.imports[x.Name] {
			break // a call into another package
		}
		switch {
		case w.funcs[f.Sel.Name] && w.reach[f.Sel.Name]:
			out = append(out, w.ev("Call", f.Sel.Name))
		case !w.funcs[f.Sel.Name] && w.fields[f.Sel.Name]:
			out = append(out, w.ev("Call", "<dynamic:"+f.Sel.Name+">"))
		}
	case *ast.FuncLit:
		// immediately invoked literal: its body is a separate row; calling it here is a dynamic call
		out = append(out, w.ev("Call", "<dynamic:literal>"))
	case *ast.ParenExpr, *ast.ArrayType, *ast.MapType, *ast.InterfaceType, *ast.StarExpr, *ast.IndexExpr:
		// conversions and generic instantiations
	default:
		out = append(out, w.ev("Call", "<dynamic>"))
	}
	return out
}

func (w *c13Walker) argument(a ast.Expr) []c13Item {
	if l := w.locOf(a); l != "" {
		return []c13Item{w.ev("Write", l)}
	}
	return w.expr(a)
}

// lhs events of an assignment target.
func (w *c13Walker) assignTarget(e ast.Expr) []c13Item {
	switch t := e.(type) {
	case *ast.Ident:
		if l := w.locOf(t); l != "" {
			return []c13Item{w.ev("Write", l)}
		}
		return nil
	case *ast.SelectorExpr:
		if l := w.locOf(t); l != "" {
			return append(w.expr(t.X), w.ev("Write", l))
		}
		return w.expr(t.X)
	case *ast.IndexExpr:
		if l := w.locOf(t.X); l != "" {
			out := w.expr(t.Index)
			if s, ok := t.X.(*ast.SelectorExpr); ok {
				out = append(out, w.expr(s.X)...)
			}
			return append(out, w.ev("Write", l))
		}
		return append(w.expr(t.Index), w.assignTarget(t.X)...)
	case *ast.StarExpr:
		return w.expr(t.X)
	case *ast.ParenExpr:
		return w.assignTarget(t.X)
	}
	return w.expr(e)
}

func c13HasLockOp(items []c13Item) bool {
	for _, x := range items {
		switch x.K {
		case "Lock", "Unlock", "RLock", "RUnlock", "Defer", "Opaque":
			return true
		}
	}
	return false
}

func (w *c13Walker) block(stmts []ast.Stmt) []c13Rel {
	cur := c13One()
	for _, s := range stmts {
		cur = c13Seq(cur, w.stmt(s))
	}
	return cur
}

func (w *c13Walker) loop(head []c13Item, body *ast.BlockStmt, post []c13Item) []c13Rel {
	out := c13One(head...) // zero iterations
	for _, b := range w.block(body.List) {
		items := append(append([]c13Item{}, head...), b.items...)
		switch b.st {
		case 1:
			out = append(out, c13Rel{items: items, st: 1})
		default:
			if c13HasLockOp(b.items) {
				out = append(out, c13Rel{items: append(append([]c13Item{}, head...), c13Item{K: "Opaque", A: "lock operation in a loop body that continues"})})
				continue
			}
			if b.st != 2 {
				items = append(items, post...)
			}
			out = append(out, c13Rel{items: items})
		}
	}
	return c13Dedupe(out)
}

func (w *c13Walker) stmt(s ast.Stmt) []c13Rel {
	switch t := s.(type) {
	case nil:
		return c13One()
	case *ast.BlockStmt:
		return w.block(t.List)
	case *ast.ExprStmt:
		if c, ok := t.X.(*ast.CallExpr); ok {
			if id, ok := c.Fun.(*ast.Ident); ok && id.Name == "panic" && id.Obj == nil {
				items := []c13Item{}
				for _, a := range c.Args {
					items = append(items, w.expr(a)...)
				}
				return []c13Rel{{items: items, st: 1}}
			}
		}
		return c13One(w.expr(t.X)...)
	case *ast.AssignStmt:
		var items []c13Item
		for _, r := range t.Rhs {
			items = append(items, w.expr(r)...)
		}
		for _, l := range t.Lhs {
			if t.Tok != token.ASSIGN && t.Tok != token.DEFINE { // op=: reads the target too
				items = append(items, w.expr(l)...)
			}
			if t.Tok == token.DEFINE {
				if _, ok := l.(*ast.Ident); ok {
					continue // a new local
				}
			}
			items = append(items, w.assignTarget(l)...)
		}
		return c13One(items...)
	case *ast.IncDecStmt:
		return c13One(append(w.expr(t.X), w.assignTarget(t.X)...)...)
	case *ast.DeclStmt:
		var items []c13Item
		if g, ok := t.Decl.(*ast.GenDecl); ok {
			for _, sp := range g.Specs {
				if vs, ok := sp.(*ast.ValueSpec); ok {
					for _, v := range vs.Values {
						items = append(items, w.expr(v)...)
					}
				}
			}
		}
		return c13One(items...)
	case *ast.ReturnStmt:
		var items []c13Item
		for _, r := range t.Results {
			items = append(items, w.expr(r)...)
		}
		return []c13Rel{{items: items, st: 1}}
	case *ast.IfStmt:
		head := c13Seq(w.stmt(t.Init), c13One(w.expr(t.Cond)...))
		then := w.block(t.Body.List)
		var els []c13Rel
		if t.Else != nil {
			els = w.stmt(t.Else)
		} else {
			els = c13One()
		}
		return c13Seq(head, c13Dedupe(append(then, els...)))
	case *ast.ForStmt:
		head := c13Seq(w.stmt(t.Init), c13One(w.expr(t.Cond)...))
		var post []c13Item
		if t.Post != nil {
			for _, p := range w.stmt(t.Post) {
				post = append(post, p.items...)
			}
		}
		return c13Seq(head, w.loop(nil, t.Body, post))
	case *ast.RangeStmt:
		return w.loop(w.expr(t.X), t.Body, nil)
	case *ast.SwitchStmt:
		head := c13Seq(w.stmt(t.Init), c13One(w.expr(t.Tag)...))
		return c13Seq(head, w.clauses(t.Body))
	case *ast.TypeSwitchStmt:
		head := c13Seq(w.stmt(t.Init), w.stmt(t.Assign))
		return c13Seq(head, w.clauses(t.Body))
	case *ast.BranchStmt:
		if t.Label != nil || t.Tok == token.GOTO || t.Tok == token.FALLTHROUGH {
			return c13One(w.ev("Opaque", "labelled branch / goto / fallthrough"))
		}
		if t.Tok == token.BREAK {
			return []c13Rel{{st: 2}}
		}
		return []c13Rel{{st: 3}}
	case *ast.DeferStmt:
		var d []c13Item
		if lit, ok := t.Call.Fun.(*ast.FuncLit); ok {
			sub := &c13Walker{fset: w.fset, pkgVars: w.pkgVars, funcs: w.funcs, types: w.types, fields: w.fields, imports: w.imports, reach: w.reach}
			ps := sub.block(lit.Body.List)
			w.lits = append(w.lits, sub.lits...)
			if !sub.direct {
				return c13One()
			}
			w.direct = true
			if len(ps) != 1 {
				d = []c13Item{{K: "Opaque", A: "deferred closure with several paths"}}
			} else {
				d = ps[0].items
			}
		} else {
			d = w.call(t.Call)
		}
		if len(d) == 0 {
			return c13One()
		}
		return c13One(c13Item{K: "Defer", D: d})
	case *ast.GoStmt:
		if lit, ok := t.Call.Fun.(*ast.FuncLit); ok {
			w.lits = append(w.lits, lit) // another thread: a row of its own
			var items []c13Item
			for _, a := range t.Call.Args {
				items = append(items, w.argument(a)...)
			}
			return c13One(items...)
		}
		var items []c13Item
		for _, a := range t.Call.Args {
			items = append(items, w.argument(a)...)
		}
		return c13One(items...)
	case *ast.LabeledStmt:
		return w.stmt(t.Stmt) // the label is harmless; a branch that names it is Opaque
	case *ast.SelectStmt:
		ast.Inspect(t, func(n ast.Node) bool {
			if l, ok := n.(*ast.FuncLit); ok {
				w.lits = append(w.lits, l)
				return false
			}
			return true
		})
		return c13One(w.ev("Opaque", "select"))
	case *ast.SendStmt:
		return c13One(append(append(w.expr(t.Chan), w.expr(t.Value)...), c13Item{K: "Opaque", A: "channel send"})...)
	case *ast.EmptyStmt:
		return c13One()
	}
	return c13One(w.ev("Opaque", fmt.Sprintf("statement %T", s)))
}

// switch clauses: one path per clause; `break` leaves the switch.
func (w *c13Walker) clauses(body *ast.BlockStmt) []c13Rel {
	var out []c13Rel
	hasDefault := false
	for _, c := range body.List {
		cc, ok := c.(*ast.CaseClause)
		if !ok {
			return c13One(w.ev("Opaque", "switch body"))
		}
		if cc.List == nil {
			hasDefault = true
		}
		var head []c13Item
		for _, e := range cc.List {
			head = append(head, w.expr(e)...)
		}
		for _, p := range c13Seq(c13One(head...), w.block(cc.Body)) {
			if p.st == 2 {
				p.st = 0
			}
			out = append(out, p)
		}
	}
	if !hasDefault {
		out = append(out, c13Rel{})
	}
	return c13Dedupe(out)
}

// c13Finish turns relative paths into event lists: deferred events run (LIFO) at the return.
func c13Finish(ps []c13Rel) [][]c13Item {
	seen := map[string]bool{}
	var out [][]c13Item
	for _, p := range ps {
		var evs []c13Item
		var defers [][]c13Item
		for _, it := range p.items {
			if it.K == "Defer" {
				defers = append(defers, it.D)
				continue
			}
			evs = append(evs, it)
		}
		if p.st == 2 || p.st == 3 {
			evs = append(evs, c13Item{K: "Opaque", A: "break/continue outside a loop"})
		}
		for i := len(defers) - 1; i >= 0; i-- {
			evs = append(evs, defers[i]...)
		}
		evs = append(evs, c13Item{K: "Return"})
		k := c13Rel{items: evs}.key()
		if !seen[k] {
			seen[k] = true
			out = append(out, evs)
		}
	}
	return out
}

func c13CoqEv(it c13Item) string {
	switch it.K {
	case "Lock":
		return "ELock " + coqStr(it.A)
	case "Unlock":
		return "EUnlock " + coqStr(it.A)
	case "RLock":
		return "ERLock " + coqStr(it.A)
	case "RUnlock":
		return "ERUnlock " + coqStr(it.A)
	case "Read":
		return "ERead " + coqStr(it.A)
	case "Write":
		return "EWrite " + coqStr(it.A)
	case "Call":
		return "ECall " + coqStr(it.A)
	case "Return":
		return "EReturn"
	}
	return "EOpaque"
}

type c13Row struct {
	Name  string     `json:"name"`
	File  string     `json:"file"`
	Paths [][]string `json:"paths"`
	coq   string
}

func c13SitesTable(root string) ([]c13Row, error) {
	fset := token.NewFileSet()
	w := &c13Walker{fset: fset, pkgVars: map[*ast.ValueSpec]bool{}, funcs: map[string]bool{}, types: map[string]bool{}, fields: map[string]bool{}}
	type fileInfo struct {
		af  *ast.File
		rel string
	}
	var files []fileInfo
	for _, f := range repoFiles(root) {
		if filepath.Dir(f) != filepath.Clean(root) {
			continue // package genql only (sub-packages have no shared state of this kind)
		}
		af, err := parser.ParseFile(fset, f, nil, 0)
		if err != nil {
			return nil, err
		}
		rel, _ := filepath.Rel(root, f)
		files = append(files, fileInfo{af, rel})
		for _, d := range af.Decls {
			switch t := d.(type) {
			case *ast.GenDecl:
				for _, sp := range t.Specs {
					switch s := sp.(type) {
					case *ast.ValueSpec:
						if t.Tok == token.VAR {
							w.pkgVars[s] = true
						}
					case *ast.TypeSpec:
						w.types[s.Name.Name] = true
						ast.Inspect(s.Type, func(n ast.Node) bool {
							if st, ok := n.(*ast.StructType); ok {
								for _, fl := range st.Fields.List {
									for _, nm := range fl.Names {
										w.fields[nm.Name] = true
									}
								}
							}
							return true
						})
					}
				}
			case *ast.FuncDecl:
				w.funcs[t.Name.Name] = true
			}
		}
	}
	for _, b := range []string{"string", "int", "int64", "float64", "bool", "byte", "rune", "any", "error", "uint", "uint64", "int32", "float32"} {
		w.types[b] = true
	}
	// pass 1: which functions touch tracked state directly; static call graph by name
	direct := map[string]bool{}
	callers := map[string][]string{} // callee -> callers
	for _, fi := range files {
		w.imports = c13Imports(fi.af)
		for _, d := range fi.af.Decls {
			fd, ok := d.(*ast.FuncDecl)
			if !ok || fd.Body == nil {
				continue
			}
			probe := &c13Walker{fset: fset, pkgVars: w.pkgVars, funcs: w.funcs, types: w.types, fields: w.fields, imports: w.imports, reach: map[string]bool{}}
			ast.Inspect(fd.Body, func(n ast.Node) bool {
				switch t := n.(type) {
				case *ast.CallExpr:
					switch f := t.Fun.(type) {
					case *ast.Ident:
						if w.funcs[f.Name] && !(f.Obj != nil && f.Obj.Kind == ast.Var) {
							callers[f.Name] = append(callers[f.Name], fd.Name.Name)
						}
					case *ast.SelectorExpr:
						if x, ok := f.X.(*ast.Ident); ok && x.Obj == nil && w.imports[x.Name] {
							break
						}
						if w.funcs[f.Sel.Name] {
							callers[f.Sel.Name] = append(callers[f.Sel.Name], fd.Name.Name)
						}
						if probe.mutexOf(f.X) != "" {
							direct[fd.Name.Name] = true
						}
					}
				case *ast.Ident:
					if probe.locOf(t) != "" {
						direct[fd.Name.Name] = true
					}
				case *ast.SelectorExpr:
					if probe.locOf(t) != "" {
						direct[fd.Name.Name] = true
					}
				}
				return true
			})
		}
	}
	reach := map[string]bool{}
	var work []string
	for f := range direct {
		reach[f] = true
		work = append(work, f)
	}
	for len(work) > 0 {
		f := work[len(work)-1]
		work = work[:len(work)-1]
		for _, c := range callers[f] {
			if !reach[c] {
				reach[c] = true
				work = append(work, c)
			}
		}
	}
	w.reach = reach
	// pass 2: rows
	var rows []c13Row
	for _, fi := range files {
		w.imports = c13Imports(fi.af)
		for _, d := range fi.af.Decls {
			fd, ok := d.(*ast.FuncDecl)
			if !ok || fd.Body == nil {
				continue
			}
			type unit struct {
				name string
				body *ast.BlockStmt
			}
			queue := []unit{{fd.Name.Name, fd.Body}}
			nlit := 0
			for len(queue) > 0 {
				u := queue[0]
				queue = queue[1:]
				w.lits, w.direct = nil, false
				paths := c13Finish(w.block(u.body.List))
				for _, l := range w.lits {
					nlit++
					queue = append(queue, unit{fd.Name.Name + ".lit" + strconv.Itoa(nlit), l.Body})
				}
				if !w.direct {
					continue
				}
				row := c13Row{Name: u.name, File: fi.rel}
				var coqPaths []string
				for _, p := range paths {
					var txt, coq []string
					for _, it := range p {
						s := it.K
						if it.A != "" {
							s += " " + it.A
						}
						txt = append(txt, s)
						coq = append(coq, c13CoqEv(it))
					}
					row.Paths = append(row.Paths, txt)
					coqPaths = append(coqPaths, coqList(coq))
				}
				row.coq = "(" + coqStr(u.name) + ", " + coqList(coqPaths) + ")"
				rows = append(rows, row)
			}
		}
	}
	sort.SliceStable(rows, func(i, j int) bool { return rows[i].Name < rows[j].Name })
	return rows, nil
}

func c13Imports(af *ast.File) map[string]bool {
	m := map[string]bool{}
	for _, im := range af.Imports {
		p := strings.Trim(im.Path.Value, "\"")
		name := p[strings.LastIndex(p, "/")+1:]
		if strings.HasPrefix(name, "v") && len(name) <= 3 { // .../sqlparser/v2
			q := p[:strings.LastIndex(p, "/")]
			name = q[strings.LastIndex(q, "/")+1:]
		}
		if im.Name != nil {
			name = im.Name.Name
		}
		m[name] = true
	}
	return m
}

func c13Sites(tier string, seed uint64, out string) {
	root := "/repo"
	if v := os.Getenv("VERIF_REPO"); v != "" {
		root = v
	}
	rows, err := c13SitesTable(root)
	must(err)
	var b strings.Builder
	b.WriteString("(* generated by vharness aux c13sites from " + root + "; do not edit *)\n")
	b.WriteString("From GenqlV Require Import Base.Prelude Model.ConcEvents.\nLocal Open Scope string_scope.\n")
	b.WriteString("Definition c13_sites : site_table := [\n")
	var lines []string
	npaths := 0
	for _, r := range rows {
		lines = append(lines, "  "+r.coq)
		npaths += len(r.Paths)
	}
	b.WriteString(strings.Join(lines, ";\n"))
	b.WriteString("\n].\n")
	must(os.WriteFile(filepath.Join(out, "Sites13.v"), []byte(b.String()), 0o644))
	writeJSON(filepath.Join(out, "sites13.json"), map[string]any{"root": root, "rows": rows, "functions": len(rows), "paths": npaths})
}

func init() { auxRegistry["c13sites"] = c13Sites }

// =====================================================================================================
// Prop plug-in: case-file correspondence of the cache model (small by design; the concurrency of the
// real code is exercised by the -race stage).

type c13Call struct {
	Doc int    `json:"doc"`
	Sel string `json:"sel"`
}

type c13StressIn struct {
	Seed       uint64  `json:"seed"`
	Tier       string  `json:"tier"`
	Seconds    float64 `json:"seconds"`
	Gomaxprocs int     `json:"gomaxprocs,omitempty"`
}

type c13In struct {
	Docs   []any        `json:"docs,omitempty"`
	Calls  []c13Call    `json:"calls,omitempty"`
	Sched  []int        `json:"sched,omitempty"`
	Stress *c13StressIn `json:"stress,omitempty"` // replay of a failing stress run (child process)
}

type propC13 struct{}

func init() { register(propC13{}) }

func (propC13) ID() string { return "C13" }
func (propC13) Imports() []string {
	return []string{"Base.Prelude", "Base.Value", "Run.C09Run", "Run.C13Run"}
}
func (propC13) CheckFn() string        { return "C13Run.check" }
func (propC13) InputType() string      { return "C13Run.c13_in" }
func (propC13) ObsType() string        { return "(list C09Run.outcome)" }
func (propC13) Exhaustive(string) bool { return false }
func (propC13) Rule() string {
	return "1-2 small JSON documents; 2-6 ExecReader calls (thread i = call i) whose selector texts are drawn from ~12 templates over the document (keys, indexes, ranges, each, pipes, `::`, missing keys, out-of-range indexes, malformed brackets = the parse-error path) with repeats, so that later calls hit the entry an earlier call stored; a random schedule over the thread ids (any length up to 9 steps per thread, the model completes the rest). The real calls are issued one after the other in the order of first appearance in the schedule; the model runs the N-thread lock/cache machine under the schedule. non-trivial = at least one repeated selector text and at least one successful call; plus an open-range stream (a quarter as many cases): one text with an open-ended range (k:end) / (begin:k) / (begin:end), also under keep=>, `::`, a key after it or a pipe, issued on 2-4 documents whose arrays have pairwise different lengths (0-7), in any order and again after the others"
}

func c13SmallDoc(r *Rand) any {
	sc := func() any {
		switch r.Intn(5) {
		case 0:
			return float64(r.Intn(10))
		case 1:
			return Pick(r, []string{"x", "y", "zz", ""})
		case 2:
			return r.Bool()
		case 3:
			return nil
		default:
			return float64(r.Intn(100))
		}
	}
	c := []any{}
	for i := 0; i < r.Range(0, 4); i++ {
		c = append(c, sc())
	}
	l := []any{}
	for i := 0; i < r.Range(0, 3); i++ {
		l = append(l, map[string]any{"k": sc(), "m": sc()})
	}
	return map[string]any{"a": map[string]any{"b": sc(), "c": c}, "l": l, "s": sc()}
}

var c13SelTemplates = []string{"a.b", "a.c[0]", "a.c[(0:2)]", "a.c[(1:)]", "a.c[(1:end)]", "a.c[(begin:end)]", "a.c[(begin:2)]", "l[(0:end)].k", "l[each].k", "l{k}", "l[1].m", "a::b", "a.c::[0]", "zz.q", "a.c[9]", "l[1:x]", "s", "a.c[keep=>0]", "l[(0:1)].k", "'a'.'b'"}

func (propC13) Generate(r *Rand, tier string) []Case {
	n := 600
	if tier == "thorough" {
		n = 6000
	}
	var out []Case
	for i := 0; i < n; i++ {
		nd := r.Range(1, 2)
		var docs []any
		for d := 0; d < nd; d++ {
			docs = append(docs, c13SmallDoc(r))
		}
		k := r.Range(2, 6)
		var calls []c13Call
		repeated := false
		for c := 0; c < k; c++ {
			if c > 0 && r.Chance(45) {
				calls = append(calls, c13Call{Doc: r.Intn(nd), Sel: calls[r.Intn(c)].Sel})
				repeated = true
				continue
			}
			calls = append(calls, c13Call{Doc: r.Intn(nd), Sel: Pick(r, c13SelTemplates)})
		}
		var sched []int
		for s := 0; s < r.Intn(9*k+1); s++ {
			sched = append(sched, r.Intn(k))
		}
		tags := []string{"calls:" + strconv.Itoa(k), "docs:" + strconv.Itoa(nd)}
		if repeated {
			tags = append(tags, "repeated-text")
		}
		switch {
		case len(sched) == 0:
			tags = append(tags, "sched:empty")
		case len(sched) < 3*k:
			tags = append(tags, "sched:short")
		default:
			tags = append(tags, "sched:long")
		}
		out = append(out, Case{Input: c13In{Docs: docs, Calls: calls, Sched: sched}, Tags: tags, Nontrivial: repeated})
	}
	out = append(out, c13GenOpenRanges(r, n/4)...)
	return out
}

// c13GenOpenRanges: the SAME selector text with an open-ended range (`(k:end)`, `(begin:k)`, `(begin:end)`: the bound is
// whatever the array at hand has) is evaluated on 2-4 documents whose arrays have pairwise DIFFERENT lengths, in both
// orders (short array first / long array first) and again after other texts: a parsed selector lives in the
// process-wide cache, so nothing learnt from one document may stick to it. Every call must return what it returns alone.
func c13GenOpenRanges(r *Rand, n int) []Case {
	var out []Case
	for i := 0; i < n; i++ {
		nd := r.Range(2, 4)
		lens := []int{0, 1, 2, 3, 4, 5, 6, 7}
		for j := len(lens) - 1; j > 0; j-- { // shuffle: pairwise different lengths, any order
			k := r.Intn(j + 1)
			lens[j], lens[k] = lens[k], lens[j]
		}
		var docs []any
		for d := 0; d < nd; d++ {
			doc := c13SmallDoc(r).(map[string]any)
			c := make([]any, lens[d])
			for j := range c {
				c[j] = float64(10*d + j)
			}
			doc["a"].(map[string]any)["c"] = c
			l := make([]any, lens[(d+3)%len(lens)]%5)
			for j := range l {
				l[j] = map[string]any{"k": float64(100*d + j), "m": Pick(r, []string{"x", "y"})}
			}
			doc["l"] = l
			docs = append(docs, doc)
		}
		k := strconv.Itoa(r.Intn(4))
		texts := []string{
			"a.c[(" + k + ":end)]", "a.c[(begin:end)]", "a.c[(begin:" + k + ")]", "l[(" + strconv.Itoa(r.Intn(2)) + ":end)].k",
			"l[(begin:end)].m", "a.c[keep=>(" + k + ":end)]", "a::c[(" + k + ":end)]", "l[(begin:end)]{k}",
		}
		nt := r.Range(1, 2)
		var calls []c13Call
		for t := 0; t < nt; t++ {
			text := Pick(r, texts)
			first := r.Intn(nd)
			for d := 0; d < nd; d++ { // the same text on every document, starting anywhere
				calls = append(calls, c13Call{Doc: (first + d) % nd, Sel: text})
			}
			if r.Chance(40) { // and once more on the first one, after the others
				calls = append(calls, c13Call{Doc: first, Sel: text})
			}
		}
		if len(calls) > 9 {
			calls = calls[:9]
		}
		var sched []int
		for s := 0; s < r.Intn(6*len(calls)+1); s++ {
			sched = append(sched, r.Intn(len(calls)))
		}
		out = append(out, Case{Input: c13In{Docs: docs, Calls: calls, Sched: sched},
			Tags: []string{"open-range", "calls:" + strconv.Itoa(len(calls)), "docs:" + strconv.Itoa(nd), "repeated-text"}, Nontrivial: true})
	}
	return out
}

// c13SourceDir: where this file was compiled from (the harness directory), for the -race rebuild.
func c13SourceDir() string {
	if v := os.Getenv("VERIF_HARNESS_DIR"); v != "" {
		return v
	}
	_, file, _, ok := runtime.Caller(0)
	if !ok {
		return ""
	}
	return filepath.Dir(file)
}

// c13ReplayStress re-runs a failing stress configuration in a child process (a -race build when the
// toolchain is available) and says whether it failed again.
func c13ReplayStress(in c13StressIn) (failed bool, note map[string]any) {
	tmp, err := os.MkdirTemp("", "c13replay")
	if err != nil {
		return false, map[string]any{"error": err.Error()}
	}
	defer os.RemoveAll(tmp)
	exe, _ := os.Executable()
	mode := "plain"
	if dir := c13SourceDir(); dir != "" {
		race := filepath.Join(tmp, "vharness-race")
		cmd := exec.Command("go", "build", "-race", "-tags", "verif", "-o", race, ".")
		cmd.Dir = dir
		if outb, err := cmd.CombinedOutput(); err == nil {
			exe, mode = race, "race"
		} else {
			fmt.Fprintf(os.Stderr, "vharness: -race rebuild failed, replaying without the race detector: %s\n", outb)
		}
	}
	secs := in.Seconds
	if secs <= 0 {
		secs = 15
	}
	cmd := exec.Command(exe, "aux", "c13stress", "-tier", in.Tier, "-seed", strconv.FormatUint(in.Seed, 10), "-out", tmp)
	cmd.Env = append(os.Environ(), "C13_SECONDS="+strconv.FormatFloat(secs, 'f', -1, 64), "GORACE=halt_on_error=0 exitcode=66")
	if in.Gomaxprocs > 0 {
		cmd.Env = append(cmd.Env, "GOMAXPROCS="+strconv.Itoa(in.Gomaxprocs))
	}
	var buf strings.Builder
	cmd.Stdout, cmd.Stderr = &buf, &buf
	done := make(chan error, 1)
	if err := cmd.Start(); err != nil {
		return false, map[string]any{"error": err.Error()}
	}
	go func() { done <- cmd.Wait() }()
	var werr error
	select {
	case werr = <-done:
	case <-time.After(time.Duration(secs+180) * time.Second):
		cmd.Process.Kill()
		werr = fmt.Errorf("timeout")
	}
	logtxt := buf.String()
	if len(logtxt) > 6000 {
		logtxt = logtxt[:6000]
	}
	return werr != nil, map[string]any{"mode": mode, "exit": fmt.Sprint(werr), "log": logtxt}
}

func (propC13) Observe(raw json.RawMessage) (Observed, error) {
	var in c13In
	if err := json.Unmarshal(raw, &in); err != nil {
		return Observed{}, err
	}
	if in.Stress != nil {
		failed, note := c13ReplayStress(*in.Stress)
		obs := "[C09Run.OOk VNull]"
		if failed {
			obs = "[C09Run.OPanic]"
		}
		return Observed{CoqIn: "C13Run.mkIn [] [] []", CoqObs: obs, Note: note, Tags: []string{"stress-replay"}}, nil
	}
	if len(in.Calls) == 0 {
		return Observed{}, fmt.Errorf("no calls")
	}
	for _, d := range in.Docs {
		if !isPlain(d) {
			return Observed{}, fmt.Errorf("document is not JSON-like")
		}
	}
	for _, c := range in.Calls {
		if c.Doc < 0 || c.Doc >= len(in.Docs) {
			return Observed{}, fmt.Errorf("call names document %d", c.Doc)
		}
	}
	// order of issue: first appearance in the schedule, then the rest
	var order []int
	seen := map[int]bool{}
	for _, t := range in.Sched {
		if t >= 0 && t < len(in.Calls) && !seen[t] {
			seen[t] = true
			order = append(order, t)
		}
	}
	for t := range in.Calls {
		if !seen[t] {
			order = append(order, t)
		}
	}
	outs := make([]string, len(in.Calls))
	notes := make([]any, len(in.Calls))
	okCount := 0
	var tags []string
	for _, t := range order {
		c := in.Calls[t]
		func() {
			defer func() {
				if r := recover(); r != nil {
					outs[t], notes[t] = "C09Run.OPanic", "panic: "+fmt.Sprint(r)
					tags = append(tags, "obs:panic")
				}
			}()
			v, err := genql.ExecReader(in.Docs[c.Doc], c.Sel)
			if err != nil {
				outs[t], notes[t] = "C09Run.OErr", "error"
				tags = append(tags, "obs:error")
				return
			}
			outs[t], notes[t] = "C09Run.OOk ("+coqValue(v)+")", jsonSafe(v)
			okCount++
		}()
	}
	var docs, calls, sched []string
	for _, d := range in.Docs {
		docs = append(docs, coqValue(d))
	}
	for _, c := range in.Calls {
		calls = append(calls, "("+strconv.Itoa(c.Doc)+"%nat, "+coqStr(c.Sel)+")")
	}
	for _, t := range in.Sched {
		if t < 0 {
			t = 0
		}
		sched = append(sched, strconv.Itoa(t)+"%nat")
	}
	if okCount > 0 {
		tags = append(tags, "obs:some-ok")
	}
	return Observed{
		CoqIn:   "C13Run.mkIn " + coqList(docs) + " " + coqList(calls) + " " + coqList(sched),
		CoqObs:  coqList(outs),
		Note:    notes,
		Tags:    tags,
		Trivial: okCount == 0,
	}, nil
}
