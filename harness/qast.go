package main

// Query AST shared by the engine properties: rendered to SQL text for the real engine and to a Coq
// term (Model/Ast.v) for the model.

import (
	"encoding/json"
	"math"
	"fmt"
	"strconv"
	"strings"

	"github.com/vedadiyan/genql"
)

type Expr struct {
	K     string      `json:"k"` // col num str bool null and or not cmp like in insub between is bin un case sub exists agg call
	Path  []string    `json:"path,omitempty"`
	Num   float64     `json:"num,omitempty"`
	Str   string      `json:"str,omitempty"`
	Bool  bool        `json:"bool,omitempty"`
	Op    string      `json:"op,omitempty"`
	Neg   bool        `json:"neg,omitempty"`
	A     *Expr       `json:"a,omitempty"`
	B     *Expr       `json:"b,omitempty"`
	C     *Expr       `json:"c,omitempty"`
	Items []*Expr     `json:"items,omitempty"`
	Whens [][2]*Expr  `json:"whens,omitempty"`
	Else  *Expr       `json:"else,omitempty"`
	Q     *Stmt       `json:"q,omitempty"`
	Star  bool        `json:"star,omitempty"` // COUNT(*)
	Qual  string      `json:"qual,omitempty"`
	Name  string      `json:"name,omitempty"`
	// Spell (num only): the literal as written in the SQL text when it is not the canonical decimal print of Num
	// (zero-padded, exponent form, trailing .0). Observe verifies that it denotes Num.
	Spell string `json:"spell,omitempty"`
	// Qualified (col, path ["<-", name]): written as the qualified name `<-`.name instead of the single quoted name `<-.name`
	Qualified bool `json:"qualified,omitempty"`
}

type Item struct {
	Star  bool   `json:"star,omitempty"`
	E     *Expr  `json:"e,omitempty"`
	Alias string `json:"alias,omitempty"`
}

type From struct {
	K     string   `json:"k"` // dual table sel derived join
	Fn    string   `json:"fn,omitempty"` // top-level selector function (mix=>path)
	// kind "sel": the table name is a SELECTOR (brackets, keep=>, each, ranges, pipes, `::`, fn=>) — the C09 abstract syntax
	// (prop_c09.go) and its text. The real engine is given the text as a back-quoted table name; the model is given the
	// syntax tree (Model/Ast.v FSel) and prints the text itself (Spec/SelectorSpec.v print_sel). selTextsOK verifies
	// that Text is the print of Sel.
	Sel  []c09ASeg `json:"sel,omitempty"`
	Text string    `json:"text,omitempty"`
	Path  []string `json:"path,omitempty"`
	Alias string   `json:"alias,omitempty"`
	Q     *Stmt    `json:"q,omitempty"`
	JT    string   `json:"jt,omitempty"`       // inner left right
	Strat string   `json:"strat,omitempty"`    // auto hash straight parallel parallelhash
	L     *From    `json:"l,omitempty"`
	R     *From    `json:"r,omitempty"`
	On    *Expr    `json:"on,omitempty"`
}

type OrderKey struct {
	Path []string `json:"path"`
	Asc  bool     `json:"asc"`
}

type CTE struct {
	Name string `json:"name"`
	Q    *Stmt  `json:"q"`
}

type Stmt struct {
	Union      bool       `json:"union,omitempty"`
	All        bool       `json:"all,omitempty"`
	L          *Stmt      `json:"l,omitempty"`
	R          *Stmt      `json:"r,omitempty"`
	With       []CTE      `json:"with,omitempty"`
	From       *From      `json:"from,omitempty"`
	Where      *Expr      `json:"where,omitempty"`
	// Group: the grouping columns as the texts BuildGroup registers. An entry without '.' and '[' is a flat column; an entry
	// with one of them is a selector (key steps a.b, index steps [i]): one back-quoted identifier in the SQL text, a path
	// of steps in the Coq term (groupKeySQL / groupKeyCoq).
	Group      []string   `json:"group,omitempty"`
	GroupPlain bool       `json:"group_plain,omitempty"` // a two-key-step entry a.b is written as qualifier.name instead of `a.b`
	Having     *Expr      `json:"having,omitempty"`
	Items      []Item     `json:"items,omitempty"`
	Distinct   bool       `json:"distinct,omitempty"`
	Order      []OrderKey `json:"order,omitempty"`
	Limit      *int       `json:"limit,omitempty"`
	Offset     *int       `json:"offset,omitempty"`
	LimitComma bool       `json:"limit_comma,omitempty"` // LIMIT off, n spelling
	ZeroPad    int        `json:"zero_pad,omitempty"`    // LIMIT / OFFSET literals written with this many leading zeros
	// Raw: literal SQL text, for checks that do not consult the model (C11 purity over features the model lacks);
	// rendered to Coq as an empty SELECT over dual
	Raw string `json:"raw,omitempty"`
}

// SelFrom: a FROM whose table name is the selector a
func SelFrom(a []c09ASeg) *From { return &From{K: "sel", Sel: a, Text: c09PrintSel(a)} }

// selTextsOK: every selector source of the statement carries the text its syntax tree prints to (so a replay file cannot
// give the real engine one selector and the model another).
func selTextsOK(q *Stmt) bool {
	ok := true
	var walkS func(s *Stmt)
	var walkE func(e *Expr)
	var walkF func(f *From)
	walkE = func(e *Expr) {
		if e == nil {
			return
		}
		for _, x := range []*Expr{e.A, e.B, e.C, e.Else} {
			walkE(x)
		}
		for _, x := range e.Items {
			walkE(x)
		}
		for _, w := range e.Whens {
			walkE(w[0])
			walkE(w[1])
		}
		walkS(e.Q)
	}
	walkF = func(f *From) {
		if f == nil {
			return
		}
		if f.K == "sel" && (len(f.Sel) == 0 || f.Text != c09PrintSel(f.Sel)) {
			ok = false
		}
		if f.K != "sel" && (f.Sel != nil || f.Text != "") {
			ok = false
		}
		walkE(f.On)
		walkF(f.L)
		walkF(f.R)
		walkS(f.Q)
	}
	walkS = func(s *Stmt) {
		if s == nil {
			return
		}
		walkE(s.Where)
		walkE(s.Having)
		for _, it := range s.Items {
			walkE(it.E)
		}
		walkF(s.From)
		walkS(s.L)
		walkS(s.R)
		for _, c := range s.With {
			walkS(c.Q)
		}
	}
	walkS(q)
	return ok
}

// ---------- constructors ----------

func Col(path ...string) *Expr          { return &Expr{K: "col", Path: path} }
func Num(f float64) *Expr               { if f < 0 { return &Expr{K: "un", Op: "-", A: &Expr{K: "num", Num: -f}} }; return &Expr{K: "num", Num: f} }
func Str(s string) *Expr                { return &Expr{K: "str", Str: s} }
func Cmp(op string, a, b *Expr) *Expr   { return &Expr{K: "cmp", Op: op, A: a, B: b} }
func And(a, b *Expr) *Expr              { return &Expr{K: "and", A: a, B: b} }
func Or(a, b *Expr) *Expr               { return &Expr{K: "or", A: a, B: b} }
func Not(a *Expr) *Expr                 { return &Expr{K: "not", A: a} }
func Bin(op string, a, b *Expr) *Expr   { return &Expr{K: "bin", Op: op, A: a, B: b} }

// ---------- SQL rendering (fully parenthesised) ----------

func sqlIdent(s string) string {
	plain := len(s) > 0
	for i := 0; i < len(s); i++ {
		c := s[i]
		if !(c == '_' || c >= 'a' && c <= 'z' || c >= 'A' && c <= 'Z' || (i > 0 && c >= '0' && c <= '9')) {
			plain = false
		}
	}
	if plain && !sqlReserved[strings.ToLower(s)] {
		return s
	}
	return "`" + strings.ReplaceAll(s, "`", "``") + "`"
}

var sqlReserved = map[string]bool{"select": true, "from": true, "where": true, "group": true, "order": true, "by": true,
	"limit": true, "key": true, "keys": true, "index": true, "all": true, "as": true, "in": true, "is": true, "not": true,
	"and": true, "or": true, "like": true, "between": true, "case": true, "when": true, "then": true, "else": true, "end": true,
	"left": true, "right": true, "join": true, "on": true, "union": true, "distinct": true, "having": true, "exists": true,
	"null": true, "true": true, "false": true, "div": true, "mod": true, "values": true, "value": true, "rows": true, "row": true,
	"with": true, "desc": true, "asc": true, "count": true, "sum": true, "min": true, "max": true, "avg": true, "if": true,
	"dual": true, "array": true, "first": true, "last": true, "set": true, "table": true, "to": true, "range": true, "rank": true,
	"over": true, "of": true, "inner": true, "outer": true, "cross": true, "natural": true, "use": true, "force": true, "ignore": true,
	"straight_join": true, "x": false}

func plainIdent(s string) bool { return sqlIdent(s) == s }

func sqlPath(p []string) string {
	if len(p) == 1 {
		return sqlIdent(p[0])
	}
	if len(p) == 2 && plainIdent(p[0]) && plainIdent(p[1]) {
		return p[0] + "." + p[1] // qualifier.name
	}
	return "`" + strings.Join(p, ".") + "`"
}

func sqlString(s string) string {
	r := strings.NewReplacer("\\", "\\\\", "'", "\\'", "\x00", "\\0", "\n", "\\n", "\r", "\\r", "\x1a", "\\Z")
	return "'" + r.Replace(s) + "'"
}

func sqlNum(f float64) string { return strconv.FormatFloat(f, 'f', -1, 64) }

func (e *Expr) SQL() string {
	switch e.K {
	case "col":
		if e.Qualified && len(e.Path) == 2 && e.Path[0] == "<-" && plainIdent(e.Path[1]) {
			return "`<-`." + e.Path[1]
		}
		return sqlPath(e.Path)
	case "num":
		if e.Spell != "" {
			return e.Spell
		}
		return sqlNum(e.Num)
	case "str":
		return sqlString(e.Str)
	case "bool":
		if e.Bool {
			return "true"
		}
		return "false"
	case "null":
		return "null"
	case "and":
		return "(" + e.A.SQL() + " AND " + e.B.SQL() + ")"
	case "or":
		return "(" + e.A.SQL() + " OR " + e.B.SQL() + ")"
	case "not":
		return "(NOT " + e.A.SQL() + ")"
	case "cmp":
		return "(" + e.A.SQL() + " " + e.Op + " " + e.B.SQL() + ")"
	case "like":
		if e.Neg {
			return "(" + e.A.SQL() + " NOT LIKE " + e.B.SQL() + ")"
		}
		return "(" + e.A.SQL() + " LIKE " + e.B.SQL() + ")"
	case "in":
		parts := make([]string, len(e.Items))
		for i, x := range e.Items {
			parts[i] = x.SQL()
		}
		op := " IN "
		if e.Neg {
			op = " NOT IN "
		}
		return "(" + e.A.SQL() + op + "(" + strings.Join(parts, ", ") + "))"
	case "insub":
		op := " IN "
		if e.Neg {
			op = " NOT IN "
		}
		return "(" + e.A.SQL() + op + "(" + e.Q.SQL() + "))"
	case "between":
		op := " BETWEEN "
		if e.Neg {
			op = " NOT BETWEEN "
		}
		return "(" + e.A.SQL() + op + e.B.SQL() + " AND " + e.C.SQL() + ")"
	case "is":
		return "(" + e.A.SQL() + " IS " + e.Op + ")"
	case "bin":
		return "(" + e.A.SQL() + " " + e.Op + " " + e.B.SQL() + ")"
	case "un":
		return "(" + e.Op + e.A.SQL() + ")"
	case "case":
		var b strings.Builder
		b.WriteString("(CASE")
		for _, w := range e.Whens {
			b.WriteString(" WHEN " + w[0].SQL() + " THEN " + w[1].SQL())
		}
		if e.Else != nil {
			b.WriteString(" ELSE " + e.Else.SQL())
		}
		b.WriteString(" END)")
		return b.String()
	case "sub":
		return "(" + e.Q.SQL() + ")"
	case "exists":
		return "(EXISTS (" + e.Q.SQL() + "))"
	case "agg":
		if e.Star {
			return strings.ToUpper(e.Name) + "(*)"
		}
		return strings.ToUpper(e.Name) + "(" + sqlPath(e.Path) + ")"
	case "badsel":
		return "`" + e.Str + "`"
	case "tuple":
		parts := make([]string, len(e.Items))
		for i, x := range e.Items {
			parts[i] = x.SQL()
		}
		return "(" + strings.Join(parts, ", ") + ")"
	case "call":
		parts := make([]string, len(e.Items))
		for i, x := range e.Items {
			parts[i] = x.SQL()
		}
		n := e.Name
		if e.Qual != "" {
			n = e.Qual + "." + n
		}
		return n + "(" + strings.Join(parts, ", ") + ")"
	}
	panic("bad expr kind " + e.K)
}

func (f *From) SQL() string {
	as := ""
	if f.Alias != "" {
		as = " AS " + sqlIdent(f.Alias)
	}
	switch f.K {
	case "dual":
		return "dual"
	case "table":
		if f.Fn != "" {
			return "`" + f.Fn + "=>" + strings.Join(f.Path, ".") + "`" + as
		}
		return sqlPath(f.Path) + as
	case "sel":
		return "`" + strings.ReplaceAll(f.Text, "`", "``") + "`" + as
	case "derived":
		return "(" + f.Q.SQL() + ")" + as
	case "join":
		kw := map[string]string{"inner": "JOIN", "left": "LEFT JOIN", "right": "RIGHT JOIN"}[f.JT]
		switch f.Strat {
		case "hash":
			kw = map[string]string{"inner": "HASH_JOIN", "left": "LEFT HASH_JOIN", "right": "RIGHT HASH_JOIN"}[f.JT]
		case "straight":
			kw = "STRAIGHT_JOIN"
		case "parallelstraight":
			kw = "PARALLEL STRAIGHT_JOIN"
		case "parallel":
			kw = map[string]string{"inner": "PARALLEL JOIN", "left": "PARALLEL LEFT JOIN", "right": "PARALLEL RIGHT JOIN"}[f.JT]
		case "parallelhash":
			kw = map[string]string{"inner": "PARALLEL HASH_JOIN", "left": "PARALLEL LEFT HASH_JOIN", "right": "PARALLEL RIGHT HASH_JOIN"}[f.JT]
		}
		return f.L.SQL() + " " + kw + " " + f.R.SQL() + " ON " + f.On.SQL()
	}
	panic("bad from kind")
}

func (s *Stmt) SQL() string {
	if s.Raw != "" {
		return s.Raw
	}
	if s.Union {
		kw := " UNION "
		if s.All {
			kw = " UNION ALL "
		}
		branch := func(b *Stmt) string {
			if !b.Union && len(b.With) > 0 {
				return "(" + b.SQL() + ")" // a branch with its own WITH clause must be parenthesised
			}
			if b.Union && b.Limit != nil {
				return "(" + b.SQL() + ")" // a union operand with its own LIMIT / OFFSET
			}
			return b.SQL()
		}
		right := branch(s.R)
		if s.R.Union && s.R.Limit == nil {
			// a union nested on the RIGHT: without parentheses the parser reads the chain left-deep, which is another query
			// whenever the two operators differ (A UNION (B UNION ALL C) vs (A UNION B) UNION ALL C)
			right = "(" + right + ")"
		}
		out := branch(s.L) + kw + right
		if len(s.With) > 0 {
			w := make([]string, len(s.With))
			for i, c := range s.With {
				w[i] = sqlIdent(c.Name) + " AS (" + c.Q.SQL() + ")"
			}
			out = "WITH " + strings.Join(w, ", ") + " " + out
		}
		return out + s.limitSQL()
	}
	var b strings.Builder
	if len(s.With) > 0 {
		b.WriteString("WITH ")
		for i, c := range s.With {
			if i > 0 {
				b.WriteString(", ")
			}
			b.WriteString(sqlIdent(c.Name) + " AS (" + c.Q.SQL() + ")")
		}
		b.WriteString(" ")
	}
	b.WriteString("SELECT ")
	if s.Distinct {
		b.WriteString("DISTINCT ")
	}
	for i, it := range s.Items {
		if i > 0 {
			b.WriteString(", ")
		}
		if it.Star {
			b.WriteString("*")
			continue
		}
		b.WriteString(it.E.SQL())
		if it.Alias != "" {
			b.WriteString(" AS " + sqlIdent(it.Alias))
		}
	}
	b.WriteString(" FROM " + s.From.SQL())
	if s.Where != nil {
		b.WriteString(" WHERE " + s.Where.SQL())
	}
	if len(s.Group) > 0 {
		g := make([]string, len(s.Group))
		for i, c := range s.Group {
			g[i] = groupKeySQL(c, s.GroupPlain)
		}
		b.WriteString(" GROUP BY " + strings.Join(g, ", "))
	}
	if s.Having != nil {
		b.WriteString(" HAVING " + s.Having.SQL())
	}
	if len(s.Order) > 0 {
		o := make([]string, len(s.Order))
		for i, k := range s.Order {
			o[i] = sqlPath(k.Path)
			if !k.Asc {
				o[i] += " DESC"
			}
		}
		b.WriteString(" ORDER BY " + strings.Join(o, ", "))
	}
	b.WriteString(s.limitSQL())
	return b.String()
}

func (s *Stmt) limitSQL() string {
	if s.Limit == nil {
		return ""
	}
	lit := func(n int) string { return strings.Repeat("0", s.ZeroPad) + strconv.Itoa(n) }
	if s.Offset == nil {
		return " LIMIT " + lit(*s.Limit)
	}
	if s.LimitComma {
		return " LIMIT " + lit(*s.Offset) + ", " + lit(*s.Limit)
	}
	return " LIMIT " + lit(*s.Limit) + " OFFSET " + lit(*s.Offset)
}

// ---------- GROUP BY keys ----------

// keyStep: one step of a grouping column that is a selector (Model/Ast.v kstep)
type keyStep struct {
	Key   string
	Index int
	IsIdx bool
}

func isWordByte(c byte) bool {
	return c == '_' || c >= '0' && c <= '9' || c >= 'a' && c <= 'z' || c >= 'A' && c <= 'Z'
}

// parseGroupKey splits the text of a grouping column into the steps selector.go's ParseSelector yields for it, for the
// fragment the model has (Model/Ast.v kstep): runs of word bytes are key steps, '.' separates, [n] with a decimal n is an
// index step. ok=false: anything else (quotes, pipes, ranges, `each`, `<-`, `::`, `=>`, spaces, an empty selector).
// Proofs/C03PathReader.v runs the parser MODEL on the texts of the generators and gets the same steps.
func parseGroupKey(text string) (steps []keyStep, ok bool) {
	i := 0
	for i < len(text) {
		c := text[i]
		switch {
		case c == '.':
			i++
		case isWordByte(c):
			j := i
			for j < len(text) && isWordByte(text[j]) {
				j++
			}
			steps = append(steps, keyStep{Key: text[i:j]})
			i = j
		case c == '[':
			j := i + 1
			for j < len(text) && text[j] >= '0' && text[j] <= '9' {
				j++
			}
			if j == i+1 || j-i > 10 || j >= len(text) || text[j] != ']' {
				return nil, false
			}
			n, err := strconv.Atoi(text[i+1 : j])
			if err != nil {
				return nil, false
			}
			steps = append(steps, keyStep{IsIdx: true, Index: n})
			i = j + 1
		default:
			return nil, false
		}
	}
	return steps, len(steps) > 0
}

func isPathGroupKey(text string) bool { return strings.ContainsAny(text, ".[") }

func groupKeySQL(text string, plain bool) string {
	if !isPathGroupKey(text) {
		return sqlIdent(text)
	}
	if plain {
		if steps, ok := parseGroupKey(text); ok && len(steps) == 2 && !steps[0].IsIdx && !steps[1].IsIdx &&
			plainIdent(steps[0].Key) && plainIdent(steps[1].Key) && text == steps[0].Key+"."+steps[1].Key {
			return text // qualifier.name: BuildGroup registers the same text
		}
	}
	return "`" + strings.ReplaceAll(text, "`", "``") + "`"
}

func groupKeyCoq(text string) string {
	if !isPathGroupKey(text) {
		return "(gcol " + coqStr(text) + ")"
	}
	steps, ok := parseGroupKey(text)
	if !ok {
		panic("grouping column outside the modelled selector fragment (key steps and [n] index steps): " + text)
	}
	items := make([]string, len(steps))
	for i, s := range steps {
		if s.IsIdx {
			items[i] = "(KIdx " + strconv.Itoa(s.Index) + "%Z)"
		} else {
			items[i] = "(KKey " + coqStr(s.Key) + ")"
		}
	}
	return "(" + coqStr(text) + ", " + coqList(items) + ")"
}

// ---------- Coq rendering ----------

func coqPath(p []string) string {
	items := make([]string, len(p))
	for i, s := range p {
		items[i] = coqStr(s)
	}
	return coqList(items)
}

var coqCmp = map[string]string{"=": "OpEq", "!=": "OpNe", "<": "OpLt", "<=": "OpLe", ">": "OpGt", ">=": "OpGe"}
var coqBin = map[string]string{"+": "BAdd", "-": "BSub", "*": "BMul", "/": "BDiv", "DIV": "BIntDiv", "%": "BMod",
	"&": "BAnd", "|": "BOr", "^": "BXor", "<<": "BShl", ">>": "BShr"}
var coqUn = map[string]string{"-": "UNeg", "~": "UTilde", "!": "UBang"}
var coqIs = map[string]string{"NULL": "IsNull", "NOT NULL": "IsNotNull", "TRUE": "IsTrue", "NOT TRUE": "IsNotTrue",
	"FALSE": "IsFalse", "NOT FALSE": "IsNotFalse"}
var coqAgg = map[string]string{"count": "ACount", "sum": "ASum", "min": "AMin", "max": "AMax", "avg": "AAvg"}

func coqExprList(xs []*Expr) string {
	items := make([]string, len(xs))
	for i, x := range xs {
		items[i] = x.Coq()
	}
	return coqList(items)
}

func (e *Expr) Coq() string {
	switch e.K {
	case "col":
		return "(ECol " + coqPath(e.Path) + ")"
	case "num":
		return "(ENum " + coqFloat(e.Num) + ")"
	case "str":
		return "(EStr " + coqStr(e.Str) + ")"
	case "bool":
		return "(EBool " + coqBool(e.Bool) + ")"
	case "null":
		return "ENull"
	case "and":
		return "(EAnd " + e.A.Coq() + " " + e.B.Coq() + ")"
	case "or":
		return "(EOr " + e.A.Coq() + " " + e.B.Coq() + ")"
	case "not":
		return "(ENot " + e.A.Coq() + ")"
	case "cmp":
		return "(ECmp " + coqCmp[e.Op] + " " + e.A.Coq() + " " + e.B.Coq() + ")"
	case "like":
		return "(ELike " + coqBool(e.Neg) + " " + e.A.Coq() + " " + e.B.Coq() + ")"
	case "in":
		return "(EIn " + coqBool(e.Neg) + " " + e.A.Coq() + " " + coqExprList(e.Items) + ")"
	case "insub":
		return "(EInSub " + coqBool(e.Neg) + " " + e.A.Coq() + " " + e.Q.Coq() + ")"
	case "between":
		return "(EBetween " + coqBool(e.Neg) + " " + e.A.Coq() + " " + e.B.Coq() + " " + e.C.Coq() + ")"
	case "is":
		return "(EIs " + coqIs[e.Op] + " " + e.A.Coq() + ")"
	case "bin":
		return "(EBin " + coqBin[e.Op] + " " + e.A.Coq() + " " + e.B.Coq() + ")"
	case "un":
		return "(EUn " + coqUn[e.Op] + " " + e.A.Coq() + ")"
	case "case":
		ws := make([]string, len(e.Whens))
		for i, w := range e.Whens {
			ws[i] = "(" + w[0].Coq() + ", " + w[1].Coq() + ")"
		}
		el := "None"
		if e.Else != nil {
			el = "(Some " + e.Else.Coq() + ")"
		}
		return "(ECase " + coqList(ws) + " " + el + ")"
	case "sub":
		return "(ESub " + e.Q.Coq() + ")"
	case "exists":
		return "(EExists " + e.Q.Coq() + ")"
	case "agg":
		if e.Star {
			return "(EAgg " + coqAgg[strings.ToLower(e.Name)] + " None)"
		}
		return "(EAgg " + coqAgg[strings.ToLower(e.Name)] + " (Some " + coqPath(e.Path) + "))"
	case "badsel":
		return "(ECall \"\" \"badselector__\" [])"
	case "tuple":
		// a value tuple used as a value: Model/Ast.v ETuple (Eval.v: members left to right, a column member read at once,
		// ValueOf = the array of the recursively unwrapped members). `(x)` is a parenthesised expression for the
		// parser, not a tuple of one member.
		if len(e.Items) == 1 {
			return e.Items[0].Coq()
		}
		return "(ETuple " + coqExprList(e.Items) + ")"
	case "call":
		return "(ECall " + coqStr(strings.ToLower(e.Qual)) + " " + coqStr(strings.ToLower(e.Name)) + " " + coqExprList(e.Items) + ")"
	}
	panic("bad expr kind " + e.K)
}

func (f *From) Coq() string {
	switch f.K {
	case "dual":
		return "FDual"
	case "table":
		if f.Fn != "" {
			return "(FTableFn " + coqStr(f.Fn) + " " + coqPath(f.Path) + " " + coqStr(f.Alias) + ")"
		}
		return "(FTable " + coqPath(f.Path) + " " + coqStr(f.Alias) + ")"
	case "sel":
		return "(FSel " + c09CoqAstIn("SelectorSpec.", f.Sel) + " " + coqStr(f.Alias) + ")"
	case "derived":
		return "(FDerived " + f.Q.Coq() + " " + coqStr(f.Alias) + ")"
	case "join":
		jt := map[string]string{"inner": "JInner", "left": "JLeft", "right": "JRight"}[f.JT]
		st := map[string]string{"": "SAuto", "auto": "SAuto", "hash": "SHash", "straight": "SStraight", "parallel": "SParallel", "parallelhash": "SParallelHash", "parallelstraight": "SParallelStraight"}[f.Strat]
		return "(FJoin " + jt + " " + st + " " + f.L.Coq() + " " + f.R.Coq() + " " + f.On.Coq() + ")"
	}
	panic("bad from kind")
}

func coqOptExpr(e *Expr) string {
	if e == nil {
		return "None"
	}
	return "(Some " + e.Coq() + ")"
}

func coqOptInt(p *int) string {
	if p == nil {
		return "None"
	}
	return "(Some " + coqZi(int64(*p)) + ")"
}

// itemName is the output key SelectExpr uses: the alias, or the column's last path component.
func (it Item) name() string {
	if it.Alias != "" {
		return it.Alias
	}
	if it.E != nil && it.E.K == "col" {
		if len(it.E.Path) == 1 {
			return it.E.Path[0]
		}
		if len(it.E.Path) == 2 && plainIdent(it.E.Path[0]) && plainIdent(it.E.Path[1]) {
			return it.E.Path[1] // rendered as qualifier.name: the column's own name
		}
		return strings.Join(it.E.Path, ".") // rendered as one back-quoted identifier
	}
	if it.E != nil && it.E.K == "call" && strings.EqualFold(it.E.Name, "FUSE") {
		return "" // FUSE without alias blends the keys of its argument into the row: there is no column of its own
	}
	panic("select item without alias must be a column")
}

func (s *Stmt) Coq() string {
	if s.Raw != "" {
		return "(SSelect (Build_select [] FDual None [] None [] false [] None None))"
	}
	if s.Union {
		if len(s.With) > 0 {
			// BuildUnion hands the union's WITH clause to both branches (when they have none)
			l, r := *s.L, *s.R
			if len(l.With) == 0 {
				l.With = s.With
			}
			if len(r.With) == 0 {
				r.With = s.With
			}
			c := *s
			c.With, c.L, c.R = nil, &l, &r
			return c.Coq()
		}
		return "(SUnion " + coqBool(s.All) + " " + s.L.Coq() + " " + s.R.Coq() + " " + coqOptInt(s.Limit) + " " + coqOptInt(s.Offset) + ")"
	}
	with := make([]string, len(s.With))
	for i, c := range s.With {
		with[i] = "(" + coqStr(c.Name) + ", " + c.Q.Coq() + ")"
	}
	items := make([]string, len(s.Items))
	for i, it := range s.Items {
		if it.Star {
			items[i] = "IStar"
		} else {
			items[i] = "(IExpr " + it.E.Coq() + " " + coqStr(it.name()) + ")"
		}
	}
	group := make([]string, len(s.Group))
	for i, g := range s.Group {
		group[i] = groupKeyCoq(g)
	}
	order := make([]string, len(s.Order))
	for i, k := range s.Order {
		order[i] = "(" + coqPath(k.Path) + ", " + coqBool(k.Asc) + ")"
	}
	return "(SSelect (Build_select " + coqList(with) + " " + s.From.Coq() + " " + coqOptExpr(s.Where) + " " +
		coqList(group) + " " + coqOptExpr(s.Having) + " " + coqList(items) + " " + coqBool(s.Distinct) + " " +
		coqList(order) + " " + coqOptInt(s.Limit) + " " + coqOptInt(s.Offset) + "))"
}

// ---------- running the real engine ----------

type engineOut struct {
	Class string `json:"class"` // ok | error | panic
	Rows  []any  `json:"rows,omitempty"`
	Err   string `json:"err,omitempty"`
	// Retry (C19 only): outcome of calling Exec a second time on the same Query object after the first Exec failed
	Retry *engineOut `json:"retry,omitempty"`
}

// runEngine executes New + Exec on the real code, converting escaped panics into a class.
func runEngine(doc map[string]any, sql string, opts ...genql.QueryOption) (out engineOut) {
	defer func() {
		if r := recover(); r != nil {
			out = engineOut{Class: "panic", Err: fmt.Sprint(r)}
		}
	}()
	q, err := genql.New(doc, sql, opts...)
	if err != nil {
		return engineOut{Class: "error", Err: err.Error()}
	}
	rows, err := q.Exec()
	if err != nil {
		return engineOut{Class: "error", Err: err.Error()}
	}
	return engineOut{Class: "ok", Rows: normaliseRows(rows)}
}

// normaliseRows converts the Go numeric kinds the engine legitimately produces (COUNT returns int)
// into float64 so that canonical values are JSON-like; everything else is left as is.
func normaliseRows(rows []any) []any {
	out := make([]any, len(rows))
	for i, r := range rows {
		out[i] = normaliseValue(r)
	}
	return out
}

func normaliseValue(v any) any {
	switch t := v.(type) {
	case int:
		return float64(t)
	case int64:
		return float64(t)
	case int32:
		return float64(t)
	case uint64:
		return float64(t)
	case []any:
		out := make([]any, len(t))
		for i, x := range t {
			out[i] = normaliseValue(x)
		}
		return out
	case map[string]any:
		out := make(map[string]any, len(t))
		for k, x := range t {
			out[k] = normaliseValue(x)
		}
		return out
	}
	return v
}

// coqEngineObs renders an engine outcome as  res (list value).
func coqEngineObs(o engineOut) string {
	switch o.Class {
	case "ok":
		items := make([]string, len(o.Rows))
		for i, r := range o.Rows {
			items[i] = coqValue(r)
		}
		return "(Ok " + coqList(items) + ")"
	case "error":
		return "Err"
	default:
		return "Panic"
	}
}

// respell gives some non-negative whole-number literals of a statement another legal spelling (zero-padded, exponent
// form, trailing .0) and sometimes zero-pads LIMIT / OFFSET: the value of a literal does not depend on how it is written.
func respell(r *Rand, q *Stmt) bool {
	changed := false
	var walkE func(e *Expr)
	var walkS func(s *Stmt)
	walkE = func(e *Expr) {
		if e == nil {
			return
		}
		if e.K == "num" && e.Spell == "" && e.Num >= 0 && e.Num == math.Trunc(e.Num) && e.Num < 1e15 && r.Chance(35) {
			n := int64(e.Num)
			switch r.Intn(5) {
			case 0:
				e.Spell = "0" + strconv.FormatInt(n, 10)
			case 1:
				e.Spell = "00" + strconv.FormatInt(n, 10)
			case 2:
				e.Spell = strconv.FormatInt(n, 10) + ".0"
			case 3:
				e.Spell = strconv.FormatFloat(e.Num, 'e', -1, 64)
			default:
				e.Spell = strings.ToUpper(strconv.FormatFloat(e.Num, 'e', -1, 64))
			}
			changed = true
		}
		for _, x := range []*Expr{e.A, e.B, e.C, e.Else} {
			walkE(x)
		}
		for _, x := range e.Items {
			walkE(x)
		}
		for _, w := range e.Whens {
			walkE(w[0])
			walkE(w[1])
		}
		if e.Q != nil {
			walkS(e.Q)
		}
	}
	var walkF func(f *From)
	walkF = func(f *From) {
		if f == nil {
			return
		}
		walkE(f.On)
		walkF(f.L)
		walkF(f.R)
		if f.Q != nil {
			walkS(f.Q)
		}
	}
	walkS = func(s *Stmt) {
		if s == nil {
			return
		}
		if s.Limit != nil && *s.Limit < 1<<40 && r.Chance(35) {
			s.ZeroPad = 1 + r.Intn(2)
			changed = true
		}
		walkE(s.Where)
		walkE(s.Having)
		for _, it := range s.Items {
			walkE(it.E)
		}
		walkF(s.From)
		walkS(s.L)
		walkS(s.R)
		for _, c := range s.With {
			walkS(c.Q)
		}
	}
	walkS(q)
	return changed
}

// spellsOK: every re-spelt literal of the statement denotes its Num (so a replay file cannot state one number and run another).
func spellsOK(q *Stmt) bool {
	raw, err := json.Marshal(q)
	if err != nil {
		return false
	}
	var v any
	if json.Unmarshal(raw, &v) != nil {
		return false
	}
	ok := true
	var walk func(x any)
	walk = func(x any) {
		switch t := x.(type) {
		case map[string]any:
			if sp, has := t["spell"].(string); has {
				n, _ := t["num"].(float64)
				f, err := strconv.ParseFloat(sp, 64)
				if err != nil || f != n {
					ok = false
				}
			}
			for _, y := range t {
				walk(y)
			}
		case []any:
			for _, y := range t {
				walk(y)
			}
		}
	}
	walk(v)
	return ok
}

// qualifyCols returns a copy of e in which every column reference is prefixed with the alias (subqueries untouched).
func qualifyCols(e *Expr, alias string) *Expr {
	if e == nil {
		return nil
	}
	c := *e
	switch e.K {
	case "col":
		c.Path = append([]string{alias}, e.Path...)
		return &c
	case "agg":
		if len(e.Path) > 0 {
			c.Path = append([]string{alias}, e.Path...)
		}
		return &c
	case "sub", "exists", "insub":
		if e.K == "insub" {
			c.A = qualifyCols(e.A, alias)
		}
		return &c
	}
	c.A, c.B, c.C, c.Else = qualifyCols(e.A, alias), qualifyCols(e.B, alias), qualifyCols(e.C, alias), qualifyCols(e.Else, alias)
	if e.Items != nil {
		c.Items = make([]*Expr, len(e.Items))
		for i, x := range e.Items {
			c.Items[i] = qualifyCols(x, alias)
		}
	}
	if e.Whens != nil {
		c.Whens = make([][2]*Expr, len(e.Whens))
		for i, w := range e.Whens {
			c.Whens[i] = [2]*Expr{qualifyCols(w[0], alias), qualifyCols(w[1], alias)}
		}
	}
	return &c
}
