package main

// c14nest.go — C14, OBSERVATIONAL stage (no Coq model behind it: Model/Strategies.v has flat tables, one derived table,
// select-list subqueries and inner dimensions, but no joins, CTEs, UNIONs or two levels of nesting).
//
// The property's own sentence is checked on the real code: "SPINASYNC calls have all been invoked exactly once per row
// and completed before Exec returns", likewise ASYNC calls — wherever the query that makes the calls sits inside the
// statement. A generated matrix
//
//	select list  (SPINASYNC alone, next to a column, twice, next to ONCE / ASYNC / an unqualified call; ASYNC alone)
//	x nesting    (top, derived table with * / re-projected, CTE, UNION side, LEFT / RIGHT / BOTH operands of a join —
//	              inner, LEFT, PARALLEL, HASH_JOIN —, row-scoped subquery, inner dimensions of a 2- / 3-dimensional FROM)
//	x nesting    (the same once more around it: derived, CTE, join operand, UNION side)
//	x latency    (0, 0.2 ms, 2 ms per call)
//
// is executed twice per cell: with the qualifiers and with the qualifiers removed (every call synchronous, in place).
// For the qualified run:  at the instant Exec returns no call is in flight (started == completed), nothing starts
// afterwards (the counters are read again after a quiet period longer than the latency), and the number of invocations
// equals that of the unqualified run (exactly once per row).
//
//	vharness aux c14nest -seed N -out <dir>

import (
	"fmt"
	"path/filepath"
	"strconv"
	"strings"
	"sync"
	"sync/atomic"
	"time"

	genql "github.com/vedadiyan/genql"
)

func init() { auxRegistry["c14nest"] = runC14Nest }

type c14NestRec struct{ started, completed int64 }

var c14NestRecs sync.Map // token (float64) -> *c14NestRec
var c14NestTok int64
var c14NestOnce sync.Once

func c14NestRegister() {
	c14NestOnce.Do(func() {
		// c14nf(token, x, latency in ms): counts, sleeps, returns x
		genql.RegisterFunction("c14nf", func(_ *genql.Query, _ genql.Map, _ *genql.FunctionOptions, args []any) (any, error) {
			if len(args) < 3 {
				return nil, fmt.Errorf("c14nf: want (token, x, latency)")
			}
			v, ok := c14NestRecs.Load(args[0])
			if !ok {
				return nil, fmt.Errorf("c14nf: unknown token")
			}
			rec := v.(*c14NestRec)
			atomic.AddInt64(&rec.started, 1)
			if ms, ok := args[2].(float64); ok && ms > 0 {
				time.Sleep(time.Duration(ms * float64(time.Millisecond)))
			}
			atomic.AddInt64(&rec.completed, 1)
			return args[1], nil
		})
		genql.RegisterFunction("c14pure", func(_ *genql.Query, _ genql.Map, _ *genql.FunctionOptions, args []any) (any, error) {
			return "k", nil
		})
	})
}

type c14NestList struct {
	name string
	sql  string // %Q = qualifier prefix of a SPINASYNC call, %A = of an ASYNC call, %C = the argument list
	ncol bool   // the list has no `id` column (cannot be a join operand)
}

var c14NestLists = []c14NestList{
	{"spinasync-alone", "%Qc14nf(%C)", true},
	{"col+spinasync", "id, %Qc14nf(%C)", false},
	{"col+spinasync-twice", "id, %Qc14nf(%C), %Qc14nf(%C)", false},
	{"col+once+spinasync", "id, ONCE.c14pure(id) AS o, %Qc14nf(%C)", false},
	{"col+plain+spinasync", "id, c14pure(id) AS p, %Qc14nf(%C)", false},
	{"col+async", "id, %Ac14nf(%C) AS a", false},
	{"col+async+spinasync", "id, %Ac14nf(%C) AS a, %Qc14nf(%C)", false},
	{"col+spinasync+async", "id, %Qc14nf(%C), %Ac14nf(%C) AS a", false},
}

type c14NestCase struct {
	List, Inner, Outer string
	Lat                string
	SQL                string // with %Q %A %C placeholders
}

func (c c14NestCase) render(tok int64, strip bool) string {
	q, a := "SPINASYNC.", "ASYNC."
	s := c.SQL
	if strip {
		// the calls in place: SPINASYNC adds no column, so the unqualified call gets an alias of its own
		n := 0
		for strings.Contains(s, "%Qc14nf(%C)") {
			n++
			s = strings.Replace(s, "%Qc14nf(%C)", "c14nf(%C) AS sp"+strconv.Itoa(n), 1)
		}
		q, a = "", ""
	}
	s = strings.ReplaceAll(s, "%Q", q)
	s = strings.ReplaceAll(s, "%A", a)
	return strings.ReplaceAll(s, "%C", strconv.FormatInt(tok, 10)+", id, "+c.Lat)
}

// c14NestWrap: the statement q (select list l over some source) placed at a nesting position. ok=false: not applicable.
func c14NestWrap(r *Rand, pos string, q string, l c14NestList, depth int) (string, bool) {
	x, y := "x"+strconv.Itoa(depth), "y"+strconv.Itoa(depth)
	jt := func() string {
		return Pick(r, []string{"JOIN", "JOIN", "LEFT JOIN", "RIGHT JOIN", "PARALLEL JOIN", "HASH_JOIN", "PARALLEL HASH_JOIN"})
	}
	switch pos {
	case "top":
		return q, true
	case "derived-star":
		return "SELECT * FROM (" + q + ") AS " + x, true
	case "derived-proj":
		if l.ncol {
			return "", false
		}
		return "SELECT " + x + ".id AS id FROM (" + q + ") AS " + x, true
	case "cte":
		w := "w" + strconv.Itoa(depth)
		if l.ncol {
			return "WITH " + w + " AS (" + q + ") SELECT * FROM " + w, true
		}
		return "WITH " + w + " AS (" + q + ") SELECT id FROM " + w, true
	case "union-left":
		return q + " UNION ALL SELECT id FROM u", !strings.Contains(q, " UNION ") && !strings.HasPrefix(q, "WITH")
	case "union-right":
		return "SELECT id FROM u UNION ALL " + q, !strings.Contains(q, " UNION ") && !strings.HasPrefix(q, "WITH")
	case "join-left":
		if l.ncol {
			return "", false
		}
		return "SELECT " + x + ".id AS id FROM (" + q + ") AS " + x + " " + jt() + " u AS " + y + " ON " + x + ".id = " + y + ".id", true
	case "join-right":
		if l.ncol {
			return "", false
		}
		return "SELECT " + y + ".id AS id FROM u AS " + x + " " + jt() + " (" + q + ") AS " + y + " ON " + x + ".id = " + y + ".id", true
	case "join-both":
		if l.ncol {
			return "", false
		}
		return "SELECT " + x + ".id AS id FROM (" + q + ") AS " + x + " " + jt() + " (" + q + ") AS " + y + " ON " + x + ".id = " + y + ".id", true
	}
	return "", false
}

func runC14Nest(tier string, seed uint64, out string) {
	c14NestRegister()
	r := NewRand(seed)
	rounds := 1
	if tier == "thorough" {
		rounds = 8
	}
	mkRows := func(lo, n int) []any {
		rows := make([]any, n)
		for i := range rows {
			rows[i] = map[string]any{"id": float64(lo + i), "s": Pick(r, []string{"x", "y", "z"})}
		}
		return rows
	}
	positions := []string{"top", "derived-star", "derived-proj", "cte", "union-left", "union-right", "join-left", "join-right", "join-both"}
	outers := []string{"derived-star", "derived-proj", "cte", "join-left", "join-right", "union-left"}
	var failures []map[string]any
	checks, compared, calls, byPos, byList := 0, 0, int64(0), map[string]int{}, map[string]int{}
	var rejected []string
	for round := 0; round < rounds; round++ {
		nt := r.Range(2, 4)
		t := mkRows(1, nt)
		doc := map[string]any{"t": t, "u": mkRows(1, r.Range(2, 4)),
			"nn":  []any{mkRows(1, 2), []any{}, mkRows(3, r.Range(1, 2))},
			"nnn": []any{[]any{mkRows(1, 1), mkRows(2, 2)}, []any{}, []any{mkRows(4, 1)}}}
		var cases []c14NestCase
		for _, l := range c14NestLists {
			for _, pos := range positions {
				src := Pick(r, []string{"t", "t", "t", "nn", "nnn"})
				if strings.HasPrefix(pos, "join") || strings.HasPrefix(pos, "union") || pos == "derived-proj" || (pos == "cte" && !l.ncol) {
					src = "t" // rows of a nested result are arrays: only `*` passes them on
				}
				base := "SELECT " + l.sql + " FROM " + src
				q1, ok := c14NestWrap(r, pos, base, l, 1)
				if !ok {
					continue
				}
				lat := Pick(r, []string{"0", "0.2", "2", "2"})
				cases = append(cases, c14NestCase{List: l.name, Inner: pos + ":" + src, Outer: "-", Lat: lat, SQL: q1})
				// one more level around it
				if pos == "top" || src != "t" {
					continue
				}
				o := Pick(r, outers)
				l2 := l
				if pos == "derived-proj" || pos == "cte" || strings.HasPrefix(pos, "join") || strings.HasPrefix(pos, "union") {
					l2.ncol = false // these positions project `id`
				}
				if q2, ok := c14NestWrap(r, o, q1, l2, 2); ok {
					cases = append(cases, c14NestCase{List: l.name, Inner: pos + ":" + src, Outer: o, Lat: lat, SQL: q2})
				}
			}
			// the query making the calls as a row-scoped subquery of every row of u (its table through the back-reference)
			cases = append(cases, c14NestCase{List: l.name, Inner: "row-subquery", Outer: "-", Lat: Pick(r, []string{"0", "0.2", "2"}),
				SQL: "SELECT id, (SELECT " + l.sql + " FROM `<-t`) AS s FROM u"})
		}
		for _, c := range cases {
			run := func(strip bool) (class, errs string, atRet, later c14NestRec) {
				tok := atomic.AddInt64(&c14NestTok, 1)
				rec := &c14NestRec{}
				c14NestRecs.Store(float64(tok), rec)
				defer c14NestRecs.Delete(float64(tok))
				sql := c.render(tok, strip)
				func() {
					defer func() {
						if p := recover(); p != nil {
							class, errs = "panic", fmt.Sprint(p)
						}
					}()
					q, err := genql.New(deepCopy(doc).(map[string]any), sql)
					if err != nil {
						class, errs = "error", err.Error()
						return
					}
					_, err = q.Exec()
					// the instant Exec returns
					atRet = c14NestRec{started: atomic.LoadInt64(&rec.started), completed: atomic.LoadInt64(&rec.completed)}
					if err != nil {
						class, errs = "error", err.Error()
						return
					}
					class = "ok"
				}()
				if !strip {
					lat, _ := strconv.ParseFloat(c.Lat, 64)
					time.Sleep(time.Duration((2*lat+3)*float64(time.Millisecond)) + 0)
				}
				later = c14NestRec{started: atomic.LoadInt64(&rec.started), completed: atomic.LoadInt64(&rec.completed)}
				return
			}
			sClass, sErr, sRet, _ := run(true)
			qClass, qErr, qRet, qLater := run(false)
			checks++
			byPos[c.Inner[:strings.IndexByte(c.Inner+":", ':')]+"/"+c.Outer]++
			byList[c.List]++
			fail := func(detail string) {
				failures = append(failures, map[string]any{"kind": "nested-completion", "list": c.List, "inner": c.Inner, "outer": c.Outer, "latency_ms": c.Lat,
					"sql": c.render(0, false), "unqualified_sql": c.render(0, true), "detail": detail})
			}
			switch {
			case sClass != "ok":
				// the unqualified statement itself is not accepted in this position: nothing to compare with
				if len(rejected) < 5 {
					rejected = append(rejected, c.render(0, true)+": "+sErr)
				}
				if qClass == "ok" {
					fail(fmt.Sprintf("the statement fails with every call unqualified (%s) but succeeds with the qualifiers", sErr))
				}
			case qClass != "ok":
				fail(fmt.Sprintf("succeeds with every call unqualified but fails with the qualifiers: %s %s", qClass, qErr))
			case qRet.started != qRet.completed:
				fail(fmt.Sprintf("when Exec returned %d calls had been invoked and only %d had completed (unqualified statement: %d calls)", qRet.started, qRet.completed, sRet.started))
			case qLater.started != qRet.started:
				fail(fmt.Sprintf("%d calls were invoked only after Exec had returned (%d before; unqualified statement: %d calls)", qLater.started-qRet.started, qRet.started, sRet.started))
			case qRet.started != sRet.started:
				fail(fmt.Sprintf("%d invocations with the qualifiers, %d without (exactly once per row)", qRet.started, sRet.started))
			}
			if sClass == "ok" && qClass == "ok" {
				compared++
				calls += qRet.started
			}
		}
	}
	writeJSON(filepath.Join(out, "c14nest.json"), map[string]any{"checks": checks, "compared": compared, "calls": calls, "rejected_samples": rejected, "failures": failures, "by_position": byPos, "by_list": byList})
}
