package main

// r4_c03paths.go — OBSERVATIONAL stage of C03 (no Coq model involved): GROUP BY over grouping keys that are nested paths
// (`owner.team`, `o.p.q`) or indexed selectors (`tags[0]`, `owner.tags[1]`). Model/Exec.v keeps grouping columns as flat
// names ([s_group : list string], read with a one-step path), so these keys cannot be handed to the model; instead the
// statement of C03 itself is checked on the real code against a small independent reading of the key path written here:
//
//   every row that passed WHERE lands in exactly one group; two rows share a group iff they agree on every grouping
//   column; groups come in order of first appearance, members in source order; COUNT / SUM / MIN cover exactly the members.
//
// A row AGREES with another on a grouping column only if the column can be read for it: a key step through NULL or a
// missing key reads NULL (such rows form the NULL group), but a key step through a scalar, an index step on something that
// is not an array, or an index beyond the end of the array has no value at all. The engine refuses such a query (an error,
// no rows); a result in which that row sits in some group — e.g. among the rows whose key IS NULL — is a wrong partition.
//
//   vharness aux c03paths -tier T -seed N -out <dir>          generated run
//   vharness aux c03paths -in <replay.json> -out <dir>        re-check one recorded case

import (
	"encoding/json"
	"fmt"
	"os"
	"path/filepath"
	"strconv"
	"strings"
)

func init() { auxRegistry["c03paths"] = runC03Paths }

type pathStep struct {
	Key   string `json:"key,omitempty"`
	Index int    `json:"index,omitempty"`
	IsIdx bool   `json:"is_idx,omitempty"`
}

type c03pCase struct {
	Doc   map[string]any `json:"doc"`
	Keys  [][]pathStep   `json:"keys"`            // the grouping columns
	Where string         `json:"where,omitempty"` // "", "ne", "gt", "in"
	Arg   []float64      `json:"arg,omitempty"`
	Plain bool           `json:"plain,omitempty"` // write a two-step key path as qualifier.name instead of one back-quoted name
}

func stepsText(p []pathStep) string {
	var b strings.Builder
	for i, s := range p {
		if s.IsIdx {
			b.WriteString("[" + strconv.Itoa(s.Index) + "]")
			continue
		}
		if i > 0 {
			b.WriteString(".")
		}
		b.WriteString(s.Key)
	}
	return b.String()
}

// readPath: the independent reading of a grouping key. ok=false: the key has no value for this row.
func readPath(v any, p []pathStep) (any, bool) {
	for _, s := range p {
		if v == nil {
			return nil, true // NULL all the way down
		}
		if s.IsIdx {
			a, isArr := v.([]any)
			if !isArr || s.Index >= len(a) {
				return nil, false
			}
			v = a[s.Index]
			continue
		}
		m, isObj := v.(map[string]any)
		if !isObj {
			return nil, false
		}
		v = m[s.Key] // a missing key reads NULL
	}
	return v, true
}

func scalarEq(a, b any) bool {
	switch x := a.(type) {
	case nil:
		return b == nil
	case float64:
		y, ok := b.(float64)
		return ok && x == y
	case string:
		y, ok := b.(string)
		return ok && x == y
	case bool:
		y, ok := b.(bool)
		return ok && x == y
	}
	return false
}

func (c c03pCase) keeps(id float64) bool {
	switch c.Where {
	case "ne":
		return id != c.Arg[0]
	case "gt":
		return id > c.Arg[0]
	case "in":
		for _, a := range c.Arg {
			if a == id {
				return true
			}
		}
		return false
	}
	return true
}

func (c c03pCase) sqlTail() string {
	var b strings.Builder
	b.WriteString(" FROM t")
	switch c.Where {
	case "ne":
		b.WriteString(" WHERE id <> " + sqlNum(c.Arg[0]))
	case "gt":
		b.WriteString(" WHERE id > " + sqlNum(c.Arg[0]))
	case "in":
		parts := make([]string, len(c.Arg))
		for i, a := range c.Arg {
			parts[i] = sqlNum(a)
		}
		b.WriteString(" WHERE id IN (" + strings.Join(parts, ", ") + ")")
	}
	gs := make([]string, len(c.Keys))
	for i, k := range c.Keys {
		txt := stepsText(k)
		if c.Plain && len(k) == 2 && !k[0].IsIdx && !k[1].IsIdx {
			gs[i] = txt
		} else if len(k) == 1 && !k[0].IsIdx {
			gs[i] = txt
		} else {
			gs[i] = "`" + txt + "`"
		}
	}
	b.WriteString(" GROUP BY " + strings.Join(gs, ", "))
	return b.String()
}

type c03pGroup struct {
	key     []any
	members []map[string]any
}

// expectation: the partition of the kept rows, or unreadable = id of the first kept row one of whose keys has no value
func (c c03pCase) expect() (groups []c03pGroup, unreadable float64, bad bool) {
	rows, _ := c.Doc["t"].([]any)
	for _, raw := range rows {
		row := raw.(map[string]any)
		id := row["id"].(float64)
		if !c.keeps(id) {
			continue
		}
		key := make([]any, len(c.Keys))
		for i, k := range c.Keys {
			v, ok := readPath(row, k)
			if !ok {
				return nil, id, true
			}
			key[i] = v
		}
		placed := false
		for gi := range groups {
			same := true
			for i := range key {
				if !scalarEq(groups[gi].key[i], key[i]) {
					same = false
					break
				}
			}
			if same {
				groups[gi].members = append(groups[gi].members, row)
				placed = true
				break
			}
		}
		if !placed {
			groups = append(groups, c03pGroup{key: key, members: []map[string]any{row}})
		}
	}
	return groups, 0, false
}

// check runs the two query shapes on the real code and returns the failures (empty = the observation agrees).
func (c c03pCase) check() []map[string]any {
	var fails []map[string]any
	groups, unreadable, bad := c.expect()
	tail := c.sqlTail()
	for _, shape := range []string{"star", "aggregates"} {
		sql := "SELECT *" + tail
		if shape == "aggregates" {
			sql = "SELECT COUNT(*) AS n, SUM(id) AS s, MIN(id) AS lo, MAX(id) AS hi" + tail
		}
		fail := func(detail string) {
			fails = append(fails, map[string]any{"sql": sql, "detail": detail, "case": c})
		}
		// three runs: the partition is the same on every run
		var first engineOut
		for run := 0; run < 3; run++ {
			o := runEngine(deepCopy(c.Doc).(map[string]any), sql)
			if run == 0 {
				first = o
			} else if coqEngineObs(o) != coqEngineObs(first) {
				fail(fmt.Sprintf("run %d differs from run 0", run))
				break
			}
		}
		o := first
		if o.Class == "panic" {
			fail("escaped panic: " + o.Err)
			continue
		}
		if bad {
			if o.Class == "ok" {
				fail(fmt.Sprintf("row id=%v has no value for a grouping column (the path runs through a scalar, or the index is beyond the array), yet the query returned %d group(s): %v", unreadable, len(o.Rows), jsonText(o.Rows)))
			}
			continue
		}
		if o.Class != "ok" {
			fail("every kept row has a value (or NULL) for every grouping column, yet the query failed: " + o.Err)
			continue
		}
		if len(o.Rows) != len(groups) {
			fail(fmt.Sprintf("%d groups returned, %d expected: %v", len(o.Rows), len(groups), jsonText(o.Rows)))
			continue
		}
		for gi, g := range groups {
			got, _ := o.Rows[gi].(map[string]any)
			if shape == "aggregates" {
				n, s, lo, hi := float64(len(g.members)), 0.0, g.members[0]["id"].(float64), g.members[0]["id"].(float64)
				for _, m := range g.members {
					id := m["id"].(float64)
					s += id
					if id < lo {
						lo = id
					}
					if id > hi {
						hi = id
					}
				}
				want := map[string]any{"n": n, "s": s, "lo": lo, "hi": hi}
				if deepDiff(anyMap(got), anyMap(want)) != "" {
					fail(fmt.Sprintf("group %d: got %v, want %v", gi, jsonText(got), jsonText(want)))
				}
				continue
			}
			want := map[string]any{}
			for i, k := range c.Keys {
				want[stepsText(k)] = g.key[i]
			}
			ms := make([]any, len(g.members))
			for i, m := range g.members {
				ms[i] = m
			}
			want["*"] = ms
			if d := deepDiff(anyMap(got), anyMap(want)); d != "" {
				fail(fmt.Sprintf("group %d (%s): got %v, want %v", gi, d, jsonText(got), jsonText(want)))
			}
		}
	}
	return fails
}

func jsonText(v any) string {
	raw, err := json.Marshal(jsonSafe(v))
	if err != nil {
		return fmt.Sprint(v)
	}
	if len(raw) > 600 {
		return string(raw[:600]) + "..."
	}
	return string(raw)
}

func genC03PathCase(r *Rand) (c03pCase, []string) {
	var tags []string
	teams := []any{"red", "blue", float64(1), "1", nil, true}
	teams = teams[:2+r.Intn(len(teams)-1)]
	// how often a row is shaped so that a path cannot be read at all
	odd := Pick(r, []int{0, 0, 6, 12, 25})
	n := 1 + r.Intn(7)
	rows := make([]any, n)
	for i := range rows {
		row := map[string]any{"id": float64(i + 1), "g": Pick(r, []any{"x", "y"})}
		// owner: {team, tags} | NULL | missing | scalar
		switch k := r.Intn(100); {
		case k < odd:
			row["owner"] = Pick(r, []any{"nobody", float64(7), false, ""})
		case k < odd+10:
			row["owner"] = nil
		case k < odd+20: // missing
		case k < odd+28:
			row["owner"] = map[string]any{"other": float64(1)}
		default:
			o := map[string]any{"team": Pick(r, teams)}
			if r.Chance(70) {
				o["tags"] = []any{Pick(r, teams), Pick(r, teams)}[:1+r.Intn(2)]
			}
			row["owner"] = o
		}
		// tags: array of 0..3 scalars | NULL | missing | scalar | object
		switch k := r.Intn(100); {
		case k < odd:
			row["tags"] = Pick(r, []any{"p", float64(0), map[string]any{"0": "p"}})
		case k < odd+odd:
			row["tags"] = []any{}
		case k < odd+odd+8:
			row["tags"] = nil
		case k < odd+odd+16: // missing
		default:
			a := make([]any, 1+r.Intn(3))
			for j := range a {
				a[j] = Pick(r, teams)
			}
			if odd == 0 && len(a) < 2 {
				a = append(a, Pick(r, teams)) // index 1 stays readable in tables without odd rows
			}
			row["tags"] = a
		}
		// o.p.q: three key steps
		switch k := r.Intn(100); {
		case k < odd:
			row["o"] = map[string]any{"p": Pick(r, []any{"leaf", float64(3)})}
		case k < odd+12:
			row["o"] = map[string]any{"p": nil}
		case k < odd+20:
			row["o"] = map[string]any{}
		default:
			row["o"] = map[string]any{"p": map[string]any{"q": Pick(r, teams)}}
		}
		rows[i] = row
	}
	K := func(ks ...string) []pathStep {
		var p []pathStep
		for _, k := range ks {
			p = append(p, pathStep{Key: k})
		}
		return p
	}
	I := func(p []pathStep, i int) []pathStep { return append(p, pathStep{IsIdx: true, Index: i}) }
	paths := [][]pathStep{K("owner", "team"), K("owner", "team"), K("o", "p", "q"), I(K("tags"), 0), I(K("tags"), 0), I(K("tags"), 1), I(K("owner", "tags"), 0), I(K("owner", "tags"), 1)}
	c := c03pCase{Doc: map[string]any{"t": rows}, Plain: r.Bool()}
	p := Pick(r, paths)
	c.Keys = [][]pathStep{p}
	tags = append(tags, "key:"+stepsText(p))
	if r.Chance(30) {
		if r.Bool() {
			c.Keys = [][]pathStep{K("g"), p}
		} else {
			q := Pick(r, paths)
			if stepsText(q) != stepsText(p) {
				c.Keys = append(c.Keys, q)
			}
		}
		tags = append(tags, fmt.Sprintf("groupcols:%d", len(c.Keys)))
	}
	switch r.Intn(5) {
	case 0:
		c.Where, c.Arg = "ne", []float64{float64(1 + r.Intn(n))}
	case 1:
		c.Where, c.Arg = "gt", []float64{float64(r.Intn(3))}
	case 2:
		c.Where = "in"
		for i := 1; i <= n; i++ {
			if r.Chance(65) {
				c.Arg = append(c.Arg, float64(i))
			}
		}
		if len(c.Arg) == 0 {
			c.Arg = []float64{1}
		}
	}
	if c.Where != "" {
		tags = append(tags, "where:"+c.Where)
	}
	return c, tags
}

func runC03Paths(tier string, seed uint64, out string) {
	if flagIn != "" {
		raw, err := os.ReadFile(flagIn)
		must(err)
		var rec struct {
			Failure struct {
				Case c03pCase `json:"case"`
			} `json:"failure"`
		}
		must(json.Unmarshal(raw, &rec))
		fails := rec.Failure.Case.check()
		writeJSON(filepath.Join(out, "c03paths.json"), map[string]any{"checks": 1, "failures": fails})
		return
	}
	r := NewRand(seed*7919 + 3)
	n := 400
	if tier == "thorough" {
		n = 6000
	}
	dist := map[string]int{}
	var failures []map[string]any
	checks := 0
	for i := 0; i < n; i++ {
		c, tags := genC03PathCase(r)
		groups, _, bad := c.expect()
		switch {
		case bad:
			tags = append(tags, "expect:refused (a kept row has no value for a key)")
		case len(groups) == 0:
			tags = append(tags, "expect:no-rows")
		case len(groups) == 1:
			tags = append(tags, "expect:one-group")
		default:
			tags = append(tags, "expect:several-groups")
			for _, g := range groups {
				null := true
				for _, k := range g.key {
					if k != nil {
						null = false
					}
				}
				if null && len(g.members) > 1 {
					tags = append(tags, "expect:null-group-of-several")
					break
				}
			}
		}
		for _, t := range tags {
			dist[t]++
		}
		checks++
		fails := c.check()
		if len(fails) > 0 && len(failures) < 20 {
			failures = append(failures, fails[0])
		}
	}
	writeJSON(filepath.Join(out, "c03paths.json"), map[string]any{"checks": checks, "failures": failures, "distribution": dist})
}
