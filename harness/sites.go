package main

// sites.go — the "translator": re-derives, from /repo's current Go source, the tables that the
// structural obligations of C10 (crash sites) and C11 (mutation sites) are checked against.
// Purely syntactic (go/ast, no type checker, no network). Deliberately simple and conservative:
// what it cannot classify it reports as Unknown / not recovering, which fails the obligation.

import (
	"bytes"
	"fmt"
	"go/ast"
	"go/parser"
	"go/printer"
	"go/token"
	"os"
	"path/filepath"
	"sort"
	"strings"
)

func init() { auxRegistry["sites"] = runSites }

type mutSite struct {
	File, Func, Kind, Stmt, Root, Prov, Target string
}

type goSite struct {
	File, Func  string
	HasRecover  bool // the literal starts with a deferred recovering closure
	DeferDone   bool // wg.Done is deferred (or the body is only Wait/Done)
	OnlyWaitDone bool
	Calls       []string
}

type entrySite struct {
	Name        string
	TopRecover  bool // first statements include a deferred closure calling recover()
	HandlerSafe bool // the handler contains no unchecked type assertion
}

type panicSite struct {
	File, Func string
	InGoLit    bool
	Covered    bool // inside a function (or goroutine literal) that has a recovering defer
}

func repoFiles(root string) []string {
	var files []string
	filepath.Walk(root, func(p string, info os.FileInfo, err error) error {
		if err != nil {
			return nil
		}
		if info.IsDir() {
			if strings.HasPrefix(info.Name(), ".") && p != root {
				return filepath.SkipDir
			}
			return nil
		}
		if !strings.HasSuffix(p, ".go") || strings.HasSuffix(p, "_test.go") {
			return nil
		}
		src, err := os.ReadFile(p)
		if err != nil {
			return nil
		}
		head := string(src)
		if len(head) > 400 {
			head = head[:400]
		}
		if strings.Contains(head, "//go:build verif") {
			return nil
		}
		files = append(files, p)
		return nil
	})
	sort.Strings(files)
	return files
}

func nodeText(fset *token.FileSet, n ast.Node) string {
	var b bytes.Buffer
	printer.Fprint(&b, fset, n)
	s := strings.Join(strings.Fields(b.String()), " ")
	if len(s) > 160 {
		s = s[:160]
	}
	return s
}

// rootOf returns the leftmost identifier of an expression and whether a field selection or a
// dereference lies between it and the indexed object.
func rootOf(e ast.Expr) (string, bool) {
	field := false
	for {
		switch t := e.(type) {
		case *ast.Ident:
			return t.Name, field
		case *ast.SelectorExpr:
			field = true
			e = t.X
		case *ast.IndexExpr:
			e = t.X
		case *ast.SliceExpr:
			e = t.X
		case *ast.StarExpr:
			e = t.X
		case *ast.ParenExpr:
			e = t.X
		case *ast.TypeAssertExpr:
			e = t.X
		case *ast.CallExpr:
			return "<call>", true
		default:
			return "<expr>", true
		}
	}
}

type funcInfo struct {
	defs   map[string][]ast.Expr // variable -> defining expressions
	params map[string]bool
	ranges map[string]bool
}

func collectDefs(fn ast.Node, params *ast.FieldList, recv *ast.FieldList) *funcInfo {
	fi := &funcInfo{defs: map[string][]ast.Expr{}, params: map[string]bool{}, ranges: map[string]bool{}}
	addParams := func(fl *ast.FieldList) {
		if fl == nil {
			return
		}
		for _, f := range fl.List {
			for _, n := range f.Names {
				fi.params[n.Name] = true
			}
		}
	}
	addParams(params)
	addParams(recv)
	ast.Inspect(fn, func(n ast.Node) bool {
		switch t := n.(type) {
		case *ast.FuncLit:
			addParams(t.Type.Params)
		case *ast.AssignStmt:
			for i, l := range t.Lhs {
				id, ok := l.(*ast.Ident)
				if !ok {
					continue
				}
				if len(t.Rhs) == len(t.Lhs) {
					fi.defs[id.Name] = append(fi.defs[id.Name], t.Rhs[i])
				} else if len(t.Rhs) == 1 {
					fi.defs[id.Name] = append(fi.defs[id.Name], t.Rhs[0])
				}
			}
		case *ast.ValueSpec:
			for i, n := range t.Names {
				if i < len(t.Values) {
					fi.defs[n.Name] = append(fi.defs[n.Name], t.Values[i])
				} else {
					fi.defs[n.Name] = append(fi.defs[n.Name], &ast.Ident{Name: "nil"})
				}
			}
		case *ast.RangeStmt:
			for _, e := range []ast.Expr{t.Key, t.Value} {
				if id, ok := e.(*ast.Ident); ok && id.Name != "_" {
					fi.ranges[id.Name] = true
				}
			}
		}
		return true
	})
	return fi
}

var freshCalls = map[string]bool{"make": true, "new": true, "maps.Clone": true, "Scope": true, "NewHashedTable": true,
	"bytes.NewBufferString": true}

func callName(c *ast.CallExpr) string {
	switch f := c.Fun.(type) {
	case *ast.Ident:
		return f.Name
	case *ast.SelectorExpr:
		if x, ok := f.X.(*ast.Ident); ok {
			return x.Name + "." + f.Sel.Name
		}
		return "?." + f.Sel.Name
	case *ast.IndexExpr: // generic instantiation
		if id, ok := f.X.(*ast.Ident); ok {
			return id.Name
		}
	}
	return "?"
}

func (fi *funcInfo) freshExpr(e ast.Expr, seen map[string]bool) bool {
	switch t := e.(type) {
	case *ast.CompositeLit:
		return true
	case *ast.UnaryExpr:
		if t.Op == token.AND {
			return fi.freshExpr(t.X, seen)
		}
	case *ast.ParenExpr:
		return fi.freshExpr(t.X, seen)
	case *ast.CallExpr:
		n := callName(t)
		if freshCalls[n] {
			return true
		}
		if n == "append" && len(t.Args) > 0 {
			return fi.freshExpr(t.Args[0], seen)
		}
		// a conversion such as Map{...} is a CompositeLit; KeepDimension(slice) etc:
		return false
	case *ast.Ident:
		if t.Name == "nil" {
			return true
		}
		return fi.freshVar(t.Name, seen)
	}
	return false
}

func (fi *funcInfo) freshVar(name string, seen map[string]bool) bool {
	if fi.params[name] || fi.ranges[name] {
		return false
	}
	if seen[name] {
		return true // cyclic definition through append: decided by the other definitions
	}
	ds := fi.defs[name]
	if len(ds) == 0 {
		return false
	}
	seen[name] = true
	defer delete(seen, name)
	for _, d := range ds {
		if !fi.freshExpr(d, seen) {
			return false
		}
	}
	return true
}

func (fi *funcInfo) provenance(e ast.Expr, globals map[string]bool) (string, string) {
	root, field := rootOf(e)
	switch {
	case root == "<call>" || root == "<expr>":
		return root, "Unknown"
	case fi.params[root]:
		if field {
			return root, "Field"
		}
		return root, "Param"
	case fi.ranges[root]:
		return root, "Range"
	case len(fi.defs[root]) > 0:
		if fi.freshVar(root, map[string]bool{}) {
			if field {
				return root, "FreshField"
			}
			return root, "Fresh"
		}
		return root, "Derived"
	case globals[root]:
		return root, "Global"
	}
	return root, "Unknown"
}

func hasRecoverDefer(body *ast.BlockStmt) (bool, bool) {
	if body == nil {
		return false, false
	}
	for _, st := range body.List {
		d, ok := st.(*ast.DeferStmt)
		if !ok {
			continue
		}
		lit, ok := d.Call.Fun.(*ast.FuncLit)
		if !ok {
			continue
		}
		rec := false
		safe := true
		ast.Inspect(lit.Body, func(n ast.Node) bool {
			switch t := n.(type) {
			case *ast.CallExpr:
				if id, ok := t.Fun.(*ast.Ident); ok && id.Name == "recover" {
					rec = true
				}
			case *ast.TypeAssertExpr:
				safe = false // refined below: comma-ok assertions are fine
			case *ast.AssignStmt:
				if len(t.Lhs) == 2 && len(t.Rhs) == 1 {
					if _, ok := t.Rhs[0].(*ast.TypeAssertExpr); ok {
						return false // comma-ok form: do not descend
					}
				}
			}
			return true
		})
		if rec {
			return true, safe
		}
	}
	return false, false
}

func runSites(tier string, seed uint64, out string) {
	root := "/repo"
	if v := os.Getenv("VERIF_REPO"); v != "" {
		root = v
	}
	fset := token.NewFileSet()
	var muts []mutSite
	var gos []goSite
	var entries []entrySite
	var panics []panicSite
	var loops []string
	calls := map[string]map[string]bool{}
	funcsDeclared := map[string]bool{}
	globals := map[string]bool{}
	var parsed []*ast.File
	var names []string
	for _, f := range repoFiles(root) {
		af, err := parser.ParseFile(fset, f, nil, parser.ParseComments)
		must(err)
		parsed = append(parsed, af)
		rel, _ := filepath.Rel(root, f)
		names = append(names, rel)
		for _, d := range af.Decls {
			if g, ok := d.(*ast.GenDecl); ok && g.Tok == token.VAR {
				for _, sp := range g.Specs {
					for _, n := range sp.(*ast.ValueSpec).Names {
						globals[n.Name] = true
					}
				}
			}
			if fd, ok := d.(*ast.FuncDecl); ok {
				funcsDeclared[fd.Name.Name] = true
			}
		}
	}
	// functions whose body starts with a deferred recovering closure
	recovering := map[string]bool{}
	for _, af := range parsed {
		for _, d := range af.Decls {
			if fd, ok := d.(*ast.FuncDecl); ok && fd.Body != nil {
				if rec, safe := hasRecoverDefer(fd.Body); rec && safe {
					recovering[fd.Name.Name] = true
				}
			}
		}
	}
	for idx, af := range parsed {
		file := names[idx]
		for _, d := range af.Decls {
			fd, ok := d.(*ast.FuncDecl)
			if !ok || fd.Body == nil {
				continue
			}
			fname := fd.Name.Name
			if fd.Recv != nil && len(fd.Recv.List) > 0 {
				fname = nodeText(fset, fd.Recv.List[0].Type) + "." + fname
			}
			fi := collectDefs(fd, fd.Type.Params, fd.Recv)
			topRec, safe := hasRecoverDefer(fd.Body)
			if fd.Name.IsExported() && (fd.Name.Name == "New" || fd.Name.Name == "Exec" || fd.Name.Name == "ExecReader" ||
				fd.Name.Name == "SanitizeSQL" || fd.Name.Name == "Compare" && file == "compare/compare.go") {
				entries = append(entries, entrySite{Name: file + ":" + fname, TopRecover: topRec, HandlerSafe: safe})
			}
			if fname == "(query *Query).execAndPostProcess" || fname == "*Query.execAndPostProcess" || strings.HasSuffix(fname, ".execAndPostProcess") ||
				strings.HasSuffix(fname, ".exec") || fname == "Sort" {
				entries = append(entries, entrySite{Name: file + ":" + fname, TopRecover: topRec, HandlerSafe: safe})
			}
			calls[fd.Name.Name] = map[string]bool{}
			// walk with a stack of enclosing goroutine literals
			var walk func(n ast.Node, inGo bool, covered bool)
			walk = func(n ast.Node, inGo bool, covered bool) {
				ast.Inspect(n, func(m ast.Node) bool {
					if m == nil || m == n {
						return true
					}
					switch t := m.(type) {
					case *ast.GoStmt:
						if lit, ok := t.Call.Fun.(*ast.FuncLit); ok {
							rec, _ := hasRecoverDefer(lit.Body)
							gs := goSite{File: file, Func: fname, HasRecover: rec}
							only := true
							for _, st := range lit.Body.List {
								txt := nodeText(fset, st)
								if strings.Contains(txt, ".Done()") && strings.HasPrefix(txt, "defer ") {
									gs.DeferDone = true
								}
								if !(strings.HasSuffix(txt, ".Wait()") || strings.HasSuffix(txt, ".Done()")) {
									only = false
								}
							}
							gs.OnlyWaitDone = only
							allSafe := true
							ast.Inspect(lit.Body, func(c ast.Node) bool {
								if ce, ok := c.(*ast.CallExpr); ok {
									cn := callName(ce)
									gs.Calls = append(gs.Calls, cn)
									// calls that cannot let a panic out of this goroutine: functions with their own
									// top-level recovering defer, WaitGroup bookkeeping, and the caller-supplied
									// error handler (user code, audited)
									if !(recovering[cn] || strings.HasSuffix(cn, ".Done") || strings.HasSuffix(cn, ".Wait") || cn == "?.errors") {
										allSafe = false
									}
								}
								return true
							})
							if allSafe && len(gs.Calls) > 0 {
								gs.HasRecover = true // every call is itself recovered
							}
							gos = append(gos, gs)
							walk(lit.Body, true, rec)
							return false
						}
					case *ast.FuncLit:
						rec, _ := hasRecoverDefer(t.Body)
						walk(t.Body, inGo, covered || rec)
						return false
					case *ast.CallExpr:
						cn := callName(t)
						if id, ok := t.Fun.(*ast.Ident); ok && funcsDeclared[id.Name] {
							calls[fd.Name.Name][id.Name] = true
						}
						if sel, ok := t.Fun.(*ast.SelectorExpr); ok && funcsDeclared[sel.Sel.Name] {
							calls[fd.Name.Name][sel.Sel.Name] = true
						}
						switch cn {
						case "panic":
							panics = append(panics, panicSite{File: file, Func: fname, InGoLit: inGo, Covered: covered})
						case "delete", "maps.Copy", "copy", "sort.Slice", "sort.Sort", "sort.SliceStable":
							if len(t.Args) > 0 {
								r, p := fi.provenance(t.Args[0], globals)
								muts = append(muts, mutSite{file, fname, cn, nodeText(fset, t), r, p, nodeText(fset, t.Args[0])})
							}
						}
					case *ast.AssignStmt:
						for i, l := range t.Lhs {
							switch lt := l.(type) {
							case *ast.IndexExpr:
								r, p := fi.provenance(lt.X, globals)
								muts = append(muts, mutSite{file, fname, "index-assign", nodeText(fset, t), r, p, nodeText(fset, lt.X)})
							case *ast.StarExpr:
								r, p := fi.provenance(lt.X, globals)
								muts = append(muts, mutSite{file, fname, "deref-assign", nodeText(fset, t), r, p, nodeText(fset, lt.X)})
							}
							// x = append(y, ...) may write into y's spare capacity
							if i < len(t.Rhs) {
								if ce, ok := t.Rhs[i].(*ast.CallExpr); ok && callName(ce) == "append" && len(ce.Args) > 0 {
									r, p := fi.provenance(ce.Args[0], globals)
									if p != "Fresh" {
										muts = append(muts, mutSite{file, fname, "append", nodeText(fset, t), r, p, nodeText(fset, ce.Args[0])})
									}
								}
							}
						}
					case *ast.ForStmt:
						loops = append(loops, file+":"+fname+": "+nodeText(fset, &ast.ForStmt{Init: t.Init, Cond: t.Cond, Post: t.Post, Body: &ast.BlockStmt{}}))
					}
					return true
				})
			}
			walk(fd.Body, false, topRec)
		}
	}
	// recursive components of the static call graph (by function name)
	rec := recursiveFuncs(calls)

	var b strings.Builder
	b.WriteString("(* generated by `vharness aux sites` from /repo's current source; do not edit *)\n")
	b.WriteString("From Coq Require Import List String Bool.\nImport ListNotations.\nLocal Open Scope string_scope.\n\n")
	b.WriteString("(* file, function, kind, mutated object, provenance of its root variable, statement *)\n")
	b.WriteString("Definition mut_sites : list (string * string * string * string * string * string) := [\n")
	for i, m := range muts {
		if i > 0 {
			b.WriteString(";\n")
		}
		fmt.Fprintf(&b, " (%s, %s, %s, %s, %s, %s)", coqStrS(m.File), coqStrS(m.Func), coqStrS(m.Kind), coqStrS(m.Target), coqStrS(m.Prov), coqStrS(m.Stmt))
	}
	b.WriteString("\n].\n\n(* file, function, has recovering defer, defers Done, body is only Wait/Done *)\n")
	b.WriteString("Definition go_sites : list (string * string * bool * bool * bool) := [\n")
	for i, g := range gos {
		if i > 0 {
			b.WriteString(";\n")
		}
		fmt.Fprintf(&b, " (%s, %s, %s, %s, %s)", coqStrS(g.File), coqStrS(g.Func), coqBool(g.HasRecover), coqBool(g.DeferDone), coqBool(g.OnlyWaitDone))
	}
	b.WriteString("\n].\n\n(* entry point or recovering frame, has top-level recovering defer, handler has no unchecked assertion *)\n")
	b.WriteString("Definition entry_sites : list (string * bool * bool) := [\n")
	for i, e := range entries {
		if i > 0 {
			b.WriteString(";\n")
		}
		fmt.Fprintf(&b, " (%s, %s, %s)", coqStrS(e.Name), coqBool(e.TopRecover), coqBool(e.HandlerSafe))
	}
	b.WriteString("\n].\n\n(* explicit panic calls: file, function, inside a goroutine literal, covered by a recovering frame of the same goroutine *)\n")
	b.WriteString("Definition panic_sites : list (string * string * bool * bool) := [\n")
	for i, p := range panics {
		if i > 0 {
			b.WriteString(";\n")
		}
		fmt.Fprintf(&b, " (%s, %s, %s, %s)", coqStrS(p.File), coqStrS(p.Func), coqBool(p.InGoLit), coqBool(p.Covered))
	}
	b.WriteString("\n].\n\n(* functions on a cycle of the static call graph *)\nDefinition recursive_funcs : list string := [")
	for i, r := range rec {
		if i > 0 {
			b.WriteString("; ")
		}
		b.WriteString(coqStrS(r))
	}
	b.WriteString("].\n\n(* non-range loops *)\nDefinition plain_loops : list string := [\n")
	for i, l := range loops {
		if i > 0 {
			b.WriteString(";\n")
		}
		b.WriteString(" " + coqStrS(l))
	}
	b.WriteString("\n].\n")
	must(os.WriteFile(filepath.Join(out, "Sites.v"), []byte(b.String()), 0o644))
	writeJSON(filepath.Join(out, "sites.json"), map[string]any{"mut_sites": len(muts), "go_sites": len(gos), "entry_sites": len(entries),
		"panic_sites": len(panics), "recursive_funcs": rec, "plain_loops": len(loops)})
}

// coqStrS prints a string literal without the %string suffix (string_scope is open in Sites.v).
func coqStrS(s string) string {
	var b strings.Builder
	b.WriteString("\"")
	for i := 0; i < len(s); i++ {
		c := s[i]
		switch {
		case c == '"':
			b.WriteString("\"\"")
		case c < 32 || c > 126:
			b.WriteString("?")
		default:
			b.WriteByte(c)
		}
	}
	b.WriteString("\"")
	return b.String()
}

func recursiveFuncs(calls map[string]map[string]bool) []string {
	var out []string
	for f := range calls {
		// f is recursive iff f is reachable from f
		seen := map[string]bool{}
		stack := []string{}
		for g := range calls[f] {
			stack = append(stack, g)
		}
		found := false
		for len(stack) > 0 && !found {
			g := stack[len(stack)-1]
			stack = stack[:len(stack)-1]
			if g == f {
				found = true
				break
			}
			if seen[g] {
				continue
			}
			seen[g] = true
			for h := range calls[g] {
				stack = append(stack, h)
			}
		}
		if found {
			out = append(out, f)
		}
	}
	sort.Strings(out)
	return out
}
