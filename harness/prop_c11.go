package main

import (
	"encoding/json"
	"fmt"
)

// ---------- C11: queries never modify the caller's input document ----------

type propC11 struct{}

func init() { register(propC11{}) }

func (propC11) ID() string             { return "C11" }
func (propC11) Imports() []string      { return []string{"Base.Prelude", "Base.Value", "Model.Ast", "Run.EngineRun"} }
func (propC11) CheckFn() string        { return "EngineRun.check_pure" }
func (propC11) InputType() string      { return "EngineRun.input" }
func (propC11) ObsType() string        { return "bool" }
func (propC11) Exhaustive(string) bool { return false }
func (propC11) Rule() string {
	return "queries of every shape the other generators produce (filters incl. IN-subqueries, projections, GROUP BY / aggregates, ORDER BY + windows, DISTINCT / UNION, CTEs, derived tables, row-scoped and root-navigating subqueries, EXISTS, joins of every type and strategy, nested FROM) plus queries that fail part-way (type error or RAISE_WHEN on the k-th row inside WHERE, a select-list subquery, EXISTS, a CTE body), each with and without Wrapped(); observable: cycle-safe deep comparison of the caller's document before New and after Exec returned (success or error); non-trivial = the query touches at least 2 rows"
}

// failing expressions that only error on some rows
func failingPred(r *Rand, col string) *Expr {
	// CASE WHEN col > c THEN (NOT col) ELSE true END : NOT on a number is an invalid cast
	c := float64(r.Intn(3))
	return &Expr{K: "case", Whens: [][2]*Expr{{Cmp(">", Col(col), Num(c)), Not(Col(col))}}, Else: &Expr{K: "bool", Bool: true}}
}

func prefixRoot(s *Stmt, ctes map[string]bool) *Stmt {
	if s == nil {
		return nil
	}
	c := *s
	if s.Union {
		c.L, c.R = prefixRoot(s.L, ctes), prefixRoot(s.R, ctes)
		return &c
	}
	names := map[string]bool{}
	for k := range ctes {
		names[k] = true
	}
	for _, w := range s.With {
		names[w.Name] = true
	}
	c.With = nil
	for _, w := range s.With {
		c.With = append(c.With, CTE{Name: w.Name, Q: prefixRoot(w.Q, names)})
	}
	c.From = prefixFrom(s.From, names)
	return &c
}

func prefixFrom(f *From, ctes map[string]bool) *From {
	if f == nil {
		return nil
	}
	c := *f
	switch f.K {
	case "table":
		if len(f.Path) > 0 && !ctes[f.Path[0]] && f.Path[0] != "<-" {
			c.Path = append([]string{"root"}, f.Path...)
		}
	case "derived":
		c.Q = prefixRoot(f.Q, ctes)
	case "join":
		c.L, c.R = prefixFrom(f.L, ctes), prefixFrom(f.R, ctes)
	}
	return &c
}

func (propC11) Generate(r *Rand, tier string) []Case {
	n := 1
	if tier == "thorough" {
		n = 8
	}
	var out []Case
	add := func(cs []Case, limit int, label string) {
		for i, c := range cs {
			if i >= limit {
				break
			}
			var in engIn
			switch v := c.Input.(type) {
			case engIn:
				in = v
			case c07In:
				in = v.engIn
			default:
				continue
			}
			in.Repeat = 0
			tags := append([]string{"shape:" + label}, c.Tags...)
			out = append(out, Case{Input: in, Tags: tags, Nontrivial: c.Nontrivial, Key: c.Key})
			// the Wrapped variant: same query with every document path under `root`
			if label != "C07" && label != "C01" { // `<-` paths would need root as well; keep those un-wrapped
				w := in
				w.Wrapped = true
				w.Q = prefixRoot(in.Q, map[string]bool{})
				w.SQL = w.Q.SQL()
				out = append(out, Case{Input: w, Tags: append([]string{"wrapped"}, tags...), Nontrivial: c.Nontrivial, Key: c.Key + "|wrapped"})
			}
		}
	}
	for round := 0; round < n; round++ {
		add(genC01(r, "quick"), 150, "C01")
		add(genC03(r, "quick"), 100, "C03")
		add(genC05(r, "quick")[600:], 100, "C05")
		add(genC06(r, "quick"), 100, "C06")
		add(genC07(r, "quick"), 300, "C07")
		add(genC08(r, "quick"), 100, "C08")
		add(genC04(r, "quick"), 140, "C04")
		// failing part-way
		for i := 0; i < 150; i++ {
			t := genTable(r, 5)
			for _, row := range t.rows {
				m := row.(map[string]any)
				k := r.Intn(4)
				items := make([]any, k)
				for j := range items {
					items[j] = map[string]any{"p": float64(r.Intn(4)), "w": Pick(r, strPool[:5])}
				}
				m["items"] = items
			}
			doc := map[string]any{"t": t.rows}
			var q *Stmt
			var tag string
			switch r.Intn(8) {
			case 0:
				tag = "fail:where"
				q = selectStar("t", failingPred(r, "n1"))
			case 1:
				tag = "fail:subquery"
				sub := &Stmt{From: &From{K: "table", Path: []string{"items"}}, Items: []Item{{E: Col("p")}}, Where: failingPred(r, "p")}
				q = &Stmt{From: &From{K: "table", Path: []string{"t"}}, Items: []Item{{E: Col("id")}, {E: &Expr{K: "sub", Q: sub}, Alias: "s"}}}
			case 2:
				tag = "fail:exists"
				sub := &Stmt{From: &From{K: "table", Path: []string{"items"}}, Items: []Item{{Star: true}}, Where: failingPred(r, "p")}
				q = &Stmt{From: &From{K: "table", Path: []string{"t"}}, Items: []Item{{E: Col("id")}}, Where: &Expr{K: "exists", Q: sub}}
			case 3:
				tag = "fail:cte"
				inner := selectStar("t", failingPred(r, "n1"))
				q = &Stmt{From: &From{K: "table", Path: []string{"c"}}, Items: []Item{{Star: true}}, With: []CTE{{Name: "c", Q: inner}}}
			case 5:
				// a WITH that is not at the top of the statement: inside a derived table / a union branch
				tag = "cte-inside-derived"
				innerCte := &Stmt{From: &From{K: "table", Path: []string{"c"}}, Items: []Item{{Star: true}}, With: []CTE{{Name: "c", Q: selectStar("t", nil)}}}
				q = &Stmt{From: &From{K: "derived", Q: innerCte, Alias: "d"}, Items: []Item{{Star: true}}}
				if r.Bool() {
					tag = "cte-inside-union-branch"
					q = &Stmt{Union: true, All: true, L: selectStar("t", nil), R: innerCte}
				}
			case 6:
				// a select-list subquery whose PREPARATION fails on some rows (its FROM is not an array there)
				tag = "fail:subquery-prepare"
				for _, row := range t.rows {
					if r.Chance(40) {
						row.(map[string]any)["items"] = "none"
					}
				}
				sub := &Stmt{From: &From{K: "table", Path: []string{"items"}}, Items: []Item{{E: Col("p")}}}
				q = &Stmt{From: &From{K: "table", Path: []string{"t"}}, Items: []Item{{E: Col("id")}, {E: &Expr{K: "sub", Q: sub}, Alias: "s"}}}
			default:
				tag = "fail:raise-in-subquery"
				call := &Expr{K: "call", Name: "RAISE_WHEN", Items: []*Expr{Cmp(">", Col("p"), Num(1)), Str("boom")}}
				sub := &Stmt{From: &From{K: "table", Path: []string{"items"}}, Items: []Item{{E: call, Alias: "r"}, {E: Col("p")}}}
				q = &Stmt{From: &From{K: "table", Path: []string{"t"}}, Items: []Item{{E: Col("id")}, {E: &Expr{K: "sub", Q: sub}, Alias: "s"}}}
			}
			in := engIn{Doc: doc, Q: q, SQL: q.SQL()}
			out = append(out, Case{Input: in, Tags: []string{tag}, Nontrivial: len(t.rows) >= 2, Key: q.SQL() + fmt.Sprint(doc)})
		}
		// documents whose keys look like engine-internal markers or wrappers: a row with a key spelled `<-`, a tree whose
		// nodes have the single key that is also the name of the array they sit in, a key called dual / root / *
		{
			node := func(kids ...any) map[string]any { return map[string]any{"children": kids} }
			tree := []any{node(node(node()), node()), node(), map[string]any{"children": []any{node()}, "id": 3.0}}
			rows := []any{map[string]any{"id": 1.0, "<-": "prev", "n1": 2.0, "items": []any{map[string]any{"p": 1.0, "<-": 7.0}}},
				map[string]any{"id": 2.0, "<-": map[string]any{"x": 1.0}, "n1": 1.0, "items": []any{}}}
			doc := map[string]any{"t": rows, "nodes": tree, "<-": "top", "dual": []any{map[string]any{"id": 9.0}}, "root": map[string]any{"t": []any{map[string]any{"id": 5.0}}}, "*": []any{1.0}}
			for _, sql := range []string{
				"SELECT * FROM t WHERE n1 > 1", "SELECT id FROM t WHERE id = n1", "SELECT id, (SELECT p FROM items) AS s FROM t", "SELECT id FROM t WHERE EXISTS (SELECT * FROM items WHERE p > 0)",
				"SELECT id, (SELECT `<-` AS b FROM dual) AS s FROM t", "SELECT (SELECT 1 AS one FROM dual) AS s, 2 > 1 AS b FROM dual",
				"SELECT * FROM nodes WHERE EXISTS (SELECT * FROM children)", "SELECT * FROM nodes WHERE EXISTS (SELECT * FROM children WHERE EXISTS (SELECT * FROM children))",
				"SELECT id FROM nodes WHERE NOT EXISTS (SELECT * FROM children)", "SELECT * FROM dual", "SELECT * FROM root", "SELECT id FROM `root.t` WHERE id > 1",
				"SELECT * FROM t x JOIN t y ON x.id = y.id", "SELECT DISTINCT * FROM t", "SELECT * FROM t ORDER BY id DESC LIMIT 1",
			} {
				for _, wrapped := range []bool{false, true} {
					out = append(out, Case{Input: engIn{Doc: doc, Q: &Stmt{Raw: sql}, SQL: sql, Wrapped: wrapped}, Tags: []string{"shape:marker-like-keys", "raw-sql"}, Nontrivial: true, Key: sql + fmt.Sprint(wrapped, round)})
				}
			}
		}
		// features outside the engine model (the purity observation needs no model): FUSE in every position of the
		// select list, multi-dimensional selectors with ranges in FROM and in columns, top-level functions, INTO / USING
		// joins, UNWIND, effect-only functions
		for i := 0; i < 12; i++ {
			t := genTable(r, 4)
			for len(t.rows) < 2 {
				t = genTable(r, 4)
			}
			shelves := []any{}
			for k := 0; k < 2+r.Intn(2); k++ {
				inner := make([]any, 0, 8)
				for j := 0; j < 3+r.Intn(2); j++ {
					inner = append(inner, map[string]any{"id": float64(10*k + j), "n1": float64(j)})
				}
				shelves = append(shelves, inner)
			}
			for _, row := range t.rows {
				m := row.(map[string]any)
				m["bins"] = []any{[]any{float64(1), float64(2), float64(3)}, []any{float64(4), float64(5), float64(6)}}
				m["tags"] = []any{"a", "b", "c", "d"}
			}
			doc := map[string]any{"t": t.rows, "u": genTable(r, 3).rows, "shelves": shelves}
			for _, sql := range []string{
				"SELECT FUSE(o), id, s1 AS label FROM t", "SELECT id, FUSE(o), s1 AS label FROM t", "SELECT id, s1 AS label, FUSE(o) FROM t", "SELECT FUSE(o) AS p, id FROM t",
				"SELECT FUSE(o) FROM t", "SELECT FUSE(`o.p`), n1 AS q FROM t",
				"SELECT * FROM `shelves[each:(0:2)]`", "SELECT * FROM `shelves[each:(1:2)]` WHERE id > 0", "SELECT id, `bins[each:(0:2)]` AS b FROM t", "SELECT id, `bins[each:(1:2)]` AS b, `tags[(1:end)]` AS r FROM t",
				"SELECT id FROM `shelves[keep=>each:(0:1)]`", "SELECT * FROM `mix=>shelves`", "SELECT id, `distinct=>tags` AS d FROM t", "SELECT * FROM `shelves[0:(begin:2)]`",
				"SELECT * FROM t x JOIN u y USING (id)", "SELECT UNWIND(tags) AS g, id FROM t", "SELECT id, FIRST(tags) AS f, LAST(bins) AS l FROM t",
				"SELECT ELEMENTAT(bins, 0) AS e, id FROM t ORDER BY id DESC", "SELECT id, ARRAY(tags, bins) AS a FROM t",
			} {
				q := &Stmt{Raw: sql}
				out = append(out, Case{Input: engIn{Doc: doc, Q: q, SQL: sql}, Tags: []string{"shape:outside-the-model", "raw-sql"}, Nontrivial: true, Key: sql + fmt.Sprint(i)})
			}
		}
	}
	return out
}

func (propC11) Observe(raw json.RawMessage) (Observed, error) {
	var in engIn
	if err := json.Unmarshal(raw, &in); err != nil {
		return Observed{}, err
	}
	obs, err := observeEngine(in)
	if err != nil {
		return obs, err
	}
	changed := false
	for _, t := range obs.Tags {
		if t == "input-mutated" {
			changed = true
		}
	}
	obs.CoqObs = coqBool(changed)
	obs.Trivial = false
	return obs, nil
}
