package main

// C14 — function execution strategies (ASYNC / SPIN / SPINASYNC / ONCE ...) change timing, never
// results.  Instrumented functions are registered through genql.RegisterFunction; every call
// carries a hidden first argument (a per-Exec token) that routes the invocation to the recorder
// of the case, so detached SPIN goroutines of an earlier case can never be counted for a later one.

import (
	"encoding/json"
	"errors"
	"fmt"
	"go/ast"
	"go/parser"
	"go/token"
	"os"
	"os/exec"
	"path/filepath"
	"runtime/debug"
	"sort"
	"strconv"
	"strings"
	"sync"
	"sync/atomic"
	"time"

	"github.com/vedadiyan/genql"
)

// ---------- input ----------

type c14Arg struct {
	Col string   `json:"c,omitempty"`
	Str *string  `json:"s,omitempty"`
	Num *float64 `json:"n,omitempty"`
}

type c14Item struct {
	T     string           `json:"t"` // col | call | sub
	Col   string           `json:"c,omitempty"`
	Q     string           `json:"q,omitempty"` // "", ASYNC, SPIN, SPINASYNC, ONCE, SCOPED, BOGUS (any case)
	Fn    string           `json:"fn,omitempty"`
	Args  []c14Arg         `json:"args,omitempty"`
	Nm    string           `json:"nm"`
	Src   string           `json:"src,omitempty"` // dual | table
	Rows  []map[string]any `json:"rows,omitempty"`
	Items []c14Item        `json:"items,omitempty"`
}

type c14In struct {
	Kind  string             `json:"kind"` // table | derived | multi
	Rows  []map[string]any   `json:"rows,omitempty"`
	Dims  [][]map[string]any `json:"dims,omitempty"`
	Items []c14Item          `json:"items"`
	Alias string             `json:"alias,omitempty"`
	Star  bool               `json:"star,omitempty"`
	Proj  [][2]string        `json:"proj,omitempty"` // derived: [col, name]
	Lat   string             `json:"lat"`            // zero | random | skew
	Seed  uint64             `json:"seed"`
	Sched []int              `json:"sched"` // schedule prefix for the model
}

// ---------- instrumentation ----------

type c14Inv struct {
	Fn   string
	Args []any
}

type c14Rec struct {
	mu        sync.Mutex
	started   []c14Inv
	completed []c14Inv
	reported  int
	lat       string
	seed      uint64
	maxRid    float64
}

var c14Recs sync.Map // token(float64) -> *c14Rec
var c14Token int64
var c14Once sync.Once

// fa fb fc: [name, args...]; fe / fp: error / panic (with a panic value of one of five kinds) when the first argument is 2; fz: always NULL;
// fn: NULL when the first argument is 1 (the first row's id), [name, args...] otherwise
var c14UserFns = []string{"fa", "fb", "fc", "fe", "fp", "fn", "fz"}

func c14IsUser(fn string) bool {
	for _, u := range c14UserFns {
		if strings.EqualFold(u, fn) {
			return true
		}
	}
	return false
}

func c14Register() {
	c14Once.Do(func() {
		for _, name := range c14UserFns {
			name := name
			genql.RegisterFunction(name, func(_ *genql.Query, _ genql.Map, _ *genql.FunctionOptions, args []any) (res any, err error) {
				if len(args) == 0 {
					return nil, errors.New("c14: missing token")
				}
				tok, _ := args[0].(float64)
				rest := append([]any{}, args[1:]...)
				v, ok := c14Recs.Load(tok)
				if !ok {
					return nil, errors.New("c14: unknown token")
				}
				rec := v.(*c14Rec)
				inv := c14Inv{Fn: name, Args: rest}
				rec.mu.Lock()
				rec.started = append(rec.started, inv)
				rec.mu.Unlock()
				defer func() {
					rec.mu.Lock()
					rec.completed = append(rec.completed, inv)
					rec.mu.Unlock()
				}()
				rec.sleep(rest)
				two := false
				if len(rest) > 0 {
					if x, ok := rest[0].(float64); ok && x == 2 {
						two = true
					}
				}
				if name == "fe" && two {
					return nil, errors.New("c14: injected error")
				}
				if name == "fp" && two {
					// a panic value is ANY Go value: which kind is drawn from the call (argument count + item index), so
					// that every kind occurs under every qualifier
					k := len(rest)
					if len(rest) > 1 {
						if x, ok := rest[1].(float64); ok {
							k += int(x)
						}
					}
					switch k % 5 {
					case 0:
						panic("c14: injected panic (string)")
					case 1:
						panic(errors.New("c14: injected panic (error)"))
					case 2: // a value whose text takes a while to produce
						panic(c14SlowPayload{d: 2 * time.Millisecond})
					case 3: // a document (some rows of a table) as panic value
						big := make([]any, 20000)
						for i := range big {
							big[i] = map[string]any{"id": float64(i), "s": "row"}
						}
						panic(big)
					default: // the same, quicker
						panic(c14SlowPayload{d: 300 * time.Microsecond, short: true})
					}
				}
				if name == "fz" {
					return nil, nil
				}
				if name == "fn" && len(rest) > 0 {
					if x, ok := rest[0].(float64); ok && x == 1 {
						return nil, nil
					}
				}
				return append([]any{name}, rest...), nil
			})
		}
	})
}

// c14SlowPayload: a panic value with a String method that takes a while (think of a large struct dumped with %v)
type c14SlowPayload struct {
	d     time.Duration
	short bool
}

func (p c14SlowPayload) String() string {
	time.Sleep(p.d)
	if p.short {
		return "c14: injected panic (slow stringer, short)"
	}
	return "c14: injected panic (slow stringer)"
}

func (rec *c14Rec) sleep(args []any) {
	switch rec.lat {
	case "random":
		h := rec.seed
		for _, a := range args {
			for _, b := range []byte(fmt.Sprint(a)) {
				h = h*1099511628211 + uint64(b)
			}
		}
		h ^= h >> 29
		time.Sleep(time.Duration(h%120) * time.Microsecond)
	case "skew": // the first row finishes last
		rid := 0.0
		if len(args) > 0 {
			if x, ok := args[0].(float64); ok {
				rid = x
			}
		}
		d := rec.maxRid - rid + 1
		if d < 0 {
			d = 0
		}
		time.Sleep(time.Duration(d*70) * time.Microsecond)
	}
}

// ---------- rendering ----------

var c14Quals = map[string]string{"": "QNone", "async": "QAsync", "spin": "QSpin", "spinasync": "QSpinAsync",
	"once": "QOnce", "scoped": "QScoped"}

func c14CoqQual(q string) string {
	if c, ok := c14Quals[strings.ToLower(q)]; ok {
		return c
	}
	return "QOther"
}

func c14SqlStr(s string) string { return "'" + strings.ReplaceAll(s, "'", "''") + "'" }

func (a c14Arg) sql() string {
	switch {
	case a.Str != nil:
		return c14SqlStr(*a.Str)
	case a.Num != nil:
		return strconv.FormatFloat(*a.Num, 'f', -1, 64)
	}
	return a.Col
}

func (a c14Arg) coq() string {
	switch {
	case a.Str != nil:
		return "(ALit (VStr " + coqStr(*a.Str) + "))"
	case a.Num != nil:
		return "(ALit (VNum " + coqFloat(*a.Num) + "))"
	}
	return "(ACol " + coqStr(a.Col) + ")"
}

func c14FitemSQL(it c14Item, tok int64, strip bool) string {
	if it.T == "col" {
		return it.Col + " AS " + it.Nm
	}
	var args []string
	if c14IsUser(it.Fn) {
		args = append(args, strconv.FormatInt(tok, 10))
	}
	for _, a := range it.Args {
		args = append(args, a.sql())
	}
	q := it.Q
	if strip && strings.EqualFold(q, "async") {
		q = ""
	}
	call := strings.ToUpper(it.Fn) + "(" + strings.Join(args, ", ") + ")"
	if q != "" {
		call = q + "." + call
	}
	return call + " AS " + it.Nm
}

func c14ItemsSQL(items []c14Item, tok int64, strip bool) string {
	var parts []string
	for _, it := range items {
		if it.T == "sub" {
			from := "dual"
			if it.Src == "table" {
				from = "`<-" + it.Nm + "_t`"
			}
			parts = append(parts, "(SELECT "+c14ItemsSQL(it.Items, tok, strip)+" FROM "+from+") AS "+it.Nm)
			continue
		}
		parts = append(parts, c14FitemSQL(it, tok, strip))
	}
	return strings.Join(parts, ", ")
}

func (in *c14In) sql(tok int64, strip bool) string {
	switch in.Kind {
	case "derived":
		outer := "*"
		if !in.Star {
			var ps []string
			for _, p := range in.Proj {
				ps = append(ps, in.Alias+"."+p[0]+" AS "+p[1])
			}
			outer = strings.Join(ps, ", ")
		}
		return "SELECT " + outer + " FROM (SELECT " + c14ItemsSQL(in.Items, tok, strip) + " FROM t) " + in.Alias
	case "multi":
		return "SELECT " + c14ItemsSQL(in.Items, tok, strip) + " FROM m"
	}
	return "SELECT " + c14ItemsSQL(in.Items, tok, strip) + " FROM t"
}

func c14Rows(rows []map[string]any) []any {
	out := make([]any, len(rows))
	for i, r := range rows {
		out[i] = deepCopy(map[string]any(r))
	}
	return out
}

func (in *c14In) data() map[string]any {
	d := map[string]any{}
	switch in.Kind {
	case "multi":
		m := make([]any, len(in.Dims))
		for i, dim := range in.Dims {
			m[i] = c14Rows(dim)
		}
		d["m"] = m
	default:
		d["t"] = c14Rows(in.Rows)
	}
	for _, it := range in.Items {
		if it.T == "sub" && it.Src == "table" {
			d[it.Nm+"_t"] = c14Rows(it.Rows)
		}
	}
	return d
}

func c14CoqRow(r map[string]any) string {
	keys := make([]string, 0, len(r))
	for k := range r {
		keys = append(keys, k)
	}
	sort.Strings(keys)
	items := make([]string, len(keys))
	for i, k := range keys {
		items[i] = "(" + coqStr(k) + ", " + coqValue(r[k]) + ")"
	}
	return coqList(items)
}

func c14CoqRows(rows []map[string]any) string {
	items := make([]string, len(rows))
	for i, r := range rows {
		items[i] = c14CoqRow(r)
	}
	return coqList(items)
}

func c14FitemCoq(it c14Item) string {
	if it.T == "col" {
		return "(FCol " + coqStr(it.Col) + " " + coqStr(it.Nm) + ")"
	}
	args := make([]string, len(it.Args))
	for i, a := range it.Args {
		args[i] = a.coq()
	}
	return "(FCall " + c14CoqQual(it.Q) + " " + coqStr(strings.ToLower(it.Fn)) + " " + coqList(args) + " " + coqStr(it.Nm) + ")"
}

func c14FitemsCoq(items []c14Item) string {
	out := make([]string, len(items))
	for i, it := range items {
		out[i] = c14FitemCoq(it)
	}
	return coqList(out)
}

func (in *c14In) coq() string {
	switch in.Kind {
	case "derived":
		proj := "DStar"
		if !in.Star {
			ps := make([]string, len(in.Proj))
			for i, p := range in.Proj {
				ps[i] = "(" + coqStr(p[0]) + ", " + coqStr(p[1]) + ")"
			}
			proj = "(DCols " + coqList(ps) + ")"
		}
		return "(QDerived " + c14CoqRows(in.Rows) + " " + c14FitemsCoq(in.Items) + " " + coqStr(in.Alias) + " " + proj + ")"
	case "multi":
		dims := make([]string, len(in.Dims))
		for i, d := range in.Dims {
			dims[i] = c14CoqRows(d)
		}
		return "(QMulti " + coqList(dims) + " " + c14FitemsCoq(in.Items) + ")"
	}
	items := make([]string, len(in.Items))
	for i, it := range in.Items {
		if it.T == "sub" {
			src := "SDual"
			if it.Src == "table" {
				src = "(STable " + c14CoqRows(it.Rows) + ")"
			}
			items[i] = "(ISub " + src + " " + c14FitemsCoq(it.Items) + " " + coqStr(it.Nm) + ")"
		} else {
			items[i] = "(IFlat " + c14FitemCoq(it) + ")"
		}
	}
	return "(QTable " + c14CoqRows(in.Rows) + " " + coqList(items) + ")"
}

// ---------- running the real code ----------

type c14Run struct {
	Class    string // ok | error | panic | killed
	Rows     []any
	AtReturn []c14Inv
	Final    []c14Inv
	Reported int
	Err      string
}

func c14SpinCount(items []c14Item) (perRow int, subs []c14Item) {
	for _, it := range items {
		if it.T == "call" && strings.EqualFold(it.Q, "spin") {
			perRow++
		}
		if it.T == "sub" {
			subs = append(subs, it)
		}
	}
	return
}

// number of SPIN invocations a successful run starts
func (in *c14In) expectedSpin() int {
	perRow, subs := c14SpinCount(in.Items)
	n := 0
	switch in.Kind {
	case "multi":
		for _, d := range in.Dims {
			n += perRow * len(d)
		}
		return n
	}
	n = perRow * len(in.Rows)
	for _, s := range subs {
		sp, _ := c14SpinCount(s.Items)
		k := 1
		if s.Src == "table" {
			k = len(s.Rows)
		}
		n += sp * k * len(in.Rows)
	}
	return n
}

func (in *c14In) maxRid() float64 {
	m := 0.0
	scan := func(rows []map[string]any) {
		for _, r := range rows {
			if x, ok := r["rid"].(float64); ok && x > m {
				m = x
			}
		}
	}
	scan(in.Rows)
	for _, d := range in.Dims {
		scan(d)
	}
	return m
}

func (in *c14In) runOnce(strip bool) (out c14Run) {
	c14Register()
	tok := atomic.AddInt64(&c14Token, 1)
	rec := &c14Rec{lat: in.Lat, seed: in.Seed, maxRid: in.maxRid()}
	c14Recs.Store(float64(tok), rec)
	sql := in.sql(tok, strip)
	snapshot := func() {
		rec.mu.Lock()
		out.AtReturn = append([]c14Inv{}, rec.completed...)
		rec.mu.Unlock()
	}
	func() {
		defer func() {
			if r := recover(); r != nil {
				snapshot()
				out.Class, out.Err = "panic", c14Trunc(fmt.Sprint(r))
			}
		}()
		q, err := genql.New(in.data(), sql, genql.UnReportedErrors(func(error) {
			rec.mu.Lock()
			rec.reported++
			rec.mu.Unlock()
		}))
		if err != nil {
			snapshot()
			out.Class, out.Err = "error", c14Trunc(err.Error())
			return
		}
		rs, err := q.Exec()
		snapshot() // the instant Exec returns
		if err != nil {
			out.Class, out.Err = "error", c14Trunc(err.Error())
			return
		}
		out.Class, out.Rows = "ok", rs
	}()
	// let the detached goroutines drain: after a successful run every SPIN call is expected to
	// complete (they carry the marker argument "spin"); after a failure nothing is promised and
	// a short quiet period is enough
	deadline := time.Now().Add(2 * time.Second)
	expected := in.expectedSpin()
	for {
		rec.mu.Lock()
		st, co := len(rec.started), len(rec.completed)
		spins := 0
		for _, iv := range rec.completed {
			if c14IsSpinInv(iv) {
				spins++
			}
		}
		rec.mu.Unlock()
		if st == co {
			if out.Class == "ok" && spins >= expected {
				break
			}
			if out.Class != "ok" {
				time.Sleep(300 * time.Microsecond)
				rec.mu.Lock()
				same := len(rec.started) == st
				rec.mu.Unlock()
				if same {
					break
				}
				continue
			}
		}
		if time.Now().After(deadline) {
			break
		}
		time.Sleep(50 * time.Microsecond)
	}
	rec.mu.Lock()
	out.Final = append([]c14Inv{}, rec.completed...)
	out.Reported = rec.reported
	rec.mu.Unlock()
	return out
}

// error texts can be as long as the panic value they were made of
func c14Trunc(s string) string {
	if len(s) > 300 {
		return s[:300] + "..."
	}
	return s
}

func c14IsSpinInv(iv c14Inv) bool {
	for _, a := range iv.Args {
		if s, ok := a.(string); ok && s == "spin" {
			return true
		}
	}
	return false
}

func c14CoqInvs(l []c14Inv) string {
	items := make([]string, len(l))
	for i, iv := range l {
		args := make([]string, len(iv.Args))
		for j, a := range iv.Args {
			args[j] = coqValue(a)
		}
		items[i] = "(" + coqStr(iv.Fn) + ", " + coqList(args) + ")"
	}
	// canonical order: the log is compared as a multiset
	sort.Strings(items)
	return coqList(items)
}

func c14HasGoroutinePanic(in *c14In) bool {
	var scan func(items []c14Item) bool
	scan = func(items []c14Item) bool {
		for _, it := range items {
			if it.T == "sub" && scan(it.Items) {
				return true
			}
			if it.T == "call" && strings.EqualFold(it.Fn, "fp") {
				switch strings.ToLower(it.Q) {
				case "async", "spin", "spinasync":
					return true
				}
			}
		}
		return false
	}
	return scan(in.Items)
}

type c14Pair struct {
	A, B c14Run
}

func (in *c14In) runBoth() c14Pair {
	return c14Pair{A: in.runOnce(false), B: in.runOnce(true)}
}

// a panic in a goroutine cannot be recovered here: such cases run in a child process
func (in *c14In) runBothIsolated(raw json.RawMessage) c14Pair {
	dir, err := os.MkdirTemp("", "c14child")
	if err != nil {
		return in.runBoth()
	}
	defer os.RemoveAll(dir)
	cmd := exec.Command(os.Args[0], "aux", "C14child", "-out", dir)
	cmd.Env = append(os.Environ(), "C14_INPUT="+string(raw))
	done := make(chan error, 1)
	var outb []byte
	go func() {
		var e error
		outb, e = cmd.CombinedOutput()
		done <- e
	}()
	select {
	case <-done:
	case <-time.After(20 * time.Second):
		if cmd.Process != nil {
			cmd.Process.Kill()
		}
		<-done
	}
	var p c14Pair
	rawOut, err := os.ReadFile(filepath.Join(dir, "pair.json"))
	if err != nil || json.Unmarshal(rawOut, &p) != nil {
		msg := string(outb)
		if len(msg) > 400 {
			msg = msg[:400]
		}
		k := c14Run{Class: "killed", Err: msg}
		return c14Pair{A: k, B: k}
	}
	// JSON round trip turns []any rows into generic values already (float64/string/map/slice)
	return p
}

func c14Child(tier string, seed uint64, out string) {
	var in c14In
	must(json.Unmarshal([]byte(os.Getenv("C14_INPUT")), &in))
	p := in.runBoth()
	p.A.Rows, _ = jsonSafe(p.A.Rows).([]any)
	p.B.Rows, _ = jsonSafe(p.B.Rows).([]any)
	writeJSON(filepath.Join(out, "pair.json"), p)
}

func c14ResCoq(r c14Run) string {
	switch r.Class {
	case "ok":
		rows := r.Rows
		if rows == nil {
			rows = []any{}
		}
		return "(Ok " + coqValue(rows) + ")"
	case "error":
		return "Err"
	}
	return "Panic"
}

func c14SameRows(a, b c14Run) bool {
	if a.Class != b.Class {
		// error vs panic of the stripped query is somebody else's business: both are failures
		return a.Class != "ok" && b.Class != "ok" && a.Class != "killed"
	}
	if a.Class != "ok" {
		return true
	}
	return c14ResCoq(a) == c14ResCoq(b)
}

// ---------- the plug-in ----------

type propC14 struct{}

func init() {
	register(propC14{})
	auxRegistry["C14child"] = c14Child
	auxRegistry["C14registry"] = c14RegistryAux
}

func (propC14) ID() string { return "C14" }
func (propC14) Imports() []string {
	return []string{"Base.Prelude", "Base.Value", "Model.Strategies", "Run.C14Run"}
}
func (propC14) CheckFn() string        { return "C14Run.check" }
func (propC14) InputType() string      { return "(query * list nat)" }
func (propC14) ObsType() string        { return "C14Run.obs" }
func (propC14) Exhaustive(string) bool { return false }
func (propC14) Rule() string {
	return "random select lists of 1-5 items mixing plain columns and calls of instrumented functions with every qualifier (none, ASYNC, SPIN, SPINASYNC, ONCE, SCOPED, unknown; any letter case), over tables of 0-6 rows; flat, inside a derived table, inside a select-list subquery (dual or a root table) and over a two-dimensional table; latencies zero / random / skewed (first row finishes last); failing, panicking (panic values of five kinds: string, error, a value with a slow String method — 2 ms / 0.3 ms —, a 20000-row document) and NULL-returning functions (a dedicated stream runs ONCE over a function whose first result is NULL, always with >= 2 rows); immediate built-ins under ASYNC/SPIN/SPINASYNC; a case is non-trivial when it contains at least one qualified call and one row; distinct = distinct (query, tables, latency)"
}

func c14Strp(s string) *string   { return &s }
func c14Nump(f float64) *float64 { return &f }

func c14GenRows(r *Rand, n int) []map[string]any {
	rows := make([]map[string]any, n)
	strs := []string{"x", "y", "Zed", "", "q r"}
	for i := range rows {
		row := map[string]any{"rid": float64(i + 1), "a": float64(r.Intn(4)), "b": Pick(r, strs)}
		if r.Chance(10) {
			row["a"] = nil
		}
		if r.Chance(8) {
			delete(row, "b")
		}
		rows[i] = row
	}
	return rows
}

var c14QualSpell = map[string][]string{
	"async": {"ASYNC", "async", "Async"}, "spin": {"SPIN", "spin"}, "spinasync": {"SPINASYNC", "SpinAsync", "spinasync"},
	"once": {"ONCE", "once"}, "scoped": {"SCOPED", "scoped"}, "other": {"BOGUS", "LATER"}, "": {""},
}

func c14GenCall(r *Rand, idx int, nm string, tags *[]string, failing bool) c14Item {
	kinds := []string{"", "async", "async", "async", "spin", "spinasync", "spinasync", "once", "scoped", "other"}
	k := Pick(r, kinds)
	fn := Pick(r, []string{"fa", "fb", "fc"})
	if failing && r.Chance(50) {
		fn = Pick(r, []string{"fe", "fp"})
	} else if r.Chance(20) || (k == "once" && r.Chance(40)) {
		// NULL results: a memoised NULL is a value like any other
		fn = Pick(r, []string{"fn", "fn", "fz"})
	}
	if r.Chance(30) {
		fn = strings.ToUpper(fn[:1]) + fn[1:]
	}
	*tags = append(*tags, "qual:"+k, "fn:"+strings.ToLower(fn))
	// rid first (unique per row; fe/fp fail on rid 2), then the item index (unique per item)
	args := []c14Arg{{Col: "rid"}, {Num: c14Nump(float64(idx))}}
	if k == "spin" {
		args = append(args, c14Arg{Str: c14Strp("spin")})
	}
	switch r.Intn(4) {
	case 0:
		args = append(args, c14Arg{Col: "a"})
	case 1:
		args = append(args, c14Arg{Col: "b"}, c14Arg{Str: c14Strp("l'it")})
	case 2:
		args = append(args, c14Arg{Col: "nope"})
	}
	return c14Item{T: "call", Q: Pick(r, c14QualSpell[k]), Fn: fn, Args: args, Nm: nm}
}

func c14GenFitems(r *Rand, n int, base int, tags *[]string, failing bool) []c14Item {
	names := []string{"x1", "x2", "x3", "x4", "x5"}
	items := make([]c14Item, n)
	for i := range items {
		nm := names[i]
		if r.Chance(12) { // duplicate output names: the last one wins
			nm = names[r.Intn(i+1)]
			*tags = append(*tags, "dup-name")
		}
		if r.Chance(22) {
			items[i] = c14Item{T: "col", Col: Pick(r, []string{"a", "b", "rid", "nope"}), Nm: nm}
			*tags = append(*tags, "item:col")
		} else {
			items[i] = c14GenCall(r, base+i, nm, tags, failing)
		}
	}
	return items
}

func c14GenOne(r *Rand, kind string, failing bool) Case {
	var tags []string
	in := c14In{Kind: kind, Lat: Pick(r, []string{"zero", "zero", "random", "skew", "skew"}), Seed: r.U64() % 100000}
	nrows := r.Intn(7)
	nitems := 1 + r.Intn(5)
	switch kind {
	case "table":
		in.Rows = c14GenRows(r, nrows)
		in.Items = c14GenFitems(r, nitems, 0, &tags, failing)
		if r.Chance(35) {
			// replace one item by a select-list subquery
			i := r.Intn(len(in.Items))
			sub := c14Item{T: "sub", Nm: in.Items[i].Nm, Src: "dual"}
			if r.Bool() {
				sub.Src = "table"
				sub.Rows = c14GenRows(r, r.Intn(4))
			}
			sub.Items = c14GenFitems(r, 1+r.Intn(3), 10*(i+1), &tags, failing)
			in.Items[i] = sub
			tags = append(tags, "sub:"+sub.Src)
		}
	case "derived":
		in.Rows = c14GenRows(r, nrows)
		in.Items = c14GenFitems(r, nitems, 0, &tags, failing)
		in.Alias = "d"
		in.Star = r.Bool()
		if !in.Star {
			for i, it := range in.Items {
				if r.Chance(80) {
					in.Proj = append(in.Proj, [2]string{it.Nm, fmt.Sprintf("y%d", i)})
				}
			}
			if len(in.Proj) == 0 || r.Chance(15) {
				in.Proj = append(in.Proj, [2]string{"zz", "yz"})
			}
			if r.Chance(15) && len(in.Proj) > 1 {
				in.Proj[len(in.Proj)-1][1] = in.Proj[0][1]
			}
		}
	case "multi":
		nd := r.Intn(4)
		rid := 0
		for d := 0; d < nd; d++ {
			rows := c14GenRows(r, r.Intn(4))
			for _, row := range rows {
				rid++
				row["rid"] = float64(rid)
			}
			in.Dims = append(in.Dims, rows)
		}
		in.Items = c14GenFitems(r, nitems, 0, &tags, failing)
	}
	n := 3 + r.Intn(40)
	for i := 0; i < n; i++ {
		in.Sched = append(in.Sched, r.Intn(8))
	}
	tags = append(tags, "kind:"+kind, "lat:"+in.Lat, fmt.Sprintf("rows:%d", nrows))
	if failing {
		tags = append(tags, "stream:failing")
	}
	qualified := false
	for _, t := range tags {
		if strings.HasPrefix(t, "qual:") && t != "qual:" {
			qualified = true
		}
	}
	return Case{Input: in, Tags: tags, Nontrivial: qualified && (len(in.Rows) > 0 || len(in.Dims) > 0)}
}

// immediate built-ins (from the regenerated registry) under each goroutine qualifier, plus
// unknown functions
func c14GenImmediate(r *Rand) []Case {
	var out []Case
	reg, err := c14ReadRegistry()
	if err != nil {
		return nil
	}
	argFor := map[string][]c14Arg{"sum": {{Col: "a"}}, "avg": {{Col: "a"}}, "min": {{Col: "a"}}, "max": {{Col: "a"}}, "count": {{Col: "a"}}}
	for _, e := range reg {
		if !e.Imm {
			continue
		}
		for _, q := range []string{"async", "spin", "spinasync"} {
			args := argFor[e.Name]
			if args == nil {
				args = []c14Arg{{Col: "b"}}
			}
			it := c14Item{T: "call", Q: Pick(r, c14QualSpell[q]), Fn: e.Name, Args: args, Nm: "x1"}
			items := []c14Item{{T: "col", Col: "a", Nm: "x0"}, it}
			if r.Bool() {
				items = append(items, c14Item{T: "call", Q: "ASYNC", Fn: "fa", Args: []c14Arg{{Col: "rid"}, {Num: c14Nump(7)}}, Nm: "x2"})
			}
			kind := Pick(r, []string{"table", "table", "derived", "multi"})
			in := c14In{Kind: kind, Items: items, Lat: "zero", Alias: "d", Star: true, Sched: []int{0, 1, 2, 0, 1}}
			rows := c14GenRows(r, 1+r.Intn(3))
			if kind == "multi" {
				in.Dims = [][]map[string]any{rows}
			} else {
				in.Rows = rows
			}
			out = append(out, Case{Input: in, Tags: []string{"immediate:" + q, "imm-fn:" + e.Name, "kind:" + kind}, Nontrivial: true})
		}
	}
	for _, q := range []string{"", "ASYNC", "SPIN", "SPINASYNC", "ONCE"} {
		in := c14In{Kind: "table", Rows: c14GenRows(r, 2), Lat: "zero", Sched: []int{0, 1},
			Items: []c14Item{{T: "call", Q: q, Fn: "nofn", Args: []c14Arg{{Col: "a"}}, Nm: "x1"}}}
		out = append(out, Case{Input: in, Tags: []string{"unknown-function", "qual:" + strings.ToLower(q)}, Nontrivial: true})
	}
	return out
}

// ONCE (and the other strategies) over functions that return NULL, always with at least two rows:
// after the first row the memo holds NULL, and every later row must see it without a second call
func c14GenNullOnce(r *Rand) Case {
	tags := []string{"stream:null-once"}
	kind := Pick(r, []string{"table", "table", "table", "derived", "multi"})
	in := c14In{Kind: kind, Lat: Pick(r, []string{"zero", "random", "skew"}), Seed: r.U64() % 100000, Alias: "d", Star: true}
	call := func(q, fn string, idx int, nm string) c14Item {
		args := []c14Arg{{Col: "rid"}, {Num: c14Nump(float64(idx))}}
		if strings.EqualFold(q, "spin") {
			args = append(args, c14Arg{Str: c14Strp("spin")})
		}
		tags = append(tags, "qual:"+strings.ToLower(q), "fn:"+fn)
		return c14Item{T: "call", Q: q, Fn: fn, Args: args, Nm: nm}
	}
	items := []c14Item{call(Pick(r, c14QualSpell["once"]), Pick(r, []string{"fn", "fn", "fz"}), 0, "x1")}
	extra := []func(i int) c14Item{
		func(i int) c14Item { return call("ASYNC", Pick(r, []string{"fn", "fz"}), i, fmt.Sprintf("x%d", i+1)) },
		func(i int) c14Item { return call("SPINASYNC", "fn", i, fmt.Sprintf("x%d", i+1)) },
		func(i int) c14Item { return call("", Pick(r, []string{"fn", "fz"}), i, fmt.Sprintf("x%d", i+1)) },
		func(i int) c14Item {
			return call("once", Pick(r, []string{"fn", "fz", "fa"}), i, fmt.Sprintf("x%d", i+1))
		},
		func(i int) c14Item { return c14Item{T: "col", Col: "rid", Nm: fmt.Sprintf("x%d", i+1)} },
	}
	n := r.Intn(4)
	for i := 1; i <= n; i++ {
		items = append(items, Pick(r, extra)(i))
	}
	if r.Chance(30) { // the ONCE call not in first position
		items[0], items[len(items)-1] = items[len(items)-1], items[0]
	}
	in.Items = items
	nrows := 2 + r.Intn(5)
	if kind == "multi" {
		rows := c14GenRows(r, nrows)
		cut := 1 + r.Intn(nrows-1)
		in.Dims = [][]map[string]any{rows[:cut], rows[cut:]}
	} else {
		in.Rows = c14GenRows(r, nrows)
	}
	if kind == "table" && r.Chance(25) {
		// the same inside a select-list subquery over a root table: its own memo per outer row
		sub := c14Item{T: "sub", Nm: "s", Src: "table", Rows: c14GenRows(r, 2+r.Intn(2)),
			Items: []c14Item{call("ONCE", "fn", 10, "z1"), call("", "fa", 11, "z2")}}
		in.Items = append(in.Items, sub)
		tags = append(tags, "sub:table")
	}
	for i := 0; i < 12; i++ {
		in.Sched = append(in.Sched, r.Intn(6))
	}
	tags = append(tags, "kind:"+kind, "lat:"+in.Lat, fmt.Sprintf("rows:%d", nrows))
	return Case{Input: in, Tags: tags, Nontrivial: true}
}

func (propC14) Generate(r *Rand, tier string) []Case {
	n := 1500
	if tier == "thorough" {
		n = 15000
	}
	out := c14GenImmediate(r)
	for i := 0; i < n; i++ {
		kind := "table"
		switch {
		case i%10 == 7 || i%10 == 8:
			kind = "derived"
		case i%10 == 9:
			kind = "multi"
		}
		if i%12 == 3 {
			out = append(out, c14GenNullOnce(r))
			continue
		}
		out = append(out, c14GenOne(r, kind, i%6 == 5))
	}
	return out
}

func (propC14) Observe(raw json.RawMessage) (Observed, error) {
	var in c14In
	if err := json.Unmarshal(raw, &in); err != nil {
		return Observed{}, err
	}
	if in.Lat == "" {
		in.Lat = "zero"
	}
	var p c14Pair
	isolated := c14HasGoroutinePanic(&in)
	if isolated {
		p = in.runBothIsolated(raw)
	} else {
		p = in.runBoth()
	}
	same := c14SameRows(p.A, p.B)
	sched := make([]string, len(in.Sched))
	for i, t := range in.Sched {
		sched[i] = fmt.Sprintf("%d", t)
	}
	coqIn := "(" + in.coq() + ", " + coqList(sched) + "%nat)"
	coqObs := "(mkObs " + c14ResCoq(p.A) + " " + c14CoqInvs(p.A.AtReturn) + " " + c14CoqInvs(p.A.Final) + " " + coqBool(same) + ")"
	tags := []string{"result:" + p.A.Class}
	if isolated {
		tags = append(tags, "isolated-child")
	}
	if !same {
		tags = append(tags, "differs-from-stripped-query")
	}
	if p.A.Reported > 0 {
		tags = append(tags, "errors-reported")
	}
	note := map[string]any{"sql": in.sql(0, false), "class": p.A.Class, "err": p.A.Err, "rows": jsonSafe(p.A.Rows),
		"completed_at_return": len(p.A.AtReturn), "completed_finally": len(p.A.Final),
		"stripped_sql": in.sql(0, true), "stripped_class": p.B.Class, "stripped_rows": jsonSafe(p.B.Rows), "same_as_stripped": same}
	return Observed{CoqIn: coqIn, CoqObs: coqObs, Note: note, Tags: tags}, nil
}

// ---------- translator: the function registry and the immediate guards, from the source ----------

type c14RegEntry struct {
	Name string `json:"name"`
	Imm  bool   `json:"immediate"`
}

func c14SrcDir() (string, error) {
	if d := os.Getenv("GENQL_SRC"); d != "" {
		return d, nil
	}
	if bi, ok := debug.ReadBuildInfo(); ok {
		for _, dep := range bi.Deps {
			if dep.Path == "github.com/vedadiyan/genql" && dep.Replace != nil && dep.Replace.Path != "" {
				return dep.Replace.Path, nil
			}
		}
	}
	return "", errors.New("cannot locate the genql source directory")
}

func c14ParsePkg() (*token.FileSet, []*ast.File, error) {
	dir, err := c14SrcDir()
	if err != nil {
		return nil, nil, err
	}
	fset := token.NewFileSet()
	names, _ := filepath.Glob(filepath.Join(dir, "*.go"))
	sort.Strings(names)
	var files []*ast.File
	for _, n := range names {
		if strings.HasSuffix(n, "_test.go") || strings.HasPrefix(filepath.Base(n), "verif_hooks") {
			continue
		}
		f, err := parser.ParseFile(fset, n, nil, 0)
		if err != nil {
			return nil, nil, err
		}
		files = append(files, f)
	}
	return fset, files, nil
}

// every Register[Immediate]Function("name", ...) call inside an init() of the package, in order
func c14ReadRegistry() ([]c14RegEntry, error) {
	_, files, err := c14ParsePkg()
	if err != nil {
		return nil, err
	}
	var out []c14RegEntry
	for _, f := range files {
		for _, d := range f.Decls {
			fd, ok := d.(*ast.FuncDecl)
			if !ok || fd.Name.Name != "init" || fd.Recv != nil || fd.Body == nil {
				continue
			}
			ast.Inspect(fd.Body, func(n ast.Node) bool {
				ce, ok := n.(*ast.CallExpr)
				if !ok {
					return true
				}
				id, ok := ce.Fun.(*ast.Ident)
				if !ok || (id.Name != "RegisterFunction" && id.Name != "RegisterImmediateFunction") || len(ce.Args) < 1 {
					return true
				}
				lit, ok := ce.Args[0].(*ast.BasicLit)
				if !ok || lit.Kind != token.STRING {
					out = append(out, c14RegEntry{Name: "<<non-literal>>"})
					return true
				}
				s, _ := strconv.Unquote(lit.Value)
				out = append(out, c14RegEntry{Name: strings.ToLower(s), Imm: id.Name == "RegisterImmediateFunction"})
				return true
			})
		}
	}
	return out, nil
}

// FunExpr: `isimmediate := IsImmediateFunction(name)` and each of the cases "async", "spin",
// "spinasync" of the switch starts with `if isimmediate { return nil, <error> }`
func c14ImmediateGuards() (map[string]bool, string) {
	res := map[string]bool{"async": false, "spin": false, "spinasync": false}
	_, files, err := c14ParsePkg()
	if err != nil {
		return res, err.Error()
	}
	detail := "FunExpr not found"
	for _, f := range files {
		for _, d := range f.Decls {
			fd, ok := d.(*ast.FuncDecl)
			if !ok || fd.Name.Name != "FunExpr" || fd.Body == nil {
				continue
			}
			detail = ""
			bound := false
			ast.Inspect(fd.Body, func(n ast.Node) bool {
				switch x := n.(type) {
				case *ast.AssignStmt:
					if len(x.Lhs) == 1 && len(x.Rhs) == 1 {
						if id, ok := x.Lhs[0].(*ast.Ident); ok && id.Name == "isimmediate" {
							if ce, ok := x.Rhs[0].(*ast.CallExpr); ok {
								if fn, ok := ce.Fun.(*ast.Ident); ok && fn.Name == "IsImmediateFunction" {
									bound = true
								}
							}
						}
					}
				case *ast.CaseClause:
					for _, e := range x.List {
						lit, ok := e.(*ast.BasicLit)
						if !ok {
							continue
						}
						name, _ := strconv.Unquote(lit.Value)
						if _, want := res[name]; !want {
							continue
						}
						body := x.Body
						if len(body) == 1 {
							if b, ok := body[0].(*ast.BlockStmt); ok {
								body = b.List
							}
						}
						if len(body) == 0 {
							continue
						}
						ifs, ok := body[0].(*ast.IfStmt)
						if !ok {
							continue
						}
						cond, ok := ifs.Cond.(*ast.Ident)
						if !ok || cond.Name != "isimmediate" || len(ifs.Body.List) == 0 {
							continue
						}
						ret, ok := ifs.Body.List[len(ifs.Body.List)-1].(*ast.ReturnStmt)
						if !ok || len(ret.Results) != 2 {
							continue
						}
						if id, ok := ret.Results[0].(*ast.Ident); ok && id.Name == "nil" {
							if id2, ok := ret.Results[1].(*ast.Ident); !ok || id2.Name != "nil" {
								res[name] = true
							}
						}
					}
				}
				return true
			})
			if !bound {
				detail = "isimmediate is not bound to IsImmediateFunction(name)"
				for k := range res {
					res[k] = false
				}
			}
		}
	}
	return res, detail
}

func c14RegistryAux(tier string, seed uint64, out string) {
	reg, err := c14ReadRegistry()
	must(err)
	items := make([]string, len(reg))
	for i, e := range reg {
		items[i] = "(" + coqStr(e.Name) + ", " + coqBool(e.Imm) + ")"
	}
	var b strings.Builder
	b.WriteString("(* generated by `vharness aux C14registry` from the init() functions of package genql; do not edit *)\n")
	b.WriteString("From Coq Require Import List String.\nImport ListNotations.\n")
	b.WriteString("From GenqlV Require Import Base.Prelude Model.Strategies.\nLocal Open Scope string_scope.\n")
	b.WriteString("Definition gen_registry : list (string * bool) :=\n  " + coqList(items) + ".\n")
	b.WriteString("Goal gen_registry = Strategies.registry.\nProof. vm_compute. reflexivity. Qed.\n")
	must(os.WriteFile(filepath.Join(out, "C14Registry.v"), []byte(b.String()), 0o644))
	guards, detail := c14ImmediateGuards()
	writeJSON(filepath.Join(out, "c14_registry.json"), map[string]any{"registry": reg, "guards": guards, "detail": detail})
}
