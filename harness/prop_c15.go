package main

import (
	"encoding/hex"
	"encoding/json"
	"fmt"
	"math"
	"math/big"
	"strconv"

	genql "github.com/vedadiyan/genql"
	"github.com/vedadiyan/genql/compare"
)

// C15 — compare.Compare against the exact model, over an exhaustive finite domain of ordered pairs.

type gv struct {
	K string `json:"k"`
	V string `json:"v"` // decimal text for integers, hex float text for floats, raw for strings
}

type c15In struct {
	A gv `json:"a"`
	B gv `json:"b"`
	// P (two values that are EQUAL under C15 but arrive in different Go kinds, e.g. int 1 / float64 1 / uint8 1, or a
	// number and its decimal text): the ORDER BY comparator is then observed on the two-key rows {g:P[0], k:a},
	// {g:P[1], k:b} ordered by g (PDesc: descending) and then k. A tie on the earlier key hands the decision to the
	// later key, so the expected answer is still sort_expect a b: the comparator's tie test must be the C15
	// comparison, not Go's == on interfaces.
	P     []gv `json:"p,omitempty"`
	PDesc bool `json:"pdesc,omitempty"`
}

type propC15 struct{}

func init() { register(propC15{}) }

func (propC15) ID() string          { return "C15" }
func (propC15) Imports() []string   { return []string{"Base.Prelude", "Model.Compare", "Run.C15Run"} }
func (propC15) CheckFn() string     { return "C15Run.check" }
func (propC15) InputType() string   { return "(gval * gval * (string * string))" }
func (propC15) ObsType() string     { return "(Z * (Z * Z))" }
func (propC15) Exhaustive(string) bool { return true }
func (propC15) Rule() string {
	return "all ordered pairs over a finite domain: every Go numeric kind x boundary values (min, -1, 0, 1, max, 2^53 edge, fractions) + strings (empty, numeric-looking, prefixes) + nil/bool; a pair is non-trivial when the two operands differ in kind or value; distinct = distinct (a,b); plus a multi-key stream: pairs over a sub-domain observed through the ORDER BY comparator behind an earlier key on which the two rows tie by value in different Go kinds (int/uint8/float32/float64 of one value, a number and its decimal text), both directions of the earlier key"
}

func intVals(lo, hi *big.Int) []string {
	cands := []string{"0", "1", "2", "-1", "-2", "9", "10", "100", "127", "128", "255", "256", "-128", "-129",
		"32767", "65535", "65536", "2147483647", "4294967295", "4294967296", "-2147483648",
		"9007199254740992", "9007199254740993", "-9007199254740993", "9223372036854775807", "-9223372036854775808",
		"18446744073709551615",
		// neighbours that collide once rounded to float64: only an exact integer comparison separates them
		"-9007199254740992", "-9223372036854775807", "9223372036854775806", "18446744073709551614"}
	seen := map[string]bool{}
	var out []string
	add := func(s string) {
		z, _ := new(big.Int).SetString(s, 10)
		if z.Cmp(lo) >= 0 && z.Cmp(hi) <= 0 && !seen[s] {
			seen[s] = true
			out = append(out, s)
		}
	}
	add(lo.String())
	add(hi.String())
	for _, c := range cands {
		add(c)
	}
	return out
}

var intKinds = []struct {
	name   string
	lo, hi string
}{
	{"int", "-9223372036854775808", "9223372036854775807"},
	{"int8", "-128", "127"}, {"int16", "-32768", "32767"},
	{"int32", "-2147483648", "2147483647"}, {"int64", "-9223372036854775808", "9223372036854775807"},
	{"uint", "0", "18446744073709551615"}, {"uint8", "0", "255"}, {"uint16", "0", "65535"},
	{"uint32", "0", "4294967295"}, {"uint64", "0", "18446744073709551615"},
}

func c15Domain(tier string) []gv {
	var d []gv
	for _, k := range intKinds {
		lo, _ := new(big.Int).SetString(k.lo, 10)
		hi, _ := new(big.Int).SetString(k.hi, 10)
		vals := intVals(lo, hi)
		if tier == "quick" {
			// quick: a representative subset per kind (still every kind, still the edges)
			keep := map[string]bool{k.lo: true, k.hi: true, "0": true, "1": true, "-1": true, "10": true, "9": true,
				"9007199254740993": true, "9007199254740992": true, "-9007199254740993": true,
				"-9007199254740992": true, "-9223372036854775807": true, "9223372036854775806": true, "18446744073709551614": true}
			var v2 []string
			for _, v := range vals {
				if keep[v] {
					v2 = append(v2, v)
				}
			}
			vals = v2
		}
		for _, v := range vals {
			d = append(d, gv{k.name, v})
		}
	}
	f64 := []float64{0, 1, -1, 0.5, -0.5, 1.5, -1.5, 2, 10, 9, 100, 127, 128, 255, 256, 1e6, 123456, 1234567,
		9007199254740992, 9007199254740994, -9007199254740992, 0.25, 1e-5, 65535.5, 4294967296, 1e21}
	if tier == "quick" {
		f64 = []float64{0, 1, -1, 0.5, 1.5, -1.5, 10, 9, 1e6, 9007199254740992, 0.1}
	}
	// whole floats at the edges of the integer kinds (2^63 is what the literal 9223372036854775807 parses to), and
	// neighbours one ulp apart / results of float arithmetic that a tolerance would merge
	f64 = append(f64, 9223372036854775808, -9223372036854775808, 4611686018427387904, 18446744073709551616, 2147483648,
		0.3, 0.1+0.2, math.Nextafter(1.5, 2), math.Nextafter(math.Nextafter(1.5, 2), 2), math.Nextafter(1, 0))
	for _, f := range f64 {
		d = append(d, gv{"float64", strconv.FormatFloat(f, 'x', -1, 64)})
	}
	f32 := []float32{0, 1, -1, 0.5, 1.5, -1.5, 2, 10, 256, 16777216}
	if tier == "quick" {
		f32 = []float32{0, 1, -1.5, 10, 16777216, 0.1, 2.7}
	} else {
		f32 = append(f32, 0.1, 2.7, 3.14159)
	}
	for _, f := range f32 {
		d = append(d, gv{"float32", strconv.FormatFloat(float64(f), 'x', -1, 32)})
	}
	for _, s := range []string{"", "1", "1.5", "10", "9", "-1", "a", "ab", "abc", "b", "A", "0", "1e+06", "true", "<nil>", "0.1", "2.7", "07", "1.0",
		"\u00e9",
		// strings that look like dates / timestamps are still ordered byte by byte
		"2024-01-01T01:30:00+02:00", "2024-01-01T00:15:00Z", "2024-01-01T00:20:00Z", "2024-01-01T00:15:00.5Z", "2024-01-01", "01/02/2024"} {
		d = append(d, gv{"string", s})
	}
	// bytes that are not valid UTF-8 (hex-encoded: JSON would replace them): the order is by byte, not by decoded rune
	for _, s := range []string{"caf\xe8", "caf\xe9", "\xc0", "\xff", "a\x80", "a\x81"} {
		d = append(d, gv{"hexstring", hex.EncodeToString([]byte(s))})
	}
	d = append(d, gv{"nil", ""}, gv{"bool", "true"}, gv{"bool", "false"})
	return d
}

func (propC15) Generate(r *Rand, tier string) []Case {
	d := c15Domain(tier)
	var out []Case
	for _, a := range d {
		for _, b := range d {
			out = append(out, Case{Input: c15In{A: a, B: b}, Tags: []string{"pair:" + kindClass(a.K) + "/" + kindClass(b.K)},
				Nontrivial: a != b})
		}
	}
	// multi-key stream: the pair decides behind an earlier key that ties ACROSS kinds (or, as a control, within one)
	sub := c15SubDomain()
	reps := 1
	if tier == "thorough" {
		reps = 4
	}
	for rep := 0; rep < reps; rep++ {
		for _, a := range sub {
			for _, b := range sub {
				cls := Pick(r, c15TieClasses)
				p, q := Pick(r, cls), Pick(r, cls)
				tag := "tie:cross-kind"
				if p.K == q.K {
					tag = "tie:same-kind"
				}
				out = append(out, Case{Input: c15In{A: a, B: b, P: []gv{p, q}, PDesc: r.Bool()},
					Tags: []string{"multikey", tag, "pair:" + kindClass(a.K) + "/" + kindClass(b.K)}, Nontrivial: a != b})
			}
		}
	}
	return out
}

// c15TieClasses: each class holds spellings of ONE value in different Go kinds; any two members compare equal under C15
// (numbers by value, a number against a string by the number's decimal text).
var c15TieClasses = [][]gv{
	{{"int", "1"}, {"int8", "1"}, {"uint8", "1"}, {"int64", "1"}, {"uint64", "1"}, {"float64", "0x1p+00"}, {"float32", "0x1p+00"}, {"string", "1"}},
	{{"int", "-2"}, {"int16", "-2"}, {"float64", "-0x1p+01"}, {"int32", "-2"}, {"string", "-2"}},
	{{"int", "0"}, {"uint", "0"}, {"uint16", "0"}, {"float64", "0x0p+00"}, {"string", "0"}},
	{{"float64", "0x1.8p+00"}, {"float32", "0x1.8p+00"}, {"string", "1.5"}},
	{{"int", "7"}, {"uint32", "7"}, {"float64", "0x1.cp+02"}, {"string", "7"}},
	{{"int64", "9007199254740992"}, {"uint64", "9007199254740992"}, {"float64", "0x1p+53"}, {"int", "9007199254740992"}},
	{{"string", "abc"}, {"string", "abc"}},
}

// c15SubDomain: the values that decide behind the tying key (every kind class, ties and non-ties among them)
func c15SubDomain() []gv {
	return []gv{{"int", "1"}, {"int", "-1"}, {"uint8", "1"}, {"uint64", "18446744073709551615"}, {"int64", "2"},
		{"float64", "0x1p+00"}, {"float64", "0x1.8p+00"}, {"float32", "0x1p+00"}, {"float64", "0x1.4p+03"},
		{"string", "1"}, {"string", "10"}, {"string", "9"}, {"string", "a"}, {"string", ""}, {"nil", ""}, {"bool", "true"}}
}

func c15SameTieClass(p, q gv) bool {
	for _, cls := range c15TieClasses {
		hp, hq := false, false
		for _, m := range cls {
			hp = hp || m == p
			hq = hq || m == q
		}
		if hp && hq {
			return true
		}
	}
	return false
}

func kindClass(k string) string {
	switch k {
	case "float32", "float64":
		return "float"
	case "hexstring":
		return "string"
	case "string", "nil", "bool":
		return k
	}
	if k[0] == 'u' {
		return "uint"
	}
	return "int"
}

func (g gv) goValue() (any, error) {
	switch g.K {
	case "string":
		return g.V, nil
	case "hexstring":
		b, err := hex.DecodeString(g.V)
		return string(b), err
	case "nil":
		return nil, nil
	case "bool":
		return g.V == "true", nil
	case "float64":
		f, err := strconv.ParseFloat(g.V, 64)
		return f, err
	case "float32":
		f, err := strconv.ParseFloat(g.V, 32)
		return float32(f), err
	}
	z, ok := new(big.Int).SetString(g.V, 10)
	if !ok {
		return nil, fmt.Errorf("bad integer %q", g.V)
	}
	switch g.K {
	case "int":
		return int(z.Int64()), nil
	case "int8":
		return int8(z.Int64()), nil
	case "int16":
		return int16(z.Int64()), nil
	case "int32":
		return int32(z.Int64()), nil
	case "int64":
		return z.Int64(), nil
	case "uint":
		return uint(z.Uint64()), nil
	case "uint8":
		return uint8(z.Uint64()), nil
	case "uint16":
		return uint16(z.Uint64()), nil
	case "uint32":
		return uint32(z.Uint64()), nil
	case "uint64":
		return z.Uint64(), nil
	}
	return nil, fmt.Errorf("bad kind %q", g.K)
}

var coqKind = map[string]string{"int": "KInt", "int8": "KInt8", "int16": "KInt16", "int32": "KInt32", "int64": "KInt64",
	"uint": "KUint", "uint8": "KUint8", "uint16": "KUint16", "uint32": "KUint32", "uint64": "KUint64"}

// coq renders the value as a gval; ok=false for values the model has no term for (inf/nan).
func (g gv) coq() (string, bool) {
	switch g.K {
	case "string":
		return "(GStr " + coqStr(g.V) + ")", true
	case "hexstring":
		b, _ := hex.DecodeString(g.V)
		return "(GStr " + coqStr(string(b)) + ")", true
	case "nil":
		return "GNil", true
	case "bool":
		return "(GBool " + g.V + ")", true
	case "float64", "float32":
		f, _ := strconv.ParseFloat(g.V, 64)
		if math.IsInf(f, 0) || math.IsNaN(f) {
			return "", false
		}
		m, e := dyadic(f)
		return fmt.Sprintf("(GFloat %s %s %s)", coqBool(g.K == "float32"), coqZ(m), coqZi(int64(e))), true
	}
	z, _ := new(big.Int).SetString(g.V, 10)
	return fmt.Sprintf("(GInt %s %s)", coqKind[g.K], coqZ(z)), true
}

func (propC15) Observe(raw json.RawMessage) (Observed, error) {
	var in c15In
	if err := json.Unmarshal(raw, &in); err != nil {
		return Observed{}, err
	}
	a, err := in.A.goValue()
	if err != nil {
		return Observed{}, err
	}
	b, err := in.B.goValue()
	if err != nil {
		return Observed{}, err
	}
	var pa, pb any
	havePrefix := false
	if in.P != nil {
		if len(in.P) != 2 {
			return Observed{}, fmt.Errorf("p must hold two values")
		}
		if !c15SameTieClass(in.P[0], in.P[1]) {
			// a replay file cannot smuggle in an earlier key that does not tie: only the listed spellings of one value
			return Observed{}, fmt.Errorf("p: %v and %v are not two listed spellings of one value", in.P[0], in.P[1])
		}
		if pa, err = in.P[0].goValue(); err != nil {
			return Observed{}, err
		}
		if pb, err = in.P[1].goValue(); err != nil {
			return Observed{}, err
		}
		havePrefix = true
	}
	res := 99
	func() {
		defer func() {
			if r := recover(); r != nil {
				res = 99
			}
		}()
		res = compare.Compare(a, b)
	}()
	// the ORDER BY comparator of package genql on two one-key rows, ascending and descending
	sortRes := func(asc bool) int {
		out := 2
		func() {
			defer func() {
				if r := recover(); r != nil {
					out = 2
				}
			}()
			rowA, rowB := map[string]any{"k": a}, map[string]any{"k": b}
			def := genql.OrderByDefinition{{Key: "k", Value: asc}}
			if havePrefix {
				rowA["g"], rowB["g"] = pa, pb
				def = genql.OrderByDefinition{{Key: "g", Value: !in.PDesc}, {Key: "k", Value: asc}}
			}
			less, err := genql.Compare([]any{rowA, rowB}, 0, 1, def)
			if err != nil {
				out = 2
			} else if less {
				out = 1
			} else {
				out = 0
			}
		}()
		return out
	}
	sa, sd := sortRes(true), sortRes(false)
	ca, oka := in.A.coq()
	cb, okb := in.B.coq()
	if !oka || !okb {
		return Observed{}, fmt.Errorf("non-finite float in C15 domain")
	}
	// Go's own %v text of both operands (standard-library oracle, used only outside the modelled class)
	return Observed{CoqIn: "(" + ca + ", " + cb + ", (" + coqStr(fmt.Sprintf("%v", a)) + ", " + coqStr(fmt.Sprintf("%v", b)) + "))", CoqObs: "(" + coqZi(int64(res)) + ", (" + coqZi(int64(sa)) + ", " + coqZi(int64(sd)) + "))",
		Note: map[string]int{"compare": res, "order_by_less_asc": sa, "order_by_less_desc": sd}}, nil
}
