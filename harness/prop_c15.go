package main

import (
	"encoding/hex"
	"encoding/json"
	"fmt"
	"math"
	"math/big"
	"strconv"

	genql "github.com/vedadiyan/genql"
	"github.com/vedadiyan/genql/compare"
)

// C15 — compare.Compare against the exact model, over an exhaustive finite domain of ordered pairs.

type gv struct {
	K string `json:"k"`
	V string `json:"v"` // decimal text for integers, hex float text for floats, raw for strings
}

type c15In struct {
	A gv `json:"a"`
	B gv `json:"b"`
}

type propC15 struct{}

func init() { register(propC15{}) }

func (propC15) ID() string          { return "C15" }
func (propC15) Imports() []string   { return []string{"Base.Prelude", "Model.Compare", "Run.C15Run"} }
func (propC15) CheckFn() string     { return "C15Run.check" }
func (propC15) InputType() string   { return "(gval * gval * (string * string))" }
func (propC15) ObsType() string     { return "(Z * (Z * Z))" }
func (propC15) Exhaustive(string) bool { return true }
func (propC15) Rule() string {
	return "all ordered pairs over a finite domain: every Go numeric kind x boundary values (min, -1, 0, 1, max, 2^53 edge, fractions) + strings (empty, numeric-looking, prefixes) + nil/bool; a pair is non-trivial when the two operands differ in kind or value; distinct = distinct (a,b)"
}

func intVals(lo, hi *big.Int) []string {
	cands := []string{"0", "1", "2", "-1", "-2", "9", "10", "100", "127", "128", "255", "256", "-128", "-129",
		"32767", "65535", "65536", "2147483647", "4294967295", "4294967296", "-2147483648",
		"9007199254740992", "9007199254740993", "-9007199254740993", "9223372036854775807", "-9223372036854775808",
		"18446744073709551615",
		// neighbours that collide once rounded to float64: only an exact integer comparison separates them
		"-9007199254740992", "-9223372036854775807", "9223372036854775806", "18446744073709551614"}
	seen := map[string]bool{}
	var out []string
	add := func(s string) {
		z, _ := new(big.Int).SetString(s, 10)
		if z.Cmp(lo) >= 0 && z.Cmp(hi) <= 0 && !seen[s] {
			seen[s] = true
			out = append(out, s)
		}
	}
	add(lo.String())
	add(hi.String())
	for _, c := range cands {
		add(c)
	}
	return out
}

var intKinds = []struct {
	name   string
	lo, hi string
}{
	{"int", "-9223372036854775808", "9223372036854775807"},
	{"int8", "-128", "127"}, {"int16", "-32768", "32767"},
	{"int32", "-2147483648", "2147483647"}, {"int64", "-9223372036854775808", "9223372036854775807"},
	{"uint", "0", "18446744073709551615"}, {"uint8", "0", "255"}, {"uint16", "0", "65535"},
	{"uint32", "0", "4294967295"}, {"uint64", "0", "18446744073709551615"},
}

func c15Domain(tier string) []gv {
	var d []gv
	for _, k := range intKinds {
		lo, _ := new(big.Int).SetString(k.lo, 10)
		hi, _ := new(big.Int).SetString(k.hi, 10)
		vals := intVals(lo, hi)
		if tier == "quick" {
			// quick: a representative subset per kind (still every kind, still the edges)
			keep := map[string]bool{k.lo: true, k.hi: true, "0": true, "1": true, "-1": true, "10": true, "9": true,
				"9007199254740993": true, "9007199254740992": true, "-9007199254740993": true,
				"-9007199254740992": true, "-9223372036854775807": true, "9223372036854775806": true, "18446744073709551614": true}
			var v2 []string
			for _, v := range vals {
				if keep[v] {
					v2 = append(v2, v)
				}
			}
			vals = v2
		}
		for _, v := range vals {
			d = append(d, gv{k.name, v})
		}
	}
	f64 := []float64{0, 1, -1, 0.5, -0.5, 1.5, -1.5, 2, 10, 9, 100, 127, 128, 255, 256, 1e6, 123456, 1234567,
		9007199254740992, 9007199254740994, -9007199254740992, 0.25, 1e-5, 65535.5, 4294967296, 1e21}
	if tier == "quick" {
		f64 = []float64{0, 1, -1, 0.5, 1.5, -1.5, 10, 9, 1e6, 9007199254740992, 0.1}
	}
	// whole floats at the edges of the integer kinds (2^63 is what the literal 9223372036854775807 parses to), and
	// neighbours one ulp apart / results of float arithmetic that a tolerance would merge
	f64 = append(f64, 9223372036854775808, -9223372036854775808, 4611686018427387904, 18446744073709551616, 2147483648,
		0.3, 0.1+0.2, math.Nextafter(1.5, 2), math.Nextafter(math.Nextafter(1.5, 2), 2), math.Nextafter(1, 0))
	for _, f := range f64 {
		d = append(d, gv{"float64", strconv.FormatFloat(f, 'x', -1, 64)})
	}
	f32 := []float32{0, 1, -1, 0.5, 1.5, -1.5, 2, 10, 256, 16777216}
	if tier == "quick" {
		f32 = []float32{0, 1, -1.5, 10, 16777216, 0.1, 2.7}
	} else {
		f32 = append(f32, 0.1, 2.7, 3.14159)
	}
	for _, f := range f32 {
		d = append(d, gv{"float32", strconv.FormatFloat(float64(f), 'x', -1, 32)})
	}
	for _, s := range []string{"", "1", "1.5", "10", "9", "-1", "a", "ab", "abc", "b", "A", "0", "1e+06", "true", "<nil>", "0.1", "2.7", "07", "1.0",
		"\u00e9",
		// strings that look like dates / timestamps are still ordered byte by byte
		"2024-01-01T01:30:00+02:00", "2024-01-01T00:15:00Z", "2024-01-01T00:20:00Z", "2024-01-01T00:15:00.5Z", "2024-01-01", "01/02/2024"} {
		d = append(d, gv{"string", s})
	}
	// bytes that are not valid UTF-8 (hex-encoded: JSON would replace them): the order is by byte, not by decoded rune
	for _, s := range []string{"caf\xe8", "caf\xe9", "\xc0", "\xff", "a\x80", "a\x81"} {
		d = append(d, gv{"hexstring", hex.EncodeToString([]byte(s))})
	}
	d = append(d, gv{"nil", ""}, gv{"bool", "true"}, gv{"bool", "false"})
	return d
}

func (propC15) Generate(r *Rand, tier string) []Case {
	d := c15Domain(tier)
	var out []Case
	for _, a := range d {
		for _, b := range d {
			out = append(out, Case{Input: c15In{a, b}, Tags: []string{"pair:" + kindClass(a.K) + "/" + kindClass(b.K)},
				Nontrivial: a != b})
		}
	}
	return out
}

func kindClass(k string) string {
	switch k {
	case "float32", "float64":
		return "float"
	case "hexstring":
		return "string"
	case "string", "nil", "bool":
		return k
	}
	if k[0] == 'u' {
		return "uint"
	}
	return "int"
}

func (g gv) goValue() (any, error) {
	switch g.K {
	case "string":
		return g.V, nil
	case "hexstring":
		b, err := hex.DecodeString(g.V)
		return string(b), err
	case "nil":
		return nil, nil
	case "bool":
		return g.V == "true", nil
	case "float64":
		f, err := strconv.ParseFloat(g.V, 64)
		return f, err
	case "float32":
		f, err := strconv.ParseFloat(g.V, 32)
		return float32(f), err
	}
	z, ok := new(big.Int).SetString(g.V, 10)
	if !ok {
		return nil, fmt.Errorf("bad integer %q", g.V)
	}
	switch g.K {
	case "int":
		return int(z.Int64()), nil
	case "int8":
		return int8(z.Int64()), nil
	case "int16":
		return int16(z.Int64()), nil
	case "int32":
		return int32(z.Int64()), nil
	case "int64":
		return z.Int64(), nil
	case "uint":
		return uint(z.Uint64()), nil
	case "uint8":
		return uint8(z.Uint64()), nil
	case "uint16":
		return uint16(z.Uint64()), nil
	case "uint32":
		return uint32(z.Uint64()), nil
	case "uint64":
		return z.Uint64(), nil
	}
	return nil, fmt.Errorf("bad kind %q", g.K)
}

var coqKind = map[string]string{"int": "KInt", "int8": "KInt8", "int16": "KInt16", "int32": "KInt32", "int64": "KInt64",
	"uint": "KUint", "uint8": "KUint8", "uint16": "KUint16", "uint32": "KUint32", "uint64": "KUint64"}

// coq renders the value as a gval; ok=false for values the model has no term for (inf/nan).
func (g gv) coq() (string, bool) {
	switch g.K {
	case "string":
		return "(GStr " + coqStr(g.V) + ")", true
	case "hexstring":
		b, _ := hex.DecodeString(g.V)
		return "(GStr " + coqStr(string(b)) + ")", true
	case "nil":
		return "GNil", true
	case "bool":
		return "(GBool " + g.V + ")", true
	case "float64", "float32":
		f, _ := strconv.ParseFloat(g.V, 64)
		if math.IsInf(f, 0) || math.IsNaN(f) {
			return "", false
		}
		m, e := dyadic(f)
		return fmt.Sprintf("(GFloat %s %s %s)", coqBool(g.K == "float32"), coqZ(m), coqZi(int64(e))), true
	}
	z, _ := new(big.Int).SetString(g.V, 10)
	return fmt.Sprintf("(GInt %s %s)", coqKind[g.K], coqZ(z)), true
}

func (propC15) Observe(raw json.RawMessage) (Observed, error) {
	var in c15In
	if err := json.Unmarshal(raw, &in); err != nil {
		return Observed{}, err
	}
	a, err := in.A.goValue()
	if err != nil {
		return Observed{}, err
	}
	b, err := in.B.goValue()
	if err != nil {
		return Observed{}, err
	}
	res := 99
	func() {
		defer func() {
			if r := recover(); r != nil {
				res = 99
			}
		}()
		res = compare.Compare(a, b)
	}()
	// the ORDER BY comparator of package genql on two one-key rows, ascending and descending
	sortRes := func(asc bool) int {
		out := 2
		func() {
			defer func() {
				if r := recover(); r != nil {
					out = 2
				}
			}()
			less, err := genql.Compare([]any{map[string]any{"k": a}, map[string]any{"k": b}}, 0, 1,
				genql.OrderByDefinition{{Key: "k", Value: asc}})
			if err != nil {
				out = 2
			} else if less {
				out = 1
			} else {
				out = 0
			}
		}()
		return out
	}
	sa, sd := sortRes(true), sortRes(false)
	ca, oka := in.A.coq()
	cb, okb := in.B.coq()
	if !oka || !okb {
		return Observed{}, fmt.Errorf("non-finite float in C15 domain")
	}
	// Go's own %v text of both operands (standard-library oracle, used only outside the modelled class)
	return Observed{CoqIn: "(" + ca + ", " + cb + ", (" + coqStr(fmt.Sprintf("%v", a)) + ", " + coqStr(fmt.Sprintf("%v", b)) + "))", CoqObs: "(" + coqZi(int64(res)) + ", (" + coqZi(int64(sa)) + ", " + coqZi(int64(sd)) + "))",
		Note: map[string]int{"compare": res, "order_by_less_asc": sa, "order_by_less_desc": sd}}, nil
}
