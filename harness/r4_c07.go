package main

// r4_c07.go — further C07 streams (round 4), each a class of pipelines the base generator never built:
//   nested-with     a query that carries a WITH clause of its own and is built inside a scope that already holds CTEs
//                   (a CTE body, a derived table, at two and three levels) reads a CTE of the ENCLOSING query; the
//                   composed pipeline must equal the staged one (the enclosing CTE materialised as plain input)
//   exists-tail     EXISTS over a subquery whose emptiness is decided AFTER its WHERE: LIMIT / OFFSET windows (both
//                   spellings, LIMIT 0), GROUP BY / HAVING, DISTINCT under a window, aggregate-only select lists:
//                   EXISTS is true iff that subquery, run standalone on the row, returns at least one row
//   in-rows         IN / NOT IN over subqueries whose rows do NOT all have the same first column: UNION [ALL] of
//                   branches that name their column differently, SELECT * over heterogeneous nested objects; every
//                   row contributes its own first column, the deciding row sits anywhere in the result

import "fmt"

func init() {
	extraStreams["C07"] = append(extraStreams["C07"], r4C07NestedWith, r4C07ExistsTail, r4C07InRows)
}

func r4C07Case(doc map[string]any, q *Stmt, tags []string, nontrivial bool, staged *Stmt, stagedKey string, inner *Stmt) Case {
	in := c07In{engIn: engIn{Doc: doc, Q: q, SQL: q.SQL()}, StagedQ: staged, StagedKey: stagedKey, InnerQ: inner}
	return Case{Input: in, Tags: tags, Nontrivial: nontrivial, Key: q.SQL() + fmt.Sprint(doc)}
}

func r4Tbl(path ...string) *From { return &From{K: "table", Path: path} }

// r4Pass: a pass-through stage over `from` that keeps the columns the later stages read (id n1 n2 s1 s2), with an
// optional filter, a projection that recomputes n1, or an order + window
func r4Pass(r *Rand, t table, from *From, tags *[]string) *Stmt {
	q := &Stmt{From: from, Items: []Item{{Star: true}}}
	if r.Chance(55) {
		switch r.Intn(3) {
		case 0:
			q.Where = Cmp(Pick(r, cmpOps), Col(Pick(r, []string{"n1", "n2", "id"})), Num(t.numConst(r)))
		case 1:
			q.Where = Cmp(Pick(r, []string{"=", "!=", "<=", ">"}), Col("s1"), Str(t.strConst(r)))
		default:
			q.Where = Not(Cmp("=", Col("id"), Num(float64(1+r.Intn(4)))))
		}
	}
	switch r.Intn(4) {
	case 0:
		q.Items = []Item{{E: Col("id")}, {E: Bin("+", Col("n1"), Num(1)), Alias: "n1"}, {E: Col("n2")}, {E: Col("s1")}, {E: Col("s2")}}
		*tags = append(*tags, "stage:project")
	case 1:
		q.Order = []OrderKey{{Path: []string{"id"}, Asc: false}}
		q.Limit = intp(1 + r.Intn(4))
		*tags = append(*tags, "stage:order-limit")
	}
	return q
}

func r4C07NestedWith(r *Rand, tier string) []Case {
	n := 110
	if tier == "thorough" {
		n = 1500
	}
	var out []Case
	for i := 0; i < n; i++ {
		t := genTable(r, 5)
		doc := map[string]any{"t": t.rows}
		tags := []string{"nested-with"}
		a, _, _ := innerQuery(r, t, &tags)
		var q, staged *Stmt
		shape := r.Intn(6)
		// nested(from): a statement WITH z AS (<stage over the enclosing CTE a>) <stage over z>
		nested := func() *Stmt {
			z := r4Pass(r, t, r4Tbl("a"), &tags)
			body := r4Pass(r, t, r4Tbl("z"), &tags)
			body.With = []CTE{{Name: "z", Q: z}}
			return body
		}
		switch shape {
		case 0: // the body of a later CTE has its own WITH and reads the earlier CTE through it
			tags = append(tags, "nested-with:cte-body")
			q = outerOver(r, t, r4Tbl("b"), nil, &tags)
			q.With = []CTE{{Name: "a", Q: a}, {Name: "b", Q: nested()}}
			if r.Chance(25) {
				q.With = []CTE{q.With[1], q.With[0]} // declared in the other order
				tags = append(tags, "nested-with:declared-later")
			}
		case 1: // a derived table with its own WITH inside a query that has a WITH
			tags = append(tags, "nested-with:derived")
			q = outerOver(r, t, &From{K: "derived", Q: nested(), Alias: "x"}, []string{"x"}, &tags)
			q.With = []CTE{{Name: "a", Q: a}}
		case 2: // three levels: the innermost WITH is two WITH clauses away from the CTE it reads
			tags = append(tags, "nested-with:three-levels")
			y := r4Pass(r, t, r4Tbl("a"), &tags)
			zb := r4Pass(r, t, r4Tbl("y"), &tags)
			zb.With = []CTE{{Name: "y", Q: y}}
			body := r4Pass(r, t, r4Tbl("z"), &tags)
			body.With = []CTE{{Name: "z", Q: zb}}
			q = outerOver(r, t, r4Tbl("b"), nil, &tags)
			q.With = []CTE{{Name: "a", Q: a}, {Name: "b", Q: body}}
		case 3: // the nested WITH declares two CTEs: the first reads the enclosing one, the second reads the first
			tags = append(tags, "nested-with:two-nested-ctes")
			z1 := r4Pass(r, t, r4Tbl("a"), &tags)
			z2 := r4Pass(r, t, r4Tbl("z1"), &tags)
			body := r4Pass(r, t, r4Tbl("z2"), &tags)
			body.With = []CTE{{Name: "z1", Q: z1}, {Name: "z2", Q: z2}}
			q = outerOver(r, t, r4Tbl("b"), nil, &tags)
			q.With = []CTE{{Name: "a", Q: a}, {Name: "b", Q: body}}
		case 4: // the statement with its own WITH reads the enclosing CTE directly in its FROM (its own CTE is read by an IN-subquery or not at all)
			tags = append(tags, "nested-with:direct-read")
			z := &Stmt{From: r4Tbl("t"), Items: []Item{{E: Col("id")}}, Where: Cmp(Pick(r, cmpOps), Col("id"), Num(float64(1+r.Intn(4))))}
			body := r4Pass(r, t, r4Tbl("a"), &tags)
			body.With = []CTE{{Name: "z", Q: z}}
			if r.Bool() {
				body.Where = &Expr{K: "insub", Neg: r.Chance(30), A: Col("id"), Q: &Stmt{From: r4Tbl("<-", "z"), Items: []Item{{E: Col("id")}}}}
				tags = append(tags, "cte-through-backref")
			}
			if r.Bool() {
				q = outerOver(r, t, r4Tbl("b"), nil, &tags)
				q.With = []CTE{{Name: "a", Q: a}, {Name: "b", Q: body}}
			} else {
				q = outerOver(r, t, &From{K: "derived", Q: body, Alias: "x"}, []string{"x"}, &tags)
				q.With = []CTE{{Name: "a", Q: a}}
			}
		default: // an aggregate over the enclosing CTE inside the nested WITH; the enclosing CTE is read again outside
			tags = append(tags, "nested-with:aggregate+reread")
			z := &Stmt{From: r4Tbl("a"), Items: []Item{{E: Col("id")}, {E: Col("n1")}}}
			if r.Bool() {
				z.Where = Cmp(Pick(r, cmpOps), Col("n1"), Num(t.numConst(r)))
			}
			body := &Stmt{From: r4Tbl("z"), Items: []Item{{E: &Expr{K: "agg", Name: "count", Star: true}, Alias: "k"}, {E: &Expr{K: "agg", Name: "sum", Path: []string{"n1"}}, Alias: "s"}},
				With: []CTE{{Name: "z", Q: z}}}
			l := &Stmt{From: r4Tbl("b"), Items: []Item{{E: Col("k"), Alias: "id"}}}
			rr := &Stmt{From: r4Tbl("a"), Items: []Item{{E: Col("id")}}}
			q = &Stmt{Union: true, All: true, L: l, R: rr, With: []CTE{{Name: "a", Q: a}, {Name: "b", Q: body}}}
		}
		// staged: the same statement with the enclosing CTE `a` supplied as plain input under the key a
		if !q.Union {
			c := *q
			c.With = nil
			for _, w := range q.With {
				if w.Name != "a" {
					c.With = append(c.With, w)
				}
			}
			staged = &c
		}
		var inner *Stmt
		if staged != nil {
			inner = a
		}
		out = append(out, r4C07Case(doc, q, tags, len(t.rows) >= 2, staged, "a", inner))
	}
	return out
}

// r4ItemsTable: 1-4 rows with a nested array `items` of 0-4 objects {p, w} drawn from small pools (so that counts of
// matching elements, group sizes and distinct values vary between 0 and 3 from row to row)
func r4ItemsTable(r *Rand) table {
	t := genTable(r, 4)
	if len(t.rows) == 0 {
		t = genTable(r, 4)
	}
	for _, row := range t.rows {
		m := row.(map[string]any)
		k := r.Intn(5)
		items := make([]any, k)
		for j := range items {
			items[j] = map[string]any{"p": float64(r.Intn(4)), "w": Pick(r, []string{"a", "b", "c"})}
		}
		m["items"] = items
		m["n1"] = float64(r.Intn(4))
	}
	return t
}

func r4C07ExistsTail(r *Rand, tier string) []Case {
	n := 120
	if tier == "thorough" {
		n = 1500
	}
	var out []Case
	for i := 0; i < n; i++ {
		t := r4ItemsTable(r)
		doc := map[string]any{"t": t.rows}
		tags := []string{"exists-tail"}
		var p *Expr
		switch r.Intn(4) {
		case 0:
			p = Cmp(Pick(r, cmpOps), Col("p"), Num(float64(r.Intn(4))))
		case 1:
			p = Cmp(Pick(r, cmpOps), Col("p"), Col("n1"))
			tags = append(tags, "exists-correlated")
		case 2:
			p = And(Cmp(Pick(r, []string{"=", "!="}), Col("w"), Str(Pick(r, []string{"a", "b"}))), Cmp("<=", Col("p"), Col("id")))
			tags = append(tags, "exists-correlated")
		}
		sub := &Stmt{From: r4Tbl("items"), Items: []Item{{Star: true}}, Where: p}
		switch r.Intn(6) {
		case 0: // OFFSET k: at least k+1 matching elements
			sub.Limit, sub.Offset = intp(1+r.Intn(3)), intp(1+r.Intn(2))
			sub.LimitComma = r.Bool()
			tags = append(tags, "exists:offset")
		case 1: // LIMIT 0: never
			sub.Limit = intp(0)
			if r.Bool() {
				sub.Offset = intp(r.Intn(2))
			}
			tags = append(tags, "exists:limit-0")
		case 2: // GROUP BY / HAVING: some group of matching elements is large enough
			sub.Group = []string{Pick(r, []string{"w", "p"})}
			sub.Items = []Item{{E: Col(sub.Group[0])}, {E: &Expr{K: "agg", Name: "count", Star: true}, Alias: "c"}}
			sub.Having = Cmp(Pick(r, []string{">", ">=", "="}), &Expr{K: "agg", Name: "count", Star: true}, Num(float64(1+r.Intn(2))))
			tags = append(tags, "exists:group-having")
		case 3: // aggregate-only select list: exactly one row whatever the filter keeps
			sub.Items = []Item{{E: &Expr{K: "agg", Name: Pick(r, []string{"count", "count", "sum", "max"}), Star: true}, Alias: "c"}}
			if sub.Items[0].E.Name != "count" {
				sub.Items[0].E.Star, sub.Items[0].E.Path = false, []string{"p"}
			}
			if r.Chance(30) {
				sub.Limit, sub.Offset = intp(1), intp(r.Intn(2))
			}
			tags = append(tags, "exists:aggregate-only")
		case 4: // DISTINCT under a window: at least k+1 different values among the matching elements
			sub.Distinct = true
			sub.Items = []Item{{E: Col(Pick(r, []string{"w", "p"}))}}
			sub.Limit, sub.Offset = intp(1+r.Intn(2)), intp(1+r.Intn(2))
			tags = append(tags, "exists:distinct-offset")
		default: // an ordered window
			sub.Items = []Item{{E: Col("p")}, {E: Col("w")}}
			sub.Order = []OrderKey{{Path: []string{"p"}, Asc: r.Bool()}}
			sub.Limit, sub.Offset = intp(1+r.Intn(2)), intp(r.Intn(3))
			tags = append(tags, "exists:order-window")
		}
		var w *Expr = &Expr{K: "exists", Q: sub}
		if r.Chance(30) {
			w = Not(w)
			tags = append(tags, "exists:negated")
		}
		q := &Stmt{From: r4Tbl("t"), Items: []Item{{E: Col("id")}}, Where: w}
		if r.Chance(25) {
			// EXISTS as a value of the select list (CASE condition): every row reports its own verdict
			q = &Stmt{From: r4Tbl("t"), Items: []Item{{E: Col("id")}, {E: &Expr{K: "case", Whens: [][2]*Expr{{w, Num(1)}}, Else: Num(0)}, Alias: "e"}}}
			tags = append(tags, "exists:in-case")
		}
		out = append(out, r4C07Case(doc, q, tags, len(t.rows) >= 2, nil, "", nil))
	}
	return out
}

func r4C07InRows(r *Rand, tier string) []Case {
	n := 120
	if tier == "thorough" {
		n = 1500
	}
	var out []Case
	for i := 0; i < n; i++ {
		t := genTable(r, 4)
		if len(t.rows) == 0 {
			t = genTable(r, 4)
		}
		vals := func(key string, k int) []any {
			a := make([]any, k)
			for j := range a {
				a[j] = map[string]any{key: float64(r.Intn(5))}
			}
			return a
		}
		for _, row := range t.rows {
			m := row.(map[string]any)
			m["n1"] = float64(r.Intn(5))
			// own: rows named ref; tags: heterogeneous objects, every one with at least one of the keys a b c
			m["own"] = vals("ref", r.Intn(3))
			k := r.Intn(4)
			tg := make([]any, k)
			for j := range tg {
				o := map[string]any{}
				for _, key := range []string{"a", "b", "c"} {
					if r.Chance(45) {
						o[key] = float64(r.Intn(5))
					}
				}
				if len(o) == 0 {
					o[Pick(r, []string{"a", "b", "c"})] = float64(r.Intn(5))
				}
				tg[j] = o
			}
			m["tags"] = tg
		}
		doc := map[string]any{"t": t.rows, "shared": vals("code", r.Intn(4)), "more": vals("alt", r.Intn(3))}
		tags := []string{"in-rows"}
		var sub *Stmt
		switch r.Intn(4) {
		case 0, 1: // UNION [ALL] of branches that name their single column differently
			l := &Stmt{From: r4Tbl("own"), Items: []Item{{E: Col("ref")}}}
			rr := &Stmt{From: r4Tbl("<-", "shared"), Items: []Item{{E: Col("code")}}}
			if r.Chance(30) {
				rr.Where = Cmp(Pick(r, cmpOps), Col("code"), Num(float64(r.Intn(5))))
			}
			if r.Bool() {
				l, rr = rr, l
			}
			sub = &Stmt{Union: true, All: r.Bool(), L: l, R: rr}
			tags = append(tags, "in-rows:union-differently-named")
			if r.Chance(30) {
				sub = &Stmt{Union: true, All: r.Bool(), L: sub, R: &Stmt{From: r4Tbl("<-", "more"), Items: []Item{{E: Col("alt")}}}}
				tags = append(tags, "in-rows:union-3")
			}
		case 2: // SELECT * over heterogeneous nested objects
			sub = &Stmt{From: r4Tbl("tags"), Items: []Item{{Star: true}}}
			if r.Chance(30) {
				sub.Where = &Expr{K: "is", Op: Pick(r, []string{"NULL", "NOT NULL"}), A: Col(Pick(r, []string{"a", "b"}))}
			}
			tags = append(tags, "in-rows:star-heterogeneous")
		default: // heterogeneous objects next to a uniformly named branch
			sub = &Stmt{Union: true, All: true, L: &Stmt{From: r4Tbl("tags"), Items: []Item{{Star: true}}}, R: &Stmt{From: r4Tbl("own"), Items: []Item{{E: Col("ref")}}}}
			tags = append(tags, "in-rows:star+union")
		}
		neg := r.Chance(40)
		if neg {
			tags = append(tags, "in-rows:not-in")
		}
		var a *Expr = Col(Pick(r, []string{"n1", "id"}))
		if r.Chance(15) {
			a = Num(float64(r.Intn(5)))
		}
		w := &Expr{K: "insub", Neg: neg, A: a, Q: sub}
		q := &Stmt{From: r4Tbl("t"), Items: []Item{{E: Col("id")}}, Where: w}
		out = append(out, r4C07Case(doc, q, tags, len(t.rows) >= 2, nil, "", nil))
	}
	return out
}
