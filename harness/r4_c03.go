package main

// r4_c03.go — a further stream of C03 (registered through extraStreams):
//
//   aggregate-with-window   aggregates next to a LIMIT / OFFSET window and nothing that would reorder or merge rows (no
//                           ORDER BY, no DISTINCT): whole-table aggregates alone (one row computed over EVERY row that passed
//                           WHERE, then the window), whole-table aggregates beside plain columns (every returned row carries
//                           the total over all filtered rows), and GROUP BY with a window smaller than the number of groups
//                           (each returned group still holds all of its members). The window cuts the output rows; it never
//                           cuts the rows an aggregate is computed over.
//
// The second addition of round 4 — grouping keys that are nested paths or indexed selectors, which the model's flat
// [s_group] cannot express — is the observational stage in r4_c03paths.go + bin/stage_c03paths.py.

import "fmt"

func genC03AggWindow(r *Rand, tier string) []Case {
	n := 160
	if tier == "thorough" {
		n = 2500
	}
	var out []Case
	for i := 0; i < n; i++ {
		t := genGroupTable(r, 8)
		for len(t.rows) < 3 {
			t = genGroupTable(r, 8)
		}
		tags := []string{"stream:aggregate-with-window"}
		q := &Stmt{From: &From{K: "table", Path: []string{"t"}}}
		if r.Chance(50) {
			// a filter most rows pass, so that more rows remain than the window is wide
			switch r.Intn(3) {
			case 0:
				q.Where = Cmp(">=", Col("id"), Num(float64(1+r.Intn(2))))
			case 1:
				q.Where = Cmp("!=", Col("id"), Num(float64(1+r.Intn(len(t.rows)))))
			default:
				var sub []string
				q.Where = genPred(r, t, 1, &sub)
			}
			tags = append(tags, "where")
		}
		shape := r.Intn(10)
		switch {
		case shape < 4:
			tags = append(tags, "whole-table", "window:aggregates-only")
		case shape < 7:
			tags = append(tags, "whole-table", "window:aggregates-beside-columns")
			for _, c := range [][]string{{"id"}, {"id", "s1"}, {"n1"}}[r.Intn(3)] {
				q.Items = append(q.Items, Item{E: Col(c)})
			}
		default:
			q.Group = [][]string{{"g1"}, {"g2"}, {"n1"}, {"s1"}, {"g1", "b1"}}[r.Intn(5)]
			tags = append(tags, "window:grouped", fmt.Sprintf("groupcols:%d", len(q.Group)))
			if r.Bool() {
				for _, g := range q.Group {
					q.Items = append(q.Items, Item{E: Col(g)})
				}
			} else {
				q.Items = append(q.Items, Item{Star: true})
				tags = append(tags, "group-star")
			}
		}
		for j, k := 0, 1+r.Intn(3); j < k; j++ {
			q.Items = append(q.Items, genAggItem(r, &tags, fmt.Sprintf("a%d", j)))
		}
		q.Limit = intp(r.Intn(4))
		if r.Chance(70) {
			q.Limit = intp(1 + r.Intn(2))
		}
		if r.Chance(35) {
			q.Offset = intp(r.Intn(3))
			q.LimitComma = r.Bool()
			tags = append(tags, "window:offset")
		}
		tags = append(tags, fmt.Sprintf("window:limit:%d", *q.Limit))
		c := mkCase(map[string]any{"t": t.rows}, q, tags, true)
		in := c.Input.(engIn)
		in.Repeat = 3
		c.Input = in
		out = append(out, c)
	}
	return out
}

func init() {
	extraStreams["C03"] = append(extraStreams["C03"], genC03AggWindow)
}
