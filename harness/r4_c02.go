package main

// r4_c02.go — a further stream of C02 (registered through extraStreams):
//
//   case-branch-values   CASE items whose THEN / ELSE branches take every kind of value a branch can have — the NULL literal,
//                        a missing column, a column holding NULL, NULL arithmetic, a nested CASE with or without ELSE
//                        (which is NULL when none of its own branches holds), numbers, strings, booleans — under conditions
//                        drawn from the table so that on some rows a WHEN holds and on others none does. The value of a
//                        CASE is the value of the FIRST branch whose condition holds, NULL included; ELSE speaks only for
//                        rows on which no condition held.

import "fmt"

func caseCond(r *Rand, t table) *Expr {
	switch r.Intn(6) {
	case 0:
		return Cmp(Pick(r, cmpOps), Col(Pick(r, t.strCols)), Str(t.strConst(r)))
	case 1:
		lo, hi := t.numConst(r), t.numConst(r)
		if lo > hi {
			lo, hi = hi, lo
		}
		return &Expr{K: "between", A: Col(Pick(r, t.numCols)), B: Num(lo), C: Num(hi)}
	case 2:
		return &Expr{K: "is", Op: Pick(r, []string{"NULL", "NOT NULL"}), A: Col(Pick(r, []string{"z", "missing", "n1"}))}
	default:
		return Cmp(Pick(r, cmpOps), Col(Pick(r, t.numCols)), Num(t.numConst(r)))
	}
}

func caseBranch(r *Rand, t table, depth int, tags *[]string) *Expr {
	tag := func(s string) { *tags = append(*tags, "branch:"+s) }
	k := r.Intn(12)
	if depth == 0 && k >= 9 {
		k = r.Intn(9)
	}
	switch k {
	case 0, 1:
		tag("null-literal")
		return &Expr{K: "null"}
	case 2:
		tag("missing-column")
		return Col(Pick(r, []string{"missing", "z"}))
	case 3:
		tag("null-arithmetic")
		return Bin(Pick(r, []string{"+", "*", "-"}), Col(Pick(r, t.numCols)), Col(Pick(r, []string{"missing", "z"})))
	case 4, 5:
		tag("number-column")
		return Col(Pick(r, t.numCols))
	case 6:
		tag("number")
		return Num(Pick(r, []float64{0, 1, 7, 2.5, -3}))
	case 7:
		tag("string")
		if r.Bool() {
			return Col(Pick(r, t.strCols))
		}
		return Str(Pick(r, []string{"", "small", "huge", "x"}))
	case 8:
		tag("bool")
		return &Expr{K: "bool", Bool: r.Bool()}
	default:
		return genCaseExpr(r, t, depth-1, tags)
	}
}

func genCaseExpr(r *Rand, t table, depth int, tags *[]string) *Expr {
	e := &Expr{K: "case"}
	for n := 1 + r.Intn(3); n > 0; n-- {
		e.Whens = append(e.Whens, [2]*Expr{caseCond(r, t), caseBranch(r, t, depth, tags)})
	}
	if r.Chance(70) {
		e.Else = caseBranch(r, t, depth, tags)
		*tags = append(*tags, "case:with-else")
	} else {
		*tags = append(*tags, "case:without-else")
	}
	return e
}

func genC02CaseBranches(r *Rand, tier string) []Case {
	n := 150
	if tier == "thorough" {
		n = 2500
	}
	var out []Case
	for i := 0; i < n; i++ {
		t := genTable(r, 5)
		for len(t.rows) < 2 {
			t = genTable(r, 5)
		}
		tags := []string{"stream:case-branch-values"}
		items := []Item{{E: Col("id")}}
		for k, m := 0, 1+r.Intn(3); k < m; k++ {
			e := genCaseExpr(r, t, 2, &tags)
			if r.Chance(12) {
				// the CASE as an operand: a NULL result makes the arithmetic NULL
				e = Bin(Pick(r, []string{"+", "*"}), e, Num(float64(1+r.Intn(3))))
				tags = append(tags, "case:as-operand")
			}
			items = append(items, Item{E: e, Alias: fmt.Sprintf("c%d", k)})
		}
		q := &Stmt{From: &From{K: "table", Path: []string{"t"}}, Items: items}
		if r.Chance(20) {
			q.Where = caseCond(r, t)
		}
		tags = append(tags, fmt.Sprintf("items:%d", len(items)))
		out = append(out, mkCase(map[string]any{"t": t.rows}, q, tags, true))
	}
	return out
}

func init() {
	extraStreams["C02"] = append(extraStreams["C02"], genC02CaseBranches)
}
