package main

// c14extra.go — two observations on the real code that the C14 model (Model/Strategies.v: flat argument lists,
// registrations before the first query) does not reach:
//   once-in-args     a ONCE call among the arguments of an ASYNC / SPINASYNC / plain call is still invoked a single
//                    time per query and every row sees that value (C14_once_* theorems, lifted to nested positions)
//   late-immediate   a function registered as immediate AFTER queries have already run — under any letter case —
//                    still rejects ASYNC, SPIN and SPINASYNC (C14 registry theorem, lifted to late registration)
//   vharness aux c14extra -out <dir>

import (
	"fmt"
	"path/filepath"
	"sync"
	"sync/atomic"
	"time"

	genql "github.com/vedadiyan/genql"
)

func init() { auxRegistry["c14extra"] = runC14Extra }

func runC14Extra(tier string, seed uint64, out string) {
	var failures []map[string]any
	fail := func(kind, sql, detail string) {
		failures = append(failures, map[string]any{"kind": kind, "sql": sql, "detail": detail})
	}
	r := NewRand(seed)
	var tokCalls int64
	var mu sync.Mutex
	var seen [][]any
	genql.RegisterFunction("c14tok", func(_ *genql.Query, _ genql.Map, _ *genql.FunctionOptions, args []any) (any, error) {
		n := atomic.AddInt64(&tokCalls, 1)
		time.Sleep(time.Duration(2+r.Intn(3)) * time.Millisecond)
		return fmt.Sprintf("token-%d", n), nil
	})
	genql.RegisterFunction("c14use", func(_ *genql.Query, _ genql.Map, _ *genql.FunctionOptions, args []any) (any, error) {
		time.Sleep(time.Millisecond)
		mu.Lock()
		seen = append(seen, append([]any{}, args...))
		mu.Unlock()
		return args, nil
	})
	rows := []any{}
	for i := 1; i <= 5; i++ {
		rows = append(rows, map[string]any{"id": float64(i)})
	}
	doc := map[string]any{"t": rows}
	checks := 0
	for _, q := range []string{"ASYNC.c14use(id, ONCE.c14tok(id))", "SPINASYNC.c14use(id, ONCE.c14tok(id))", "c14use(id, ONCE.c14tok(id))",
		"ASYNC.c14use(ONCE.c14tok(1), id)", "SCOPED.c14use(id, ONCE.c14tok(id))"} {
		sql := "SELECT id, " + q + " AS v FROM t"
		atomic.StoreInt64(&tokCalls, 0)
		mu.Lock()
		seen = nil
		mu.Unlock()
		res := runEngine(deepCopy(doc).(map[string]any), sql)
		checks++
		if res.Class != "ok" {
			fail("once-in-args", sql, "query failed: "+res.Err)
			continue
		}
		if n := atomic.LoadInt64(&tokCalls); n != 1 {
			fail("once-in-args", sql, fmt.Sprintf("the ONCE function was invoked %d times for one query over %d rows", n, len(rows)))
		}
		mu.Lock()
		toks := map[any]bool{}
		for _, a := range seen {
			for _, x := range a {
				if s, ok := x.(string); ok {
					toks[s] = true
				}
			}
		}
		calls := len(seen)
		mu.Unlock()
		if len(toks) != 1 || calls != len(rows) {
			fail("once-in-args", sql, fmt.Sprintf("%d calls saw %d different ONCE values (want %d calls, 1 value)", calls, len(toks), len(rows)))
		}
	}
	// a derived table whose LIMIT / OFFSET removes every row has still started one ASYNC / SPINASYNC call per source row:
	// all of them have completed when Exec returns, and a failing ASYNC call fails the query
	{
		var started, completed int64
		genql.RegisterFunction("c14slow", func(_ *genql.Query, _ genql.Map, _ *genql.FunctionOptions, args []any) (any, error) {
			atomic.AddInt64(&started, 1)
			time.Sleep(time.Duration(3+r.Intn(4)) * time.Millisecond)
			atomic.AddInt64(&completed, 1)
			if len(args) > 1 {
				return nil, fmt.Errorf("c14slow: asked to fail")
			}
			return args[0], nil
		})
		for _, win := range []string{"LIMIT 0", "LIMIT 10, 2", "LIMIT 2 OFFSET 6", "LIMIT 3"} {
			for _, qual := range []string{"ASYNC", "SPINASYNC"} {
				sql := "SELECT * FROM (SELECT " + qual + ".c14slow(id) AS v FROM t " + win + ") AS d"
				if qual == "SPINASYNC" {
					sql = "SELECT * FROM (SELECT id, " + qual + ".c14slow(id) FROM t " + win + ") AS d"
				}
				atomic.StoreInt64(&started, 0)
				atomic.StoreInt64(&completed, 0)
				res := runEngine(deepCopy(doc).(map[string]any), sql)
				st, co := atomic.LoadInt64(&started), atomic.LoadInt64(&completed)
				checks++
				if res.Class != "ok" {
					fail("derived-window", sql, "query failed: "+res.Err)
				} else if st != co || st != int64(len(rows)) {
					fail("derived-window", sql, fmt.Sprintf("when Exec returned %d calls had started and %d had completed (want %d and %d)", st, co, len(rows), len(rows)))
				}
				time.Sleep(12 * time.Millisecond)
			}
			sql := "SELECT * FROM (SELECT ASYNC.c14slow(id, 1) AS v FROM t " + win + ") AS d"
			res := runEngine(deepCopy(doc).(map[string]any), sql)
			checks++
			if res.Class == "ok" {
				fail("derived-window", sql, "a failing ASYNC call inside the derived table did not fail the query")
			}
			time.Sleep(12 * time.Millisecond)
		}
	}
	// late registration of immediate functions, after queries (with function calls) have run
	for _, name := range []string{"c14LateImm", "c14lateimm2", "C14LATEIMM3", "c14_Late_Imm4"} {
		var invoked int64
		genql.RegisterImmediateFunction(name, func(_ *genql.Query, _ genql.Map, _ *genql.FunctionOptions, args []any) (any, error) {
			atomic.AddInt64(&invoked, 1)
			return float64(1), nil
		})
		for _, qual := range []string{"ASYNC", "SPIN", "SPINASYNC", "async", "Spin"} {
			sql := "SELECT " + qual + "." + name + "(id) AS v FROM t"
			res := runEngine(deepCopy(doc).(map[string]any), sql)
			checks++
			if res.Class == "ok" {
				fail("late-immediate", sql, "an immediate function registered after the first query accepted the qualifier")
			}
		}
		time.Sleep(5 * time.Millisecond)
		if n := atomic.LoadInt64(&invoked); n != 0 {
			fail("late-immediate", name, fmt.Sprintf("the immediate function was invoked %d times under a rejected qualifier", n))
		}
		sql := "SELECT " + name + "(id) AS v FROM t"
		if res := runEngine(deepCopy(doc).(map[string]any), sql); res.Class != "ok" {
			fail("late-immediate", sql, "the unqualified call of the immediate function failed: "+res.Err)
		}
		checks++
	}
	writeJSON(filepath.Join(out, "c14extra.json"), map[string]any{"checks": checks, "failures": failures})
}
