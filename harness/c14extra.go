package main

// c14extra.go — two observations on the real code that the C14 model (Model/Strategies.v: flat argument lists,
// registrations before the first query) does not reach:
//   once-in-args     a ONCE call among the arguments of an ASYNC / SPINASYNC / plain call is still invoked a single
//                    time per query and every row sees that value (C14_once_* theorems, lifted to nested positions)
//   late-immediate   a function registered as immediate AFTER queries have already run — under any letter case —
//                    still rejects ASYNC, SPIN and SPINASYNC (C14 registry theorem, lifted to late registration)
//   vharness aux c14extra -out <dir>

import (
	"fmt"
	"path/filepath"
	"sync"
	"sync/atomic"
	"time"

	genql "github.com/vedadiyan/genql"
)

func init() { auxRegistry["c14extra"] = runC14Extra }

func runC14Extra(tier string, seed uint64, out string) {
	var failures []map[string]any
	fail := func(kind, sql, detail string) {
		failures = append(failures, map[string]any{"kind": kind, "sql": sql, "detail": detail})
	}
	r := NewRand(seed)
	var tokCalls int64
	var mu sync.Mutex
	var seen [][]any
	genql.RegisterFunction("c14tok", func(_ *genql.Query, _ genql.Map, _ *genql.FunctionOptions, args []any) (any, error) {
		n := atomic.AddInt64(&tokCalls, 1)
		time.Sleep(time.Duration(2+r.Intn(3)) * time.Millisecond)
		return fmt.Sprintf("token-%d", n), nil
	})
	genql.RegisterFunction("c14use", func(_ *genql.Query, _ genql.Map, _ *genql.FunctionOptions, args []any) (any, error) {
		time.Sleep(time.Millisecond)
		mu.Lock()
		seen = append(seen, append([]any{}, args...))
		mu.Unlock()
		return args, nil
	})
	rows := []any{}
	for i := 1; i <= 5; i++ {
		rows = append(rows, map[string]any{"id": float64(i)})
	}
	doc := map[string]any{"t": rows}
	checks := 0
	for _, q := range []string{"ASYNC.c14use(id, ONCE.c14tok(id))", "SPINASYNC.c14use(id, ONCE.c14tok(id))", "c14use(id, ONCE.c14tok(id))",
		"ASYNC.c14use(ONCE.c14tok(1), id)", "SCOPED.c14use(id, ONCE.c14tok(id))"} {
		sql := "SELECT id, " + q + " AS v FROM t"
		atomic.StoreInt64(&tokCalls, 0)
		mu.Lock()
		seen = nil
		mu.Unlock()
		res := runEngine(deepCopy(doc).(map[string]any), sql)
		checks++
		if res.Class != "ok" {
			fail("once-in-args", sql, "query failed: "+res.Err)
			continue
		}
		if n := atomic.LoadInt64(&tokCalls); n != 1 {
			fail("once-in-args", sql, fmt.Sprintf("the ONCE function was invoked %d times for one query over %d rows", n, len(rows)))
		}
		mu.Lock()
		toks := map[any]bool{}
		for _, a := range seen {
			for _, x := range a {
				if s, ok := x.(string); ok {
					toks[s] = true
				}
			}
		}
		calls := len(seen)
		mu.Unlock()
		if len(toks) != 1 || calls != len(rows) {
			fail("once-in-args", sql, fmt.Sprintf("%d calls saw %d different ONCE values (want %d calls, 1 value)", calls, len(toks), len(rows)))
		}
	}
	// a derived table whose LIMIT / OFFSET removes every row has still started one ASYNC / SPINASYNC call per source row:
	// all of them have completed when Exec returns, and a failing ASYNC call fails the query
	{
		var started, completed int64
		genql.RegisterFunction("c14slow", func(_ *genql.Query, _ genql.Map, _ *genql.FunctionOptions, args []any) (any, error) {
			atomic.AddInt64(&started, 1)
			time.Sleep(time.Duration(3+r.Intn(4)) * time.Millisecond)
			atomic.AddInt64(&completed, 1)
			if len(args) > 1 {
				return nil, fmt.Errorf("c14slow: asked to fail")
			}
			return args[0], nil
		})
		for _, win := range []string{"LIMIT 0", "LIMIT 10, 2", "LIMIT 2 OFFSET 6", "LIMIT 3"} {
			for _, qual := range []string{"ASYNC", "SPINASYNC"} {
				sql := "SELECT * FROM (SELECT " + qual + ".c14slow(id) AS v FROM t " + win + ") AS d"
				if qual == "SPINASYNC" {
					sql = "SELECT * FROM (SELECT id, " + qual + ".c14slow(id) FROM t " + win + ") AS d"
				}
				atomic.StoreInt64(&started, 0)
				atomic.StoreInt64(&completed, 0)
				res := runEngine(deepCopy(doc).(map[string]any), sql)
				st, co := atomic.LoadInt64(&started), atomic.LoadInt64(&completed)
				checks++
				if res.Class != "ok" {
					fail("derived-window", sql, "query failed: "+res.Err)
				} else if st != co || st != int64(len(rows)) {
					fail("derived-window", sql, fmt.Sprintf("when Exec returned %d calls had started and %d had completed (want %d and %d)", st, co, len(rows), len(rows)))
				}
				time.Sleep(12 * time.Millisecond)
			}
			sql := "SELECT * FROM (SELECT ASYNC.c14slow(id, 1) AS v FROM t " + win + ") AS d"
			res := runEngine(deepCopy(doc).(map[string]any), sql)
			checks++
			if res.Class == "ok" {
				fail("derived-window", sql, "a failing ASYNC call inside the derived table did not fail the query")
			}
			time.Sleep(12 * time.Millisecond)
		}
	}
	// neighbours: a select item does what it does whatever stands next to it.
	//  same-alias    two items under ONE alias, one of them a qualified call that may resolve to the omit marker
	//                (an effect-only argument): the rows equal those of the same list with the qualifiers removed
	//  same-function the SAME function under two different qualifiers in one list (ONCE next to GLOBAL, ASYNC next to
	//                ONCE, ...): every item has the value it has in the list that holds it alone (each strategy keeps
	//                its own memo), in either order
	{
		genql.RegisterFunction("c14desc", func(_ *genql.Query, _ genql.Map, _ *genql.FunctionOptions, args []any) (any, error) {
			time.Sleep(300 * time.Microsecond)
			return fmt.Sprintf("%v", args), nil
		})
		genql.RegisterFunction("c14id", func(_ *genql.Query, _ genql.Map, _ *genql.FunctionOptions, args []any) (any, error) {
			time.Sleep(300 * time.Microsecond)
			return args[0], nil // hands the omit marker of an effect-only argument through
		})
		doc2 := map[string]any{"t": []any{map[string]any{"id": 1.0, "b": "p"}, map[string]any{"id": 2.0, "b": "q"}, map[string]any{"id": 3.0, "b": "r"}}}
		rowsOf := func(sql string) (string, bool) {
			res := runEngine(deepCopy(doc2).(map[string]any), sql)
			if res.Class != "ok" {
				return "error", false
			}
			return fmt.Sprint(jsonSafe(anySlice(res.Rows))), true
		}
		quiet := "RAISE_WHEN((id = 99), 'boom')"
		xs := []string{"%sc14id(" + quiet + ")", "%sc14desc(b)", "%sc14desc(id, " + quiet + ")", "%sc14id(b)"}
		ys := []string{"b", "c14desc(id)", "%sc14desc(id)"}
		for _, qual := range []string{"ASYNC.", "SCOPED.", "ONCE."} {
			for _, x := range xs {
				for _, y := range ys {
					for _, order := range []int{0, 1} {
						a, b := x, y
						if order == 1 {
							a, b = y, x
						}
						mk := func(q string) string {
							f := func(t string) string {
								if len(t) > 2 && t[:2] == "%s" {
									return q + t[2:]
								}
								return t
							}
							return "SELECT id, " + f(a) + " AS x, " + f(b) + " AS x FROM t"
						}
						if qual == "ONCE." {
							continue // ONCE changes the value itself (first row's arguments): compared in same-function below
						}
						got, _ := rowsOf(mk(qual))
						want, _ := rowsOf(mk(""))
						checks++
						if got != want {
							fail("same-alias", mk(qual), "rows "+got+" differ from the unqualified list's "+want)
						}
					}
				}
			}
		}
		calls := map[string]string{"": "c14desc(id)", "ASYNC": "ASYNC.c14desc(id)", "ONCE": "ONCE.c14desc(id)", "SCOPED": "SCOPED.c14desc(id)",
			"GLOBAL": "GLOBAL.c14desc((SELECT id FROM t))", "ONCE2": "ONCE.c14desc(b, id)"}
		col := func(sql, name string) (string, bool) {
			res := runEngine(deepCopy(doc2).(map[string]any), sql)
			if res.Class != "ok" {
				return "error: " + res.Err, false
			}
			var vs []any
			for _, row := range res.Rows {
				if m, ok := row.(map[string]any); ok {
					vs = append(vs, m[name])
				}
			}
			return fmt.Sprint(jsonSafe(vs)), true
		}
		names := []string{"", "ASYNC", "ONCE", "SCOPED", "GLOBAL", "ONCE2"}
		for _, qa := range names {
			for _, qb := range names {
				if qa == qb || (qa == "ONCE" && qb == "ONCE2") || (qa == "ONCE2" && qb == "ONCE") {
					continue // two ONCE calls of one function share the memo by design (C14 assumption)
				}
				pair := "SELECT id, " + calls[qa] + " AS u, " + calls[qb] + " AS w FROM t"
				wantU, okU := col("SELECT id, "+calls[qa]+" AS u FROM t", "u")
				wantW, okW := col("SELECT id, "+calls[qb]+" AS w FROM t", "w")
				if !okU || !okW {
					continue // a spelling this engine rejects on its own is not compared
				}
				gotU, ok1 := col(pair, "u")
				gotW, _ := col(pair, "w")
				checks++
				if !ok1 {
					fail("same-function", pair, "the pair fails ("+gotU+") although each item alone succeeds")
				} else if gotU != wantU || gotW != wantW {
					fail("same-function", pair, fmt.Sprintf("u = %s (alone: %s), w = %s (alone: %s)", gotU, wantU, gotW, wantW))
				}
			}
		}
	}
	// late registration of immediate functions, after queries (with function calls) have run
	for _, name := range []string{"c14LateImm", "c14lateimm2", "C14LATEIMM3", "c14_Late_Imm4"} {
		var invoked int64
		genql.RegisterImmediateFunction(name, func(_ *genql.Query, _ genql.Map, _ *genql.FunctionOptions, args []any) (any, error) {
			atomic.AddInt64(&invoked, 1)
			return float64(1), nil
		})
		for _, qual := range []string{"ASYNC", "SPIN", "SPINASYNC", "async", "Spin"} {
			sql := "SELECT " + qual + "." + name + "(id) AS v FROM t"
			res := runEngine(deepCopy(doc).(map[string]any), sql)
			checks++
			if res.Class == "ok" {
				fail("late-immediate", sql, "an immediate function registered after the first query accepted the qualifier")
			}
		}
		time.Sleep(5 * time.Millisecond)
		if n := atomic.LoadInt64(&invoked); n != 0 {
			fail("late-immediate", name, fmt.Sprintf("the immediate function was invoked %d times under a rejected qualifier", n))
		}
		sql := "SELECT " + name + "(id) AS v FROM t"
		if res := runEngine(deepCopy(doc).(map[string]any), sql); res.Class != "ok" {
			fail("late-immediate", sql, "the unqualified call of the immediate function failed: "+res.Err)
		}
		checks++
	}
	writeJSON(filepath.Join(out, "c14extra.json"), map[string]any{"checks": checks, "failures": failures})
}
