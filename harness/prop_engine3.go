package main

import (
	"encoding/json"
	"fmt"
)

// ---------- C07: CTEs, derived tables, subqueries ----------

// innerQuery returns a filter/projection/aggregate/order query over table "t" whose result rows are
// plain objects with predictable columns.
func innerQuery(r *Rand, t table, tags *[]string) (*Stmt, []string, []string) {
	q := &Stmt{From: &From{K: "table", Path: []string{"t"}}}
	if r.Chance(60) {
		var sub []string
		q.Where = genPred(r, t, 1, &sub)
		for _, s := range sub {
			if s == "op:in-subquery" {
				q.Where = Cmp(">=", Col("n1"), Num(t.numConst(r)))
			}
		}
	}
	switch r.Intn(4) {
	case 0:
		*tags = append(*tags, "inner:star")
		q.Items = []Item{{Star: true}}
		return q, []string{"n1", "n2", "id"}, []string{"s1", "s2"}
	case 1:
		*tags = append(*tags, "inner:project")
		q.Items = []Item{{E: Col("id")}, {E: Bin("+", Col("n1"), Num(1)), Alias: "n1"}, {E: Col("n2")}, {E: Col("s1")}, {E: Col("s2")}, {E: Col("o")}}
		return q, []string{"n1", "n2", "id"}, []string{"s1", "s2"}
	case 2:
		*tags = append(*tags, "inner:aggregate")
		q.Group = []string{"s1"}
		q.Items = []Item{{E: Col("s1")}, {E: &Expr{K: "agg", Name: "count", Star: true}, Alias: "n1"}, {E: &Expr{K: "agg", Name: "sum", Path: []string{"n2"}}, Alias: "n2"},
			{E: &Expr{K: "agg", Name: "max", Path: []string{"id"}}, Alias: "id"}, {E: Col("s1"), Alias: "s2"}}
		return q, []string{"n1", "n2", "id"}, []string{"s1", "s2"}
	default:
		*tags = append(*tags, "inner:order-limit")
		q.Items = []Item{{Star: true}}
		q.Order = []OrderKey{{Path: []string{"id"}, Asc: false}}
		q.Limit = intp(1 + r.Intn(4))
		return q, []string{"n1", "n2", "id"}, []string{"s1", "s2"}
	}
}

// outerOver builds an outer query reading rows through `prefix` (alias prefix for derived tables).
func outerOver(r *Rand, t table, from *From, prefix []string, tags *[]string) *Stmt {
	col := func(c string) *Expr { return Col(append(append([]string{}, prefix...), c)...) }
	q := &Stmt{From: from}
	if r.Chance(60) {
		switch r.Intn(3) {
		case 0:
			q.Where = Cmp(Pick(r, cmpOps), col(Pick(r, []string{"n1", "n2", "id"})), Num(t.numConst(r)))
		case 1:
			q.Where = Cmp(Pick(r, cmpOps), col("s1"), Str(t.strConst(r)))
		default:
			q.Where = And(Cmp(">", col("id"), Num(0)), Not(Cmp("=", col("s2"), Str(t.strConst(r)))))
		}
		*tags = append(*tags, "outer:where")
	}
	switch r.Intn(3) {
	case 0:
		q.Items = []Item{{Star: true}}
	case 1:
		q.Items = []Item{{E: col("id"), Alias: "i"}, {E: Bin("*", col("n1"), Num(2)), Alias: "d"}, {E: col("s1"), Alias: "s"}}
	default:
		q.Items = []Item{{E: &Expr{K: "agg", Name: "count", Star: true}, Alias: "c"}, {E: &Expr{K: "agg", Name: "sum", Path: append(append([]string{}, prefix...), "n1")}, Alias: "s"}}
		*tags = append(*tags, "outer:aggregate")
	}
	return q
}

type c07In struct {
	engIn
	// staged: the same outer query over a document in which the inner result is plain input
	StagedQ   *Stmt  `json:"staged_q,omitempty"`
	StagedKey string `json:"staged_key,omitempty"`
	InnerQ    *Stmt  `json:"inner_q,omitempty"`
}

func genC07(r *Rand, tier string) []Case {
	n := 700
	if tier == "thorough" {
		n = 8000
	}
	var out []Case
	for i := 0; i < n; i++ {
		t := genTable(r, 5)
		// nested arrays for row-scoped subqueries; distinct column names from the outer row
		for _, row := range t.rows {
			m := row.(map[string]any)
			k := r.Intn(4)
			items := make([]any, k)
			for j := range items {
				items[j] = map[string]any{"p": Pick(r, numPool[:6]), "w": Pick(r, strPool[:5])}
			}
			m["items"] = items
		}
		vals := []any{}
		for k := r.Intn(4); k > 0; k-- {
			vals = append(vals, map[string]any{"v": t.numConst(r)})
		}
		doc := map[string]any{"t": t.rows, "vals": vals}
		var tags []string
		var q, staged, inner *Stmt
		stagedKey := ""
		switch r.Intn(12) {
		case 11: // UNION ALL branches with their own WITH below an enclosing WITH of 1-6 CTEs read by a further branch
			tags = append(tags, "union-branches-own-with")
			nc := 1 + r.Intn(6)
			tags = append(tags, fmt.Sprintf("enclosing-ctes:%d", nc))
			var encl []CTE
			for k := 1; k <= nc; k++ {
				encl = append(encl, CTE{Name: fmt.Sprintf("c%d", k), Q: &Stmt{From: &From{K: "table", Path: []string{"t"}}, Items: []Item{{E: Col("id")}, {E: Col("n1")}},
					Where: Cmp(Pick(r, cmpOps), Col("id"), Num(float64(k)))}})
			}
			own := func(name string) *Stmt {
				iq := &Stmt{From: &From{K: "table", Path: []string{"t"}}, Items: []Item{{E: Col("id")}, {E: Col("n1")}}, Where: Cmp(Pick(r, cmpOps), Col("n1"), Num(t.numConst(r)))}
				return &Stmt{From: &From{K: "table", Path: []string{name}}, Items: []Item{{E: Col("id")}}, With: []CTE{{Name: name, Q: iq}}}
			}
			names := Pick(r, [][2]string{{"x", "y"}, {"x", "x"}, {"c1", "y"}})
			third := &Stmt{From: &From{K: "table", Path: []string{fmt.Sprintf("c%d", nc)}}, Items: []Item{{E: Col("id")}}}
			q = &Stmt{Union: true, All: true, With: encl, L: &Stmt{Union: true, All: true, L: own(names[0]), R: own(names[1])}, R: third}
			if r.Chance(35) {
				// the same parsed union (operands with their own WITH) is built twice: it is the body of a CTE that both
				// sides of an outer UNION ALL read
				tags = append(tags, "union-body-built-twice")
				body := &Stmt{Union: true, All: r.Bool(), L: own(names[0]), R: own(names[1])}
				read := func() *Stmt { return &Stmt{From: &From{K: "table", Path: []string{"w"}}, Items: []Item{{Star: true}}} }
				q = &Stmt{Union: true, All: true, With: []CTE{{Name: "w", Q: body}}, L: read(), R: read()}
			}
		case 9: // a CTE whose body has its own WITH re-using the name of an enclosing CTE; the enclosing one is read afterwards
			tags = append(tags, "cte-nested-with-same-name")
			q1, _, _ := innerQuery(r, t, &tags)
			q2, _, _ := innerQuery(r, t, &tags)
			q1.Items, q2.Items = []Item{{E: Col("id")}, {E: Col("n1")}}, []Item{{E: Col("id")}, {E: Col("n1")}}
			q1.Group, q2.Group = nil, nil
			body := &Stmt{From: &From{K: "table", Path: []string{"a"}}, Items: []Item{{Star: true}}, With: []CTE{{Name: "a", Q: q2}}}
			// the enclosing CTE is read afterwards: by a join partner, or through `<-` from an IN-subquery / a select-list subquery
			switch r.Intn(3) {
			case 0:
				q = &Stmt{From: &From{K: "join", JT: Pick(r, []string{"inner", "left"}), Strat: "auto", L: &From{K: "table", Path: []string{"b"}, Alias: "x"},
					R: &From{K: "table", Path: []string{"a"}, Alias: "y"}, On: Cmp(Pick(r, []string{"=", "!=", "<="}), Col("x", "id"), Col("y", "id"))},
					Items: []Item{{E: Col("x", "id"), Alias: "bid"}, {E: Col("y", "id"), Alias: "aid"}, {E: Col("y", "n1"), Alias: "an"}}}
			case 1:
				q = &Stmt{From: &From{K: "table", Path: []string{"b"}}, Items: []Item{{E: Col("id")}},
					Where: &Expr{K: "insub", Neg: r.Bool(), A: Col("id"), Q: &Stmt{From: &From{K: "table", Path: []string{"<-", "a"}}, Items: []Item{{E: Col("id")}}}}}
				tags = append(tags, "cte-through-backref")
			default:
				q = &Stmt{From: &From{K: "table", Path: []string{"b"}}, Items: []Item{{E: Col("id")},
					{E: &Expr{K: "sub", Q: &Stmt{From: &From{K: "table", Path: []string{"<-", "a"}}, Items: []Item{{E: &Expr{K: "agg", Name: "count", Star: true}, Alias: "k"}}}}, Alias: "na"}}}
				tags = append(tags, "cte-through-backref")
			}
			q.With = []CTE{{Name: "a", Q: q1}, {Name: "b", Q: body}}
		case 10: // two-level subquery: the inner one reads the OUTER row's nested array through the first subquery
			tags = append(tags, "subquery-two-level-mixed")
			for _, v := range vals {
				v.(map[string]any)["v"] = Pick(r, numPool[:6])
			}
			lvl2 := &Stmt{From: &From{K: "table", Path: []string{"<-", "items"}}, Items: []Item{{E: Col("p")}}}
			var w *Expr = &Expr{K: "insub", Neg: r.Chance(30), A: Col("v"), Q: lvl2}
			if r.Bool() {
				w = &Expr{K: "exists", Q: &Stmt{From: &From{K: "table", Path: []string{"<-", "items"}}, Items: []Item{{Star: true}}, Where: Cmp(">=", Col("p"), Num(float64(r.Intn(4))))}}
			}
			sub := &Stmt{From: &From{K: "table", Path: []string{"<-", "vals"}}, Items: []Item{{E: &Expr{K: "agg", Name: "count", Star: true}, Alias: "k"}}, Where: w}
			q = &Stmt{From: &From{K: "table", Path: []string{"t"}}, Items: []Item{{E: Col("id")}, {E: &Expr{K: "sub", Q: sub}, Alias: "sub"}}}
		case 0, 1: // single CTE
			tags = append(tags, "cte")
			inner, _, _ = innerQuery(r, t, &tags)
			cname := "c"
			if r.Chance(15) {
				cname = "dual" // a CTE may be called like the pseudo table: FROM dual then reads the CTE
				tags = append(tags, "cte-named-dual")
			}
			q = outerOver(r, t, &From{K: "table", Path: []string{cname}}, nil, &tags)
			q.With = []CTE{{Name: cname, Q: inner}}
			staged = outerOver2(q, &From{K: "table", Path: []string{"staged"}})
			stagedKey = "staged"
		case 2: // CTE chain: c2 reads c1
			tags = append(tags, "cte-chain")
			inner, _, _ = innerQuery(r, t, &tags)
			mid := outerOver(r, t, &From{K: "table", Path: []string{"c1"}}, nil, &tags)
			mid.Items = []Item{{Star: true}}
			q = outerOver(r, t, &From{K: "table", Path: []string{"c2"}}, nil, &tags)
			q.With = []CTE{{Name: "c1", Q: inner}, {Name: "c2", Q: mid}}
			if r.Chance(30) { // declared in the other order: later CTEs are visible too (thunks)
				q.With = []CTE{{Name: "c2", Q: mid}, {Name: "c1", Q: inner}}
				tags = append(tags, "cte-chain-reversed")
			}
		case 3: // CTE read through a path, and shadowing a document key
			tags = append(tags, "cte-path")
			inner = &Stmt{From: &From{K: "table", Path: []string{"t"}}, Items: []Item{{E: Col("items")}, {E: Col("id")}}}
			q = &Stmt{From: &From{K: "table", Path: []string{"c", "items"}}, Items: []Item{{Star: true}}, With: []CTE{{Name: "c", Q: inner}}}
			if r.Bool() {
				q.Where = Cmp(">", Col("p"), Num(1))
			}
		case 4: // derived table
			tags = append(tags, "derived")
			inner, _, _ = innerQuery(r, t, &tags)
			q = outerOver(r, t, &From{K: "derived", Q: inner, Alias: "d"}, []string{"d"}, &tags)
			if r.Chance(40) {
				// an outer LIMIT/OFFSET next to DISTINCT or an aggregate-only select list must apply to the OUTER result
				if r.Bool() {
					q.Items = []Item{{E: Col("d", Pick(r, []string{"s1", "s2", "n1"})), Alias: "g"}}
					q.Distinct = true
					tags = append(tags, "derived-distinct-limit")
				} else {
					q.Items = []Item{{E: &Expr{K: "agg", Name: "count", Star: true}, Alias: "k"}, {E: &Expr{K: "agg", Name: "sum", Path: []string{"d", "n1"}}, Alias: "s"}}
					tags = append(tags, "derived-aggregate-limit")
				}
				q.Limit = intp(1 + r.Intn(2))
				if r.Bool() {
					q.Offset = intp(r.Intn(2))
				}
			}
		case 5: // select-list subquery against the current row
			tags = append(tags, "subquery-row")
			sub := &Stmt{From: &From{K: "table", Path: []string{"items"}}, Items: []Item{{E: Col("p")}}}
			if r.Bool() {
				sub.Where = Cmp(Pick(r, cmpOps), Col("p"), Num(float64(r.Intn(4))))
			}
			if r.Chance(30) {
				sub.Items = []Item{{E: &Expr{K: "agg", Name: "count", Star: true}, Alias: "c"}}
				tags = append(tags, "subquery-aggregate")
			}
			q = &Stmt{From: &From{K: "table", Path: []string{"t"}}, Items: []Item{{E: Col("id")}, {E: &Expr{K: "sub", Q: sub}, Alias: "sub"}}}
		case 6: // subquery navigating back to the root
			tags = append(tags, "subquery-root")
			sub := &Stmt{From: &From{K: "table", Path: []string{"<-", "vals"}}, Items: []Item{{E: Col("v")}}}
			if r.Bool() {
				sub.Where = Cmp(">", Col("v"), Num(t.numConst(r)))
			}
			if r.Chance(45) {
				// reads a root table AND is correlated to the current row (through `<-`): differs per row
				back := Col("<-", Pick(r, []string{"n1", "n2", "id"}))
				if r.Bool() {
					back.Qualified = true // the spelling `<-`.n1 of the same reference
					tags = append(tags, "backref-qualified-spelling")
				}
				sub.Where = Cmp(Pick(r, cmpOps), Col("v"), back)
				tags = append(tags, "subquery-root-correlated")
				if r.Bool() {
					sub.Items = []Item{{E: &Expr{K: "agg", Name: "count", Star: true}, Alias: "k"}}
				}
			}
			q = &Stmt{From: &From{K: "table", Path: []string{"t"}}, Items: []Item{{E: Col("id")}, {E: &Expr{K: "sub", Q: sub}, Alias: "sub"}}}
			if r.Chance(30) {
				// the subquery reads a CTE of the enclosing query through the back-reference (one and two levels up)
				tags = append(tags, "cte-through-backref")
				inner, _, _ = innerQuery(r, t, &tags)
				inner.Items, inner.Group = []Item{{E: Col("id")}, {E: Col("n1")}}, nil
				rd := &Stmt{From: &From{K: "table", Path: []string{"<-", "c"}}, Items: []Item{{E: Col("id")}}, Where: Cmp(Pick(r, cmpOps), Col("n1"), Col("<-", "n1"))}
				var e *Expr = &Expr{K: "sub", Q: rd}
				if r.Bool() {
					rd2 := &Stmt{From: &From{K: "table", Path: []string{"<-", "<-", "c"}}, Items: []Item{{E: &Expr{K: "agg", Name: "count", Star: true}, Alias: "k"}}}
					e = &Expr{K: "sub", Q: &Stmt{From: &From{K: "dual"}, Items: []Item{{E: &Expr{K: "sub", Q: rd2}, Alias: "y"}}}}
				}
				q = &Stmt{From: &From{K: "table", Path: []string{"t"}}, Items: []Item{{E: Col("id")}, {E: e, Alias: "sub"}}, With: []CTE{{Name: "c", Q: inner}}}
				inner = nil
			}
		case 7: // EXISTS over the nested array, predicate may mention outer columns
			tags = append(tags, "exists")
			var p *Expr
			switch r.Intn(3) {
			case 0:
				p = Cmp(Pick(r, cmpOps), Col("p"), Num(float64(r.Intn(4))))
			case 1:
				p = Cmp(Pick(r, cmpOps), Col("p"), Col("n1"))
				tags = append(tags, "exists-correlated")
			default:
				p = And(Cmp("=", Col("w"), Col("s1")), Cmp("<=", Col("p"), Col("id")))
				tags = append(tags, "exists-correlated")
			}
			sub := &Stmt{From: &From{K: "table", Path: []string{"items"}}, Items: []Item{{Star: true}}, Where: p}
			ex := &Expr{K: "exists", Q: sub}
			q = &Stmt{From: &From{K: "table", Path: []string{"t"}}, Items: []Item{{E: Col("id")}}, Where: ex}
			if r.Chance(30) {
				q.Where = Not(ex)
			}
		default: // CTE used twice: derived from it and IN-subquery... kept simple: two reads through union
			tags = append(tags, "cte-multi-use")
			inner, _, _ = innerQuery(r, t, &tags)
			a := outerOver(r, t, &From{K: "table", Path: []string{"c"}}, nil, &tags)
			a.Items = []Item{{E: Col("id")}}
			b := &Stmt{From: &From{K: "table", Path: []string{"c"}}, Items: []Item{{E: Col("id")}}}
			q = &Stmt{Union: true, All: true, L: a, R: b, With: []CTE{{Name: "c", Q: inner}}}
		}
		in := c07In{engIn: engIn{Doc: doc, Q: q, SQL: q.SQL()}, StagedQ: staged, StagedKey: stagedKey, InnerQ: inner}
		out = append(out, Case{Input: in, Tags: tags, Nontrivial: len(t.rows) >= 2, Key: q.SQL() + fmt.Sprint(doc)})
	}
	// EXISTS / IN over LONG nested arrays whose only matching element sits near the end
	for _, shape := range [][2]int{{300, 280}, {257, 256}, {600, 599}, {256, 255}, {70, 69}} {
		rows := []any{}
		for id := 1; id <= 3; id++ {
			items := make([]any, shape[0])
			for j := range items {
				items[j] = map[string]any{"p": float64(j % 5), "w": "x"}
			}
			if id != 2 {
				items[shape[1]] = map[string]any{"p": float64(77), "w": "hit"}
			}
			rows = append(rows, map[string]any{"id": float64(id), "n1": float64(70 + id*7), "items": items})
		}
		doc := map[string]any{"t": rows}
		for _, w := range []*Expr{
			{K: "exists", Q: &Stmt{From: &From{K: "table", Path: []string{"items"}}, Items: []Item{{Star: true}}, Where: Cmp("=", Col("p"), Num(77))}},
			{K: "exists", Q: &Stmt{From: &From{K: "table", Path: []string{"items"}}, Items: []Item{{Star: true}}, Where: Cmp("=", Col("p"), Col("n1"))}},
			{K: "insub", A: Num(77), Q: &Stmt{From: &From{K: "table", Path: []string{"items"}}, Items: []Item{{E: Col("p")}}}},
		} {
			q := &Stmt{From: &From{K: "table", Path: []string{"t"}}, Items: []Item{{E: Col("id")}}, Where: w}
			in := c07In{engIn: engIn{Doc: doc, Q: q, SQL: q.SQL()}}
			out = append(out, Case{Input: in, Tags: []string{"long-nested-array", fmt.Sprintf("len:%d", shape[0])}, Nontrivial: true, Key: q.SQL() + fmt.Sprint(shape)})
		}
	}
	return out
}

// outerOver2 clones the outer query onto another FROM, dropping the WITH clause.
func outerOver2(q *Stmt, from *From) *Stmt {
	c := *q
	c.With = nil
	c.From = from
	return &c
}

type propC07 struct{ engineProp }

func (p propC07) Observe(raw json.RawMessage) (Observed, error) {
	var in c07In
	if err := json.Unmarshal(raw, &in); err != nil {
		return Observed{}, err
	}
	obs, err := observeEngine(in.engIn)
	if err != nil {
		return obs, err
	}
	// metamorphic: composed query vs. outer query over the materialised inner result, both on the real code
	if in.StagedQ != nil && in.InnerQ != nil {
		composed := runEngine(deepCopy(in.Doc).(map[string]any), in.Q.SQL())
		innerRes := runEngine(deepCopy(in.Doc).(map[string]any), in.InnerQ.SQL())
		if innerRes.Class == "ok" {
			doc2 := deepCopy(in.Doc).(map[string]any)
			doc2[in.StagedKey] = innerRes.Rows
			stagedRes := runEngine(doc2, in.StagedQ.SQL())
			obs.Tags = append(obs.Tags, "staged-compared")
			if coqEngineObs(stagedRes) != coqEngineObs(composed) {
				obs.CoqObs = "Panic" // composed and staged evaluation disagree on the real code
				obs.Tags = append(obs.Tags, "staged-differs")
				obs.Note = map[string]any{"sql": in.Q.SQL(), "staged_sql": in.StagedQ.SQL(), "composed": jsonSafe(anySlice(composed.Rows)), "staged": jsonSafe(anySlice(stagedRes.Rows))}
			}
		}
	}
	return obs, nil
}

func init() {
	register(propC07{engineProp{id: "C07", checkFn: "EngineRun.check_seq", gen: genC07,
		rule: "documents with a 0-5 row table whose rows carry a nested array, plus a root-level array; two- and three-stage pipelines: single CTE, CTE chains (either declaration order), CTE read through a path, CTE used twice, derived table, select-list subquery against the current row, subquery navigating back to the root (<-), EXISTS over the nested array with predicates that mention outer columns; inner/outer queries drawn from the filter/projection/aggregate/order grammar; observable: the result sequence, and for CTE cases additionally the real code's composed result must equal its staged result (outer query over the materialised inner result); non-trivial = >= 2 source rows and a non-error, non-empty result"}})
}
