package main

// Round 4 streams of C04 (joins), registered through extraStreams.
//
//  r4:shared-column   equi-joins whose ON names one column of one side in SEVERAL conjuncts, each time against a
//                     different column of the other side (x.k = y.m AND x.k = y.b, mirrored, three conjuncts, string
//                     columns), over tables that hold "diagonal" rows (all key columns of a row carry one value), so that
//                     the textbook answer is not empty: the two sides' keys must line up part by part although the
//                     lists of distinct columns of the two sides differ in length.
//  r4:in-band-byte    two-column string keys whose values contain a byte that a key encoding might use in-band (every
//                     control character, DEL, punctuation, digits followed by ':'), arranged so that the two columns'
//                     texts tie when written one after the other with that byte between or behind them:
//                     (p+s+q, r) against (p, q+s+r) against (p+s+q+s+r, ""); rows on both sides and within one side.

import "fmt"

func r4JoinRenderings(r *Rand, tier string, doc map[string]any, la, ra string, on *Expr, tags []string, all bool) []Case {
	var out []Case
	strats := []string{"auto", "hash", "straight", "parallel", "parallelhash", "parallelstraight"}
	type rend struct{ jt, st string }
	var rs []rend
	for _, jt := range []string{"inner", "left", "right"} {
		for _, st := range strats {
			if (st == "straight" || st == "parallelstraight") && jt != "inner" {
				continue
			}
			rs = append(rs, rend{jt, st})
		}
	}
	if !all && tier != "thorough" {
		// quick tier: one hash-path rendering and one nested-loop rendering per (tables, ON), chosen at random
		hashes := []rend{}
		loops := []rend{}
		for _, x := range rs {
			if x.st == "straight" || x.st == "parallelstraight" {
				loops = append(loops, x)
			} else {
				hashes = append(hashes, x)
			}
		}
		rs = []rend{Pick(r, hashes), Pick(r, loops)}
	}
	for _, x := range rs {
		from := &From{K: "join", JT: x.jt, Strat: x.st,
			L: &From{K: "table", Path: []string{"l"}, Alias: la}, R: &From{K: "table", Path: []string{"r"}, Alias: ra}, On: on}
		q := &Stmt{From: from, Items: []Item{{Star: true}}}
		t := append([]string{"type:" + x.jt, "strategy:" + x.st}, tags...)
		out = append(out, mkCase(doc, q, t, true))
	}
	return out
}

// ---------- r4:shared-column ----------

func r4SharedColumn(r *Rand, tier string) []Case {
	n := 8
	if tier == "thorough" {
		n = 60
	}
	var out []Case
	for i := 0; i < n; i++ {
		strKeys := r.Chance(25)
		lcols, rcols := []string{"k", "z", "c"}, []string{"m", "b", "d"}
		vals := []any{1.0, 2.0}
		if strKeys {
			vals = []any{"a", "ab", ""}
		}
		if r.Chance(20) {
			vals = append(vals, vals[0]) // skew: more ties
		}
		mk := func(cols []string, nrows int) []any {
			rows := make([]any, nrows)
			diag := r.Intn(nrows) // at least one row whose key columns all carry one value
			for j := range rows {
				row := map[string]any{"rid": float64(j + 1)}
				v := Pick(r, vals)
				for _, c := range cols {
					row[c] = Pick(r, vals)
					if j == diag || r.Chance(45) {
						row[c] = v
					}
				}
				rows[j] = row
			}
			return rows
		}
		doc := map[string]any{"l": mk(lcols, 1+r.Intn(4)), "r": mk(rcols, 1+r.Intn(4))}
		// the diagonal rows of the two sides share their value now and then by chance; make sure of one textbook pair
		lrow := doc["l"].([]any)[0].(map[string]any)
		rrow := Pick(r, doc["r"].([]any)).(map[string]any)
		v := Pick(r, vals)
		for _, c := range lcols {
			lrow[c] = v
		}
		for _, c := range rcols {
			rrow[c] = v
		}
		al := Pick(r, [][2]string{{"x", "y"}, {"x", "y"}, {"u", "us"}, {"t2", "t"}})
		la, ra := al[0], al[1]
		// 2-3 conjuncts; the shared column sits on the left side, on the right side, or on both
		k := 2 + r.Intn(2)
		shape := Pick(r, []string{"left-shared", "right-shared", "both-shared"})
		var pairs [][2]string
		switch shape {
		case "left-shared":
			sh := Pick(r, lcols)
			perm := r4Perm(r, rcols)
			for j := 0; j < k; j++ {
				pairs = append(pairs, [2]string{sh, perm[j]})
			}
			if k == 3 && r.Bool() {
				pairs[2][0] = r4Other(r, lcols, sh) // x.k = y.m AND x.k = y.b AND x.z = y.d
			}
		case "right-shared":
			sh := Pick(r, rcols)
			perm := r4Perm(r, lcols)
			for j := 0; j < k; j++ {
				pairs = append(pairs, [2]string{perm[j], sh})
			}
			if k == 3 && r.Bool() {
				pairs[2][1] = r4Other(r, rcols, sh)
			}
		default:
			// x.k = y.m AND x.z = y.m AND x.k = y.b : one shared column on each side
			lp, rp := r4Perm(r, lcols), r4Perm(r, rcols)
			pairs = [][2]string{{lp[0], rp[0]}, {lp[1], rp[0]}, {lp[0], rp[1]}}
			k = 3
		}
		// conjunct order and orientation at random
		for j := len(pairs) - 1; j > 0; j-- {
			o := r.Intn(j + 1)
			pairs[j], pairs[o] = pairs[o], pairs[j]
		}
		var on *Expr
		flipped := false
		for _, p := range pairs {
			a, b := Col(la, p[0]), Col(ra, p[1])
			if r.Bool() {
				a, b = b, a
				flipped = true
			}
			c := Cmp("=", a, b)
			if on == nil {
				on = c
			} else if r.Bool() {
				on = And(on, c)
			} else {
				on = And(c, on)
			}
		}
		tags := []string{"r4:shared-column", "on:" + shape, "on:equi", "on:=", fmt.Sprintf("on:conjuncts:%d", k)}
		if strKeys {
			tags = append(tags, "on:string-keys")
		}
		if flipped {
			tags = append(tags, "on:flipped")
		}
		out = append(out, r4JoinRenderings(r, tier, doc, la, ra, on, tags, true)...)
	}
	return out
}

func r4Perm(r *Rand, xs []string) []string {
	p := append([]string{}, xs...)
	for j := len(p) - 1; j > 0; j-- {
		o := r.Intn(j + 1)
		p[j], p[o] = p[o], p[j]
	}
	return p
}

func r4Other(r *Rand, xs []string, not string) string {
	for {
		if c := Pick(r, xs); c != not {
			return c
		}
	}
}

// ---------- r4:in-band-byte ----------

func r4InBandSeparators() []string {
	var seps []string
	for b := 0; b < 0x20; b++ {
		seps = append(seps, string([]byte{byte(b)}))
	}
	seps = append(seps, "\x7f", " ", "-", ":", ",", ";", "|", "/", ".", "_", "=", "#", "\\", "'", "\"", "1:", ":1", "0", "\x1f\x1f", "\x00\x00", "\u00a0", "\u2028")
	return seps
}

func r4InBandByte(r *Rand, tier string) []Case {
	var out []Case
	for _, s := range r4InBandSeparators() {
		toks := []string{"p", "q", "r", "1", "a", ""}
		p, q, t := Pick(r, toks[:5]), Pick(r, toks), Pick(r, toks)
		// texts that tie once the two columns are written one after the other around / behind the byte
		ties := [][2]string{{p + s + q, t}, {p, q + s + t}, {p + s + q + s + t, ""}, {"", p + s + q + s + t}, {p + s, q + s + t}, {p + s + q, s + t}}
		// the same ties for the other order of the two columns in the key
		var rev [][2]string
		for _, pr := range ties {
			rev = append(rev, [2]string{pr[1], pr[0]})
		}
		pool := append(append([][2]string{}, ties...), rev...)
		ctrl := [][2]string{{"k", "v"}, {p, t}, {p + s + q, t + s}}
		mk := func(c1, c2 string, forced [][2]string) []any {
			n := len(forced) + r.Intn(3)
			rows := make([]any, n)
			for j := range rows {
				pr := Pick(r, pool)
				if r.Chance(25) {
					pr = Pick(r, ctrl)
				}
				if j < len(forced) {
					pr = forced[j]
				}
				rows[j] = map[string]any{"rid": float64(j + 1), c1: pr[0], c2: pr[1]}
			}
			return rows
		}
		// for certain: two left rows that tie with each other and with a right row (equal to one of them: a textbook
		// pair), in either order of the key columns
		doc := map[string]any{"l": mk("ls", "ls2", [][2]string{ties[0], ties[1], rev[0], rev[1]}), "r": mk("rs", "rs2", [][2]string{ties[1], rev[1]})}
		la, ra := "x", "y"
		c1 := Cmp("=", Col(la, "ls"), Col(ra, "rs"))
		c2 := Cmp("=", Col(la, "ls2"), Col(ra, "rs2"))
		if r.Bool() {
			c1 = Cmp("=", Col(ra, "rs"), Col(la, "ls"))
		}
		if r.Bool() {
			c2 = Cmp("=", Col(ra, "rs2"), Col(la, "ls2"))
		}
		on := And(c1, c2)
		if r.Bool() {
			on = And(c2, c1)
		}
		name := fmt.Sprintf("%q", s)
		tags := []string{"r4:in-band-byte", "on:two-string-keys", "on:equi", "on:=", "byte:" + name}
		out = append(out, r4JoinRenderings(r, tier, doc, la, ra, on, tags, false)...)
		if tier == "thorough" || r.Chance(25) {
			// not an equi-join: the nested loop evaluates ON once per distinct key of each side
			on2 := Pick(r, []*Expr{And(c1, Cmp("<=", Col(la, "ls2"), Col(ra, "rs2"))), Or(c1, c2), And(Cmp("!=", Col(la, "ls"), Col(ra, "rs")), c2)})
			jt := Pick(r, []string{"inner", "left", "right"})
			from := &From{K: "join", JT: jt, Strat: Pick(r, []string{"auto", "parallel"}),
				L: &From{K: "table", Path: []string{"l"}, Alias: la}, R: &From{K: "table", Path: []string{"r"}, Alias: ra}, On: on2}
			out = append(out, mkCase(doc, &Stmt{From: from, Items: []Item{{Star: true}}}, []string{"r4:in-band-byte", "type:" + jt, "on:nested-loop", "byte:" + name}, true))
		}
	}
	return out
}

func init() {
	extraStreams["C04"] = append(extraStreams["C04"], r4SharedColumn, r4InBandByte)
}
