package main

// r4_c01.go — two further streams of C01 (registered through extraStreams):
//
//   like-inner-wildcard   LIKE / NOT LIKE patterns with a % (or several, or a _) BETWEEN two literal ends, over values that
//                         sit on the boundary of matching: the two ends glued with every possible overlap (aba for ab%ba),
//                         the ends alone, the ends with something in between, in either letter case. A value matches
//                         p%q only if it is at least as long as p and q together.
//   in-star-subquery      IN / NOT IN over a subquery written as SELECT * over a table of one (or several) columns, with
//                         and without its own WHERE / DISTINCT / ORDER BY / LIMIT, correlated or not: the set is the
//                         first column (in key order) of the rows the subquery returns, whatever clauses selected them.

import (
	"fmt"
	"strings"
)

// overlapMerges returns p and q glued with every overlap k (the last k runes of p are the first k runes of q), k = 0 included.
func overlapMerges(p, q string) []string {
	pr, qr := []rune(p), []rune(q)
	var out []string
	for k := 0; k <= len(pr) && k <= len(qr); k++ {
		if string(pr[len(pr)-k:]) == string(qr[:k]) {
			out = append(out, string(pr)+string(qr[k:]))
		}
	}
	return out
}

func smallWord(r *Rand, alphabet []string, min, max int) string {
	n := min + r.Intn(max-min+1)
	var b strings.Builder
	for i := 0; i < n; i++ {
		b.WriteString(Pick(r, alphabet))
	}
	return b.String()
}

func genC01LikeInner(r *Rand, tier string) []Case {
	n := 140
	if tier == "thorough" {
		n = 2500
	}
	alphabets := [][]string{{"a", "b"}, {"a", "b"}, {"x"}, {"a", "b", "c"}, {"a", ".", "b"}, {"a", "(", "*"}, {"世", "a"}}
	var out []Case
	for i := 0; i < n; i++ {
		al := Pick(r, alphabets)
		var tags []string
		// the literal pieces of the pattern; piece k and piece k+1 are separated by one % (sometimes by %% or _%)
		np := 2
		if r.Chance(25) {
			np = 3
		}
		pieces := make([]string, np)
		base := smallWord(r, al, 1, 4)
		br := []rune(base)
		switch r.Intn(4) {
		case 0:
			// both ends cut from one word so that they overlap inside it: ab|ba from aba
			i1 := 1 + r.Intn(len(br))
			j1 := r.Intn(i1 + 1)
			pieces[0], pieces[np-1] = string(br[:i1]), string(br[j1:])
			tags = append(tags, "like:ends-overlap-in-a-word")
		case 1:
			// the same word at both ends
			pieces[0], pieces[np-1] = base, base
			tags = append(tags, "like:same-word-both-ends")
		case 2:
			// a word and its mirror image
			rev := make([]rune, len(br))
			for k := range br {
				rev[len(br)-1-k] = br[k]
			}
			pieces[0], pieces[np-1] = base, string(rev)
			tags = append(tags, "like:word-and-mirror")
		default:
			pieces[0], pieces[np-1] = smallWord(r, al, 0, 3), smallWord(r, al, 0, 3)
			tags = append(tags, "like:independent-ends")
		}
		if np == 3 {
			pieces[1] = smallWord(r, al, 1, 2)
			tags = append(tags, "like:two-inner-wildcards")
		}
		sep := "%"
		switch r.Intn(10) {
		case 0:
			sep = "%%"
		case 1:
			sep = "_%"
			tags = append(tags, "like:underscore-beside-percent")
		case 2:
			sep = "%_"
			tags = append(tags, "like:underscore-beside-percent")
		}
		pat := strings.Join(pieces, sep)
		if r.Chance(10) && len(pieces[0]) > 0 {
			pr := []rune(pat)
			pr[0] = '_'
			pat = string(pr)
			tags = append(tags, "like:underscore-in-end")
		}
		// values around the boundary
		var pool []string
		glued := pieces[0]
		for _, p := range pieces[1:] {
			ms := overlapMerges(glued, p)
			pool = append(pool, ms...)
			glued = Pick(r, ms)
		}
		pool = append(pool, strings.Join(pieces, ""), strings.Join(pieces, Pick(r, al)), strings.Join(pieces, smallWord(r, al, 1, 3)),
			pieces[0], pieces[np-1], "", base, smallWord(r, al, 0, 5), pieces[0]+pieces[0], pieces[np-1]+pieces[0])
		nrows := 3 + r.Intn(5)
		rows := make([]any, nrows)
		for j := range rows {
			v := Pick(r, pool)
			if j < len(pool) && r.Chance(60) {
				v = pool[j] // the overlap merges come first: make sure they are present
			}
			if r.Chance(15) {
				v = strings.ToUpper(v)
			}
			rows[j] = map[string]any{"id": float64(j + 1), "s1": v, "n1": float64(r.Intn(3))}
		}
		if r.Chance(20) {
			pat = strings.ToUpper(pat)
			tags = append(tags, "like:upper-pattern")
		}
		neg := r.Chance(40)
		var p *Expr = &Expr{K: "like", Neg: neg, A: Col("s1"), B: Str(pat)}
		tags = append(tags, map[bool]string{false: "op:like", true: "op:notlike"}[neg])
		switch r.Intn(8) {
		case 0:
			p = Not(p)
			tags = append(tags, "op:not")
		case 1:
			p = And(p, Cmp("<=", Col("n1"), Num(1)))
			tags = append(tags, "op:and")
		case 2:
			p = Or(p, Cmp("=", Col("n1"), Num(2)))
			tags = append(tags, "op:or")
		}
		tags = append(tags, "stream:like-inner-wildcard", fmt.Sprintf("tablerows:%d", nrows))
		doc := map[string]any{"t": rows}
		out = append(out, mkCase(doc, selectStar("t", p), tags, true))
	}
	return out
}

func genC01InStar(r *Rand, tier string) []Case {
	n := 120
	if tier == "thorough" {
		n = 2000
	}
	var out []Case
	for i := 0; i < n; i++ {
		t := genTable(r, 6)
		var tags []string
		// the table behind the subquery: its first column in key order carries the set
		cols := Pick(r, [][]string{{"b"}, {"b"}, {"v"}, {"b", "c"}, {"k1", "k2", "k3"}, {"B", "a2"}})
		strSet := r.Chance(25)
		nu := r.Intn(6)
		u := make([]any, nu)
		for j := range u {
			row := map[string]any{}
			for ci, c := range cols {
				switch {
				case ci == 0 && strSet:
					row[c] = t.strConst(r)
				case ci == 0:
					row[c] = t.numConst(r)
				default:
					row[c] = Pick(r, []any{float64(j), "other", t.numConst(r), true})
				}
			}
			u[j] = row
		}
		first := cols[0]
		for _, c := range cols {
			if c < first {
				first = c
			}
		}
		// (FirstColumn: the smallest key in byte order, so "B" comes before "a2")
		sub := &Stmt{From: &From{K: "table", Path: []string{"<-", "u"}}, Items: []Item{{Star: true}}}
		tags = append(tags, fmt.Sprintf("in-star-subquery:cols:%d", len(cols)))
		if r.Chance(75) {
			var w *Expr
			switch k := r.Intn(7); {
			case strSet && k < 4:
				w = Cmp(Pick(r, cmpOps), Col(first), Str(t.strConst(r)))
			case strSet:
				w = &Expr{K: "like", Neg: r.Chance(30), A: Col(first), B: Str(likePattern(r, t))}
			case k == 0:
				lo, hi := t.numConst(r), t.numConst(r)
				if lo > hi {
					lo, hi = hi, lo
				}
				w = &Expr{K: "between", Neg: r.Chance(25), A: Col(first), B: Num(lo), C: Num(hi)}
			case k == 1:
				w = &Expr{K: "in", Neg: r.Chance(30), A: Col(first), Items: []*Expr{Num(t.numConst(r)), Num(t.numConst(r)), Num(t.numConst(r))}}
			case k == 2:
				w = &Expr{K: "is", Op: "NOT NULL", A: Col(first)}
			case k == 3:
				// correlated: the set differs from outer row to outer row
				w = Cmp(Pick(r, cmpOps), Col(first), Col("<-", Pick(r, []string{"n1", "n2", "id"})))
				tags = append(tags, "in-star-subquery:correlated")
			default:
				w = Cmp(Pick(r, cmpOps), Col(first), Num(t.numConst(r)))
			}
			if r.Chance(15) {
				w = Not(w)
			}
			sub.Where = w
			tags = append(tags, "in-star-subquery:where")
		}
		if r.Chance(12) {
			sub.Distinct = true
			tags = append(tags, "in-star-subquery:distinct")
		}
		if r.Chance(15) {
			sub.Order = []OrderKey{{Path: []string{first}, Asc: r.Bool()}}
			sub.Limit = intp(1 + r.Intn(3))
			tags = append(tags, "in-star-subquery:order-limit")
		}
		neg := r.Chance(40)
		a := Col(Pick(r, t.numCols))
		if strSet {
			a = Col(Pick(r, t.strCols))
		}
		var p *Expr = &Expr{K: "insub", Neg: neg, A: a, Q: sub}
		tags = append(tags, map[bool]string{false: "op:in-subquery", true: "op:notin-subquery"}[neg])
		switch r.Intn(8) {
		case 0:
			p = Not(p)
			tags = append(tags, "op:not")
		case 1:
			p = Or(p, Cmp("=", Col("id"), Num(1)))
			tags = append(tags, "op:or")
		case 2:
			p = And(p, Cmp(">", Col("id"), Num(1)))
			tags = append(tags, "op:and")
		}
		tags = append(tags, "stream:in-star-subquery", fmt.Sprintf("tablerows:%d", len(t.rows)))
		doc := map[string]any{"t": t.rows, "u": u}
		out = append(out, mkCase(doc, selectStar("t", p), tags, len(t.rows) >= 2))
	}
	return out
}

func init() {
	extraStreams["C01"] = append(extraStreams["C01"], genC01LikeInner, genC01InStar)
}
