package main

import (
	"math"
	"encoding/hex"
	"encoding/json"
	"fmt"
	"reflect"
	"strconv"
	"strings"
	"unicode/utf8"

	"github.com/vedadiyan/genql"
)

// C09 — genql.ExecReader / genql.ParseSelector against the Gallina model (Model/SelToken.v,
// Model/SelReader.v) and the README denotation (Spec/SelectorSpec.v).
//
// Streams: (i) "gram": selectors derived from the documented grammar by a walk that follows the
// shape of the document; (ii) "fault": the same with one step pushed out of range or applied to
// the wrong shape; (iii) "raw": byte-level mutations of valid selectors and random byte strings.

// ---- abstract syntax (Go mirror of Spec/SelectorSpec.v) ----

type c09ADim struct {
	K string  `json:"k"` // each | at | range
	N uint64  `json:"n,omitempty"`
	B *uint64 `json:"b,omitempty"` // nil = begin
	E *uint64 `json:"e,omitempty"` // nil = end
}
type c09APipe struct {
	K string `json:"k"`
	T string `json:"t"` // none | string | number
}
type c09AStep struct {
	Kind  string  `json:"kind"` // key | index | keep | pipe
	Key   string  `json:"key,omitempty"`
	Dims  []c09ADim  `json:"dims,omitempty"`
	Pipes []c09APipe `json:"pipes,omitempty"`
}
type c09ASeg struct {
	Fn    *string `json:"fn,omitempty"`
	Steps []c09AStep `json:"steps"`
}

type c09In struct {
	Doc    any    `json:"doc"`
	Sel    string `json:"sel"`              // selector text (informative when SelHex is set)
	SelHex string `json:"selhex,omitempty"` // authoritative bytes when the text is not valid UTF-8
	Ast    []c09ASeg `json:"ast,omitempty"`
	Stream string `json:"stream"`
	// Rebind (a registered top-level name, "mix" or "distinct"): the selector's leading function name is replaced by
	// Rebind in the text given to the real code; that text is evaluated once under the package's own registry, then
	// Rebind is re-registered as the function the selector names, the same text is evaluated again (this is the
	// observation) and the registry is restored. `fn=>` applies the function registered when the selector runs.
	Rebind string `json:"rebind,omitempty"`
}

func c09IsIdent(s string) bool {
	if s == "" {
		return false
	}
	for i := 0; i < len(s); i++ {
		c := s[i]
		if !(c >= '0' && c <= '9' || c >= 'A' && c <= 'Z' || c >= 'a' && c <= 'z' || c == '_') {
			return false
		}
	}
	return true
}

func c09PrintKey(k string) string {
	if c09IsIdent(k) {
		return k
	}
	return "'" + k + "'"
}

func c09PrintBound(kw string, b *uint64) string {
	if b == nil {
		return kw
	}
	return strconv.FormatUint(*b, 10)
}

func c09PrintDims(ds []c09ADim) string {
	parts := make([]string, len(ds))
	for i, d := range ds {
		switch d.K {
		case "each":
			parts[i] = "each"
		case "at":
			parts[i] = strconv.FormatUint(d.N, 10)
		default:
			parts[i] = "(" + c09PrintBound("begin", d.B) + ":" + c09PrintBound("end", d.E) + ")"
		}
	}
	return strings.Join(parts, ":")
}

func c09PrintStep(first bool, st c09AStep) string {
	switch st.Kind {
	case "key":
		if first {
			return c09PrintKey(st.Key)
		}
		return "." + c09PrintKey(st.Key)
	case "index":
		return "[" + c09PrintDims(st.Dims) + "]"
	case "keep":
		return "[keep=>" + c09PrintDims(st.Dims) + "]"
	default:
		parts := make([]string, len(st.Pipes))
		for i, p := range st.Pipes {
			switch p.T {
			case "none":
				parts[i] = p.K
			default:
				parts[i] = c09PrintKey(p.K) + "|" + p.T
			}
		}
		return "{" + strings.Join(parts, ", ") + "}"
	}
}

func c09PrintSeg(g c09ASeg) string {
	var b strings.Builder
	if g.Fn != nil {
		b.WriteString(*g.Fn + "=>")
	}
	for i, st := range g.Steps {
		b.WriteString(c09PrintStep(i == 0, st))
	}
	return b.String()
}

func c09PrintSel(a []c09ASeg) string {
	parts := make([]string, len(a))
	for i, g := range a {
		parts[i] = c09PrintSeg(g)
	}
	return strings.Join(parts, "::")
}

// ---- Coq printers ----

func c09CoqN(n uint64) string { return strconv.FormatUint(n, 10) + "%N" }
func c09CoqOptN(b *uint64) string {
	if b == nil {
		return "None"
	}
	return "(Some " + c09CoqN(*b) + ")"
}
func c09CoqDims(ds []c09ADim) string { return c09CoqDimsIn("", ds) }

// c09CoqDimsIn / c09CoqAstIn: the constructors of Spec/SelectorSpec.v written with the qualifier m ("" where the module is
// imported, "SelectorSpec." in the engine case files, where it is not: qast.go From kind "sel")
func c09CoqDimsIn(m string, ds []c09ADim) string {
	items := make([]string, len(ds))
	for i, d := range ds {
		switch d.K {
		case "each":
			items[i] = m + "DEach"
		case "at":
			items[i] = m + "DAt " + c09CoqN(d.N)
		default:
			items[i] = m + "DRange " + c09CoqOptN(d.B) + " " + c09CoqOptN(d.E)
		}
	}
	return coqList(items)
}
func c09CoqAst(a []c09ASeg) string { return c09CoqAstIn("", a) }
func c09CoqAstIn(m string, a []c09ASeg) string {
	segs := make([]string, len(a))
	for i, g := range a {
		steps := make([]string, len(g.Steps))
		for j, st := range g.Steps {
			switch st.Kind {
			case "key":
				steps[j] = m + "Key " + coqStr(st.Key)
			case "index":
				steps[j] = m + "Index " + c09CoqDimsIn(m, st.Dims)
			case "keep":
				steps[j] = m + "Keep " + c09CoqDimsIn(m, st.Dims)
			default:
				ps := make([]string, len(st.Pipes))
				for k, p := range st.Pipes {
					t := map[string]string{"none": "PNone", "string": "PString", "number": "PNumber"}[p.T]
					ps[k] = "(" + coqStr(p.K) + ", " + m + t + ")"
				}
				steps[j] = m + "Pipe " + coqList(ps)
			}
		}
		fn := "None"
		if g.Fn != nil {
			fn = "(Some " + coqStr(*g.Fn) + ")"
		}
		segs[i] = m + "Fn " + fn + " " + coqList(steps)
	}
	return coqList(segs)
}

// ---- running the real code ----

type c09ExecOut struct {
	class string // ok | error | panic
	val   any
}

func c09RunExec(doc any, sel string) (out c09ExecOut) {
	defer func() {
		if r := recover(); r != nil {
			out = c09ExecOut{class: "panic"}
		}
	}()
	v, err := genql.ExecReader(doc, sel)
	if err != nil {
		return c09ExecOut{class: "error"}
	}
	return c09ExecOut{class: "ok", val: v}
}

func c09CoqIx(ix *genql.IndexSelector) string {
	if ix.GetType() == genql.RANGE {
		r := ix.GetRange()
		return "IxRange " + coqZi(int64(r[0])) + " " + coqZi(int64(r[1]))
	}
	return "IxIndex " + coqZi(int64(ix.GetIndex()))
}

func c09RunParse(sel string) (coq string, note any, tags []string) {
	defer func() {
		if r := recover(); r != nil {
			coq, note, tags = "PPanic", "panic", []string{"parse:panic"}
		}
	}()
	toks, err := genql.ParseSelector(sel)
	if err != nil {
		return "PErr", "error", []string{"parse:error"}
	}
	seen := map[string]bool{}
	defer func() {
		for k := range seen {
			tags = append(tags, k)
		}
		sortStrings(tags)
	}()
	items := make([]string, 0, len(toks))
	notes := make([]string, 0, len(toks))
	ixs := func(l []*genql.IndexSelector) string {
		xs := make([]string, len(l))
		for i, ix := range l {
			xs[i] = c09CoqIx(ix)
		}
		return coqList(xs)
	}
	for _, t := range toks {
		switch t := t.(type) {
		case genql.TopLevelFunctionSelector:
			items = append(items, "OFn "+coqStr(string(t)))
			notes = append(notes, "fn:"+string(t))
			seen["tok:fn"] = true
		case genql.KeySelector:
			items = append(items, "OKey "+coqStr(string(t)))
			notes = append(notes, "key:"+string(t))
			seen["tok:key"] = true
		case genql.KeepDimension:
			items = append(items, "OKeep "+ixs([]*genql.IndexSelector(t)))
			notes = append(notes, fmt.Sprintf("keep/%d", len(t)))
			seen[fmt.Sprintf("tok:keep/%d", min(len(t), 4))] = true
		case []*genql.IndexSelector:
			items = append(items, "OIndex "+ixs(t))
			notes = append(notes, fmt.Sprintf("index/%d", len(t)))
			seen[fmt.Sprintf("tok:index/%d", min(len(t), 4))] = true
		case []*genql.PipeSelector:
			ps := make([]string, len(t))
			for i, p := range t {
				ps[i] = "(" + coqStr(p.GetKey()) + ", " + c09CoqN(uint64(p.GetType())) + ")"
				seen[fmt.Sprintf("tok:pipe-type-%d", int(p.GetType()))] = true
			}
			items = append(items, "OPipe "+coqList(ps))
			notes = append(notes, fmt.Sprintf("pipe/%d", len(t)))
		default:
			items = append(items, "OFn "+coqStr(fmt.Sprintf("<<%T>>", t)))
			notes = append(notes, fmt.Sprintf("?%T", t))
		}
	}
	return "PToks " + coqList(items), notes, nil
}

// ---- documents ----

type c09gen struct{ r *Rand }

var c09Strs = []string{"a", "b", "x", "", "hello world", "7", "12.5", "-3", "abc", "1e3", "0.25", "ключ", "it's"}

func (g c09gen) num() float64 {
	return Pick(g.r, []float64{0, 1, 2, 3, 5, 7, 10, -1, 1.5, -2.25, 0.5, 42, 100, 1000000, 1234567, 0.1, 2.675, 1e21})
}
func (g c09gen) scalar() any {
	switch g.r.Intn(6) {
	case 0:
		return nil
	case 1:
		return g.r.Bool()
	case 2, 3:
		return g.num()
	default:
		return Pick(g.r, c09Strs)
	}
}

func (g c09gen) user() map[string]any {
	u := map[string]any{
		"id":        g.num(),
		"sid":       Pick(g.r, []string{"7", "12.5", "-3", "abc", "0.25", "", "1e3", "1_0", "12 5", "00012.500"}),
		"name":      Pick(g.r, c09Strs),
		"active":    g.r.Bool(),
		"createdAt": float64(g.r.Range(1, 5)) * 1000,
	}
	n := g.r.Intn(4)
	em := make([]any, n)
	for i := range em {
		em[i] = Pick(g.r, []string{"x@a", "y@b", "z@c"})
	}
	u["email"] = em
	if g.r.Chance(70) {
		u["meta"] = map[string]any{"ip": Pick(g.r, []string{"1.1.1.1", "2.2.2.2"}), "n": nil, "tags": []any{"p", "q", "p"}}
	}
	if g.r.Chance(30) {
		u["user.name"] = "dotted"
	}
	if g.r.Chance(20) {
		delete(u, "name")
	}
	return u
}

// nested arrays of the given depth, ragged: lengths vary, some levels hold scalars or null
func (g c09gen) nest(depth int, ragged bool) any {
	if depth == 0 {
		return g.num()
	}
	if ragged && g.r.Chance(12) {
		return g.scalar()
	}
	n := g.r.Range(1, 3)
	if ragged && g.r.Chance(15) {
		n = 0
	}
	out := make([]any, n)
	for i := range out {
		out[i] = g.nest(depth-1, ragged)
	}
	return out
}

func (g c09gen) value(depth int) any {
	if depth == 0 || g.r.Chance(30) {
		return g.scalar()
	}
	if g.r.Bool() {
		n := g.r.Intn(4)
		out := make([]any, n)
		for i := range out {
			out[i] = g.value(depth - 1)
		}
		return out
	}
	n := g.r.Intn(4)
	out := map[string]any{}
	for i := 0; i < n; i++ {
		out[Pick(g.r, []string{"a", "b", "c", "k1", "a b", "x.y", "q[0]", "0"})] = g.value(depth - 1)
	}
	return out
}

func (g c09gen) doc() any {
	nu := g.r.Intn(4)
	users := make([]any, nu)
	for i := range users {
		users[i] = g.user()
	}
	grid := make([]any, g.r.Range(1, 3))
	for i := range grid {
		row := make([]any, g.r.Intn(3))
		for j := range row {
			row[j] = g.user()
		}
		grid[i] = row
	}
	d := map[string]any{
		"users":  users,
		"grid":   grid,
		"user":   g.user(),
		"data":   g.nest(3, g.r.Chance(40)),
		"rag":    []any{[]any{1.0, 2.0}, []any{3.0}, []any{}, 5.0, nil, []any{[]any{6.0}}},
		"tags":   []any{"a", "b", "a", 1.0, "1", true, nil, "true"},
		"nested": map[string]any{"a": map[string]any{"b": 1.0, "c": map[string]any{"d": 2.0}}, "e": 3.0, "l": []any{[]any{1.0}, 2.0}},
		"n":      nil,
		"s":      "str",
		"f":      2.5,
		"g":      g.value(4),
		"a b":    map[string]any{"we=>ird": 1.0, "q[0]": []any{1.0, 2.0}, "{z}": "z"},
	}
	if g.r.Chance(10) {
		d["nested"].(map[string]any)["a_b"] = "collides"
	}
	switch g.r.Intn(10) {
	case 0:
		return users
	case 1:
		return d["data"]
	}
	return d
}

// ---- grammar walk ----

func c09HasTag(tags []string, t string) bool {
	for _, x := range tags {
		if x == t {
			return true
		}
	}
	return false
}

func c09Up(n int) *uint64 { u := uint64(n); return &u }

func c09FirstNonNil(a []any) any {
	for _, x := range a {
		if x != nil {
			return x
		}
	}
	return nil
}

func c09SortedKeys(m map[string]any) []string {
	keys := make([]string, 0, len(m))
	for k := range m {
		keys = append(keys, k)
	}
	sortStrings(keys)
	return keys
}

func c09WfKey(k string) bool { return !strings.Contains(k, "'") && !strings.Contains(k, "::") }

// objStep: a key or pipe step applicable to object m; returns the step and the representative next value
func (g c09gen) objStep(m map[string]any) (c09AStep, any, bool) {
	keys := c09SortedKeys(m)
	if g.r.Chance(75) || len(keys) == 0 {
		if len(keys) > 0 && g.r.Chance(88) {
			k := Pick(g.r, keys)
			if c09WfKey(k) {
				return c09AStep{Kind: "key", Key: k}, m[k], true
			}
		}
		k := Pick(g.r, []string{"missing", "nope", "zz top", "each", "0"})
		return c09AStep{Kind: "key", Key: k}, m[k], true
	}
	n := g.r.Range(1, 3)
	var ps []c09APipe
	for i := 0; i < n; i++ {
		k := Pick(g.r, keys)
		if g.r.Chance(10) {
			k = "absent"
		}
		if !c09WfKey(k) || strings.ContainsAny(k, "|{}") {
			continue
		}
		t := "none"
		switch v := m[k].(type) {
		case string:
			t = Pick(g.r, []string{"number", "string", "none", "number"})
			_ = v
		case float64, bool:
			t = Pick(g.r, []string{"string", "string", "none"})
		default:
			t = Pick(g.r, []string{"none", "none", "string"})
		}
		if t == "none" && !c09IsIdent(k) {
			t = "string"
		}
		ps = append(ps, c09APipe{K: k, T: t})
	}
	st := c09AStep{Kind: "pipe", Pipes: ps}
	out := c09RunExec(m, c09PrintStep(true, st))
	if out.class != "ok" {
		return st, nil, true
	}
	return st, out.val, true
}

// bracket step on array a
func (g c09gen) arrStep(a []any) (c09AStep, any, bool) {
	nd := g.r.Range(1, 3)
	var dims []c09ADim
	var rep any = a
	for i := 0; i < nd; i++ {
		cur, ok := rep.([]any)
		if !ok {
			break
		}
		c := g.r.Intn(100)
		switch {
		case c < 35 || len(cur) == 0 && c < 70:
			dims = append(dims, c09ADim{K: "each"})
			rep = c09FirstNonNil(cur)
			if len(cur) > 0 {
				rep = cur[0]
			}
		case c < 80 && len(cur) > 0:
			n := g.r.Intn(len(cur))
			dims = append(dims, c09ADim{K: "at", N: uint64(n)})
			rep = cur[n]
		default:
			b := g.r.Intn(len(cur) + 1)
			e := g.r.Range(b, len(cur))
			d := c09ADim{K: "range", B: c09Up(b), E: c09Up(e)}
			if g.r.Chance(30) {
				d.B = nil
				b = 0
			}
			if g.r.Chance(30) {
				d.E = nil
				e = len(cur)
			}
			dims = append(dims, d)
			rep = cur[b:e]
		}
	}
	if len(dims) == 0 {
		dims = []c09ADim{{K: "each"}}
	}
	st := c09AStep{Kind: "index", Dims: dims}
	if g.r.Chance(22) {
		st.Kind = "keep"
	}
	out := c09RunExec(a, c09PrintStep(true, st))
	if out.class != "ok" {
		return st, nil, true
	}
	return st, out.val, true
}

func (g c09gen) step(ctx any) (c09AStep, any, bool) {
	switch v := ctx.(type) {
	case map[string]any:
		return g.objStep(v)
	case []any:
		rep := c09FirstNonNil(v)
		if m, ok := rep.(map[string]any); ok && g.r.Chance(55) {
			return g.objStep(m) // distributed over the elements
		}
		return g.arrStep(v)
	case nil:
		if g.r.Chance(40) {
			return Pick(g.r, []c09AStep{{Kind: "key", Key: "k"}, {Kind: "index", Dims: []c09ADim{{K: "at", N: 0}}},
				{Kind: "keep", Dims: []c09ADim{{K: "each"}}}, {Kind: "pipe", Pipes: []c09APipe{{K: "a", T: "string"}}}}), nil, true
		}
	}
	return c09AStep{}, nil, false
}

// a step that is out of range or has the wrong shape for ctx
func (g c09gen) faultStep(ctx any) (c09AStep, string) {
	big := []uint64{1 << 62, 1<<63 - 1, 4294967296}
	switch v := ctx.(type) {
	case []any:
		n := len(v)
		switch g.r.Intn(7) {
		case 0:
			return c09AStep{Kind: "index", Dims: []c09ADim{{K: "at", N: uint64(n + g.r.Intn(2))}}}, "index>=len"
		case 1:
			return c09AStep{Kind: "keep", Dims: []c09ADim{{K: "at", N: Pick(g.r, big)}}}, "index-huge"
		case 2:
			return c09AStep{Kind: "index", Dims: []c09ADim{{K: "range", B: c09Up(0), E: c09Up(n + 1 + g.r.Intn(9))}}}, "range-end>len"
		case 3:
			return c09AStep{Kind: "index", Dims: []c09ADim{{K: "range", B: c09Up(n + 1), E: nil}}}, "range-begin>len"
		case 4:
			return c09AStep{Kind: "keep", Dims: []c09ADim{{K: "range", B: c09Up(2), E: c09Up(1)}}}, "range-begin>end"
		case 5:
			// one dimension more than the data has
			dims := []c09ADim{}
			var rep any = v
			for {
				cur, ok := rep.([]any)
				if !ok || len(dims) > 4 {
					break
				}
				dims = append(dims, c09ADim{K: "each"})
				if len(cur) == 0 {
					rep = 1.0
				} else {
					rep = cur[0]
				}
			}
			dims = append(dims, Pick(g.r, []c09ADim{{K: "at", N: 0}, {K: "each"}, {K: "range", B: c09Up(0), E: c09Up(0)}}))
			return c09AStep{Kind: Pick(g.r, []string{"index", "keep"}), Dims: dims}, "dim-on-non-array"
		default:
			if _, ok := c09FirstNonNil(v).(map[string]any); !ok && c09FirstNonNil(v) != nil {
				if _, isArr := c09FirstNonNil(v).([]any); !isArr {
					return c09AStep{Kind: "key", Key: "k"}, "key-on-scalar-elements"
				}
			}
			return c09AStep{Kind: "index", Dims: []c09ADim{{K: "each"}, {K: "at", N: Pick(g.r, big)}}}, "each-index-huge"
		}
	case map[string]any:
		if g.r.Bool() {
			return c09AStep{Kind: Pick(g.r, []string{"index", "keep"}), Dims: []c09ADim{Pick(g.r, []c09ADim{{K: "at", N: 0}, {K: "each"}, {K: "range"}})}}, "bracket-on-object"
		}
		for _, k := range c09SortedKeys(v) {
			if _, isStr := v[k].(string); !isStr && c09IsIdent(k) {
				return c09AStep{Kind: "pipe", Pipes: []c09APipe{{K: k, T: "number"}}}, "number-pipe-on-non-string"
			}
		}
		return c09AStep{Kind: "pipe", Pipes: []c09APipe{{K: "absent", T: "number"}}}, "number-pipe-on-missing"
	case nil:
		return c09AStep{Kind: "key", Key: "k"}, "step-on-null"
	default:
		switch g.r.Intn(3) {
		case 0:
			return c09AStep{Kind: "key", Key: "k"}, "key-on-scalar"
		case 1:
			return c09AStep{Kind: Pick(g.r, []string{"index", "keep"}), Dims: []c09ADim{Pick(g.r, []c09ADim{{K: "at", N: 0}, {K: "each"}, {K: "range"}})}}, "bracket-on-scalar"
		default:
			return c09AStep{Kind: "pipe", Pipes: []c09APipe{{K: "a", T: "none"}}}, "pipe-on-scalar"
		}
	}
}

// walk builds a selector that follows the document's shape; with fault != "" one faulty step is placed at the end
func (g c09gen) walk(doc any, withFault bool) ([]c09ASeg, []string) {
	segs := []c09ASeg{{}}
	var tags []string
	ctx := doc
	nsteps := g.r.Range(1, 5)
	if withFault {
		nsteps = g.r.Range(0, 3)
	}
	for i := 0; i < nsteps; i++ {
		cur := &segs[len(segs)-1]
		if len(cur.Steps) > 0 && g.r.Chance(18) {
			out := c09RunExec(doc, c09PrintSel(segs))
			if out.class != "ok" {
				break
			}
			segs = append(segs, c09ASeg{})
			cur = &segs[len(segs)-1]
			ctx = out.val
			tags = append(tags, "op:then")
		}
		st, next, ok := g.step(ctx)
		if !ok {
			break
		}
		cur.Steps = append(cur.Steps, st)
		tags = append(tags, "op:"+st.Kind)
		for _, d := range st.Dims {
			tags = append(tags, "dim:"+d.K)
		}
		for _, p := range st.Pipes {
			tags = append(tags, "pipe:"+p.T)
		}
		ctx = next
	}
	if withFault {
		if g.r.Chance(25) {
			fn := Pick(g.r, []string{"nosuch", "mix", "distinct", "Mix"})
			// a function applied to a shape it does not accept
			switch ctx.(type) {
			case []any:
				if fn == "mix" || fn == "distinct" {
					fn = "nosuch"
				}
			case map[string]any:
				if fn == "mix" {
					fn = "distinct"
				}
			}
			segs[len(segs)-1].Fn = &fn
			tags = append(tags, "fault:fn-"+fn)
		} else {
			if g.r.Chance(30) && len(segs[len(segs)-1].Steps) > 0 {
				out := c09RunExec(doc, c09PrintSel(segs))
				if out.class == "ok" {
					segs = append(segs, c09ASeg{})
					ctx = out.val
				}
			}
			st, what := g.faultStep(ctx)
			cur := &segs[len(segs)-1]
			cur.Steps = append(cur.Steps, st)
			tags = append(tags, "fault:"+what)
		}
	} else if g.r.Chance(22) {
		fn := Pick(g.r, []string{"mix", "distinct", "mix"})
		segs[g.r.Intn(len(segs))].Fn = &fn
		tags = append(tags, "op:fn-"+fn)
	}
	tags = append(tags, fmt.Sprintf("segments:%d", len(segs)))
	return segs, tags
}

// ---- raw byte strings ----

var c09Special = []byte("'[](){}|:=><-*!., \t_019azAZ\"\\+")

func (g c09gen) mutate(s string) string {
	b := []byte(s)
	n := g.r.Range(1, 3)
	for i := 0; i < n; i++ {
		pos := 0
		if len(b) > 0 {
			pos = g.r.Intn(len(b) + 1)
		}
		switch g.r.Intn(7) {
		case 0: // delete
			if len(b) > 0 {
				p := g.r.Intn(len(b))
				b = append(b[:p:p], b[p+1:]...)
			}
		case 1, 2: // insert a special byte
			c := Pick(g.r, c09Special)
			b = append(b[:pos:pos], append([]byte{c}, b[pos:]...)...)
		case 3: // insert a non-ASCII byte
			c := byte(0x80 + g.r.Intn(0x80))
			b = append(b[:pos:pos], append([]byte{c}, b[pos:]...)...)
		case 4: // replace
			if len(b) > 0 {
				b[g.r.Intn(len(b))] = Pick(g.r, c09Special)
			}
		case 5: // truncate
			b = b[:pos]
		default: // insert a fragment
			f := Pick(g.r, []string{"=>", "::", "keep=>", "each", "(0:1)", "(begin:end)", "[", "]", "{", "}", "''", "|string", "|number", "|x", "!|a", "-1", "+1",
				"9223372036854775807", "9223372036854775808", "99999999999999999999", "(1:2:3)", "((0:1))", "( 0:1)", "<-", "*", "mix=>", "distinct=>", "[]", "{}", "()", ":"})
			b = append(b[:pos:pos], append([]byte(f), b[pos:]...)...)
		}
	}
	return string(b)
}

func (g c09gen) randomBytes() string {
	n := g.r.Intn(14)
	b := make([]byte, n)
	for i := range b {
		if g.r.Chance(85) {
			b[i] = Pick(g.r, c09Special)
		} else {
			b[i] = byte(g.r.Intn(256))
		}
	}
	return string(b)
}

// ---- the plug-in ----

type propC09 struct{}

func init() { register(propC09{}) }

func (propC09) ID() string { return "C09" }
func (propC09) Imports() []string {
	return []string{"Base.Prelude", "Base.Value", "Model.SelToken", "Spec.SelectorSpec", "Run.C09Run"}
}
func (propC09) CheckFn() string        { return "C09Run.check" }
func (propC09) InputType() string      { return "(value * string * option sel)" }
func (propC09) ObsType() string        { return "C09Run.obs" }
func (propC09) Exhaustive(string) bool { return false }
func (propC09) Rule() string {
	return "three streams over generated ragged documents (objects/arrays to depth 4): gram = selectors derived from the documented grammar following the document's shape (every step kind, <=5 steps, ::, fn=>), fault = the same with one index/bound out of range or a step on the wrong shape, raw = byte mutations of valid selectors and random byte strings; a gram case is non-trivial when the real result is a non-NULL value different from the document, a fault case when the real outcome is an error (or panic), a raw case when its text is not a grammar print; distinct = distinct (document, selector)"
}

// prune keeps, of a top-level object, the entries whose key occurs in the selector text plus the
// small scalar entries: the Coq side parses every document, so documents are kept small.
func c09Prune(doc any, sel string) any {
	m, ok := doc.(map[string]any)
	if !ok {
		return doc
	}
	out := map[string]any{}
	for k, v := range m {
		switch v.(type) {
		case nil, bool, float64, string:
			out[k] = v
		default:
			if strings.Contains(sel, k) {
				out[k] = v
			}
		}
	}
	return out
}

func c09MkCase(doc any, sel string, ast []c09ASeg, stream string, tags []string) Case {
	if stream != "readme" {
		doc = c09Prune(doc, sel)
	}
	in := c09In{Doc: doc, Sel: sel, Ast: ast, Stream: stream}
	if !utf8.ValidString(sel) {
		in.SelHex = hex.EncodeToString([]byte(sel))
	}
	out := c09RunExec(deepCopy(doc), sel)
	nt := false
	switch stream {
	case "gram":
		nt = out.class == "ok" && out.val != nil && !reflect.DeepEqual(out.val, doc)
	case "fault":
		nt = out.class != "ok"
	default:
		nt = true
	}
	return Case{Input: in, Tags: append([]string{"stream:" + stream}, tags...), Nontrivial: nt}
}

func c09ReadmeDoc() any {
	u := func(n string, e ...any) any { return map[string]any{"name": n, "email": e, "id": 1.0} }
	return map[string]any{
		"user":  map[string]any{"name": "N", "id": 7.0, "createdAt": 1000.0, "active": true, "sid": "12.5"},
		"users": []any{[]any{[]any{u("a", "x@a", "y@a")}, []any{u("b", "x@b")}}, []any{[]any{u("c")}}},
		"data":  []any{[]any{[]any{1.0, 2.0, 3.0}, []any{4.0, 5.0, 6.0}}, []any{[]any{7.0, 8.0, 9.0}, []any{10.0, 11.0, 12.0}}},
		"flat":  []any{u("a"), u("b"), u("c"), u("d"), u("e"), u("f"), u("g"), u("h"), u("i"), u("j"), u("k")},
		"user.name": map[string]any{"key": "quoted"},
	}
}

func (propC09) Generate(r *Rand, tier string) []Case {
	g := c09gen{r}
	nGram, nFault, nRaw := 1100, 700, 900
	if tier == "thorough" {
		nGram, nFault, nRaw = 11000, 7000, 9000
	}
	var out []Case
	// the README's own examples (and their documented variants), on a document shaped for them
	rd := c09ReadmeDoc()
	for _, s := range []string{"user.name", "users[0]", "users[0:0:0].name", "data[each:each:0]", "data[keep=>0:1:2]", "data[0:1:2]",
		"users[each:0].name", "users[each:0:0].email", "flat[(5:10)]", "flat[(5:end)].name", "flat[(begin:2)].name",
		"user{id|string, createdAt}", "user{sid|number, active|string}", "'user.name'.key", "data[each]::[0]", "mix=>data[each]",
		"mix=>users[each].x[each].y", "data[keep=>each:each:0]", "distinct=>data[each:each:0]", ""} {
		out = append(out, c09MkCase(rd, s, nil, "readme", []string{"readme"}))
	}
	// type conversions of unusual numbers: whole floats at the int64 edge, negative zero, infinities
	sd := map[string]any{"user": map[string]any{"a": "<<+Inf>>", "b": "<<-Inf>>", "c": "<<-0>>", "d": 9007199254740993.0, "e": 1e21, "f": 0.5, "g": -3.0, "h": 9.223372036854775807e18, "s": "12.5"}}
	for _, sel := range []string{"user{a|string}", "user{b|string}", "user{c|string}", "user{d|string}", "user{e|string}", "user{f|string}", "user{g|string}", "user{h|string}",
		"user{a|number}", "user{s|number, c|number}", "user{a|string, b|string, g|string}"} {
		out = append(out, c09MkCase(deepCopy(anyMap(sd)), sel, nil, "readme", []string{"pipe:special-numbers"}))
	}
	// a selector longer than 256 bytes whose later segment continues from the previous result
	long := strings.Repeat("k", 300)
	ld := map[string]any{"items": []any{map[string]any{long: []any{1.0, 2.0}}, map[string]any{long: []any{3.0, 4.0}}}, long: map[string]any{"x": []any{5.0, 6.0}}}
	for _, sel := range []string{"items.'" + long + "'::[0]", "items.'" + long + "'", "'" + long + "'.x::[1]", "mix=>items.'" + long + "'", "items[each].'" + long + "'::[(0:1)]"} {
		out = append(out, c09MkCase(deepCopy(anyMap(ld)), sel, nil, "readme", []string{"selector:longer-than-256"}))
	}
	var doc any
	for i := 0; i < nGram; i++ {
		if i%6 == 0 {
			doc = g.doc()
		}
		ast, tags := g.walk(doc, false)
		out = append(out, c09MkCase(doc, c09PrintSel(ast), ast, "gram", tags))
	}
	for i := 0; i < nFault; i++ {
		if i%6 == 0 {
			doc = g.doc()
		}
		ast, tags := g.walk(doc, true)
		for try := 0; try < 6 && c09HasTag(tags, "fault:step-on-null"); try++ {
			ast, tags = g.walk(doc, true)
		}
		out = append(out, c09MkCase(doc, c09PrintSel(ast), ast, "fault", tags))
	}
	// re-registration: the name in the selector text is bound to the other built-in between two evaluations
	for i := 0; i < 40; i++ {
		doc = g.doc()
		ast, tags := g.walk(doc, false)
		if len(ast) == 0 {
			continue
		}
		fn := Pick(r, []string{"mix", "distinct"})
		other := map[string]string{"mix": "distinct", "distinct": "mix"}[fn]
		ast[0].Fn = &fn
		c := c09MkCase(doc, c09PrintSel(ast), ast, "gram", append(tags, "fn:re-registered"))
		in := c.Input.(c09In)
		in.Rebind = other
		c.Input = in
		out = append(out, c)
	}
	for i := 0; i < nRaw; i++ {
		if i%6 == 0 {
			doc = g.doc()
		}
		var s string
		var tags []string
		if g.r.Chance(75) {
			ast, _ := g.walk(doc, g.r.Chance(20))
			s = g.mutate(c09PrintSel(ast))
			tags = []string{"raw:mutation"}
		} else {
			s = g.randomBytes()
			tags = []string{"raw:random"}
		}
		if g.r.Chance(8) {
			doc = g.scalar()
		}
		out = append(out, c09MkCase(doc, s, nil, "raw", tags))
	}
	return out
}

func (propC09) Observe(input json.RawMessage) (Observed, error) {
	var in c09In
	dec := json.NewDecoder(strings.NewReader(string(input)))
	if err := dec.Decode(&in); err != nil {
		return Observed{}, err
	}
	sel := in.Sel
	if in.SelHex != "" {
		b, err := hex.DecodeString(in.SelHex)
		if err != nil {
			return Observed{}, err
		}
		sel = string(b)
	}
	in.Doc = c09Specials(in.Doc) // "<<+Inf>>" etc.: the floats JSON cannot carry
	if !isPlain(in.Doc) {
		return Observed{}, fmt.Errorf("document is not JSON-like")
	}
	if in.Ast != nil && c09PrintSel(in.Ast) != sel {
		return Observed{}, fmt.Errorf("ast does not print to the selector text: %q vs %q", c09PrintSel(in.Ast), sel)
	}
	before := deepCopy(in.Doc)
	var out c09ExecOut
	if in.Rebind != "" {
		builtin := map[string]func(any) (any, error){"mix": genql.Mix, "distinct": genql.Distinct}
		if len(in.Ast) == 0 || in.Ast[0].Fn == nil || builtin[*in.Ast[0].Fn] == nil || builtin[in.Rebind] == nil || !strings.HasPrefix(sel, *in.Ast[0].Fn+"=>") {
			return Observed{}, fmt.Errorf("rebind case needs a selector starting with mix=> or distinct=>")
		}
		realSel := in.Rebind + strings.TrimPrefix(sel, *in.Ast[0].Fn)
		c09RunExec(deepCopy(in.Doc), realSel) // compiles (and caches) the selector under the original binding
		genql.RegisterTopLevelFunction(in.Rebind, builtin[*in.Ast[0].Fn])
		out = c09RunExec(in.Doc, realSel)
		genql.RegisterTopLevelFunction(in.Rebind, builtin[in.Rebind])
	} else {
		out = c09RunExec(in.Doc, sel)
	}
	pure := reflect.DeepEqual(before, in.Doc)
	parseCoq, parseNote, parseTags := c09RunParse(sel)

	var execCoq string
	tags := append([]string{"obs:" + out.class}, parseTags...)
	switch out.class {
	case "ok":
		execCoq = "OOk " + coqValue(out.val)
		if !isPlain(out.val) {
			tags = append(tags, "obs:leak")
		}
		switch out.val.(type) {
		case nil:
			tags = append(tags, "result:null")
		case []any:
			tags = append(tags, "result:array")
		case map[string]any:
			tags = append(tags, "result:object")
		default:
			tags = append(tags, "result:scalar")
		}
	case "error":
		execCoq = "OErr"
	default:
		execCoq = "OPanic"
	}
	if !pure {
		tags = append(tags, "obs:document-modified")
	}
	ast := "None"
	if in.Ast != nil {
		ast = "(Some " + c09CoqAst(in.Ast) + ")"
	}
	coqIn := "(" + coqValue(before) + ", " + coqStr(sel) + ", " + ast + ")"
	coqObs := "(mkObs (" + execCoq + ") (" + parseCoq + ") " + coqBool(pure) + ")"
	note := map[string]any{"class": out.class, "pure": pure, "tokens": parseNote}
	if out.class == "ok" && isPlain(out.val) {
		note["value"] = out.val
	}
	return Observed{CoqIn: coqIn, CoqObs: coqObs, Note: note, Tags: tags}, nil
}

// c09Specials replaces the string sentinels for non-finite / negative-zero floats (which JSON transport cannot carry)
// by the floats themselves.
func c09Specials(v any) any {
	switch t := v.(type) {
	case string:
		switch t {
		case "<<+Inf>>":
			return math.Inf(1)
		case "<<-Inf>>":
			return math.Inf(-1)
		case "<<NaN>>":
			return math.NaN()
		case "<<-0>>":
			return math.Copysign(0, -1)
		}
	case []any:
		for i := range t {
			t[i] = c09Specials(t[i])
		}
	case map[string]any:
		for k, x := range t {
			t[k] = c09Specials(x)
		}
	}
	return v
}
