package main

// state.go — second translator table: the inventory of everything in /repo that can hold state between
// two calls or that decides identity by a digest. The models are functions of (query, document,
// options) only; that is faithful only if the code keeps no other state. Regenerated on every run:
//
//   pkg_vars      every package-level variable            (package, "name type-or-initialiser")
//   struct_fields every field of every struct type        (package.Type, "field type")
//   hash_calls    every use of a hash / digest package    (package.Func, "pkg.Selector")
//   field_writes  every assignment to a struct field      (package.Func, "field")
//
// The obligations (coq/Gen/StateRules.v) say: each entry is in the audited list. A new package-level
// variable (a pool, a cache, a memo), a new field on Query / Options / Command / the compiled
// selector, or another digest deciding equality breaks the obligation.

import (
	"strconv"
	"bytes"
	"fmt"
	"go/ast"
	"go/parser"
	"go/printer"
	"go/token"
	"os"
	"path/filepath"
	"sort"
	"strings"
)

func init() { auxRegistry["state"] = runState }

var hashPkgs = map[string]bool{
	"crypto/sha256": true, "crypto/sha1": true, "crypto/md5": true, "crypto/sha512": true,
	"hash/fnv": true, "hash/crc32": true, "hash/crc64": true, "hash/adler32": true, "hash/maphash": true, "hash": true,
}

func exprText(fset *token.FileSet, e ast.Node) string {
	var b bytes.Buffer
	printer.Fprint(&b, fset, e)
	s := strings.Join(strings.Fields(b.String()), " ")
	if len(s) > 90 {
		s = s[:90] + "..."
	}
	return s
}

func runState(tier string, seed uint64, out string) {
	root := "/repo"
	if v := os.Getenv("VERIF_REPO"); v != "" {
		root = v
	}
	fset := token.NewFileSet()
	var vars, fields, hashes, writes, lits [][2]string
	// first pass: the names of all struct fields declared in the repository
	fieldNames := map[string]bool{}
	var files []*ast.File
	for _, f := range repoFiles(root) {
		af, err := parser.ParseFile(fset, f, nil, 0)
		must(err)
		files = append(files, af)
		ast.Inspect(af, func(n ast.Node) bool {
			if st, ok := n.(*ast.StructType); ok {
				for _, fl := range st.Fields.List {
					for _, nm := range fl.Names {
						fieldNames[nm.Name] = true
					}
				}
			}
			return true
		})
	}
	for _, af := range files {
		pkg := af.Name.Name
		// local names of imported hash packages
		hp := map[string]string{}
		for _, im := range af.Imports {
			p := strings.Trim(im.Path.Value, "\"")
			if hashPkgs[p] {
				name := filepath.Base(p)
				if im.Name != nil {
					name = im.Name.Name
				}
				hp[name] = p
			}
		}
		for _, d := range af.Decls {
			switch d := d.(type) {
			case *ast.GenDecl:
				for _, sp := range d.Specs {
					switch sp := sp.(type) {
					case *ast.ValueSpec:
						if d.Tok == token.CONST {
							for _, v := range sp.Values {
								ast.Inspect(v, func(n ast.Node) bool {
									if bl, ok := n.(*ast.BasicLit); ok && bl.Kind == token.INT {
										if x, err := strconv.ParseInt(bl.Value, 0, 64); err != nil || x >= 10 {
											lits = append(lits, [2]string{pkg + ".const", bl.Value})
										}
									}
									return true
								})
							}
						}
						if d.Tok != token.VAR {
							continue
						}
						for i, n := range sp.Names {
							desc := n.Name
							if sp.Type != nil {
								desc += " " + exprText(fset, sp.Type)
							} else if i < len(sp.Values) {
								v := sp.Values[i]
								// the kind of initialiser is what matters (an error value, a literal table, a pool, a map)
								switch v := v.(type) {
								case *ast.CallExpr:
									desc += " = " + exprText(fset, v.Fun) + "(...)"
								case *ast.CompositeLit:
									desc += " = " + exprText(fset, v.Type) + "{...}"
								default:
									desc += " = " + exprText(fset, v)
								}
							}
							vars = append(vars, [2]string{pkg, desc})
						}
					case *ast.TypeSpec:
						if st, ok := sp.Type.(*ast.StructType); ok {
							for _, fl := range st.Fields.List {
								ty := exprText(fset, fl.Type)
								if len(fl.Names) == 0 {
									fields = append(fields, [2]string{pkg + "." + sp.Name.Name, "(embedded) " + ty})
								}
								for _, n := range fl.Names {
									fields = append(fields, [2]string{pkg + "." + sp.Name.Name, n.Name + " " + ty})
								}
							}
						}
					}
				}
			case *ast.FuncDecl:
				if d.Body == nil {
					continue
				}
				seen := map[string]bool{}
				wseen := map[string]bool{}
				target := func(e ast.Expr) {
					for {
						switch t := e.(type) {
						case *ast.IndexExpr:
							e = t.X
							continue
						case *ast.StarExpr:
							e = t.X
							continue
						case *ast.ParenExpr:
							e = t.X
							continue
						case *ast.SelectorExpr:
							if fieldNames[t.Sel.Name] && !wseen[t.Sel.Name] {
								wseen[t.Sel.Name] = true
								writes = append(writes, [2]string{pkg + "." + d.Name.Name, t.Sel.Name})
							}
						}
						return
					}
				}
				ast.Inspect(d.Body, func(n ast.Node) bool {
					switch t := n.(type) {
					case *ast.AssignStmt:
						for _, l := range t.Lhs {
							target(l)
						}
					case *ast.IncDecStmt:
						target(t.X)
					}
					return true
				})
				lseen := map[string]bool{}
				ast.Inspect(d.Body, func(n ast.Node) bool {
					// integer literals of two or more digits: a size threshold ("if len(rows) >= 10000 take the fast path")
					// is behaviour the models do not have — they treat every size alike
					if bl, ok := n.(*ast.BasicLit); ok && bl.Kind == token.INT {
						if v, err := strconv.ParseInt(bl.Value, 0, 64); (err != nil || v >= 10) && !lseen[bl.Value] {
							lseen[bl.Value] = true
							lits = append(lits, [2]string{pkg + "." + d.Name.Name, bl.Value})
						}
					}
					return true
				})
				ast.Inspect(d.Body, func(n ast.Node) bool {
					if se, ok := n.(*ast.SelectorExpr); ok {
						if id, ok := se.X.(*ast.Ident); ok && hp[id.Name] != "" && id.Obj == nil {
							k := hp[id.Name] + "." + se.Sel.Name
							if !seen[k] {
								seen[k] = true
								hashes = append(hashes, [2]string{pkg + "." + d.Name.Name, k})
							}
						}
					}
					// struct types declared inside functions also hold state when stored
					return true
				})
			}
		}
	}
	srt := func(l [][2]string) {
		sort.Slice(l, func(i, j int) bool {
			if l[i][0] != l[j][0] {
				return l[i][0] < l[j][0]
			}
			return l[i][1] < l[j][1]
		})
	}
	srt(vars)
	srt(fields)
	srt(hashes)
	srt(writes)
	srt(lits)
	must(os.MkdirAll(out, 0o755))
	var b strings.Builder
	b.WriteString("(* generated by `vharness aux state` from the current source of /repo — do not edit *)\n")
	b.WriteString("From Coq Require Import List String.\nFrom GenqlV Require Import Base.Prelude.\nImport ListNotations.\nOpen Scope string_scope.\n\n")
	emit := func(name string, l [][2]string) {
		fmt.Fprintf(&b, "Definition %s : list (string * string) := [\n", name)
		for i, e := range l {
			sep := ";"
			if i == len(l)-1 {
				sep = ""
			}
			fmt.Fprintf(&b, "  (%s, %s)%s\n", coqStr(e[0]), coqStr(e[1]), sep)
		}
		b.WriteString("].\n\n")
	}
	emit("pkg_vars", vars)
	emit("struct_fields", fields)
	emit("hash_calls", hashes)
	emit("field_writes", writes)
	emit("size_literals", lits)
	must(os.WriteFile(filepath.Join(out, "State.v"), []byte(b.String()), 0o644))
	writeJSON(filepath.Join(out, "state.json"), map[string]any{"pkg_vars": len(vars), "struct_fields": len(fields), "hash_calls": len(hashes), "field_writes": len(writes), "size_literals": len(lits)})
	if tier == "print" {
		fmt.Print(b.String())
	}
}
