package main

import (
	"encoding/json"
	"fmt"
	"math"
	"math/big"
	"regexp"
	"strconv"
	"strings"
	"time"

	"github.com/vedadiyan/genql"
	sanitize "github.com/vedadiyan/genql/sanitizer"
	"github.com/vedadiyan/sqlparser/v2"
)

// C16 — sanitize.SanitizeSQL against the Gallina model of the (repaired) lexer and of the consumer's
// tokenizer.  Observables per case:
//   san: NewQuery(t).Parts, SanitizeSQL text | error | panic, token start offsets of template and
//        output according to the REAL sqlparser tokenizer, AST shape of genql.Parse(output) against
//        the template with dummy literals, and (probe) genql.New(..).Exec() echo / WHERE filter;
//   lit: one string literal through the real tokenizer (validates Model/MySqlString.scan_string).

type c16Arg struct {
	K string `json:"k"` // null | int | float | bool | str | other
	V string `json:"v"` // decimal / hex-float / true|false / Go-quoted bytes / Go type name
}

type c16In struct {
	Kind  string   `json:"kind"` // san | lit
	T     string   `json:"t"`    // Go-quoted (strconv.QuoteToASCII) template or literal text
	Args  []c16Arg `json:"args,omitempty"`
	Probe string   `json:"probe,omitempty"` // "" | echo | filter
	Names []string `json:"names,omitempty"` // Go-quoted values of column name, for probe=filter
	// Reuse: the statement is prepared once (NewQuery) and sanitized twice through the SAME parameter slice: first
	// holding decoy strings, then refilled in place with Args. The second result is the observation — a prepared
	// Command must not remember anything about an earlier call.
	Reuse bool `json:"reuse,omitempty"`
}

type propC16 struct{}

func init() { register(propC16{}) }

func (propC16) ID() string { return "C16" }
func (propC16) Imports() []string {
	return []string{"Base.Prelude", "Base.Value", "Model.MySqlString", "Model.Sanitizer", "Run.C16Run"}
}
func (propC16) CheckFn() string   { return "C16Run.check" }
func (propC16) InputType() string { return "C16Run.c16_in" }
func (propC16) ObsType() string   { return "C16Run.c16_obs" }
func (propC16) Exhaustive(tier string) bool {
	return false // the sweep over all short argument strings is exhaustive, the template stream is sampled
}
func (propC16) Rule() string {
	return "san: templates (select items, WHERE comparisons, IN lists, function arguments) with 1-4 placeholders in literal positions and decoys inside '..', \"..\", `..`, --, #, //, /* */, plus a malformed byte-soup stream; arguments: strings over {' \" \\ ` - # / * NUL \\n % _ $ 1 ; space e-acute CJK OR UNION + 31 non-ASCII look-alikes of quotes, backslash, backtick, dashes, # / * ; $ and spaces} of length 0-12 (every look-alike in 6 fixed shapes through the echo and the filter probe) (all strings up to length 2 (quick) / 3 (thorough) over {' \\ \" - space 1 % \\n} exhaustively through the echo and the filter probe), int64/float64 boundary values, bool, nil, unsupported Go types, missing/unused/$0. lit: string literals with every escape of SQLDecodeMap, doubled delimiters, unterminated. A san case is non-trivial when it has at least one placeholder and one argument; a lit case when the literal contains a backslash or a doubled delimiter; distinct = distinct input"
}

func c16Q(s string) string { return strconv.QuoteToASCII(s) }
func c16Unq(s string) (string, error) {
	return strconv.Unquote(s)
}

// ---------------------------------------------------------------- generation

var c16StrAlphabet = []string{"'", "\"", "\\", "`", "-", "#", "/", "*", "\x00", "\n", "%", "_", "$", "1", ";", " ", "é", "世", "OR", "UNION"}
var c16Reduced = []string{"'", "\\", "\"", "-", " ", "1", "%", "\n"}

var c16FixedStrings = []string{
	`\' OR 1=1 -- `, `back\slash`, `' OR '1'='1`, `\`, `\\`, `'`, `''`, `\'`, `'\`, `a\`, "", `x' -- `, `$1`, `'$1'`, `$2`,
	"a\x00b", "é世", "a\xffb", "\xef\xbf\xbd", `%_\%\_`, "\x1a\\Z\\0\\n", `"`, "`", "/* */", "*/", "-- ", "#", "//", "\n", "\r\n",
	"UNION SELECT 1", "1; DROP TABLE t", `\"`, `a"b'c\d`, "x", "name",
}

// c16LookAlikes: runes outside ASCII that resemble a character of the quote / escape / comment alphabet
var c16LookAlikes = []string{"\u2018", "\u2019", "\u201c", "\u201d", "\u201a", "\u201e", "\u2032", "\u2033", "\u02bc", "\u00b4", "\u0060\u0301",
	"\uff07", "\uff02", "\uff3c", "\uff40", "\u2010", "\u2013", "\u2014", "\u2212", "\uff0d", "\uff03", "\uff0f", "\uff0a", "\uff1b", "\uff04",
	"\u00a0", "\u3000", "\u2028", "\ufeff", "\u00ab", "\u00bb"}

var c16Ints = []int64{0, 1, -1, 5, -5, 10, 42, 127, -128, 1 << 31, -(1 << 31), 1<<53 - 1, 1 << 53, 1<<53 + 1, -(1<<53 + 1),
	math.MaxInt64, math.MinInt64, math.MaxInt64 - 1, 1000000, 999999999999}
var c16Floats = []float64{0, math.Copysign(0, -1), 1, -1, 0.5, -0.5, 1.5, -1.5, 0.25, 0.125, 3.75, 100, 1e6, 1e15, 1e21, 1e22,
	1e-7, 1e-5, 123456.789, 0.1, -0.1, 1.0 / 3, 2.5e-10, 1e23, 1e100, math.MaxFloat64, math.SmallestNonzeroFloat64, 5e-324,
	9007199254740993, 1234.5, -2.5, 65535.5}

func c16RandStr(r *Rand) string {
	if r.Chance(25) {
		return Pick(r, c16FixedStrings)
	}
	n := r.Range(0, 12)
	var b strings.Builder
	for i := 0; i < n; i++ {
		if r.Chance(6) {
			b.WriteString(Pick(r, c16LookAlikes))
			continue
		}
		b.WriteString(Pick(r, c16StrAlphabet))
	}
	return b.String()
}

func c16StrArg(s string) c16Arg { return c16Arg{"str", c16Q(s)} }
func c16IntArg(i int64) c16Arg  { return c16Arg{"int", strconv.FormatInt(i, 10)} }
func c16FloatArg(f float64) c16Arg {
	return c16Arg{"float", strconv.FormatFloat(f, 'x', -1, 64)}
}

func c16RandArg(r *Rand) c16Arg {
	switch k := r.Intn(100); {
	case k < 55:
		return c16StrArg(c16RandStr(r))
	case k < 70:
		return c16IntArg(Pick(r, c16Ints))
	case k < 85:
		return c16FloatArg(Pick(r, c16Floats))
	case k < 91:
		return c16Arg{"bool", strconv.FormatBool(r.Bool())}
	case k < 96:
		return c16Arg{"null", ""}
	case k < 98:
		return c16FloatArg(Pick(r, []float64{math.NaN(), math.Inf(1), math.Inf(-1)}))
	default:
		return c16Arg{"other", Pick(r, []string{"int", "uint8", "float32", "struct", "int32"})}
	}
}

// base templates: "~" marks a point where a decoy (or nothing) may be inserted; k = placeholders used
var c16Bases = []struct {
	t   string
	k   int
	tag string
}{
	{"SELECT~ $1 AS v~ FROM dual~", 1, "select-item"},
	{"SELECT id~ FROM t WHERE~ name = $1~", 1, "where-eq"},
	{"SELECT *~ FROM t WHERE a = $1~ AND b < $2~", 2, "where-and"},
	{"SELECT $1 AS x,~ $2 AS y~ FROM t", 2, "select-items"},
	{"SELECT * FROM t~ WHERE a IN ($1,~ $2, $3)~", 3, "in-list"},
	{"SELECT CONCAT($1,~ $2) AS c, LENGTH($3) AS l~ FROM t WHERE d = $4~", 4, "func-args"},
	{"SELECT * FROM t WHERE a = $2~ AND b = $1~", 2, "reordered"},
	{"SELECT * FROM t WHERE a = $1~ OR b = $1~", 1, "repeated"},
	{"SELECT 3-$1 AS v~ FROM dual", 1, "after-minus"},
	{"SELECT 3--$1 AS v~ FROM dual", 1, "after-minus-minus"},
	{"SELECT~ IF(a>$1,$2,$3) AS r FROM t~", 3, "func-args-tight"},
	{"SELECT * FROM t WHERE a BETWEEN $1 AND $2~ LIMIT 3", 2, "between"},
	{"SELECT * FROM t WHERE~ NOT (a = $1)~", 1, "paren"},
	{"SELECT * FROM t WHERE a<=$1 AND b<>$2~ AND c!=$3 AND d>=$1~", 3, "multibyte-ops"},
}

// decoys: text that contains "$n" where it is NOT a placeholder; all are valid between tokens
var c16Decoys = []struct{ s, tag string }{
	{" /* $1 */ ", "block"}, {" /* $9 /* */ ", "block-nested-open"}, {" /*!99999 $1 */ ", "block-bang"}, {" /**/ ", "block-empty"},
	{" /* ' $2 */ ", "block-quote"}, {" /* * / $1 **/ ", "block-stars"},
	{" -- $1\n", "dashdash"}, {" -- it's $2\n", "dashdash-quote"}, {" --\t$1 \\\n", "dashdash-backslash"}, {" -- a\r $1 \n", "dashdash-cr"},
	{" # $1\n", "hash"}, {" #$2 '\n", "hash-quote"}, {" // $1\n", "slashslash"},
	{" --\n", "dashdash-empty"},
}

// decoy expressions usable as an extra select item / conjunct
var c16DecoyExprs = []struct{ s, tag string }{ // "e'..'" is "column e aliased '..'" for the parser: select item only, no alias
	{"'$1'", "sq"}, {"'it''s $2'", "sq-doubled"}, {"'a\\'$1'", "sq-backslash"}, {"'\\\\'", "sq-backslash-backslash"},
	{"\"q $1\"", "dq"}, {"\"a\\\"$2\"", "dq-backslash"}, {"\"a\"\"$1\"", "dq-doubled"},
	{"`c$1`", "bt"}, {"`a``$2`", "bt-doubled"}, {"`a\\`", "bt-backslash"},
	{"e'x\\'$1'", "estring"}, {"N'$1'", "nstring"}, {"x'AB'", "hexlit"}, {"b'01'", "bitlit"}, {"'é世$1'", "sq-multibyte"},
	{"1e-5", "float-exp"}, {"0x1F", "hexnum"}, {".5", "dot-number"}, {"1.5e+3", "float-exp-plus"},
	{"'\xef\xbf\xbd$1'", "sq-replacement-char"},
}

func c16Template(r *Rand) (string, int, []string) {
	b := Pick(r, c16Bases)
	tags := []string{"tmpl:" + b.tag}
	t := b.t
	for strings.Contains(t, "~") {
		rep := ""
		if r.Chance(40) {
			d := Pick(r, c16Decoys)
			rep = d.s
			tags = append(tags, "decoy:"+d.tag)
		}
		t = strings.Replace(t, "~", rep, 1)
	}
	// decoy expression as an additional conjunct / select item
	if r.Chance(65) {
		d := Pick(r, c16DecoyExprs)
		tags = append(tags, "decoy:"+d.tag)
		if d.tag == "estring" {
			t = strings.Replace(t, "SELECT", "SELECT "+d.s+",", 1)
		} else if i := strings.Index(t, " WHERE "); i >= 0 && r.Bool() {
			t = t[:i+7] + d.s + " = " + d.s + " AND " + t[i+7:]
		} else {
			t = strings.Replace(t, "SELECT", "SELECT "+d.s+" AS dd,", 1)
		}
	}
	return t, b.k, tags
}

var c16Soup = []string{"$1", "$0", "$2", "$", "$12", "'", "\"", "`", "\\", "--", "-- ", "-", "#", "/*", "*/", "//", "/", "*", "\n", "\r", " ", "\t",
	"e'", "E'", "x'", "b'", "N'", "n\"", "@", "@@", ":", ":=", "::", ".", "1", "0", "0x", "0b", "e", "E", "+", "é", "\xff", "\xef\xbf\xbd", "\xe4\xb8",
	"abc", ";", "!", "!=", "<=", ">=", "<>", "<=>", "&&", "||", "->", "->>", "<<", ">>", "<", ">", "a", "_", "(", ")", ",", "=", "''", "\"\"", "``", "\\'", "1e", "1e-", ".5", "\x00", "?", "$18446744073709551617", "$99999999999999999999"}

func (propC16) Generate(r *Rand, tier string) []Case {
	var out []Case
	add := func(in c16In, tags []string, nontrivial bool) {
		out = append(out, Case{Input: in, Tags: tags, Nontrivial: nontrivial})
	}
	scale := 1
	if tier == "thorough" {
		scale = 10
	}
	echoT := "SELECT $1 AS v FROM dual"
	filtT := "SELECT id FROM t WHERE name = $1"

	// 1. exhaustive sweep of short argument strings through echo and filter
	maxLen := 2
	if tier == "thorough" {
		maxLen = 3
	}
	var sweep []string
	var rec func(prefix string, n int)
	rec = func(prefix string, n int) {
		sweep = append(sweep, prefix)
		if n == 0 {
			return
		}
		for _, a := range c16Reduced {
			rec(prefix+a, n-1)
		}
	}
	rec("", maxLen)
	for _, s := range sweep {
		add(c16In{Kind: "san", T: c16Q(echoT), Args: []c16Arg{c16StrArg(s)}, Probe: "echo"}, []string{"sweep", "probe:echo", "arg:str"}, true)
		add(c16In{Kind: "san", T: c16Q(filtT), Args: []c16Arg{c16StrArg(s)}, Probe: "filter", Names: []string{c16Q(s), c16Q("a"), c16Q(s + "x"), c16Q(""), c16Q("' OR 1=1 -- ")}},
			[]string{"sweep", "probe:filter", "arg:str"}, true)
	}

	// 2. every fixed string / boundary number through the echo probe
	for _, s := range c16FixedStrings {
		add(c16In{Kind: "san", T: c16Q(echoT), Args: []c16Arg{c16StrArg(s)}, Probe: "echo"}, []string{"fixed", "probe:echo", "arg:str"}, true)
		add(c16In{Kind: "san", T: c16Q(filtT), Args: []c16Arg{c16StrArg(s)}, Probe: "filter", Names: []string{c16Q("a"), c16Q(s), c16Q("b"), c16Q(s + s)}},
			[]string{"fixed", "probe:filter", "arg:str"}, true)
	}
	for _, i := range c16Ints {
		add(c16In{Kind: "san", T: c16Q(echoT), Args: []c16Arg{c16IntArg(i)}, Probe: "echo"}, []string{"fixed", "probe:echo", "arg:int"}, true)
		add(c16In{Kind: "san", T: c16Q("SELECT 3-$1 AS v, 2 - $1 AS w FROM dual"), Args: []c16Arg{c16IntArg(i)}}, []string{"fixed", "tmpl:after-minus", "arg:int"}, true)
	}
	for _, f := range c16Floats {
		add(c16In{Kind: "san", T: c16Q(echoT), Args: []c16Arg{c16FloatArg(f)}, Probe: "echo"}, []string{"fixed", "probe:echo", "arg:float"}, true)
		add(c16In{Kind: "san", T: c16Q("SELECT 3-$1 AS v FROM dual"), Args: []c16Arg{c16FloatArg(f)}}, []string{"fixed", "tmpl:after-minus", "arg:float"}, true)
	}
	for _, a := range []c16Arg{{"bool", "true"}, {"bool", "false"}, {"null", ""}} {
		add(c16In{Kind: "san", T: c16Q(echoT), Args: []c16Arg{a}, Probe: "echo"}, []string{"fixed", "probe:echo", "arg:" + a.K}, true)
	}
	for _, f := range []float64{math.NaN(), math.Inf(1), math.Inf(-1)} {
		add(c16In{Kind: "san", T: c16Q(echoT), Args: []c16Arg{c16FloatArg(f)}}, []string{"fixed", "arg:nonfinite"}, true)
	}
	for _, ty := range []string{"int", "uint8", "float32", "struct", "int32"} {
		add(c16In{Kind: "san", T: c16Q(echoT), Args: []c16Arg{{"other", ty}}}, []string{"fixed", "arg:other"}, true)
	}

	// 2b. multi-byte runes that LOOK like the quote / escape / comment alphabet (typographic quotes, primes, fullwidth
	// forms, dashes, exotic spaces, BOM): inside an argument they are ordinary text for the library's own parser — nothing
	// downstream of the sanitizer may read them as the ASCII character they resemble. Every look-alike alone, between
	// letters, doubled after an ASCII quote, after and before a backslash, and in the classic injection shape, through echo
	// and filter (genql.New -> Parse -> Exec).
	for _, h := range c16LookAlikes {
		for _, s := range []string{h, "O" + h + "Brien", "x" + h + " OR 1=1 -- ", "'" + h + h, "\\" + h, h + "$1" + h + "\\"} {
			add(c16In{Kind: "san", T: c16Q(echoT), Args: []c16Arg{c16StrArg(s)}, Probe: "echo"}, []string{"look-alike", "probe:echo", "arg:str"}, true)
			add(c16In{Kind: "san", T: c16Q(filtT), Args: []c16Arg{c16StrArg(s)}, Probe: "filter", Names: []string{c16Q("a"), c16Q(s), c16Q("x"), c16Q("O"), c16Q(s + s)}},
				[]string{"look-alike", "probe:filter", "arg:str"}, true)
		}
	}

	// 3. error accounting: $0, missing, unused, gaps
	errT := []string{"SELECT $0 AS v FROM dual", "SELECT $1 AS v, $0 AS w FROM dual", "SELECT $2 AS v FROM dual", "SELECT $1 AS v, $3 AS w FROM dual",
		"SELECT 1 AS v FROM dual", "SELECT $1 AS v FROM dual", "SELECT $00 AS v FROM dual", "SELECT $01 AS v FROM dual",
		"SELECT $18446744073709551617 AS v FROM dual", "SELECT $99999999999999999999 AS v FROM dual", "SELECT $9223372036854775808 AS v FROM dual",
		"SELECT '$1' AS v FROM dual", "SELECT `$1` AS v FROM dual", "SELECT 1 AS v FROM dual -- $1", "SELECT 1 AS v FROM dual # $1", "SELECT 1 /* $1 */ AS v FROM dual", "SELECT 1 /*! $1 */ AS v FROM dual",
		"SELECT 'a\\'$1' AS v FROM dual", "SELECT \"a\\\"$1\" AS v FROM dual", "SELECT e'a\\'$1' AS v FROM dual", "SELECT /* /* */ $1 AS v FROM dual",
		"SELECT 3--$1 AS v FROM dual", "SELECT 1 AS v FROM dual -- a\r $1 \n", "SELECT 1 AS v FROM dual -- a\\\n WHERE 1 = $1", "SELECT 1 AS v FROM dual // $1",
		// a repeated placeholder next to a skipped one: the counts agree, yet an argument is unused
		"SELECT $2 AS v, $2 AS w FROM dual", "SELECT $1 AS a, $1 AS b, $3 AS c FROM dual", "SELECT $3 AS a, $3 AS b, $3 AS c FROM dual",
		"SELECT $1 AS a, $2 AS b, $2 AS c FROM dual", "SELECT $2 AS a, $3 AS b, $3 AS c, $2 AS d FROM dual",
		// a minus directly in front of a "-- " comment (odd and even runs of dashes), the operand on the next line
		"SELECT 5 --- $1\n 2 AS v FROM dual", "SELECT 5 ----- $1\n 2 AS v FROM dual", "SELECT 5 ---- $1\n AS v FROM dual", "SELECT 5 ---$1\n AS v FROM dual",
		"SELECT 5 - -- $1\n 2 AS v FROM dual", "SELECT $1 --- $2\n 2 AS v FROM dual", "SELECT 5 ---\t$1\n 2 AS v FROM dual"}
	for _, t := range errT {
		for n := 0; n <= 4; n++ {
			var args []c16Arg
			for i := 0; i < n; i++ {
				args = append(args, c16StrArg(fmt.Sprintf("a%d", i)))
			}
			add(c16In{Kind: "san", T: c16Q(t), Args: args}, []string{"accounting", fmt.Sprintf("nargs:%d", n)}, n > 0)
		}
	}

	// 3b. many arguments (more than 64): all used; one beyond the 64th unused; surplus arguments; a missing one
	for _, n := range []int{63, 64, 65, 70, 130} {
		mk := func(skip int, upto int) string {
			var b strings.Builder
			b.WriteString("SELECT id FROM t WHERE id IN (")
			first := true
			for i := 1; i <= upto; i++ {
				if i == skip {
					continue
				}
				if !first {
					b.WriteString(", ")
				}
				first = false
				fmt.Fprintf(&b, "$%d", i)
			}
			b.WriteString(")")
			return b.String()
		}
		var args []c16Arg
		for i := 0; i < n; i++ {
			args = append(args, c16IntArg(int64(i)))
		}
		add(c16In{Kind: "san", T: c16Q(mk(0, n)), Args: args}, []string{"accounting", "many-arguments", "all-used"}, true)
		add(c16In{Kind: "san", T: c16Q(mk(n-1, n)), Args: args}, []string{"accounting", "many-arguments", "one-unused-near-the-end"}, true)
		add(c16In{Kind: "san", T: c16Q(mk(0, n-2)), Args: args}, []string{"accounting", "many-arguments", "surplus"}, true)
		add(c16In{Kind: "san", T: c16Q(mk(0, n+1)), Args: args}, []string{"accounting", "many-arguments", "missing"}, true)
		add(c16In{Kind: "san", T: c16Q(mk(2, n)), Args: args}, []string{"accounting", "many-arguments", "one-unused-near-the-start"}, true)
	}

	// 4. structured templates with decoys and random arguments
	for i := 0; i < 1000*scale; i++ {
		t, k, tags := c16Template(r)
		n := k
		if r.Chance(8) {
			n = k + 1 // unused argument
			tags = append(tags, "args:extra")
		} else if r.Chance(8) && k > 0 {
			n = k - 1 // missing argument
			tags = append(tags, "args:missing")
		}
		var args []c16Arg
		for j := 0; j < n; j++ {
			a := c16RandArg(r)
			args = append(args, a)
			tags = append(tags, "arg:"+a.K)
		}
		in := c16In{Kind: "san", T: c16Q(t), Args: args}
		if r.Chance(12) {
			in.Reuse = true
			tags = append(tags, "prepared-command-reused")
		}
		add(in, tags, n > 0 && k > 0)
	}
	// the echo probe through a reused prepared command: the value that comes back is the second call's argument
	for i := 0; i < 40*scale; i++ {
		a := c16RandArg(r)
		add(c16In{Kind: "san", T: c16Q(echoT), Args: []c16Arg{a}, Probe: "echo", Reuse: true}, []string{"prepared-command-reused", "probe:echo", "arg:" + a.K}, true)
	}

	// 5. echo / filter probes with random strings
	for i := 0; i < 150*scale; i++ {
		s := c16RandStr(r)
		add(c16In{Kind: "san", T: c16Q(echoT), Args: []c16Arg{c16StrArg(s)}, Probe: "echo"}, []string{"random", "probe:echo", "arg:str"}, true)
		add(c16In{Kind: "san", T: c16Q(filtT), Args: []c16Arg{c16StrArg(s)}, Probe: "filter", Names: []string{c16Q(c16RandStr(r)), c16Q(s), c16Q("a"), c16Q(s + "'")}},
			[]string{"random", "probe:filter", "arg:str"}, true)
	}

	// 6. malformed stream: byte soup through the lexer models (parts + token offsets)
	for i := 0; i < 500*scale; i++ {
		n := r.Range(1, 12)
		var b strings.Builder
		for j := 0; j < n; j++ {
			b.WriteString(Pick(r, c16Soup))
		}
		var args []c16Arg
		for j := r.Intn(3); j > 0; j-- {
			args = append(args, c16RandArg(r))
		}
		add(c16In{Kind: "san", T: c16Q(b.String()), Args: args}, []string{"soup"}, len(args) > 0)
	}

	// 7. literals for the validation of MySqlString.scan_string against sqlparser
	litPieces := []string{"a", "'", "''", "\"", "\"\"", "\\'", "\\\"", "\\\\", "\\n", "\\0", "\\Z", "\\b", "\\r", "\\t", "\\%", "\\_", "\\x", "\\", "é", "\x00", "\n", "%", "_", " ", "`", "$1", "\\é", "\xff"}
	for i := 0; i < 250*scale; i++ {
		d := Pick(r, []string{"'", "\""})
		var b strings.Builder
		b.WriteString(d)
		for j := r.Range(0, 8); j > 0; j-- {
			b.WriteString(Pick(r, litPieces))
		}
		if r.Chance(85) {
			b.WriteString(d)
		}
		if r.Chance(50) {
			b.WriteString(Pick(r, []string{" x", "x", ")", " ", "\\", ",'b'"}))
		}
		s := b.String()
		add(c16In{Kind: "lit", T: c16Q(s)}, []string{"lit:random"}, strings.Contains(s, "\\") || strings.Contains(s, d+d))
	}
	for i := 0; i < 150*scale; i++ {
		s := c16RandStr(r)
		lit := sanitize.QuoteString(s) + Pick(r, []string{"", " ", ")", " AS v"})
		add(c16In{Kind: "lit", T: c16Q(lit)}, []string{"lit:quoted-arg"}, strings.ContainsAny(s, "\\'"))
	}
	return out
}

// ---------------------------------------------------------------- observation

func (a c16Arg) goValue() (any, error) {
	switch a.K {
	case "null":
		return nil, nil
	case "int":
		i, err := strconv.ParseInt(a.V, 10, 64)
		return i, err
	case "float":
		return strconv.ParseFloat(a.V, 64)
	case "bool":
		return a.V == "true", nil
	case "str":
		return c16Unq(a.V)
	case "other":
		switch a.V {
		case "int":
			return int(7), nil
		case "uint8":
			return uint8(7), nil
		case "float32":
			return float32(1.5), nil
		case "int32":
			return int32(7), nil
		default:
			return struct{ X int }{1}, nil
		}
	}
	return nil, fmt.Errorf("bad arg kind %q", a.K)
}

func c16CoqSpecFloat(f float64) string {
	switch {
	case math.IsNaN(f):
		return "S754_nan"
	case math.IsInf(f, 0):
		return "(S754_infinity " + coqBool(f < 0) + ")"
	case f == 0:
		return "(S754_zero " + coqBool(math.Signbit(f)) + ")"
	}
	m, e := dyadic(f)
	return fmt.Sprintf("(S754_finite %s %s%%positive %s)", coqBool(f < 0), new(big.Int).Abs(m).String(), coqZi(int64(e)))
}

func (a c16Arg) coq() (string, string, error) { // arg term, FormatFloat oracle text
	v, err := a.goValue()
	if err != nil {
		return "", "", err
	}
	switch t := v.(type) {
	case nil:
		return "ANull", "", nil
	case int64:
		return "(AInt " + coqZi(t) + ")", "", nil
	case float64:
		return "(AFloat " + c16CoqSpecFloat(t) + ")", strconv.FormatFloat(t, 'f', -1, 64), nil
	case bool:
		return "(ABool " + coqBool(t) + ")", "", nil
	case string:
		return "(AStr " + coqStr(t) + ")", "", nil
	}
	return "AOther", "", nil
}

type c16RealTok struct {
	start, end, typ int
	val             string
}

func c16IsBlankByte(b byte) bool { return b == ' ' || b == '\n' || b == '\r' || b == '\t' }

// c16RealTokens iterates (*Tokenizer).Scan of the real sqlparser over sql.
func c16RealTokens(sql string) (toks []c16RealTok) {
	defer func() {
		if r := recover(); r != nil {
			toks = append(toks, c16RealTok{start: -1, end: -1, typ: -1, val: fmt.Sprint(r)})
		}
	}()
	p := &sqlparser.Parser{}
	tkn := p.NewStringTokenizer(sql)
	prevEnd := 0
	for guard := 0; guard < 2*len(sql)+8; guard++ {
		typ, val := tkn.Scan()
		end := tkn.Pos
		if end > len(sql) {
			end = len(sql)
		}
		if end > prevEnd {
			start := prevEnd
			for start < end && c16IsBlankByte(sql[start]) {
				start++
			}
			// scanMySQLSpecificComment ends in "return tkn.Scan()": a /*! */ comment and the token after it
			// come back from one call; split the span at the comment's end
			if start < end && strings.HasPrefix(sql[start:end], "/*!") {
				if i := strings.Index(sql[start+3:end], "*/"); i >= 0 && start+3+i+2 < end {
					cend := start + 3 + i + 2
					toks = append(toks, c16RealTok{start, cend, sqlparser.COMMENT, sql[start:cend]})
					start = cend
					for start < end && c16IsBlankByte(sql[start]) {
						start++
					}
				}
			}
			if start < end {
				toks = append(toks, c16RealTok{start, end, typ, val})
			}
			prevEnd = end
		}
		if typ == 0 && tkn.Pos >= len(sql) {
			break
		}
	}
	return toks
}

// c16TokStarts lists the token start offsets. The mode machine of Model/MySqlString.v lexes operators byte
// by byte (it does not group "<=", "!=", "<=>", "&&", "->" ...: grouping them changes no lexical mode), so a
// multi-byte operator token of the real tokenizer is reported as one start per byte.
func c16TokStarts(sql string) []string {
	var out []string
	for _, t := range c16RealTokens(sql) {
		multiOp := t.start >= 0 && t.end-t.start > 1 && t.typ != sqlparser.COMMENT
		if multiOp {
			for i := t.start; i < t.end; i++ {
				if !strings.ContainsRune("<>=!&|-", rune(sql[i])) {
					multiOp = false
					break
				}
			}
		}
		if multiOp {
			for i := t.start; i < t.end; i++ {
				out = append(out, fmt.Sprintf("%d%%nat", i))
			}
			continue
		}
		out = append(out, fmt.Sprintf("%d%%nat", t.start))
	}
	return out
}

var c16PhRe = regexp.MustCompile(`^\$[0-9]+$`)

// c16DummySubst replaces, using the REAL tokenizer (not the sanitizer), every "$n" identifier token of the
// template by a dummy literal of the same kind and sign as argument n.
func c16DummySubst(t string, args []any) (string, bool) {
	var b strings.Builder
	pos := 0
	for _, tk := range c16RealTokens(t) {
		if tk.typ == sqlparser.ID && c16PhRe.MatchString(tk.val) && tk.end-tk.start == len(tk.val) {
			n, err := strconv.ParseInt(tk.val[1:], 10, 64)
			if err != nil || n < 1 || int(n) > len(args) {
				return "", false
			}
			b.WriteString(t[pos:tk.start])
			switch a := args[n-1].(type) {
			case nil:
				b.WriteString("null")
			case bool:
				b.WriteString(strconv.FormatBool(a))
			case string:
				b.WriteString("'s'")
			case int64:
				if a < 0 {
					b.WriteString("-7")
				} else {
					b.WriteString("7")
				}
			case float64:
				if a < 0 || (a == 0 && math.Signbit(a)) {
					b.WriteString("-7")
				} else {
					b.WriteString("7")
				}
			default:
				return "", false
			}
			pos = tk.end
		}
	}
	b.WriteString(t[pos:])
	return b.String(), true
}

func c16NormShape(sql string) (s string, ok bool) {
	defer func() {
		if r := recover(); r != nil {
			s, ok = "", false
		}
	}()
	st, err := genql.Parse(sql)
	if err != nil || st == nil {
		return "", false
	}
	_ = sqlparser.Walk(func(node sqlparser.SQLNode) (bool, error) {
		if lit, isLit := node.(*sqlparser.Literal); isLit {
			lit.Type = sqlparser.StrVal
			lit.Val = "L"
		}
		return true, nil
	}, st)
	return fmt.Sprintf("%T|", st) + sqlparser.String(st), true
}

type c16ExecRes struct {
	class string // ok | error | panic | timeout
	rows  []any
}

func c16Exec(data map[string]any, sql string) c16ExecRes {
	ch := make(chan c16ExecRes, 1)
	go func() {
		defer func() {
			if r := recover(); r != nil {
				ch <- c16ExecRes{class: "panic"}
			}
		}()
		qy, err := genql.New(data, sql)
		if err != nil {
			ch <- c16ExecRes{class: "error"}
			return
		}
		rs, err := qy.Exec()
		if err != nil {
			ch <- c16ExecRes{class: "error"}
			return
		}
		ch <- c16ExecRes{class: "ok", rows: rs}
	}()
	select {
	case r := <-ch:
		return r
	case <-time.After(5 * time.Second):
		return c16ExecRes{class: "timeout"}
	}
}

func c16CoqParts(parts []sanitize.Part) string {
	items := make([]string, len(parts))
	for i, p := range parts {
		switch t := p.(type) {
		case string:
			items[i] = "(PRaw " + coqStr(t) + ")"
		case int:
			items[i] = "(PArg " + coqZi(int64(t)) + ")"
		default:
			items[i] = "(PRaw \"<<bad part type>>\"%string)"
		}
	}
	return coqList(items)
}

func (propC16) Observe(raw json.RawMessage) (Observed, error) {
	var in c16In
	if err := json.Unmarshal(raw, &in); err != nil {
		return Observed{}, err
	}
	t, err := c16Unq(in.T)
	if err != nil {
		return Observed{}, fmt.Errorf("template not Go-quoted: %v", err)
	}
	if in.Kind == "lit" {
		toks := c16RealTokens(t)
		isStr, val, pos := false, "", 0
		if len(toks) > 0 && toks[0].start == 0 && (toks[0].typ == sqlparser.STRING) {
			isStr, val, pos = true, toks[0].val, toks[0].end
		}
		tag := "lit:lex-error"
		if isStr {
			tag = "lit:string"
		}
		return Observed{
			CoqIn:  "(C16Run.ILit " + coqStr(t) + ")",
			CoqObs: fmt.Sprintf("(C16Run.OLit %s %s %d%%nat)", coqBool(isStr), coqStr(val), pos),
			Note:   map[string]any{"is_string": isStr, "value": c16Q(val), "pos": pos},
			Tags:   []string{tag, "mysqlstring-validation"},
		}, nil
	}
	if in.Kind != "san" {
		return Observed{}, fmt.Errorf("bad kind %q", in.Kind)
	}
	var goArgs []any
	var coqArgs, coqTxt []string
	for _, a := range in.Args {
		v, err := a.goValue()
		if err != nil {
			return Observed{}, err
		}
		goArgs = append(goArgs, v)
		ct, tx, err := a.coq()
		if err != nil {
			return Observed{}, err
		}
		coqArgs = append(coqArgs, ct)
		coqTxt = append(coqTxt, coqStr(tx))
	}
	var tags []string

	// (a) parts and text / error class
	partsTerm := "Panic"
	func() {
		defer func() { _ = recover() }()
		cmd, err := sanitize.NewQuery(t)
		if err != nil {
			partsTerm = "Err"
			return
		}
		partsTerm = "(Ok " + c16CoqParts(cmd.Parts) + ")"
	}()
	outTerm, outClass, outText := "Panic", "panic", ""
	func() {
		defer func() { _ = recover() }()
		var s string
		var err error
		if in.Reuse {
			var cmd *sanitize.Command
			cmd, err = sanitize.NewQuery(t)
			if err == nil {
				params := make([]any, len(goArgs))
				for i := range params {
					params[i] = fmt.Sprintf("decoy-%d", i)
				}
				func() {
					defer func() { _ = recover() }()
					cmd.Sanitize(params...)
				}()
				copy(params, goArgs)
				s, err = cmd.Sanitize(params...)
			}
		} else {
			s, err = sanitize.SanitizeSQL(t, goArgs...)
		}
		if err != nil {
			outTerm, outClass = "Err", "error"
			return
		}
		outTerm, outClass, outText = "(Ok "+coqStr(s)+")", "ok", s
	}()
	tags = append(tags, "out:"+outClass)

	// (a') real tokenizer over template and output
	ttoks := coqList(c16TokStarts(t))
	otoks := "[]"
	if outClass == "ok" {
		otoks = coqList(c16TokStarts(outText))
	}

	// (b) AST shape against the template with dummy literals
	shape := "None"
	note := map[string]any{"template": in.T, "out_class": outClass, "out": c16Q(outText)}
	if outClass == "ok" {
		if dummy, ok := c16DummySubst(t, goArgs); ok {
			if want, ok := c16NormShape(dummy); ok {
				got, gok := c16NormShape(outText)
				same := gok && got == want
				shape = "(Some " + coqBool(same) + ")"
				tags = append(tags, "shape:"+coqBool(same))
				note["shape_want"], note["shape_got"] = want, got
			} else {
				tags = append(tags, "shape:template-unparseable")
			}
		} else {
			tags = append(tags, "shape:no-dummy")
		}
	}

	// (c)/(d) execution probes
	probe, exec := "C16Run.PNone", "C16Run.XNone"
	if in.Probe != "" {
		var data map[string]any
		switch in.Probe {
		case "echo":
			probe = "C16Run.PEcho"
			data = map[string]any{}
		case "filter":
			var names, rows = []string{}, []any{}
			for i, nq := range in.Names {
				n, err := c16Unq(nq)
				if err != nil {
					return Observed{}, err
				}
				names = append(names, coqStr(n))
				rows = append(rows, map[string]any{"id": float64(i), "name": n})
			}
			probe = "(C16Run.PFilter " + coqList(names) + ")"
			data = map[string]any{"t": rows}
		default:
			return Observed{}, fmt.Errorf("bad probe %q", in.Probe)
		}
		if outClass == "ok" {
			r := c16Exec(data, outText)
			tags = append(tags, "exec:"+r.class)
			switch r.class {
			case "ok":
				rows := r.rows
				if rows == nil {
					rows = []any{}
				}
				exec = "(C16Run.XRows " + coqValue(rows) + ")"
				note["rows"] = fmt.Sprintf("%#v", rows)
			case "error":
				exec = "C16Run.XErr"
			default:
				exec = "C16Run.XPanic"
			}
		}
	}

	return Observed{
		CoqIn:  fmt.Sprintf("(C16Run.ISan %s %s %s %s)", coqStr(t), coqList(coqArgs), coqList(coqTxt), probe),
		CoqObs: fmt.Sprintf("(C16Run.OSan %s %s %s %s %s %s)", partsTerm, outTerm, ttoks, otoks, shape, exec),
		Note:   note,
		Tags:   tags,
	}, nil
}
