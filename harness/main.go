// vharness — correspondence harness: runs generated inputs through the real genql code
// (current working tree of /repo, via the replace directive) and writes Coq case files in
// which the same inputs are evaluated by the Gallina model under vm_compute.
package main

import (
	"encoding/json"
	"flag"
	"fmt"
	"os"
	"path/filepath"
	"sort"
	"strings"
)

// Case is one generated input.
type Case struct {
	Input      any      `json:"input"`      // JSON-serialisable description, enough to replay
	Tags       []string `json:"tags"`       // feature tags (distribution, known-finding signatures)
	Nontrivial bool     `json:"nontrivial"` // by the property's stated rule
	Key        string   `json:"-"`          // distinctness key (defaults to JSON of Input)
}

// Observed is what the real code did on a case.
type Observed struct {
	CoqIn  string // Coq term: the input as the model sees it
	CoqObs string // Coq term: the observable
	Note   any    // human-readable rendering of the observable for replay files
	Tags   []string
	Trivial bool  // the observation shows the case is trivial by the property's rule
}

// Prop is the per-property plug-in.
type Prop interface {
	ID() string
	// Imports are the Coq modules the case file needs; CheckFn is a Coq function
	// input -> observed -> N (0 agree, 1 model differs, 2 property fails, 3 both, 4 out of model).
	Imports() []string
	CheckFn() string
	InputType() string
	ObsType() string
	Rule() string
	Exhaustive(tier string) bool
	Generate(r *Rand, tier string) []Case
	// Observe runs the real code. The input arrives as raw JSON so that replay and generation
	// share one path.
	Observe(input json.RawMessage) (Observed, error)
}

var registry = map[string]Prop{}

func register(p Prop) { registry[p.ID()] = p }

type caseRec struct {
	ID    int             `json:"id"`
	Shard int             `json:"shard"`
	Input json.RawMessage `json:"input"`
	Tags  []string        `json:"tags"`
	Note  any             `json:"observed"`
}

type meta struct {
	Property           string         `json:"property"`
	Tier               string         `json:"tier"`
	Seed               uint64         `json:"seed"`
	Evaluations        int            `json:"evaluations"`
	DistinctNontrivial int            `json:"distinct_nontrivial"`
	Rule               string         `json:"rule"`
	Exhaustive         bool           `json:"exhaustive"`
	Shards             []string       `json:"shards"`
	Samples            []any          `json:"samples"`
	Distribution       map[string]int `json:"distribution"`
	CorpusCases        int            `json:"corpus_cases"`
	Extra              map[string]any `json:"extra,omitempty"`
}

func main() {
	if len(os.Args) < 3 {
		fmt.Fprintln(os.Stderr, "usage: vharness gen|replay|sites <prop> [flags]")
		os.Exit(2)
	}
	cmd, id := os.Args[1], os.Args[2]
	fs := flag.NewFlagSet(cmd, flag.ExitOnError)
	tier := fs.String("tier", "quick", "quick|thorough")
	seed := fs.Uint64("seed", 1, "seed")
	out := fs.String("out", ".", "output directory")
	in := fs.String("in", "", "replay file")
	corpus := fs.String("corpus", "", "corpus directory (cases run first)")
	shardSize := fs.Int("shard", 400, "cases per shard")
	fs.Parse(os.Args[3:])

	flagIn = *in
	if cmd == "aux" {
		runAux(id, *tier, *seed, *out)
		return
	}
	p, ok := registry[id]
	if !ok {
		fmt.Fprintf(os.Stderr, "unknown property %s\n", id)
		os.Exit(2)
	}
	switch cmd {
	case "gen":
		doGen(p, *tier, *seed, *out, *corpus, *shardSize)
	case "replay":
		doReplay(p, *in, *out)
	default:
		fmt.Fprintln(os.Stderr, "unknown command", cmd)
		os.Exit(2)
	}
}

func must(err error) {
	if err != nil {
		fmt.Fprintln(os.Stderr, "vharness:", err)
		os.Exit(3)
	}
}

func loadCorpus(dir string) []Case {
	var out []Case
	if dir == "" {
		return out
	}
	files, _ := filepath.Glob(filepath.Join(dir, "*.json"))
	sort.Strings(files)
	for _, f := range files {
		raw, err := os.ReadFile(f)
		if err != nil {
			continue
		}
		var rec struct {
			Input json.RawMessage `json:"input"`
			Tags  []string        `json:"tags"`
		}
		if json.Unmarshal(raw, &rec) != nil || rec.Input == nil {
			continue
		}
		out = append(out, Case{Input: rec.Input, Tags: append(rec.Tags, "corpus:"+filepath.Base(f)), Nontrivial: true})
	}
	return out
}

func doGen(p Prop, tier string, seed uint64, out, corpus string, shardSize int) {
	must(os.MkdirAll(out, 0o755))
	r := NewRand(seed)
	cor := loadCorpus(corpus)
	cases := append(cor, p.Generate(r, tier)...)
	m := meta{Property: p.ID(), Tier: tier, Seed: seed, Rule: p.Rule(), Exhaustive: p.Exhaustive(tier),
		Distribution: map[string]int{}, CorpusCases: len(cor)}
	distinct := map[string]bool{}
	var recs []caseRec
	var lines []string
	shard := 0
	flush := func() {
		if len(lines) == 0 {
			return
		}
		name := fmt.Sprintf("cases_%03d.v", shard)
		writeShard(filepath.Join(out, name), p, lines)
		m.Shards = append(m.Shards, name)
		shard++
		lines = nil
	}
	for i, c := range cases {
		raw, err := json.Marshal(c.Input)
		must(err)
		// progress marker: if the real code never returns on this case the orchestrator knows the culprit
		os.WriteFile(filepath.Join(out, "progress.json"), []byte(fmt.Sprintf("{\"id\": %d, \"input\": %s}", i, raw)), 0o644)
		obs, err := p.Observe(raw)
		if err != nil {
			// a generator / harness bug, never an alarm
			fmt.Fprintf(os.Stderr, "vharness: harness error on case %d: %v\n", i, err)
			os.Exit(3)
		}
		tags := append(append([]string{}, c.Tags...), obs.Tags...)
		for _, t := range tags {
			m.Distribution[t]++
		}
		key := c.Key
		if key == "" {
			key = string(raw)
		}
		if c.Nontrivial && !obs.Trivial && !distinct[key] {
			distinct[key] = true
		}
		recs = append(recs, caseRec{ID: i, Shard: shard, Input: raw, Tags: tags, Note: obs.Note})
		lines = append(lines, fmt.Sprintf("(%d%%nat, (%s, %s))", i, obs.CoqIn, obs.CoqObs))
		if len(m.Samples) < 5 && (i%(len(cases)/5+1) == 0) {
			m.Samples = append(m.Samples, map[string]any{"input": json.RawMessage(raw), "observed": obs.Note})
		}
		if len(lines) >= shardSize {
			flush()
		}
	}
	flush()
	m.Evaluations = len(cases)
	m.DistinctNontrivial = len(distinct)
	if ex, ok := p.(interface{ Extra() map[string]any }); ok {
		m.Extra = ex.Extra()
	}
	writeJSON(filepath.Join(out, "cases.json"), recs)
	writeJSON(filepath.Join(out, "meta.json"), m)
}

func doReplay(p Prop, in, out string) {
	must(os.MkdirAll(out, 0o755))
	raw, err := os.ReadFile(in)
	must(err)
	var rec struct {
		Input json.RawMessage `json:"input"`
	}
	must(json.Unmarshal(raw, &rec))
	if rec.Input == nil {
		must(fmt.Errorf("replay file has no input"))
	}
	obs, err := p.Observe(rec.Input)
	must(err)
	writeShard(filepath.Join(out, "cases_000.v"), p, []string{fmt.Sprintf("(0%%nat, (%s, %s))", obs.CoqIn, obs.CoqObs)})
	writeJSON(filepath.Join(out, "cases.json"), []caseRec{{ID: 0, Input: rec.Input, Note: obs.Note}})
	writeJSON(filepath.Join(out, "meta.json"), meta{Property: p.ID(), Tier: "replay", Evaluations: 1, Shards: []string{"cases_000.v"}})
}

func writeShard(path string, p Prop, lines []string) {
	var b strings.Builder
	b.WriteString("(* generated by vharness; do not edit *)\n")
	b.WriteString("From Coq Require Import List ZArith NArith String Floats.\nImport ListNotations.\n")
	for _, imp := range p.Imports() {
		b.WriteString("From GenqlV Require Import " + imp + ".\n")
	}
	b.WriteString("Local Open Scope string_scope.\n")
	fmt.Fprintf(&b, "Definition cases : list (nat * (%s * %s)) := [\n", p.InputType(), p.ObsType())
	b.WriteString(strings.Join(lines, ";\n"))
	b.WriteString("\n].\n")
	fmt.Fprintf(&b, "Definition M := Eval vm_compute in Prelude.mismatches %s cases.\nPrint M.\n", p.CheckFn())
	must(os.WriteFile(path, []byte(b.String()), 0o644))
}

func writeJSON(path string, v any) {
	raw, err := json.MarshalIndent(v, "", " ")
	must(err)
	must(os.WriteFile(path, raw, 0o644))
}

// runAux dispatches auxiliary, non-case-file commands (translator tables, stress drivers).
var auxRegistry = map[string]func(tier string, seed uint64, out string){}

// flagIn is the -in flag (input file of auxiliary child commands).
var flagIn string

func runAux(id, tier string, seed uint64, out string) {
	f, ok := auxRegistry[id]
	if !ok {
		fmt.Fprintf(os.Stderr, "unknown aux command %s\n", id)
		os.Exit(2)
	}
	if out != "." {
		must(os.MkdirAll(out, 0o755))
	}
	f(tier, seed, out)
}
