package main

// Round-4 streams of C05 (ORDER BY, LIMIT / OFFSET), registered beside genC05 through extraStreams.
//
//  page-vs-select-list   a window WITHOUT ORDER BY over a select list one of whose items cannot be evaluated on some
//                        rows (a path that runs through a scalar, arithmetic on a text): the window is cut from the
//                        sequence the query yields without LIMIT, so a row outside the page that makes that query fail
//                        makes the paged query fail too, wherever the page lies
//  top-n-then-resort     the result of one ordered, windowed query fed into another ordered query:
//                        FROM (SELECT .. ORDER BY k, id LIMIT n [OFFSET m]) AS x ORDER BY x.k2 — the inner window decides
//                        WHICH rows survive, the outer ORDER BY only rearranges them (with and without an outer window)
//  distinct-then-order   SELECT DISTINCT .. ORDER BY on fewer keys than output columns [LIMIT n [OFFSET m]] over
//                        low-cardinality rows: the ordered output is a permutation of the unordered DISTINCT result
//                        and the window is cut from that ordered sequence of DISTINCT rows
//  long-distinct-order   the same over long low-cardinality tables (sizes chosen to cross 1024 / 4096 / 8192 / 10000 /
//                        16384 and not to be multiples of them)

import "fmt"

// lowCardRows: n rows {id, k, v, s} whose k, v, s take few values in an irregular (seeded) pattern, so that equal
// (k, v) pairs are scattered over the table and rows that tie on k differ in v
func lowCardRows(r *Rand, n, ck, cv int) []any {
	rows := make([]any, n)
	x := uint64(r.Intn(1<<30)) | 1
	for i := range rows {
		x = x*6364136223846793005 + 1442695040888963407
		k := int((x >> 33) % uint64(ck))
		x = x*6364136223846793005 + 1442695040888963407
		v := int((x >> 33) % uint64(cv))
		rows[i] = map[string]any{"k": float64(k), "v": float64(v)}
	}
	return rows
}

func genC05Round4(r *Rand, tier string) []Case {
	var out []Case
	thorough := tier == "thorough"
	scale := func(quick, th int) int {
		if thorough {
			return th
		}
		return quick
	}
	window := func(q *Stmt, maxL, maxO int, offPct int) {
		q.Limit = intp(r.Intn(maxL + 1))
		if r.Chance(offPct) {
			q.Offset = intp(r.Intn(maxO + 1))
			q.LimitComma = r.Bool()
		}
	}

	// ---- page-vs-select-list
	for i := scale(110, 1500); i > 0; i-- {
		t := genTable(r, 7)
		if len(t.rows) < 2 {
			continue
		}
		tags := []string{"r4:page-vs-select-list"}
		q := &Stmt{From: &From{K: "table", Path: []string{"t"}}}
		// 0-2 rows on which the item cannot be evaluated (a fifth of the cases has none: the plain window)
		bad := 0
		if r.Chance(80) {
			bad = 1 + r.Intn(2)
		}
		kind := r.Intn(3)
		for j := 0; j < bad; j++ {
			m := t.rows[r.Intn(len(t.rows))].(map[string]any)
			switch kind {
			case 0:
				m["o"] = float64(3) // o.p.q runs through a number
			case 1:
				m["o"] = map[string]any{"p": "leaf", "k": "x"} // o.p.q runs through a text
			default:
				m["n2"] = "text" // arithmetic on a text
			}
		}
		var e *Expr
		switch kind {
		case 0, 1:
			e = Col("o", "p", "q")
			tags = append(tags, "item:path-through-scalar")
		default:
			e = Bin(Pick(r, []string{"*", "-", "/"}), Col("n2"), Num(2))
			tags = append(tags, "item:arithmetic-on-text")
		}
		q.Items = []Item{{E: Col("id")}, {E: e, Alias: "v"}}
		if r.Bool() {
			q.Items = append(q.Items, Item{E: Col("s1"), Alias: "s"})
		}
		if r.Chance(30) {
			q.Where = Cmp(Pick(r, []string{">", "<", "!="}), Col("id"), Num(float64(1+r.Intn(len(t.rows)))))
			tags = append(tags, "where")
		}
		window(q, 4, 5, 75)
		tags = append(tags, fmt.Sprintf("unevaluable-rows:%d", bad), "window")
		out = append(out, mkCase(map[string]any{"t": t.rows}, q, tags, true))
	}

	// ---- top-n-then-resort
	for i := scale(110, 1500); i > 0; i-- {
		t := genTable(r, 8)
		if len(t.rows) < 2 {
			continue
		}
		tags := []string{"r4:top-n-then-resort"}
		cols := []string{"n1", "n2", "s1", "s2", "id"}
		inner := &Stmt{From: &From{K: "table", Path: []string{"t"}}, Items: []Item{{E: Col("id")}, {E: Col("n1")}, {E: Col("n2")}, {E: Col("s1")}, {E: Col("s2")}}}
		if r.Chance(20) {
			inner.Items = []Item{{Star: true}}
		}
		// a total inner order (the unique id last): the inner window is one definite set of rows
		ik := Pick(r, cols[:4])
		inner.Order = []OrderKey{{Path: []string{ik}, Asc: r.Bool()}, {Path: []string{"id"}, Asc: r.Bool()}}
		if r.Chance(25) {
			inner.Order = inner.Order[1:]
		}
		inner.Limit = intp(1 + r.Intn(4))
		if r.Bool() {
			inner.Offset = intp(r.Intn(4))
			inner.LimitComma = r.Bool()
		}
		if r.Chance(20) {
			inner.Where = Cmp("!=", Col("id"), Num(float64(1+r.Intn(len(t.rows)))))
		}
		alias := Pick(r, []string{"x", "d", "top"})
		q := &Stmt{From: &From{K: "derived", Q: inner, Alias: alias}, Items: []Item{{Star: true}}}
		ok := Pick(r, cols)
		q.Order = []OrderKey{{Path: []string{alias, ok}, Asc: r.Bool()}}
		if r.Chance(40) {
			q.Order = append(q.Order, OrderKey{Path: []string{alias, "id"}, Asc: r.Bool()})
		}
		if r.Chance(25) {
			q.Items = []Item{{E: Col(alias, "id"), Alias: "id"}, {E: Col(alias, ok), Alias: "key"}}
			q.Order = []OrderKey{{Path: []string{"key"}, Asc: r.Bool()}}
			tags = append(tags, "outer:projected")
		}
		if r.Chance(25) {
			window(q, 4, 3, 50)
			tags = append(tags, "outer:window")
		} else {
			tags = append(tags, "outer:no-window")
		}
		tags = append(tags, fmt.Sprintf("inner-key:%s", ik))
		out = append(out, mkCase(map[string]any{"t": t.rows}, q, tags, true))
	}

	// ---- distinct-then-order
	for i := scale(110, 1500); i > 0; i-- {
		n := 2 + r.Intn(9) // at most 10 rows: the engine's sort is stable up to 12 elements, so ties are decided alike
		rows := lowCardRows(r, n, 2+r.Intn(3), 2+r.Intn(3))
		for j, row := range rows {
			m := row.(map[string]any)
			m["id"] = float64(j + 1)
			m["s"] = Pick(r, []string{"a", "b", "ab"})
		}
		tags := []string{"r4:distinct-then-order"}
		q := &Stmt{From: &From{K: "table", Path: []string{"t"}}, Distinct: true}
		switch r.Intn(4) {
		case 0:
			q.Items = []Item{{E: Col("k")}}
		case 1:
			q.Items = []Item{{E: Col("k")}, {E: Col("v")}}
		case 2:
			q.Items = []Item{{E: Col("k")}, {E: Col("v")}, {E: Col("s")}}
		default:
			q.Items = []Item{{E: Col("v"), Alias: "k"}, {E: Col("s")}}
		}
		names := []string{}
		for _, it := range q.Items {
			names = append(names, it.name())
		}
		nk := 1 + r.Intn(len(names))
		perm := append([]string{}, names...)
		for j := len(perm) - 1; j > 0; j-- {
			k := r.Intn(j + 1)
			perm[j], perm[k] = perm[k], perm[j]
		}
		for _, c := range perm[:nk] {
			q.Order = append(q.Order, OrderKey{Path: []string{c}, Asc: r.Bool()})
		}
		tags = append(tags, fmt.Sprintf("columns:%d", len(names)), fmt.Sprintf("keys:%d", nk))
		if r.Chance(20) {
			q.Where = Cmp("!=", Col("id"), Num(float64(1+r.Intn(n))))
		}
		if r.Chance(70) {
			window(q, 4, 3, 50)
			tags = append(tags, "window")
		}
		out = append(out, mkCase(map[string]any{"t": rows}, q, tags, true))
	}

	// ---- long-distinct-order
	sizes := []int{1031, 10007}
	if thorough {
		sizes = []int{1031, 4099, 8209, 10007, 16411}
	}
	for _, n := range sizes {
		rows := lowCardRows(r, n, 5+r.Intn(3), 7+r.Intn(4))
		doc := map[string]any{"t": rows}
		sel := func() *Stmt {
			return &Stmt{From: &From{K: "table", Path: []string{"t"}}, Distinct: true, Items: []Item{{E: Col("k")}, {E: Col("v")}}}
		}
		// fewer keys than columns: rows that tie on k differ in v (no window: ties may come in any order)
		a := sel()
		a.Order = []OrderKey{{Path: []string{"k"}, Asc: r.Bool()}}
		out = append(out, mkCase(doc, a, []string{"r4:long-distinct-order", "long-table", fmt.Sprintf("rows:%d", n), "keys:1"}, true))
		if n < 5000 || (thorough && n < 12000) {
			// a total order over the output columns, and a window in the middle of it
			b := sel()
			b.Order = []OrderKey{{Path: []string{"v"}, Asc: false}, {Path: []string{"k"}, Asc: true}}
			b.Limit, b.Offset = intp(7), intp(11)
			out = append(out, mkCase(doc, b, []string{"r4:long-distinct-order", "long-table", fmt.Sprintf("rows:%d", n), "keys:2", "window"}, true))
		}
	}
	return out
}

func init() {
	extraStreams["C05"] = append(extraStreams["C05"], genC05Round4)
}
