package main

// c18hash.go — history independence of HASH: Model/Funcs.v takes the gob serialisation behind HASH as an oracle
// FUNCTION of the value. encoding/gob assigns type ids per process in order of first use, so that is true only if
// nothing else in the process can shift the ids HASH's envelope gets. Two fresh child processes compute the same
// digests, one after a series of ENCODE / DECODE calls, one before any; the stage compares them.
//
//   vharness aux c18hash -tier hash-first|encode-first -out <dir>

import (
	"fmt"
	"path/filepath"
)

func init() { auxRegistry["c18hash"] = runC18Hash }

func runC18Hash(tier string, seed uint64, out string) {
	doc := map[string]any{"t": []any{map[string]any{"s": "test data", "n": 42.0, "b": true, "a": []any{1.0, "x"}, "o": map[string]any{"k": "v"}}}}
	warm := []string{
		"SELECT ENCODE('abc', 'base64') AS v FROM dual", "SELECT ENCODE(s, 'hex') AS v FROM t", "SELECT ENCODE(n, 'base64') AS v FROM t",
		"SELECT DECODE(ENCODE(a, 'base64'), 'base64') AS v FROM t", "SELECT DECODE(ENCODE(o, 'hex'), 'hex') AS v FROM t", "SELECT ENCODE(b, 'base32') AS v FROM t",
	}
	if tier == "encode-first" {
		for _, q := range warm {
			runEngine(deepCopy(doc).(map[string]any), q)
		}
	}
	digests := map[string]any{}
	for _, alg := range []string{"sha1", "sha256", "sha512", "md5"} {
		for _, col := range []string{"s", "n", "b", "a", "o"} {
			q := fmt.Sprintf("SELECT HASH(%s, '%s') AS h FROM t", col, alg)
			res := runEngine(deepCopy(doc).(map[string]any), q)
			key := alg + "(" + col + ")"
			if res.Class != "ok" || len(res.Rows) != 1 {
				digests[key] = "error: " + res.Err
				continue
			}
			digests[key] = res.Rows[0].(map[string]any)["h"]
		}
		q := fmt.Sprintf("SELECT HASH('test data', '%s') AS h FROM dual", alg)
		res := runEngine(map[string]any{}, q)
		if res.Class == "ok" && len(res.Rows) == 1 {
			digests[alg+"(literal)"] = res.Rows[0].(map[string]any)["h"]
		}
	}
	writeJSON(filepath.Join(out, "c18hash-"+tier+".json"), digests)
}
