package main

import (
	"fmt"
	"math"
	"math/big"
	"strings"
)

// Rand is a splitmix64 generator: every random choice of a run derives from one seed.
type Rand struct{ s uint64 }

// Seed 1 keeps the state it always had (recorded replays and corpus indices refer to its sequence). The state of
// every other seed goes through the splitmix finaliser first: `seed*G + c` alone puts the sequences of seeds s and
// s+1 exactly one draw apart (the generator steps by G), so seeds 1..4 explored nearly the same cases.
func NewRand(seed uint64) *Rand {
	s := seed*0x9E3779B97F4A7C15 + 0x1234567
	if seed != 1 {
		z := s
		z = (z ^ (z >> 30)) * 0xBF58476D1CE4E5B9
		z = (z ^ (z >> 27)) * 0x94D049BB133111EB
		s = z ^ (z >> 31)
	}
	return &Rand{s: s}
}

func (r *Rand) U64() uint64 {
	r.s += 0x9E3779B97F4A7C15
	z := r.s
	z = (z ^ (z >> 30)) * 0xBF58476D1CE4E5B9
	z = (z ^ (z >> 27)) * 0x94D049BB133111EB
	return z ^ (z >> 31)
}
func (r *Rand) Intn(n int) int {
	if n <= 0 {
		return 0
	}
	return int(r.U64() % uint64(n))
}
func (r *Rand) Bool() bool         { return r.U64()&1 == 1 }
func (r *Rand) Chance(p int) bool  { return r.Intn(100) < p }
func (r *Rand) Range(lo, hi int) int { return lo + r.Intn(hi-lo+1) }
func Pick[T any](r *Rand, xs []T) T { return xs[r.Intn(len(xs))] }

// ---- Coq term printers ----

// coqStr prints a Go (byte) string as a Coq [string] term.
func coqStr(s string) string {
	plain := true
	for i := 0; i < len(s); i++ {
		if s[i] < 32 || s[i] > 126 {
			plain = false
			break
		}
	}
	if plain {
		return "\"" + strings.ReplaceAll(s, "\"", "\"\"") + "\"%string"
	}
	var b strings.Builder
	b.WriteString("(bs_of_list [")
	for i := 0; i < len(s); i++ {
		if i > 0 {
			b.WriteString(";")
		}
		fmt.Fprintf(&b, "%d", s[i])
	}
	b.WriteString("]%nat)")
	return b.String()
}

func coqZ(z *big.Int) string {
	if z.Sign() < 0 {
		return "(" + z.String() + ")%Z"
	}
	return z.String() + "%Z"
}
func coqZi(z int64) string { return coqZ(big.NewInt(z)) }

func coqBool(b bool) string {
	if b {
		return "true"
	}
	return "false"
}

func coqList(items []string) string { return "[" + strings.Join(items, "; ") + "]" }

func coqOpt(s string, some bool) string {
	if some {
		return "(Some " + s + ")"
	}
	return "None"
}

// dyadic returns (m, e) with f = m * 2^e exactly, m odd or zero. f must be finite.
func dyadic(f float64) (*big.Int, int) {
	if f == 0 {
		return big.NewInt(0), 0
	}
	frac, exp := math.Frexp(f)
	m := int64(frac * (1 << 53))
	e := exp - 53
	for m%2 == 0 {
		m /= 2
		e++
	}
	return big.NewInt(m), e
}

// coqFloat prints a float64 as a Coq primitive-float hex literal.
func coqFloat(f float64) string {
	switch {
	case math.IsNaN(f):
		return "nan"
	case math.IsInf(f, 1):
		return "infinity"
	case math.IsInf(f, -1):
		return "neg_infinity"
	case f == 0 && math.Signbit(f):
		return "(-0)%float"
	case f == 0:
		return "0%float"
	}
	m, e := dyadic(f)
	// m * 2^e as hex literal: 0x<hex m>p<e>
	s := fmt.Sprintf("0x%sp%d", new(big.Int).Abs(m).Text(16), e)
	if m.Sign() < 0 {
		return "(-" + s + ")%float"
	}
	return s + "%float"
}

// coqValue renders a Go value produced or consumed by genql as a Coq [value] term.
// Objects are emitted sorted by key. Anything that is not JSON-like is rendered as a
// distinguished leak object that no model value equals.
func coqValue(v any) string {
	switch t := v.(type) {
	case nil:
		return "VNull"
	case bool:
		return "(VBool " + coqBool(t) + ")"
	case float64:
		return "(VNum " + coqFloat(t) + ")"
	case string:
		return "(VStr " + coqStr(t) + ")"
	case []any:
		items := make([]string, len(t))
		for i, x := range t {
			items[i] = coqValue(x)
		}
		return "(VArr " + coqList(items) + ")"
	case map[string]any:
		keys := make([]string, 0, len(t))
		for k := range t {
			keys = append(keys, k)
		}
		sortStrings(keys)
		items := make([]string, len(keys))
		for i, k := range keys {
			items[i] = "(" + coqStr(k) + ", " + coqValue(t[k]) + ")"
		}
		return "(VObj " + coqList(items) + ")"
	default:
		return "(VObj [(\"<<leak>>\"%string, VStr " + coqStr(fmt.Sprintf("%T", v)) + ")])"
	}
}

func sortStrings(s []string) {
	for i := 1; i < len(s); i++ {
		for j := i; j > 0 && s[j] < s[j-1]; j-- {
			s[j], s[j-1] = s[j-1], s[j]
		}
	}
}

// isPlain reports whether v is built from JSON-like Go types only.
func isPlain(v any) bool {
	switch t := v.(type) {
	case nil, bool, float64, string:
		return true
	case []any:
		for _, x := range t {
			if !isPlain(x) {
				return false
			}
		}
		return true
	case map[string]any:
		for _, x := range t {
			if !isPlain(x) {
				return false
			}
		}
		return true
	}
	return false
}

// deepCopy copies a JSON-like value.
func deepCopy(v any) any {
	switch t := v.(type) {
	case []any:
		out := make([]any, len(t))
		for i, x := range t {
			out[i] = deepCopy(x)
		}
		return out
	case map[string]any:
		out := make(map[string]any, len(t))
		for k, x := range t {
			out[k] = deepCopy(x)
		}
		return out
	}
	return v
}

// jsonSafe makes a value marshalable for notes/replays (non-finite floats and foreign types become strings).
func jsonSafe(v any) any {
	switch t := v.(type) {
	case nil, bool, string:
		return v
	case float64:
		if math.IsNaN(t) || math.IsInf(t, 0) {
			return fmt.Sprintf("<<%v>>", t)
		}
		return t
	case []any:
		out := make([]any, len(t))
		for i, x := range t {
			out[i] = jsonSafe(x)
		}
		return out
	case map[string]any:
		out := make(map[string]any, len(t))
		for k, x := range t {
			out[k] = jsonSafe(x)
		}
		return out
	}
	return fmt.Sprintf("<<%T:%v>>", v, v)
}
