package main

// c20extra.go — register behaviour outside the variable model (Model/Vars.v: single-table SELECTs, keys whose %v text
// the Fmt model can print), observed on the real code:
//   operand-order   in A UNION ALL B every store / read of A's select list happens before anything of B is evaluated —
//                   also when B's FROM holds a derived table or a parenthesised union with SETVAR inside
//   long-keys       numeric keys that differ only beyond 15 significant digits (16-digit ids) are different registers
//   vharness aux c20extra -out <dir>

import (
	"fmt"
	"path/filepath"

	genql "github.com/vedadiyan/genql"
)

func init() { auxRegistry["c20extra"] = runC20Extra }

func runC20Extra(tier string, seed uint64, out string) {
	var failures []map[string]any
	checks := 0
	fail := func(kind, sql, detail string) {
		failures = append(failures, map[string]any{"kind": kind, "sql": sql, "detail": detail})
	}
	doc := map[string]any{"t": []any{map[string]any{"id": 1.0}, map[string]any{"id": 2.0}}}
	run := func(sql string, vars map[string]any) engineOut {
		return runEngine(deepCopy(doc).(map[string]any), sql, genql.WithVars(vars))
	}
	col := func(o engineOut, i int, name string) any {
		if o.Class != "ok" || i >= len(o.Rows) {
			return "<<" + o.Class + " " + o.Err + ">>"
		}
		m, _ := o.Rows[i].(map[string]any)
		return m[name]
	}
	// operand order
	for _, c := range []struct {
		sql  string
		row  int
		want any
		key  string
		last any
	}{
		{"SELECT GETVAR('k') AS g FROM dual UNION ALL SELECT d.x AS g FROM (SELECT SETVAR('k', 30), 1 AS x FROM dual) AS d", 0, nil, "k", 30.0},
		{"SELECT SETVAR('w', 'left'), GETVAR('w') AS g FROM dual UNION ALL SELECT d.x AS g FROM (SELECT SETVAR('w', 'right'), 1 AS x FROM dual) AS d", 0, "left", "w", "right"},
		{"SELECT GETVAR('u') AS g FROM dual UNION ALL (SELECT SETVAR('u', 1), 2 AS g FROM dual UNION ALL SELECT GETVAR('u') AS g FROM dual)", 0, nil, "u", 1.0},
		{"SELECT SETVAR('a', id), GETVAR('a') AS g FROM t UNION ALL SELECT GETVAR('a') AS g FROM dual", 2, 2.0, "a", 2.0},
	} {
		vars := map[string]any{}
		o := run(c.sql, vars)
		checks++
		if got := col(o, c.row, "g"); fmt.Sprint(got) != fmt.Sprint(c.want) {
			fail("operand-order", c.sql, fmt.Sprintf("row %d reads g = %v, want %v (rows %v)", c.row, got, c.want, o.Rows))
		}
		if fmt.Sprint(vars[c.key]) != fmt.Sprint(c.last) {
			fail("operand-order", c.sql, fmt.Sprintf("after the query %s = %v, want %v", c.key, vars[c.key], c.last))
		}
	}
	// keys beyond 15 significant digits
	{
		vars := map[string]any{}
		sql := "SELECT SETVAR(1700000000000001, 'a'), SETVAR(1700000000000002, 'b'), SETVAR(1700000000000003, 'c'), GETVAR(1700000000000001) AS g1, GETVAR(1700000000000002) AS g2, GETVAR(1700000000000004) AS g4 FROM dual"
		o := run(sql, vars)
		checks++
		if col(o, 0, "g1") != "a" || col(o, 0, "g2") != "b" || col(o, 0, "g4") != nil || len(vars) != 3 {
			fail("long-keys", sql, fmt.Sprintf("g1=%v g2=%v g4=%v, the map holds %d entries %v (want a, b, NULL, 3 entries)", col(o, 0, "g1"), col(o, 0, "g2"), col(o, 0, "g4"), len(vars), vars))
		}
		vars = map[string]any{}
		sql = "SELECT SETVAR(0.1234567890123456, 1), SETVAR(0.1234567890123457, 2), GETVAR(0.1234567890123456) AS g FROM dual"
		o = run(sql, vars)
		checks++
		if fmt.Sprint(col(o, 0, "g")) != "1" || len(vars) != 2 {
			fail("long-keys", sql, fmt.Sprintf("g=%v, the map holds %d entries %v (want 1, 2 entries)", col(o, 0, "g"), len(vars), vars))
		}
	}
	writeJSON(filepath.Join(out, "c20extra.json"), map[string]any{"checks": checks, "failures": failures})
}
