package main

// r5_c03.go — a further stream of C03 (registered through extraStreams), MODEL AGAINST CODE:
//
//   group-by-path-keys   GROUP BY whose grouping columns are selectors: key paths (`owner.team`, `o.p.q`), indexed
//                        selectors (`tags[0]`, `tags[1]`, `owner.tags[1]`, `m[1][0]`), an index step followed by a key
//                        step (`m[0].k`) and a key step over an array (`m.k`), alone, two of them, or beside the flat
//                        column g. The engine model reads such a column as ExecGroupBy does — ExecReader(row, text), in
//                        the model Exec.key_reader over the steps the text parses to (Model/Ast.v gkey / kstep) — so the
//                        whole result is compared: the partition (groups in order of first appearance, members in source
//                        order, the NULL group of explicit NULLs, missing keys and steps below NULL), the key column of the
//                        group row under the full text of the selector, aggregates over exactly the members, HAVING, and
//                        the refusal of the query when a row that passed WHERE has no value for a grouping column (the
//                        path runs through a scalar, an index step meets an object, the array is too short) — a refusal
//                        WHERE can avoid by removing that row.
//
// The tables put every shape under every path: the value, an explicit NULL, a missing key, an object without the inner
// key, a scalar in the way, an empty or too short array, an array under a key step. The observational stage of round 4
// (r4_c03paths.go) stays: it checks the same statement against an independent Go reading instead of the Coq model.

import (
	"fmt"
	"strconv"
)

type r5Path struct {
	text string
	kind string
}

var r5Paths = []r5Path{
	{"owner.team", "key-path"}, {"owner.team", "key-path"}, {"o.p.q", "key-path"},
	{"tags[0]", "indexed"}, {"tags[0]", "indexed"}, {"tags[1]", "indexed"},
	{"owner.tags[0]", "indexed"}, {"owner.tags[1]", "indexed"},
	{"m[0].k", "index-then-key"}, {"m[1][0]", "index-index"},
}

// r5Shape classifies what a grouping column is for one row (coverage tags only; the oracle is the Coq model).
func r5Shape(v any, steps []keyStep) string {
	for _, s := range steps {
		if v == nil {
			return "null"
		}
		if s.IsIdx {
			a, isArr := v.([]any)
			if !isArr {
				if _, isObj := v.(map[string]any); isObj {
					return "unreadable:index-on-object"
				}
				return "unreadable:scalar-in-the-way"
			}
			if s.Index >= len(a) {
				return "unreadable:array-too-short"
			}
			v = a[s.Index]
			continue
		}
		switch t := v.(type) {
		case map[string]any:
			x, has := t[s.Key]
			if !has {
				return "missing"
			}
			v = x
		case []any:
			return "key-over-array"
		default:
			return "unreadable:scalar-in-the-way"
		}
	}
	switch v.(type) {
	case nil:
		return "null"
	case []any, map[string]any:
		return "container"
	}
	return "value"
}

func r5Table(r *Rand, odd int) []any {
	vals := []any{"red", "blue", float64(1), "1", nil, true, float64(0), "", false}
	vals = vals[:2+r.Intn(len(vals)-1)]
	n := 1 + r.Intn(7)
	rows := make([]any, n)
	for i := range rows {
		row := map[string]any{"id": float64(i + 1), "g": Pick(r, []any{"x", "y"})}
		// owner: {team, tags} | NULL | missing | object without team | scalar
		switch k := r.Intn(100); {
		case k < odd:
			row["owner"] = Pick(r, []any{"nobody", float64(7), false, ""})
		case k < odd+10:
			row["owner"] = nil
		case k < odd+20: // missing
		case k < odd+28:
			row["owner"] = map[string]any{"other": float64(1)}
		default:
			o := map[string]any{"team": Pick(r, vals)}
			switch t := r.Intn(100); {
			case t < 65:
				o["tags"] = []any{Pick(r, vals), Pick(r, vals)}[:1+r.Intn(2)]
			case t < 65+odd/2:
				o["tags"] = Pick(r, []any{"p", float64(3)})
			case t < 75+odd/2:
				o["tags"] = nil
			}
			row["owner"] = o
		}
		// tags: array of 1..3 scalars | [] | NULL | missing | scalar | object
		switch k := r.Intn(100); {
		case k < odd:
			row["tags"] = Pick(r, []any{"p", float64(0), map[string]any{"0": "p"}})
		case k < odd+odd:
			row["tags"] = []any{}
		case k < odd+odd+8:
			row["tags"] = nil
		case k < odd+odd+16: // missing
		default:
			a := make([]any, 1+r.Intn(3))
			for j := range a {
				a[j] = Pick(r, vals)
			}
			if odd == 0 && len(a) < 2 {
				a = append(a, Pick(r, vals))
			}
			row["tags"] = a
		}
		// o.p.q: three key steps
		switch k := r.Intn(100); {
		case k < odd:
			row["o"] = map[string]any{"p": Pick(r, []any{"leaf", float64(3), true})}
		case k < odd+12:
			row["o"] = map[string]any{"p": nil}
		case k < odd+20:
			row["o"] = map[string]any{}
		case k < odd+26:
			row["o"] = nil
		default:
			row["o"] = map[string]any{"p": map[string]any{"q": Pick(r, vals)}}
		}
		// m: array whose elements are objects {k} and arrays: m[0].k, m[1][0], m.k
		switch k := r.Intn(100); {
		case k < odd:
			row["m"] = Pick(r, []any{"flat", map[string]any{"k": "in-object"}, []any{float64(5)}})
		case k < odd+8:
			row["m"] = nil
		case k < odd+14: // missing
		default:
			first := any(map[string]any{"k": Pick(r, vals)})
			if r.Chance(12) {
				first = nil
			} else if r.Chance(10) {
				first = map[string]any{}
			}
			second := any([]any{Pick(r, vals), Pick(r, vals)})
			if r.Chance(odd) {
				second = Pick(r, []any{[]any{}, "s", map[string]any{"k": "z"}})
			} else if r.Chance(10) {
				second = nil
			}
			row["m"] = []any{first, second}
		}
		rows[i] = row
	}
	return rows
}

func genC03PathKeys(r *Rand, tier string) []Case {
	n := 260
	if tier == "thorough" {
		n = 4000
	}
	var out []Case
	for i := 0; i < n; i++ {
		odd := Pick(r, []int{0, 0, 6, 12, 25})
		rows := r5Table(r, odd)
		tags := []string{"stream:group-by-path-keys"}
		q := &Stmt{From: &From{K: "table", Path: []string{"t"}}}
		p := Pick(r, r5Paths)
		if r.Chance(6) {
			p = r5Path{"m.k", "key-over-array"}
		}
		q.Group = []string{p.text}
		tags = append(tags, "key:"+p.text, "keykind:"+p.kind)
		if p.kind != "key-over-array" && r.Chance(30) {
			// an array as key value is compared by Go in map-iteration order of the grouping columns: kept to one column
			if r.Bool() {
				if r.Bool() {
					q.Group = []string{"g", p.text}
				} else {
					q.Group = []string{p.text, "g"}
				}
				tags = append(tags, "beside-flat-column")
			} else if p2 := Pick(r, r5Paths); p2.text != p.text {
				q.Group = append(q.Group, p2.text)
				tags = append(tags, "key:"+p2.text, "keykind:"+p2.kind)
			}
		}
		tags = append(tags, fmt.Sprintf("groupcols:%d", len(q.Group)))
		q.GroupPlain = r.Bool()
		if q.GroupPlain && p.text == "owner.team" {
			tags = append(tags, "spelling:qualifier.name")
		}
		// WHERE on id: which rows are kept decides whether an unreadable row matters
		keeps := func(id float64) bool { return true }
		switch r.Intn(5) {
		case 0:
			a := float64(1 + r.Intn(len(rows)))
			q.Where = Cmp("!=", Col("id"), Num(a))
			keeps = func(id float64) bool { return id != a }
			tags = append(tags, "where:ne")
		case 1:
			a := float64(r.Intn(3))
			q.Where = Cmp(">", Col("id"), Num(a))
			keeps = func(id float64) bool { return id > a }
			tags = append(tags, "where:gt")
		case 2:
			a, b := float64(1+r.Intn(len(rows))), float64(1+r.Intn(len(rows)))
			q.Where = Or(Cmp("=", Col("id"), Num(a)), Cmp("<", Col("id"), Num(b)))
			keeps = func(id float64) bool { return id == a || id < b }
			tags = append(tags, "where:or")
		}
		// what the grouping columns are for the rows WHERE keeps / removes
		keptBad, removedBad, kept := false, false, 0
		seen := map[string]bool{}
		for _, raw := range rows {
			row := raw.(map[string]any)
			k := keeps(row["id"].(float64))
			if k {
				kept++
			}
			for _, g := range q.Group {
				steps, ok := parseGroupKey(g)
				if !ok {
					panic("r5_c03: unparsed key " + g)
				}
				sh := r5Shape(row, steps)
				bad := len(sh) > 10 && sh[:10] == "unreadable"
				if k {
					seen[sh] = true
					keptBad = keptBad || bad
				} else if bad {
					removedBad = true
				}
			}
		}
		for sh := range seen {
			tags = append(tags, "kept-row-key:"+sh)
		}
		switch {
		case keptBad:
			tags = append(tags, "expect:refused (a kept row has no value for a key)")
		case removedBad:
			tags = append(tags, "expect:answered (WHERE removes the unreadable row)")
		case kept == 0:
			tags = append(tags, "expect:no-rows")
		default:
			tags = append(tags, "expect:answered")
		}
		if seen["null"] && seen["missing"] {
			tags = append(tags, "null-and-missing-share-a-group")
		}
		// select list
		count := &Expr{K: "agg", Name: "count", Star: true}
		aggs := []Item{{E: count, Alias: "n"}, {E: &Expr{K: "agg", Name: "sum", Path: []string{"id"}}, Alias: "s"},
			{E: &Expr{K: "agg", Name: "min", Path: []string{"id"}}, Alias: "lo"}, {E: &Expr{K: "agg", Name: "max", Path: []string{"id"}}, Alias: "hi"}}
		switch shape := r.Intn(10); {
		case shape < 3:
			q.Items = []Item{{Star: true}}
			tags = append(tags, "items:star")
		case shape < 6:
			q.Items = aggs[:1+r.Intn(4)]
			tags = append(tags, "items:aggregates")
		case shape < 8:
			q.Items = append([]Item{{Star: true}}, aggs[:1+r.Intn(2)]...)
			tags = append(tags, "items:star+aggregates")
		default:
			// the column written as a PATH in the select list is read off the group row, which carries the value under
			// the full text of the selector and has no `owner` / `o` entry: NULL, beside the aggregates
			switch p.text {
			case "owner.team":
				q.Items = append([]Item{{E: Col("owner", "team"), Alias: "k"}}, aggs[:2]...)
				tags = append(tags, "items:key-path-column")
			case "o.p.q":
				q.Items = append([]Item{{E: Col("o", "p", "q"), Alias: "k"}}, aggs[:2]...)
				tags = append(tags, "items:key-path-column")
			default:
				q.Items = aggs[:2]
				tags = append(tags, "items:aggregates")
			}
			for _, g := range q.Group {
				if g == "g" {
					q.Items = append(q.Items, Item{E: Col("g")})
				}
			}
		}
		if r.Chance(25) {
			q.Having = Cmp(Pick(r, []string{">", ">=", "="}), count, Num(float64(1+r.Intn(2))))
			tags = append(tags, "having")
		}
		if r.Chance(15) {
			q.Limit = intp(1 + r.Intn(2))
			tags = append(tags, "window:limit:"+strconv.Itoa(*q.Limit))
		}
		c := mkCase(map[string]any{"t": rows}, q, tags, true)
		in := c.Input.(engIn)
		in.Repeat = 3
		c.Input = in
		out = append(out, c)
	}
	return out
}

func init() {
	extraStreams["C03"] = append(extraStreams["C03"], genC03PathKeys)
}
