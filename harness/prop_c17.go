package main

import (
	"encoding/hex"
	"encoding/json"
	"fmt"
	"strings"
	"time"

	"github.com/vedadiyan/genql"
)

// C17 — dialect options rewrite only syntax.
//
// Three kinds of case:
//   doc    a lexical document (segments raw | sq | bt | dq | open | close) rendered in PG or MySQL
//          quoting with idiomatic brackets; the real DoubleQuotesToBackTick, FindArrayIndex,
//          FixIdiomaticArray and the New-order pipeline run on the text
//   bytes  an arbitrary byte string (totality stream, exhaustive short strings over the alphabet)
//   meta   a small query, rendered under an option set (all 8) and in the canonical MySQL/ARRAY()
//          spelling; both are executed on the real engine (Wrapped against an explicit root object)
// Observables: outcome class ok|error|panic plus, for ok, the rewritten text / the index pairs / the
// JSON of the rows.  Error texts are never compared.

type c17Seg struct {
	K string `json:"k"` // raw | sq | bt | dq | open | close
	S string `json:"s,omitempty"`
}

type c17In struct {
	Kind    string   `json:"kind"` // doc | bytes | meta
	Q       string   `json:"q,omitempty"`
	Doc     []c17Seg `json:"doc,omitempty"`
	Hex     string   `json:"hex,omitempty"`
	Pg      bool     `json:"pg,omitempty"`
	Idiom   bool     `json:"idiom,omitempty"`
	Wrapped bool     `json:"wrapped,omitempty"`
	// RootOnly: the input document's only top-level key is literally "root" (and the table is read from it)
	RootOnly bool `json:"root_only,omitempty"`
	// RootObj: the input document is {"root": {"t": rows}} — its only key is "root" and holds an OBJECT
	RootObj bool `json:"root_obj,omitempty"`
	// Data (meta only): a degenerate input document instead of the table document — "nil" (a nil map: what
	// json.Unmarshal of `null` leaves in a map[string]any), "empty" ({}), "root-null" ({"root": null}), "root-empty"
	// ({"root": {}}), "t-null" ({"t": null}), "t-empty" ({"t": []}). Wrapped() must make each of them addressable under
	// root exactly like the explicit {"root": input}.
	Data string `json:"data,omitempty"`
}

// c17Degenerate: the degenerate documents by name
func c17DegenerateDoc(name string) (map[string]any, bool) {
	switch name {
	case "nil":
		return nil, true
	case "empty":
		return map[string]any{}, true
	case "root-null":
		return map[string]any{"root": nil}, true
	case "root-empty":
		return map[string]any{"root": map[string]any{}}, true
	case "t-null":
		return map[string]any{"t": nil}, true
	case "t-empty":
		return map[string]any{"t": []any{}}, true
	}
	return nil, false
}

var c17DegenerateNames = []string{"nil", "empty", "root-null", "root-empty", "t-null", "t-empty"}

// queries that look at the top level of the document (they succeed on documents without any table)
func c17TopLevelDocs() [][]c17Seg {
	raw := func(s string) c17Seg { return c17Seg{K: "raw", S: s} }
	return [][]c17Seg{
		{raw("SELECT * FROM dual")},
		{raw("SELECT * FROM "), {K: "dq", S: "root"}},
		{raw("SELECT * FROM root")},
		{raw("SELECT 1 AS one FROM "), {K: "bt", S: "root"}},
		{raw("SELECT 1 AS "), {K: "dq", S: "o[n]e"}, raw(", "), {K: "open"}, raw("1, "), {K: "sq", S: "x]"}, {K: "close"}, raw(" AS arr FROM dual")},
		{raw("SELECT (SELECT 1 AS x FROM "), {K: "bt", S: "<-root"}, raw(") AS sub FROM dual")},
		{raw("SELECT root AS r, t AS t FROM dual")},
		{raw("SELECT "), {K: "open"}, raw("root, "), {K: "open"}, raw("t"), {K: "close"}, {K: "close"}, raw(" AS a FROM dual")},
		{raw("SELECT * FROM t")},
		{raw("SELECT * FROM root.root")},
		{raw("SELECT * FROM root.t")},
	}
}

type propC17 struct{}

func init() { register(propC17{}) }

func (propC17) ID() string { return "C17" }
func (propC17) Imports() []string {
	return []string{"Base.Prelude", "Base.Value", "Model.Processors", "Spec.LexDoc", "Run.C17Run"}
}
func (propC17) CheckFn() string        { return "C17Run.check" }
func (propC17) InputType() string      { return "C17Run.c17_in" }
func (propC17) ObsType() string        { return "C17Run.c17_obs" }
func (propC17) Exhaustive(string) bool { return false }
func (propC17) Rule() string {
	return "scan cases (documents over the alphabet {\" ' ` \\ [ ] space a} rendered in PG and MySQL quoting, nesting to depth 4, ~12% ill-formed bodies, ~12% unbalanced; every string of length <=3 (thorough: <=4) over {\" ' ` \\ [ ] a}; every body of length <=2 (thorough: <=3) inside every quote kind followed by a bracket-sensitive tail; random bytes) are non-trivial when the text contains a quote or bracket byte; unquoted comment openers (-- a--1 # /* //) before / inside / after brackets; meta cases (all 8 option sets; table documents, root-only documents, degenerate documents nil / {} / root:null / t:[] under queries that look at the top level; subtraction of a negative operand written without blanks next to idiomatic arrays) are non-trivial when both executions returned rows; distinct = distinct inputs"
}

// ---------------- rendering (Go mirror of Spec/LexDoc.v render) ----------------

func c17EncDq(n string) string { return strings.ReplaceAll(n, `"`, `\"`) }
func c17EncBt(n string) string { return strings.ReplaceAll(n, "`", "``") }

func c17Render(q string, idiom bool, doc []c17Seg) string {
	var b strings.Builder
	for _, s := range doc {
		switch s.K {
		case "raw":
			b.WriteString(s.S)
		case "sq":
			b.WriteString("'" + s.S + "'")
		case "bt":
			b.WriteString("`" + s.S + "`")
		case "dq":
			if q == "pg" {
				b.WriteString(`"` + c17EncDq(s.S) + `"`)
			} else {
				b.WriteString("`" + c17EncBt(s.S) + "`")
			}
		case "open":
			if idiom {
				b.WriteString("[")
			} else {
				b.WriteString("ARRAY(")
			}
		case "close":
			if idiom {
				b.WriteString("]")
			} else {
				b.WriteString(")")
			}
		}
	}
	return b.String()
}

// ---------------- well-formedness (tags only; the check evaluates the Coq predicates) ----------------

func c17BodyOK(q byte, s string) bool {
	for i := 0; i < len(s); i++ {
		switch {
		case s[i] == '\\':
			if i+1 >= len(s) {
				return false
			}
			i++
		case s[i] == q:
			if i+1 >= len(s) || s[i+1] != q {
				return false
			}
			i++
		}
	}
	return true
}

func c17BtOK(s string) bool {
	for i := 0; i < len(s); i++ {
		if s[i] == '`' {
			if i+1 >= len(s) || s[i+1] != '`' {
				return false
			}
			i++
		}
	}
	return true
}

func c17RawOKq(s string) bool { return !strings.ContainsAny(s, "'\"`") }
func c17RawOKa(s string) bool {
	if strings.ContainsAny(s, "'\"`[]") {
		return false
	}
	for i := 0; i < len(s); i++ {
		if s[i] == '\\' {
			if i+1 >= len(s) {
				return false
			}
			i++
		}
	}
	return true
}

func c17WfQuotes(doc []c17Seg) bool {
	for _, s := range doc {
		switch s.K {
		case "raw":
			if !c17RawOKq(s.S) {
				return false
			}
		case "sq":
			if !c17BodyOK('\'', s.S) {
				return false
			}
		case "bt":
			if !c17BtOK(s.S) {
				return false
			}
		case "dq":
			if strings.HasSuffix(s.S, `\`) {
				return false
			}
		}
	}
	return true
}

func c17WfArrays(q string, doc []c17Seg) bool {
	for _, s := range doc {
		switch s.K {
		case "raw":
			if !c17RawOKa(s.S) {
				return false
			}
		case "sq":
			if !c17BodyOK('\'', s.S) {
				return false
			}
		case "bt":
			if !c17BtOK(s.S) {
				return false
			}
		case "dq":
			if q == "pg" && !c17BodyOK('"', c17EncDq(s.S)) {
				return false
			}
		}
	}
	return true
}

func c17Balance(doc []c17Seg) (balanced bool, maxDepth int) {
	d := 0
	balanced = true
	for _, s := range doc {
		switch s.K {
		case "open":
			d++
			if d > maxDepth {
				maxDepth = d
			}
		case "close":
			if d == 0 {
				balanced = false
			} else {
				d--
			}
		}
	}
	if d != 0 {
		balanced = false
	}
	return
}

// ---------------- transition tags: which (state, byte class) pairs a text drives the scanners through

func c17Class(c byte) string {
	switch c {
	case '\'':
		return "sq"
	case '"':
		return "dq"
	case '`':
		return "bt"
	case '\\':
		return "bs"
	case '[':
		return "lb"
	case ']':
		return "rb"
	}
	return "other"
}

// a deliberately naive re-statement of the two automata, used for tags only
func c17Transitions(text string) []string {
	seen := map[string]bool{}
	// DoubleQuotesToBackTick
	st := "raw"
	for i := 0; i < len(text); i++ {
		c := text[i]
		cl := c17Class(c)
		key := "t1:" + st + "/" + cl
		if cl == "bs" && (st == "sq" || st == "dq") {
			if i+1 >= len(text) {
				key += "+eof"
			} else {
				key += "+" + c17Class(text[i+1])
			}
		}
		seen[key] = true
		switch st {
		case "raw":
			if cl == "sq" || cl == "dq" || cl == "bt" {
				st = cl
			}
		case "sq":
			if cl == "sq" {
				st = "raw"
			} else if cl == "bs" {
				i++
			}
		case "bt":
			if cl == "bt" {
				st = "raw"
			}
		case "dq":
			if cl == "dq" {
				st = "raw"
			} else if cl == "bs" && i+1 < len(text) && text[i+1] == '"' {
				i++
			}
		}
	}
	seen["t1:end/"+st] = true
	// FindArrayIndex
	hold := "none"
	depth := 0
	for i := 0; i < len(text); i++ {
		cl := c17Class(text[i])
		key := "t2:" + hold + "/" + cl
		if cl == "bs" {
			if i+1 >= len(text) {
				key += "+eof"
			} else {
				key += "+" + c17Class(text[i+1])
			}
		}
		if hold == "none" && cl == "rb" && depth == 0 {
			key += "/empty"
		}
		seen[key] = true
		switch cl {
		case "bs":
			if hold != "bt" {
				i++
			}
		case "sq", "dq", "bt":
			if hold == "none" {
				hold = cl
			} else if hold == cl {
				hold = "none"
			}
		case "lb":
			if hold == "none" {
				depth++
			}
		case "rb":
			if hold == "none" && depth > 0 {
				depth--
			}
		}
	}
	if depth > 0 {
		seen["t2:end/open"] = true
	} else {
		seen["t2:end/closed"] = true
	}
	out := make([]string, 0, len(seen))
	for k := range seen {
		out = append(out, k)
	}
	sortStrings(out)
	return out
}

// ---------------- generators ----------------

var c17Alpha = []byte{'"', '\'', '`', '\\', '[', ']', ' ', 'a'}
var c17Alpha7 = []byte{'"', '\'', '`', '\\', '[', ']', 'a'}

func c17RandBody(r *Rand, max int) string {
	n := r.Intn(max + 1)
	b := make([]byte, n)
	for i := range b {
		b[i] = Pick(r, c17Alpha)
	}
	return string(b)
}

func c17SqBody(r *Rand) string {
	var b strings.Builder
	for n := r.Intn(6); n > 0; n-- {
		switch r.Intn(6) {
		case 0:
			b.WriteByte('\\')
			b.WriteByte(Pick(r, c17Alpha))
		case 1:
			b.WriteString("''")
		case 2:
			if r.Chance(30) {
				b.WriteString(Pick(r, []string{"\u00e9", "\u4e16"}))
			} else {
				b.WriteByte('a')
			}
		default:
			b.WriteByte(Pick(r, []byte{'"', '`', '[', ']', ' ', 'a'}))
		}
	}
	return b.String()
}

func c17BtBody(r *Rand) string {
	var b strings.Builder
	for n := r.Intn(6); n > 0; n-- {
		if k := r.Intn(14); k <= 1 {
			b.WriteString("``")
		} else if k == 2 {
			b.WriteString("\u00e9")
		} else {
			b.WriteByte(Pick(r, []byte{'"', '\'', '\\', '[', ']', ' ', 'a'}))
		}
	}
	return b.String()
}

func c17DqName(r *Rand) string {
	s := c17RandBody(r, 5)
	if r.Chance(8) {
		k := r.Intn(len(s) + 1)
		s = s[:k] + "\u00e9" + s[k:]
	}
	for strings.HasSuffix(s, `\`) {
		s = s[:len(s)-1] + string(Pick(r, []byte{'a', '"', ']', '`', '\''}))
	}
	return s
}

func c17RawBody(r *Rand) string {
	var b strings.Builder
	for n := r.Intn(5); n > 0; n-- {
		switch r.Intn(12) {
		case 0:
			b.WriteByte('\\')
			b.WriteByte(Pick(r, []byte{'a', ' ', '\\', ','}))
		default:
			b.WriteByte(Pick(r, []byte{' ', 'a', ',', '1', '(', ')', 'A'}))
		case 1:
			// characters that open a comment in SQL but are outside the quote / bracket alphabet of the two scanners
			b.WriteString(Pick(r, []string{"-", "--", "a--1", "-- ", "#", "/*", "*/", "//", "- -", "---"}))
		}
	}
	if r.Chance(5) {
		b.WriteString("\u00e9")
	}
	return b.String()
}

// c17Leaf returns one non-bracket segment; sloppy bodies are fully random over the alphabet
func c17Leaf(r *Rand, sloppy bool) c17Seg {
	switch r.Intn(4) {
	case 0:
		if sloppy {
			return c17Seg{K: "raw", S: strings.NewReplacer("'", "a", `"`, " ", "`", "a").Replace(c17RandBody(r, 4))}
		}
		return c17Seg{K: "raw", S: c17RawBody(r)}
	case 1:
		if sloppy {
			return c17Seg{K: "sq", S: c17RandBody(r, 4)}
		}
		return c17Seg{K: "sq", S: c17SqBody(r)}
	case 2:
		if sloppy {
			return c17Seg{K: "bt", S: c17RandBody(r, 4)}
		}
		return c17Seg{K: "bt", S: c17BtBody(r)}
	}
	if sloppy {
		return c17Seg{K: "dq", S: c17RandBody(r, 4)}
	}
	return c17Seg{K: "dq", S: c17DqName(r)}
}

func c17GenItems(r *Rand, depth, maxDepth int, sloppy bool, out *[]c17Seg) {
	n := r.Range(1, 3)
	for i := 0; i < n; i++ {
		if depth < maxDepth && r.Chance(45) {
			*out = append(*out, c17Seg{K: "open"})
			c17GenItems(r, depth+1, maxDepth, sloppy, out)
			*out = append(*out, c17Seg{K: "close"})
		} else {
			*out = append(*out, c17Leaf(r, sloppy && r.Chance(50)))
		}
		if i+1 < n && r.Chance(60) {
			*out = append(*out, c17Seg{K: "raw", S: Pick(r, []string{", ", ",", " "})})
		}
	}
}

func c17GenDoc(r *Rand) []c17Seg {
	var doc []c17Seg
	sloppy := r.Chance(12)
	maxDepth := r.Intn(5)
	c17GenItems(r, 0, maxDepth, sloppy, &doc)
	if r.Chance(12) { // unbalance: drop or insert one bracket
		var idx []int
		for i, s := range doc {
			if s.K == "open" || s.K == "close" {
				idx = append(idx, i)
			}
		}
		if len(idx) > 0 && r.Bool() {
			k := Pick(r, idx)
			doc = append(doc[:k:k], doc[k+1:]...)
		} else {
			k := r.Intn(len(doc) + 1)
			ins := c17Seg{K: Pick(r, []string{"open", "close"})}
			doc = append(doc[:k:k], append([]c17Seg{ins}, doc[k:]...)...)
		}
	}
	return doc
}

func c17AllStrings(alpha []byte, maxLen int) []string {
	out := []string{""}
	level := []string{""}
	for l := 1; l <= maxLen; l++ {
		var next []string
		for _, s := range level {
			for _, c := range alpha {
				next = append(next, s+string(c))
			}
		}
		out = append(out, next...)
		level = next
	}
	return out
}

// ---- meta queries: SELECT <expr> AS <alias>, ... FROM <table> over fixed data ----

var c17Data = map[string]any{"t": []any{
	map[string]any{"a": 1.0, "b": "x"},
	map[string]any{"a": 2.0, "b": "y [z]"},
}}

func c17AliasName(r *Rand, pg bool) string {
	for {
		n := r.Range(1, 4)
		b := make([]byte, n)
		for i := range b {
			b[i] = Pick(r, c17Alpha)
		}
		s := string(b)
		if strings.HasSuffix(s, `\`) || strings.TrimSpace(s) == "" || strings.HasSuffix(s, " ") {
			continue
		}
		return s
	}
}

func c17MetaExpr(r *Rand, depth int, doc *[]c17Seg) {
	switch k := r.Intn(6); {
	case k == 0:
		*doc = append(*doc, c17Seg{K: "raw", S: Pick(r, []string{"1", "2", "a", "b", "a + 1", "a--1", "5--2", "a - -1", "a-1", "-a", "2*a", "a/2"})})
	case k == 1:
		*doc = append(*doc, c17Seg{K: "sq", S: c17SqBody(r)})
	case k == 2:
		*doc = append(*doc, c17Seg{K: Pick(r, []string{"dq", "bt"}), S: Pick(r, []string{"a", "b"})})
	default:
		if depth >= 4 {
			*doc = append(*doc, c17Seg{K: "raw", S: "3"})
			return
		}
		*doc = append(*doc, c17Seg{K: "open"})
		n := r.Range(1, 3)
		for i := 0; i < n; i++ {
			if i > 0 {
				*doc = append(*doc, c17Seg{K: "raw", S: ", "})
			}
			c17MetaExpr(r, depth+1, doc)
		}
		*doc = append(*doc, c17Seg{K: "close"})
	}
}

func c17MetaDoc(r *Rand, wrapped bool) []c17Seg { return c17MetaDocOn(r, wrapped, "t") }

func c17MetaDocOn(r *Rand, wrapped bool, tbl string) []c17Seg {
	doc := []c17Seg{{K: "raw", S: "SELECT "}}
	n := r.Range(1, 3)
	for i := 0; i < n; i++ {
		if i > 0 {
			doc = append(doc, c17Seg{K: "raw", S: ", "})
		}
		c17MetaExpr(r, 0, &doc)
		doc = append(doc, c17Seg{K: "raw", S: " AS "})
		switch r.Intn(3) {
		case 0:
			doc = append(doc, c17Seg{K: "dq", S: c17AliasName(r, true)})
		case 1:
			bt := c17BtBody(r)
			if bt == "" || strings.TrimSpace(bt) == "" || strings.HasSuffix(bt, " ") {
				bt = "k" + bt + "k"
			}
			doc = append(doc, c17Seg{K: "bt", S: bt})
		default:
			doc = append(doc, c17Seg{K: "raw", S: fmt.Sprintf("c%d", i)})
		}
	}
	doc = append(doc, c17Seg{K: "raw", S: " FROM "})
	if wrapped {
		doc = append(doc, c17Seg{K: Pick(r, []string{"raw", "dq", "bt"}), S: "root"}, c17Seg{K: "raw", S: "."})
	}
	tk := Pick(r, []string{"raw", "dq", "bt"})
	if strings.Contains(tbl, ".") {
		tk = "bt" // a path as one quoted name
	}
	doc = append(doc, c17Seg{K: tk, S: tbl})
	if r.Chance(30) {
		doc = append(doc, c17Seg{K: "raw", S: " WHERE b = "}, c17Seg{K: "sq", S: Pick(r, []string{"x", "y [z]", "[", "\\'"})})
	}
	return doc
}

func (propC17) Generate(r *Rand, tier string) []Case {
	var out []Case
	mul := 1
	if tier == "thorough" {
		mul = 10
	}
	add := func(in c17In, tags ...string) { out = append(out, Case{Input: in, Tags: tags}) }

	// (1) every short string over the 7-byte alphabet: every state x byte transition of both scanners
	maxLen := 3
	if tier == "thorough" {
		maxLen = 4
	}
	for _, s := range c17AllStrings(c17Alpha7, maxLen) {
		add(c17In{Kind: "bytes", Hex: hex.EncodeToString([]byte(s))}, "stream:enum")
	}
	// (2) every short body inside every quote kind, between brackets, followed by a bracket-sensitive tail
	bodyLen := 2
	if tier == "thorough" {
		bodyLen = 3
	}
	for _, body := range c17AllStrings(c17Alpha, bodyLen) {
		for _, k := range []string{"sq", "bt", "dq"} {
			doc := []c17Seg{{K: "open"}, {K: k, S: body}, {K: "close"}, {K: "raw", S: " "}, {K: "bt", S: "b[0]"}, {K: "dq", S: "x"}}
			for _, q := range []string{"pg", "my"} {
				add(c17In{Kind: "doc", Q: q, Doc: doc}, "stream:probe")
			}
		}
	}
	// (2a') a letter directly against an opening quote, with and without a word in front of it: the letters that
	// prefix a string literal in one SQL dialect or another (E'..' N'..' X'..' B'..' R'..' U&'..'). The rewriters know
	// no literal prefixes: the letter is ordinary text, whether it stands alone or ends a keyword / name (LIKE'a%').
	for _, w := range []string{"", "LIK", "els", "x_"} {
		for _, l := range []byte("eEnNxXbBrRuU") {
			for _, k := range []string{"sq", "dq", "bt"} {
				doc := []c17Seg{{K: "raw", S: w + string(l)}, {K: k, S: "a"}, {K: "raw", S: " "}, {K: "open"}, {K: "sq", S: "z"}, {K: "close"}}
				for _, q := range []string{"pg", "my"} {
					add(c17In{Kind: "doc", Q: q, Doc: doc}, "stream:probe-letter-against-quote")
				}
			}
		}
	}
	// (2b) longer bodies over the quote/escape bytes only
	for _, body := range c17AllStrings([]byte{'"', '\'', '`', '\\', '['}, 3) {
		if len(body) < 3 {
			continue
		}
		for _, k := range []string{"sq", "bt", "dq"} {
			doc := []c17Seg{{K: k, S: body}, {K: "open"}, {K: "close"}, {K: "bt", S: "b]"}}
			for _, q := range []string{"pg", "my"} {
				add(c17In{Kind: "doc", Q: q, Doc: doc}, "stream:probe3")
			}
		}
	}
	// (2c) comment openers INSIDE a quoted segment, followed by brackets on the same line: a quoted "-- ", "#" or "/*"
	// is text, the brackets after the segment are still array syntax
	for _, body := range []string{"-- ", " -- ", "a -- b", "--", "-", "- -", "--\n", "#", "# ", "/*", "/* */", "*/", "n/a -- pending", "--[", "-- ]"} {
		for _, k := range []string{"sq", "bt", "dq"} {
			for _, tail := range [][]c17Seg{
				{{K: "raw", S: " "}, {K: "open"}, {K: "close"}},
				{{K: "open"}, {K: "close"}, {K: "raw", S: " "}, {K: "bt", S: "b[0]"}},
				{{K: "raw", S: ", "}, {K: "open"}, {K: "sq", S: "x"}, {K: "close"}},
			} {
				doc := append([]c17Seg{{K: k, S: body}}, tail...)
				for _, q := range []string{"pg", "my"} {
					add(c17In{Kind: "doc", Q: q, Doc: doc}, "stream:probe-comment-openers")
				}
			}
		}
	}
	// (2e) comment openers OUTSIDE quotes (a double minus is a comment only when white space follows: a--1 is a - (-1)),
	// before, between, inside and after brackets, on the same line and on the line before: neither scanner knows
	// comments, so every bracket is array syntax wherever it stands
	for _, op := range []string{"--", "a--1", "5--2", "-", "---", "-- ", "--\n", "#", "/*", "*/", "//", "-1"} {
		x := c17Seg{K: "raw", S: op}
		sp := c17Seg{K: "raw", S: " "}
		cm := c17Seg{K: "raw", S: ", "}
		for _, doc := range [][]c17Seg{
			{x, sp, {K: "open"}, {K: "raw", S: "a"}, {K: "close"}},
			{{K: "open"}, x, cm, {K: "raw", S: "b"}, {K: "close"}},
			{{K: "open"}, {K: "raw", S: "a"}, {K: "close"}, sp, x, sp, {K: "open"}, {K: "sq", S: "z]"}, {K: "close"}},
			{x, {K: "raw", S: " AS y, "}, {K: "open"}, {K: "raw", S: "a, "}, {K: "open"}, {K: "raw", S: "b,"}, {K: "sq", S: "z"}, {K: "close"}, {K: "close"}},
			{x, {K: "raw", S: "\n"}, {K: "open"}, {K: "raw", S: "a"}, {K: "close"}},
			{x, sp, {K: "dq", S: "c]"}, {K: "open"}, {K: "bt", S: "d["}, {K: "close"}, x},
		} {
			for _, q := range []string{"pg", "my"} {
				add(c17In{Kind: "doc", Q: q, Doc: doc}, "stream:probe-unquoted-comment-openers")
			}
		}
	}
	// ... and through the engine: the idiomatic spelling and the ARRAY() spelling of the same query agree
	for _, e := range []string{"a--1", "5--2", "a - -1", "a-1", "a--1-1", "1 - a", "a---1"} {
		raw := func(s string) c17Seg { return c17Seg{K: "raw", S: s} }
		for _, doc := range [][]c17Seg{
			{raw("SELECT "), {K: "open"}, raw(e + ", b"), {K: "close"}, raw(" AS y FROM t")},
			{raw("SELECT " + e + " AS y, "), {K: "open"}, raw("a, "), {K: "open"}, raw("b, "), {K: "sq", S: "z"}, {K: "close"}, {K: "close"}, raw(" AS arr FROM t")},
			{raw("SELECT a AS y FROM t WHERE " + e + " > 2 AND ELEMENTAT("), {K: "open"}, raw("a, 0"), {K: "close"}, raw(", 0) = a")},
			{raw("SELECT "), {K: "open"}, raw("a"), {K: "close"}, raw(" AS y, " + e + " AS "), {K: "dq", S: "z]"}, raw(" FROM t")},
		} {
			for p := 0; p < 2; p++ {
				add(c17In{Kind: "meta", Doc: doc, Pg: p == 1, Idiom: true}, "stream:meta", "data:unquoted-double-minus")
			}
		}
	}
	// (2f) degenerate documents (nil map, {}, root: null ...) x queries that look at the top level x option sets
	for _, name := range c17DegenerateNames {
		for _, doc := range c17TopLevelDocs() {
			// Wrapped() alone, Wrapped() with both dialect options, and one option set without Wrapped()
			for _, o := range []int{1, 7, 2 * r.Intn(4)} {
				add(c17In{Kind: "meta", Doc: doc, Wrapped: o&1 != 0, Pg: o&2 != 0, Idiom: o&4 != 0, Data: name}, "stream:meta", "data:degenerate", "data:"+name)
			}
		}
	}
	// (2d) many bracket pairs (more than 64) inside one open bracket: a matrix literal
	for _, rows := range []int{63, 64, 65, 70, 130} {
		doc := []c17Seg{{K: "raw", S: "SELECT "}, {K: "open"}}
		for i := 0; i < rows; i++ {
			if i > 0 {
				doc = append(doc, c17Seg{K: "raw", S: ", "})
			}
			doc = append(doc, c17Seg{K: "open"}, c17Seg{K: "raw", S: fmt.Sprintf("%d, %d", i, i+1)}, c17Seg{K: "close"})
		}
		doc = append(doc, c17Seg{K: "close"}, c17Seg{K: "raw", S: " AS m FROM "}, c17Seg{K: "raw", S: "t"})
		for _, q := range []string{"pg", "my"} {
			add(c17In{Kind: "doc", Q: q, Doc: doc}, "stream:probe-many-brackets")
		}
		add(c17In{Kind: "meta", Doc: doc, Idiom: true}, "stream:meta", "data:many-brackets")
	}
	// (3) random documents
	for i := 0; i < 500*mul; i++ {
		add(c17In{Kind: "doc", Q: Pick(r, []string{"pg", "pg", "my"}), Doc: c17GenDoc(r)}, "stream:doc")
	}
	// (4) random bytes (totality): biased to the special bytes, plus arbitrary bytes
	for i := 0; i < 250*mul; i++ {
		n := r.Intn(40)
		b := make([]byte, n)
		for j := range b {
			if r.Chance(70) {
				b[j] = Pick(r, c17Alpha)
			} else {
				b[j] = byte(r.Intn(256))
			}
		}
		if r.Chance(15) { // end inside a quote, on a backslash
			b = append(b, Pick(r, []byte{'"', '\'', '`', ' '}), Pick(r, c17Alpha), '\\')
		}
		add(c17In{Kind: "bytes", Hex: hex.EncodeToString(b)}, "stream:bytes")
	}
	// (5) metamorphic: all 8 option sets
	for w := 0; w < 2; w++ {
		for p := 0; p < 2; p++ {
			for a := 0; a < 2; a++ {
				for i := 0; i < 30*mul; i++ {
					add(c17In{Kind: "meta", Doc: c17MetaDoc(r, w == 1), Wrapped: w == 1, Pg: p == 1, Idiom: a == 1}, "stream:meta")
					if r.Chance(12) {
						// an input whose only top-level key is "root": Wrapped() must still wrap it
						add(c17In{Kind: "meta", Doc: c17MetaDocOn(r, w == 1, "root"), Wrapped: w == 1, Pg: p == 1, Idiom: a == 1, RootOnly: true}, "stream:meta", "data:root-only")
					}
					if r.Chance(12) {
						// ... and one whose only key "root" holds an object: Wrapped() wraps that too (root.root.t)
						add(c17In{Kind: "meta", Doc: c17MetaDocOn(r, w == 1, "root.t"), Wrapped: w == 1, Pg: p == 1, Idiom: a == 1, RootObj: true}, "stream:meta", "data:root-object-only")
					}
				}
			}
		}
	}
	for i := range out {
		in := out[i].Input.(c17In)
		switch in.Kind {
		case "meta":
			out[i].Nontrivial = true // refined by the observation tag meta:rows
		default:
			var text string
			if in.Kind == "bytes" {
				b, _ := hex.DecodeString(in.Hex)
				text = string(b)
			} else {
				text = c17Render(in.Q, true, in.Doc)
			}
			out[i].Nontrivial = strings.ContainsAny(text, "'\"`[]")
		}
	}
	return out
}

// ---------------- observation ----------------

func c17Outcome(f func() (string, error)) (class, val string) {
	defer func() {
		if r := recover(); r != nil {
			class, val = "panic", ""
		}
	}()
	s, err := f()
	if err != nil {
		return "error", ""
	}
	return "ok", s
}

func c17CoqOutcome(class, val string) string {
	switch class {
	case "ok":
		return "(OOk " + coqStr(val) + ")"
	case "error":
		return "OErr"
	}
	return "OPanic"
}

func c17CoqDoc(doc []c17Seg) string {
	items := make([]string, len(doc))
	for i, s := range doc {
		switch s.K {
		case "raw":
			items[i] = "Raw " + coqStr(s.S)
		case "sq":
			items[i] = "SQ " + coqStr(s.S)
		case "bt":
			items[i] = "BT " + coqStr(s.S)
		case "dq":
			items[i] = "DQ " + coqStr(s.S)
		case "open":
			items[i] = "Open"
		case "close":
			items[i] = "Close"
		}
	}
	return coqList(items)
}

func c17Exec(data map[string]any, q string, opts ...genql.QueryOption) (class, val string) {
	type res struct{ class, val string }
	ch := make(chan res, 1)
	go func() {
		c, v := c17Outcome(func() (string, error) {
			qq, err := genql.New(data, q, opts...)
			if err != nil {
				return "", err
			}
			rows, err := qq.Exec()
			if err != nil {
				return "", err
			}
			b, err := json.Marshal(rows)
			if err != nil {
				return fmt.Sprintf("%v", rows), nil
			}
			return string(b), nil
		})
		ch <- res{c, v}
	}()
	select {
	case r := <-ch:
		return r.class, r.val
	case <-time.After(20 * time.Second):
		return "hang", ""
	}
}

func (propC17) Observe(raw json.RawMessage) (Observed, error) {
	var in c17In
	if err := json.Unmarshal(raw, &in); err != nil {
		return Observed{}, err
	}
	for _, s := range in.Doc {
		switch s.K {
		case "raw", "sq", "bt", "dq", "open", "close":
		default:
			return Observed{}, fmt.Errorf("bad segment kind %q", s.K)
		}
	}
	switch in.Kind {
	case "doc", "bytes":
		var text, coqIn string
		tags := []string{"kind:" + in.Kind}
		if in.Kind == "bytes" {
			b, err := hex.DecodeString(in.Hex)
			if err != nil {
				return Observed{}, err
			}
			text = string(b)
			coqIn = "(IScan None " + coqStr(text) + ")"
		} else {
			if in.Q != "pg" && in.Q != "my" {
				return Observed{}, fmt.Errorf("bad q %q", in.Q)
			}
			text = c17Render(in.Q, true, in.Doc)
			q := "PG"
			if in.Q == "my" {
				q = "MY"
			}
			coqIn = "(IScan (Some (" + q + ", " + c17CoqDoc(in.Doc) + ")) " + coqStr(text) + ")"
			bal, depth := c17Balance(in.Doc)
			tags = append(tags, "q:"+in.Q, fmt.Sprintf("depth:%d", depth), fmt.Sprintf("balanced:%v", bal),
				fmt.Sprintf("wf_quotes:%v", c17WfQuotes(in.Doc)), fmt.Sprintf("wf_arrays:%v", c17WfArrays(in.Q, in.Doc)))
			kinds := map[string]bool{}
			for _, s := range in.Doc {
				kinds[s.K] = true
			}
			for k := range kinds {
				tags = append(tags, "seg:"+k)
			}
		}
		dqC, dqV := c17Outcome(func() (string, error) { return genql.DoubleQuotesToBackTick(text) })
		var idx [][]int
		idxC, _ := c17Outcome(func() (string, error) {
			var err error
			idx, err = genql.FindArrayIndex(text)
			return "", err
		})
		fixC, fixV := c17Outcome(func() (string, error) { return genql.FixIdiomaticArray(text) })
		pipeC, pipeV := c17Outcome(func() (string, error) {
			t, err := genql.DoubleQuotesToBackTick(text)
			if err != nil {
				return "", err
			}
			return genql.FixIdiomaticArray(t)
		})
		idxCoq := "OPanic"
		switch idxC {
		case "ok":
			items := make([]string, 0, len(idx))
			for _, p := range idx {
				if len(p) != 2 {
					return Observed{}, fmt.Errorf("FindArrayIndex returned a %d-element index", len(p))
				}
				items = append(items, "("+coqZi(int64(p[0]))+", "+coqZi(int64(p[1]))+")")
			}
			idxCoq = "(OOk " + coqList(items) + ")"
		case "error":
			idxCoq = "OErr"
		}
		tags = append(tags, "dq:"+dqC, "idx:"+idxC, "fix:"+fixC, "pipe:"+pipeC)
		tags = append(tags, c17Transitions(text)...)
		if dqC == "ok" && dqV != text {
			tags = append(tags, "dq:changed")
		}
		if fixC == "ok" && fixV != text {
			tags = append(tags, "fix:changed")
		}
		obs := "(ObScan " + c17CoqOutcome(dqC, dqV) + " " + idxCoq + " " + c17CoqOutcome(fixC, fixV) + " " + c17CoqOutcome(pipeC, pipeV) + ")"
		note := map[string]any{"text": text, "dq": []string{dqC, dqV}, "idx": []any{idxC, idx}, "fix": []string{fixC, fixV}, "pipe": []string{pipeC, pipeV}}
		return Observed{CoqIn: coqIn, CoqObs: obs, Note: note, Tags: tags}, nil
	case "meta":
		q := "my"
		if in.Pg {
			q = "pg"
		}
		textA := c17Render(q, in.Idiom, in.Doc)
		textB := c17Render("my", false, in.Doc)
		var opts []genql.QueryOption
		if in.Wrapped {
			opts = append(opts, genql.Wrapped())
		}
		if in.Pg {
			opts = append(opts, genql.PostgresEscapingDialect())
		}
		if in.Idiom {
			opts = append(opts, genql.IdomaticArrays())
		}
		dataA := deepCopy(c17Data).(map[string]any)
		dataB := deepCopy(c17Data).(map[string]any)
		if in.RootOnly {
			dataA = map[string]any{"root": deepCopy(c17Data["t"])}
			dataB = map[string]any{"root": deepCopy(c17Data["t"])}
		}
		if in.RootObj {
			dataA = map[string]any{"root": deepCopy(c17Data)}
			dataB = map[string]any{"root": deepCopy(c17Data)}
		}
		if in.Data != "" {
			if in.RootOnly || in.RootObj {
				return Observed{}, fmt.Errorf("data excludes root_only / root_obj")
			}
			var ok bool
			if dataA, ok = c17DegenerateDoc(in.Data); !ok {
				return Observed{}, fmt.Errorf("bad data %q", in.Data)
			}
			dataB, _ = c17DegenerateDoc(in.Data)
		}
		if in.Wrapped {
			dataB = map[string]any{"root": dataB}
		}
		aC, aV := c17Exec(dataA, textA, opts...)
		bC, bV := c17Exec(dataB, textB)
		if aC == "hang" || bC == "hang" {
			return Observed{}, fmt.Errorf("engine did not return within 20s on %q / %q", textA, textB)
		}
		b2c := func(b bool) string { return coqBool(b) }
		coqIn := fmt.Sprintf("(IMeta {| o_wrapped := %s; o_pg := %s; o_idiom := %s |} %s %s %s)",
			b2c(in.Wrapped), b2c(in.Pg), b2c(in.Idiom), c17CoqDoc(in.Doc), coqStr(textA), coqStr(textB))
		obs := "(ObMeta " + c17CoqOutcome(aC, aV) + " " + c17CoqOutcome(bC, bV) + ")"
		_, depth := c17Balance(in.Doc)
		tags := []string{"kind:meta", fmt.Sprintf("opts:w%vp%vi%v", b2i(in.Wrapped), b2i(in.Pg), b2i(in.Idiom)),
			"metaA:" + aC, "metaB:" + bC, fmt.Sprintf("depth:%d", depth)}
		if aC == "ok" && bC == "ok" {
			tags = append(tags, "meta:rows")
		}
		if textA != textB {
			tags = append(tags, "meta:spelling-differs")
		}
		note := map[string]any{"A": textA, "B": textB, "resA": []string{aC, aV}, "resB": []string{bC, bV}}
		return Observed{CoqIn: coqIn, CoqObs: obs, Note: note, Tags: tags, Trivial: !(aC == "ok" && bC == "ok")}, nil
	}
	return Observed{}, fmt.Errorf("bad kind %q", in.Kind)
}

func b2i(b bool) int {
	if b {
		return 1
	}
	return 0
}
