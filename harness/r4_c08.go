package main

// r4_c08.go — a further C08 stream (round 4): the multi-dimensional source of a query is itself the RESULT of a query
// over an array of arrays — a CTE, a chain of CTEs, the operands of a UNION [ALL], a union read through a CTE. The
// engine's own nested results are not JSON-decoded data: an inner dimension that kept no row is a nil slice, a window
// leaves spare capacity. Whatever their representation, the result of the second query has the nesting of its source
// (one inner result per inner array, empty ones included).

import "fmt"

func init() {
	extraStreams["C08"] = append(extraStreams["C08"], r4C08ResultAsSource)
}

func r4C08ResultAsSource(r *Rand, tier string) []Case {
	n := 160
	if tier == "thorough" {
		n = 2000
	}
	var out []Case
	for i := 0; i < n; i++ {
		t := genTable(r, 5)
		depth := 1 + r.Intn(2)
		doc := map[string]any{"n": genNested(r, t, depth)}
		tags := []string{"result-as-source", fmt.Sprintf("nest:%d", depth+1)}
		// a first-stage filter: often leaves nothing of some (or every) inner array
		filter := func() *Expr {
			switch r.Intn(5) {
			case 0:
				return nil
			case 1:
				return Cmp(">", Col("id"), Num(float64(r.Intn(7))))
			case 2:
				return Cmp(Pick(r, cmpOps), Col(Pick(r, t.numCols)), Num(t.numConst(r)))
			case 3:
				return Cmp(Pick(r, []string{"=", "!=", "<", ">="}), Col(Pick(r, t.strCols)), Str(t.strConst(r)))
			default:
				var sub []string
				p := genPred(r, t, 1, &sub)
				for _, s := range sub {
					if s == "op:in-subquery" || s == "op:notin-subquery" {
						p = Cmp("<=", Col("n1"), Num(t.numConst(r)))
					}
				}
				return p
			}
		}
		first := func() *Stmt {
			q := &Stmt{From: r4Tbl("n"), Items: []Item{{Star: true}}, Where: filter()}
			if r.Chance(35) {
				q.Items = []Item{{E: Col("id")}, {E: Col("n1")}, {E: Bin("*", Col("n2"), Num(2)), Alias: "n2"}, {E: Col("s1")}, {E: Col("s2")}, {E: Col("b1")}, {E: Col("o")}, {E: Col("z")}}
				tags = append(tags, "first:project")
			}
			return q
		}
		// the second stage: a filter/projection query over the named nested result
		second := func(from string) *Stmt {
			q := &Stmt{From: r4Tbl(from), Where: filter()}
			if r.Chance(40) {
				q.Items = []Item{{Star: true}}
			} else {
				q.Items = genItems(r, t, 2, &tags)
			}
			return q
		}
		var q *Stmt
		switch r.Intn(5) {
		case 0, 1:
			tags = append(tags, "source:cte")
			q = second("c")
			q.With = []CTE{{Name: "c", Q: first()}}
		case 2:
			tags = append(tags, "source:cte-chain")
			mid := &Stmt{From: r4Tbl("c1"), Items: []Item{{Star: true}}, Where: filter()}
			q = second("c2")
			q.With = []CTE{{Name: "c1", Q: first()}, {Name: "c2", Q: mid}}
		case 3:
			tags = append(tags, "source:union-operands")
			a, b := first(), first()
			a.Items, b.Items = []Item{{E: Col("id")}, {E: Col("s1")}}, []Item{{E: Col("id")}, {E: Col("s1")}}
			q = &Stmt{Union: true, All: true, L: a, R: b}
			if r.Chance(30) {
				q = &Stmt{Union: true, All: true, L: q, R: first()}
			}
		default:
			tags = append(tags, "source:union-through-cte")
			a, b := first(), first()
			a.Items, b.Items = []Item{{Star: true}}, []Item{{Star: true}}
			q = second("c")
			q.With = []CTE{{Name: "c", Q: &Stmt{Union: true, All: true, L: a, R: b}}}
		}
		out = append(out, mkCase(doc, q, tags, true))
	}
	return out
}
