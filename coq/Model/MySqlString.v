(* Model/MySqlString.v — the CONSUMER's lexer: github.com/vedadiyan/sqlparser/v2@v2.0.3 token.go
   (the Vitess MySQL-dialect tokenizer that genql.Parse uses).  Definitions only.

   Two things are transcribed:

   1. [scan_string] / [scan_string_slow] / [sql_decode] : the value of a quoted string token
      (token.go scanString L555-578, scanStringSlow L583-635, sqltypes.SQLDecodeMap value.go L949-959).

   2. [mstep] : the tokenizer as a byte-at-a-time machine with a 2-byte look-ahead, giving for every
      byte offset the state in which Tokenizer.Scan arrives there, and from it the lexical
      [mode] of that byte ([mlabel]).  One constructor per scanning loop of token.go:
        Scan L122-304 (the dispatcher = [step_def]), skipBlank L318, scanIdentifier L327,
        scanHex L350, scanBitLiteral L365, scanLiteralIdentifier(+Slow) L381-436,
        scanBindVarOrAssignmentExpression L439, scanMantissa/scanNumber L477-549,
        scanString(+Slow) L555-635, scanCommentType1 L640, scanCommentType2 L654,
        scanMySQLSpecificComment L674 (delimited exactly like a type-2 comment; its content is
        re-tokenised by a nested Tokenizer, which does not change the modes of the outer buffer).
      A LEX_ERROR token does not stop the machine: exactly as repeated calls of Scan do, it
      resumes at the current position (token.go never rewinds or skips on error except where
      stated below).
   Bytes are Coq [ascii]; Go strings are byte strings and this tokenizer is byte-based
   (cur/peek L701-714 index tkn.buf by byte; eofChar = 0x100 is "no byte"). *)
From GenqlV Require Import Base.Prelude.
Local Open Scope string_scope.
Local Open Scope bool_scope.

(* ---------------------------------------------------------------- bytes *)

Definition code (c : ascii) : N := N_of_ascii c.
Definition is (c k : ascii) : bool := Ascii.eqb c k.
Definition in_range (c : ascii) (lo hi : N) : bool := (lo <=? code c)%N && (code c <=? hi)%N.

Definition c_nul : ascii := "000"%char.
Definition c_bs  : ascii := "008"%char.
Definition c_tab : ascii := "009"%char.
Definition c_nl  : ascii := "010"%char.
Definition c_cr  : ascii := "013"%char.
Definition c_sub : ascii := "026"%char.   (* ctl-Z *)
Definition c_sp  : ascii := " "%char.
Definition c_sq  : ascii := "'"%char.
Definition c_dq  : ascii := """"%char.
Definition c_bt  : ascii := "`"%char.
Definition c_bsl : ascii := "\"%char.

(* token.go L721-743 *)
Definition is_digit (c : ascii) : bool := in_range c 48 57.
Definition is_letter (c : ascii) : bool :=
  in_range c 97 122 || in_range c 65 90 || is c "_" || is c "$".
Definition is_carat (c : ascii) : bool := is c "." || is c c_sq || is c c_dq || is c c_bt.
Definition is_hexdigit (c : ascii) : bool := is_digit c || in_range c 97 102 || in_range c 65 70.
Definition is_bindigit (c : ascii) : bool := is c "0" || is c "1".
(* skipBlank L318-324 *)
Definition is_blank (c : ascii) : bool := is c c_sp || is c c_nl || is c c_cr || is c c_tab.

Definition peek (s : bytes) : option ascii := match s with String c _ => Some c | EmptyString => None end.
Definition peek2 (s : bytes) : option ascii :=
  match s with String _ (String c _) => Some c | _ => None end.
Definition nxt_is (s : bytes) (k : ascii) : bool :=
  match s with String c _ => is c k | EmptyString => false end.
Definition nxt_sat (s : bytes) (p : ascii -> bool) : bool :=
  match s with String c _ => p c | EmptyString => false end.
(* peek(1) == ' ' || '\n' || '\t' || '\r' || eofChar   (L245-246) *)
Definition blank_or_eof (o : option ascii) : bool :=
  match o with None => true | Some c => is_blank c end.

(* ---------------------------------------------------------------- string token values *)

(* sqltypes.SQLDecodeMap: Some = decoded byte, None = DontEscape (the byte stands for itself) *)
Definition sql_decode (c : ascii) : option ascii :=
  if is c "0" then Some c_nul
  else if is c c_sq then Some c_sq
  else if is c c_dq then Some c_dq
  else if is c "b" then Some c_bs
  else if is c "n" then Some c_nl
  else if is c "r" then Some c_cr
  else if is c "t" then Some c_tab
  else if is c "Z" then Some c_sub
  else if is c c_bsl then Some c_bsl
  else None.

Definition cons_fst (c : ascii) (r : option (bytes * bytes)) : option (bytes * bytes) :=
  match r with Some (v, rest) => Some (String c v, rest) | None => None end.

(* scanStringSlow (L583-635).  The input is what follows the bytes already copied into [buffer];
   the result is (bytes appended to the buffer, remaining input after the closing delimiter).
   None = LEX_ERROR (unterminated string / string ends in the middle of an escape).
   The inner "scan ahead to the next interesting character" loop (L592-607) is an optimisation of
   the byte-at-a-time reading below. *)
Fixpoint scan_string_slow (delim : ascii) (s : bytes) : option (bytes * bytes) :=
  match s with
  | EmptyString => None                                          (* L586-589 *)
  | String c s1 =>
      if is c c_bsl then                                         (* L611 *)
        match s1 with
        | EmptyString => None                                    (* L612-615 *)
        | String c2 s2 =>
            if is c2 "%" || is c2 "_" then                       (* L617-619: keep the backslash *)
              cons_fst c_bsl (cons_fst c2 (scan_string_slow delim s2))
            else
              match sql_decode c2 with
              | None => cons_fst c2 (scan_string_slow delim s2)  (* L620-621 *)
              | Some d => cons_fst d (scan_string_slow delim s2) (* L622-623 *)
              end
        end
      else if is c delim then
        match s1 with
        | String c2 s2 =>
            if is c2 delim then cons_fst delim (scan_string_slow delim s2)  (* doubled delimiter *)
            else Some (EmptyString, s1)                          (* L625-627 *)
        | EmptyString => Some (EmptyString, EmptyString)
        end
      else cons_fst c (scan_string_slow delim s1)
  end.

(* scanString (L555-578): fast path up to the first backslash or doubled delimiter *)
Fixpoint scan_string (delim : ascii) (s : bytes) : option (bytes * bytes) :=
  match s with
  | EmptyString => None                                          (* L572-573 *)
  | String c s1 =>
      if is c delim then
        if nxt_is s1 delim then scan_string_slow delim s         (* L561 false, fallthrough *)
        else Some (EmptyString, s1)                              (* L561-564 *)
      else if is c c_bsl then scan_string_slow delim s           (* L567-570 *)
      else cons_fst c (scan_string delim s1)                     (* L576 *)
  end.

(* Scan L296-297: a string token starts with a single or a double quote; value and remaining input *)
Definition mysql_scan_string (s : bytes) : option (bytes * bytes) :=
  match s with
  | String c s1 => if is c c_sq || is c c_dq then scan_string c s1 else None
  | EmptyString => None
  end.

(* ---------------------------------------------------------------- lexical modes *)

Inductive mode :=
| Default            (* between tokens: a token (or blank) starts at this byte *)
| InWord             (* inside an identifier / keyword / number / @variable / :bindvar / x'..' b'..' *)
| InStr (d : ascii)  (* inside a quoted string opened by d (single or double quote) *)
| InBT               (* inside a backtick identifier *)
| InLine             (* inside a dash-dash, hash or slash-slash comment *)
| InBlock.           (* inside a slash-star comment (also the slash-star-bang form) *)

Inductive mstate :=
| MDef                              (* Scan dispatcher, after skipBlank *)
| MIdent                            (* scanIdentifier(false) loop L331-337; also the identifier tail of scanNumber L538-544 *)
| MAt | MAtAt                       (* after '@' / '@@' (L138-153) *)
| MAtVar                            (* scanIdentifier(true) loop *)
| MColon | MColon2 | MBind | MDigits(* scanBindVarOrAssignmentExpression L439-473 *)
| MNZero | MNInt | MNFrac | MNExpMark | MNExp | MNHex | MNBin   (* scanNumber L484-549 *)
| MHexLit | MBitLit                 (* scanHex / scanBitLiteral after x' / b' *)
| MStr (d : ascii)                  (* scanString / scanStringSlow *)
| MBT0 | MBT                        (* scanLiteralIdentifier: at its first byte / later *)
| MLine                             (* scanCommentType1 *)
| MBlock                            (* scanCommentType2 / scanMySQLSpecificComment *)
| MSkip (lbl : mode) (next : mstate). (* a byte that was examined by peek and is consumed by skip *)

(* The dispatcher of Scan (L136-303) at a token boundary, looking at byte c. *)
Definition step_def (c : ascii) (rest : bytes) : mstate :=
  if is_blank c then MDef                                                   (* skipBlank *)
  else if is c "@" then MAt                                                 (* L138 *)
  else if is_letter c then                                                  (* L159-180 *)
    if (is c "X" || is c "x") && nxt_is rest c_sq then MSkip InWord MHexLit
    else if (is c "B" || is c "b") && nxt_is rest c_sq then MSkip InWord MBitLit
    else if (is c "N" || is c "n") && nxt_is rest c_sq then MSkip (InStr c_sq) (MStr c_sq)
    else if (is c "N" || is c "n") && nxt_is rest c_dq then MSkip (InStr c_dq) (MStr c_dq)
    else MIdent
  else if is_digit c then (if is c "0" then MNZero else MNInt)              (* L181, L496 *)
  else if is c ":" then MColon                                              (* L183 *)
  else if is c "." then (if nxt_sat rest is_digit then MNFrac else MDef)    (* L197, L223 *)
  else if is c "/" then                                                     (* L225-239 *)
    if nxt_is rest "/" then MSkip InLine MLine
    else if nxt_is rest "*" then MSkip InBlock MBlock
    else MDef
  else if is c "#" then MLine                                               (* L240 *)
  else if is c "-" then                                                     (* L242-258 *)
    if nxt_is rest "-" && blank_or_eof (peek2 rest) then MSkip InLine MLine else MDef
  else if is c c_sq || is c c_dq then MStr c                                (* L296 *)
  else if is c c_bt then MBT0                                               (* L298 *)
  else MDef.                       (* operators, ';', '?', and bytes that give LEX_ERROR (L301) *)

(* Inside a token: Some m' = byte c belongs to the token being scanned; None = the token ended
   before c (or a LEX_ERROR was returned without consuming c) and Scan re-dispatches on c. *)
Definition mcont (m : mstate) (c : ascii) (rest : bytes) : option mstate :=
  match m with
  | MDef => None
  | MIdent => if is_letter c || is_digit c then Some MIdent else None
  | MAt => Some (if is c "@" then MAtAt else if is c c_bt then MBT0 else MAtVar) (* L141-153, scanIdentifier skips one byte blindly L329 *)
  | MAtAt => Some (if is c c_bt then MBT0 else MAtVar)
  | MAtVar => if is_letter c || is_digit c || is_carat c then Some MAtVar else None
  | MColon =>                                                               (* L443-463 *)
      if is_digit c then Some MDigits
      else if is c "=" then Some MDef
      else if is c ":" then Some MColon2
      else if is_letter c then Some MBind
      else None
  | MColon2 => if is_letter c then Some MBind else None
  | MBind => if is_letter c || is_digit c || is c "." then Some MBind else None  (* L465-471 *)
  | MDigits => if is_digit c then Some MDigits else None
  | MNZero =>                                                               (* L496-510 *)
      if is c "x" || is c "X" then Some MNHex
      else if is c "b" || is c "B" then Some MNBin
      else if is_digit c then Some MNInt
      else if is c "." then Some MNFrac
      else if is c "e" || is c "E" then Some MNExpMark
      else if is_letter c then Some MIdent
      else None
  | MNInt =>                                                                (* L512-548 *)
      if is_digit c then Some MNInt
      else if is c "." then Some MNFrac
      else if is c "e" || is c "E" then Some MNExpMark
      else if is_letter c then Some MIdent            (* INTEGRAL followed by a letter: identifier *)
      else None
  | MNFrac =>
      if is_digit c then Some MNFrac
      else if is c "e" || is c "E" then Some MNExpMark
      else None                                        (* a letter here: LEX_ERROR, c not consumed *)
  | MNExpMark => if is c "+" || is c "-" || is_digit c then Some MNExp else None  (* L524-527 *)
  | MNExp => if is_digit c then Some MNExp else None
  | MNHex => if is_hexdigit c then Some MNHex else if is_letter c then Some MIdent else None
  | MNBin => if is_bindigit c then Some MNBin else if is_letter c then Some MIdent else None
  | MHexLit => if is_hexdigit c then Some MHexLit else if is c c_sq then Some MDef else None
  | MBitLit => if is_bindigit c then Some MBitLit else if is c c_sq then Some MDef else None
  | MStr d =>
      if is c d then Some (if nxt_is rest d then MSkip (InStr d) (MStr d) else MDef)
      else if is c c_bsl then
        Some (match rest with EmptyString => MStr d | _ => MSkip (InStr d) (MStr d) end)
      else Some (MStr d)
  | MBT0 =>                                                                  (* L416-423 *)
      if is c c_bt then (if nxt_is rest c_bt then Some (MSkip InBT MBT) else None) (* empty identifier: LEX_ERROR, the backtick is not consumed *)
      else Some MBT
  | MBT => if is c c_bt then Some (if nxt_is rest c_bt then MSkip InBT MBT else MDef) else Some MBT
  | MLine => Some (if is c c_nl then MDef else MLine)                        (* L642-648 *)
  | MBlock => Some (if is c "*" && nxt_is rest "/" then MSkip InBlock MDef else MBlock)
  | MSkip _ next => Some next
  end.

Definition mstep (m : mstate) (c : ascii) (rest : bytes) : mstate :=
  match mcont m c rest with Some m' => m' | None => step_def c rest end.

(* the mode of the byte c at which the tokenizer arrives in state m *)
Definition mlabel (m : mstate) (c : ascii) (rest : bytes) : mode :=
  match mcont m c rest with
  | None => Default
  | Some _ =>
      match m with
      | MStr d => InStr d
      | MBT0 | MBT => InBT
      | MLine => InLine
      | MBlock => InBlock
      | MSkip lbl _ => lbl
      | _ => InWord
      end
  end.

(* states and modes of every byte offset of s, starting in state m *)
Fixpoint mstates (m : mstate) (s : bytes) : list mstate :=
  match s with
  | EmptyString => []
  | String c rest => m :: mstates (mstep m c rest) rest
  end.

Fixpoint mmodes (m : mstate) (s : bytes) : list mode :=
  match s with
  | EmptyString => []
  | String c rest => mlabel m c rest :: mmodes (mstep m c rest) rest
  end.

(* state after the last byte *)
Fixpoint mrun (m : mstate) (s : bytes) : mstate :=
  match s with
  | EmptyString => m
  | String c rest => mrun (mstep m c rest) rest
  end.

Definition mode_eqb (a b : mode) : bool :=
  match a, b with
  | Default, Default | InWord, InWord | InBT, InBT | InLine, InLine | InBlock, InBlock => true
  | InStr x, InStr y => is x y
  | _, _ => false
  end.

(* the lexical mode of the MySQL tokenizer at byte offset o of the text t (None past the end) *)
Definition mysql_mode (t : bytes) (o : nat) : option mode := nth_error (mmodes MDef t) o.

(* offsets at which a token starts (a non-blank byte in Default mode) *)
Fixpoint mtoken_starts_from (m : mstate) (s : bytes) (o : nat) : list nat :=
  match s with
  | EmptyString => []
  | String c rest =>
      let tl := mtoken_starts_from (mstep m c rest) rest (S o) in
      match mlabel m c rest with
      | Default => if is_blank c then tl else o :: tl
      | _ => tl
      end
  end.
Definition mtoken_starts (t : bytes) : list nat := mtoken_starts_from MDef t 0.

(* the token texts: bytes grouped from one token start to the next (blanks between tokens dropped) *)
Fixpoint mtokens_from (m : mstate) (s : bytes) (cur : bytes) : list bytes :=
  let flush (cur : bytes) (tl : list bytes) :=
    match cur with EmptyString => tl | _ => cur :: tl end in
  match s with
  | EmptyString => flush cur []
  | String c rest =>
      let m' := mstep m c rest in
      match mlabel m c rest with
      | Default =>
          if is_blank c then flush cur (mtokens_from m' rest EmptyString)
          else flush cur (mtokens_from m' rest (String c EmptyString))
      | _ => mtokens_from m' rest (cur ++ String c EmptyString)
      end
  end.
Definition mysql_tokens (t : bytes) : list bytes := mtokens_from MDef t EmptyString.
