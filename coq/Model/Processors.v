(* Model/Processors.v — code-shaped model of /repo/processors.go
     DoubleQuotesToBackTick, FindArrayIndex, FixIdiomaticArray
   and of the option-application prefix of /repo/plsql.go New
     (Wrapped -> PostgresEscapingDialect -> IdomaticArrays -> Parse).

   Definitions only (no proofs).  Every Go loop is one Fixpoint over an explicit index [i : Z]
   (Go [int]) with fuel; every Go index / slice expression goes through [byte_at] / [slice] /
   [set_snd], which return [Panic] when Go would panic, so "never panics" is a theorem
   (Proofs/C17Lemmas.v), not a convention.  Fuel is [S (len str)]; that it never runs out
   ([OutOfModel] is unreachable) is part of the totality theorem.

   The model is of the REPAIRED code.  The three repairs are switchable so that the pinned
   behaviour stays available for the [_refuted] witnesses:
     fx_d25  FixIdiomaticArray returns the error of FindArrayIndex instead of panicking, and
             FindArrayIndex reports brackets that are still open at the end of the input
     fx_d47  FindArrayIndex: a backslash is not an escape inside a backtick identifier
     fx_d48  DoubleQuotesToBackTick: a backtick inside a double-quoted identifier is doubled in the `...` output
     fx_d49  DoubleQuotesToBackTick copies bytes (pinned: buffer.WriteRune(rune(str[i])) re-encodes
             every byte >= 0x80 as a two-byte UTF-8 sequence, so non-ASCII text is corrupted)     *)
From GenqlV Require Import Base.Prelude Base.Value.
Local Open Scope Z_scope.

Record fixes := { fx_d25 : bool; fx_d47 : bool; fx_d48 : bool; fx_d49 : bool }.
Definition repaired : fixes := {| fx_d25 := true;  fx_d47 := true;  fx_d48 := true;  fx_d49 := true  |}.
Definition pinned   : fixes := {| fx_d25 := false; fx_d47 := false; fx_d48 := false; fx_d49 := false |}.

(* ---------------- bytes the scanners look at ---------------- *)
Definition c_sq : ascii := "'"%char.      (* '  *)
Definition c_dq : ascii := """"%char.     (* double quote *)
Definition c_bt : ascii := "`"%char.      (* `  *)
Definition c_bs : ascii := "\"%char.      (* \  *)
Definition c_lb : ascii := "["%char.
Definition c_rb : ascii := "]"%char.
Definition c_0  : ascii := "0"%char.      (* the dummy [r = '0'] the Go loops start from *)
Definition beq (a b : ascii) : bool := Ascii.eqb a b.

(* ---------------- Go primitives that can panic ---------------- *)
Definition blen (s : list ascii) : Z := Z.of_nat (List.length s).

(* str[i] *)
Definition byte_at (s : list ascii) (i : Z) : res ascii :=
  if i <? 0 then Panic
  else match nth_error s (Z.to_nat i) with Some c => Ok c | None => Panic end.

(* str[lo:hi]  (runtime panics unless 0 <= lo <= hi <= len) *)
Definition slice (s : list ascii) (lo hi : Z) : res (list ascii) :=
  if (0 <=? lo) && (lo <=? hi) && (hi <=? blen s)
  then Ok (firstn (Z.to_nat (hi - lo)) (skipn (Z.to_nat lo) s))
  else Panic.

(* output[index][1] = v *)
Definition set_snd (output : list (Z * Z)) (index v : Z) : res (list (Z * Z)) :=
  if index <? 0 then Panic
  else match nth_error output (Z.to_nat index) with
       | None => Panic
       | Some (a, _) =>
           Ok (firstn (Z.to_nat index) output ++ (a, v) :: skipn (S (Z.to_nat index)) output)
       end.

(* ================================================================== *)
(* DoubleQuotesToBackTick                                              *)
(* ================================================================== *)

(* what writing the byte r = str[i] appends to the buffer.
   repaired: buffer.WriteByte(str[i]).  pinned: buffer.WriteRune(rune(str[i])) — the byte is taken
   for a Latin-1 code point and written as UTF-8.                                               *)
Definition wr (fx : fixes) (r : ascii) : list ascii :=
  if fx_d49 fx then [r]
  else let n := nat_of_ascii r in
       if (n <? 128)%nat then [r]
       else [ascii_of_nat (192 + n / 64); ascii_of_nat (128 + n mod 64)].

(* case '\'':  for ; i < len(str) && r != '\''; i++ { r = str[i]; write r;
                 if r == '\\' { if i+1 == len(str) {return err}; write str[i+1]; i++ } }      *)
Fixpoint dq_sq_loop (fx : fixes) (fuel : nat) (s : list ascii) (i : Z) (r : ascii) (buf : list ascii)
  : res (Z * list ascii) :=
  match fuel with
  | O => OutOfModel
  | S fuel =>
    if (i <? blen s) && negb (beq r c_sq) then
      let! r := byte_at s i in
      let buf := (buf ++ wr fx r)%list in
      if beq r c_bs then
        if i + 1 =? blen s then Err
        else let! n := byte_at s (i + 1) in
             dq_sq_loop fx fuel s (i + 1 + 1) r (buf ++ wr fx n)%list
      else dq_sq_loop fx fuel s (i + 1) r buf
    else Ok (i, buf)
  end.

(* case '`':  for ; i < len(str) && r != '`'; i++ { r = str[i]; write r }                     *)
Fixpoint dq_bt_loop (fx : fixes) (fuel : nat) (s : list ascii) (i : Z) (r : ascii) (buf : list ascii)
  : res (Z * list ascii) :=
  match fuel with
  | O => OutOfModel
  | S fuel =>
    if (i <? blen s) && negb (beq r c_bt) then
      let! r := byte_at s i in
      dq_bt_loop fx fuel s (i + 1) r (buf ++ wr fx r)%list
    else Ok (i, buf)
  end.

(* case DQUOTE:  for ; i < len(str) && r != DQUOTE; i++ {
                 r = str[i]
                 if r == DQUOTE { write '`'; continue }
                 if r == '\\' { if i+1 == len(str) {return err}
                                next := str[i+1]
                                if next == DQUOTE { write next; i++; continue } }
                 [fx_d48: if r == '`' { write '`' }]
                 write r }                                                                    *)
Fixpoint dq_dq_loop (fx : fixes) (fuel : nat) (s : list ascii) (i : Z) (r : ascii)
  (buf : list ascii) : res (Z * list ascii) :=
  match fuel with
  | O => OutOfModel
  | S fuel =>
    if (i <? blen s) && negb (beq r c_dq) then
      let! r := byte_at s i in
      if beq r c_dq then dq_dq_loop fx fuel s (i + 1) r (buf ++ [c_bt])%list
      else
        let tail (_ : unit) :=
          let buf := if fx_d48 fx && beq r c_bt then (buf ++ [c_bt])%list else buf in
          dq_dq_loop fx fuel s (i + 1) r (buf ++ wr fx r)%list in
        if beq r c_bs then
          if i + 1 =? blen s then Err
          else let! next := byte_at s (i + 1) in
               if beq next c_dq
               then dq_dq_loop fx fuel s (i + 1 + 1) r (buf ++ wr fx next)%list
               else tail tt
        else tail tt
    else Ok (i, buf)
  end.

(* outer loop:  for i := 0; i < len(str); i++ { switch rune(str[i]) {...} }
   each quote case ends with [i--] (and the loop's own [i++] follows).                        *)
Fixpoint dq_outer (fx : fixes) (fuel : nat) (s : list ascii) (i : Z) (buf : list ascii)
  : res (list ascii) :=
  match fuel with
  | O => OutOfModel
  | S fuel =>
    if i <? blen s then
      let! r := byte_at s i in
      let inner := S (List.length s) in
      if beq r c_sq then
        let! (i', buf') := dq_sq_loop fx inner s (i + 1) c_0 (buf ++ wr fx r)%list in
        dq_outer fx fuel s (i' - 1 + 1) buf'
      else if beq r c_bt then
        let! (i', buf') := dq_bt_loop fx inner s (i + 1) c_0 (buf ++ wr fx r)%list in
        dq_outer fx fuel s (i' - 1 + 1) buf'
      else if beq r c_dq then
        let! (i', buf') := dq_dq_loop fx inner s (i + 1) c_0 (buf ++ [c_bt])%list in
        dq_outer fx fuel s (i' - 1 + 1) buf'
      else dq_outer fx fuel s (i + 1) (buf ++ wr fx r)%list
    else Ok buf
  end.

Definition dq_to_bt_l (fx : fixes) (s : list ascii) : res (list ascii) :=
  dq_outer fx (S (List.length s)) s 0 [].

Definition DoubleQuotesToBackTick_f (fx : fixes) (str : bytes) : res bytes :=
  let! o := dq_to_bt_l fx (list_of_bs str) in Ok (bs_of_asciis o).

(* ================================================================== *)
(* FindArrayIndex                                                      *)
(* ================================================================== *)

(* case q: if hold == nil { hold = &q; continue }; if *hold == q { hold = nil }
   result: new hold, and whether [continue] was taken                                         *)
Definition fai_quote (hold : option ascii) (q : ascii) : option ascii * bool :=
  match hold with
  | None => (Some q, true)
  | Some h => if beq h q then (None, false) else (hold, false)
  end.

(* case '\\': i++      [fx_d47: unless hold is a backtick]                                      *)
Definition fai_bs_skips (fx : fixes) (hold : option ascii) : bool :=
  match hold with
  | Some h => negb (fx_d47 fx && beq h c_bt)
  | None => true
  end.

Fixpoint fai_loop (fx : fixes) (fuel : nat) (s : list ascii) (i : Z) (hold : option ascii)
  (output : list (Z * Z)) (stack : list Z) (pos : Z) : res (list (Z * Z)) :=
  match fuel with
  | O => OutOfModel
  | S fuel =>
    if i <? blen s then
      let! r := byte_at s i in
      (* first switch *)
      let '(i, hold, cont) :=
        if beq r c_bs then ((if fai_bs_skips fx hold then i + 1 else i), hold, false)
        else if beq r c_dq then let '(h, c) := fai_quote hold c_dq in (i, h, c)
        else if beq r c_sq then let '(h, c) := fai_quote hold c_sq in (i, h, c)
        else if beq r c_bt then let '(h, c) := fai_quote hold c_bt in (i, h, c)
        else (i, hold, false) in
      if cont then fai_loop fx fuel s (i + 1) hold output stack pos
      else
        match hold with
        | Some _ => fai_loop fx fuel s (i + 1) hold output stack pos     (* if hold != nil continue *)
        | None =>
          (* second switch *)
          if beq r c_lb then
            fai_loop fx fuel s (i + 1) hold (output ++ [(i, 0)])%list (stack ++ [pos])%list (pos + 1)
          else if beq r c_rb then
            match stack with
            | [] => Err                                               (* len(stack) == 0 *)
            | index :: stack' =>                                      (* stack[0]; stack[1:] *)
              let! output' := set_snd output index i in
              fai_loop fx fuel s (i + 1) hold output' stack' pos
            end
          else fai_loop fx fuel s (i + 1) hold output stack pos
        end
    else
      (* [fx_d25: if len(stack) != 0 { return nil, err }] *)
      if fx_d25 fx then match stack with [] => Ok output | _ => Err end
      else Ok output
  end.

Definition find_array_index_l (fx : fixes) (s : list ascii) : res (list (Z * Z)) :=
  fai_loop fx (S (List.length s)) s 0 None [] [] 0.

Definition FindArrayIndex_f (fx : fixes) (str : bytes) : res (list (Z * Z)) :=
  find_array_index_l fx (list_of_bs str).

(* ================================================================== *)
(* FixIdiomaticArray                                                   *)
(* ================================================================== *)

Definition tok_array : list ascii := list_of_bs "ARRAY".
Definition tok_open  : list ascii := list_of_bs "(".
Definition tok_close : list ascii := list_of_bs ")".

(* for _, index := range indexes {
     str := input[:index[0]+offset] + _TOKEN + LPAREN + input[index[0]+offset+1 : index[1]+offset]
            + RPAREN + input[index[1]+offset+1:]
     input = str; offset += len(_TOKEN) }                                                      *)
Fixpoint fix_loop (input : list ascii) (offset : Z) (indexes : list (Z * Z)) : res (list ascii) :=
  match indexes with
  | [] => Ok input
  | (i0, i1) :: rest =>
    let! s1 := slice input 0 (i0 + offset) in
    let! s2 := slice input (i0 + offset + 1) (i1 + offset) in
    let! s3 := slice input (i1 + offset + 1) (blen input) in
    fix_loop (s1 ++ tok_array ++ tok_open ++ s2 ++ tok_close ++ s3)%list (offset + blen tok_array) rest
  end.

Definition fix_arrays_l (fx : fixes) (s : list ascii) : res (list ascii) :=
  match find_array_index_l fx s with
  | Ok indexes => fix_loop s 0 indexes
  | Err => if fx_d25 fx then Err else Panic          (* pinned: panic(err) *)
  | Panic => Panic
  | OutOfModel => OutOfModel
  end.

Definition FixIdiomaticArray_f (fx : fixes) (str : bytes) : res bytes :=
  let! o := fix_arrays_l fx (list_of_bs str) in Ok (bs_of_asciis o).

(* ================================================================== *)
(* the repaired tree                                                   *)
(* ================================================================== *)
Definition DoubleQuotesToBackTick : bytes -> res bytes := DoubleQuotesToBackTick_f repaired.
Definition FindArrayIndex : bytes -> res (list (Z * Z)) := FindArrayIndex_f repaired.
Definition FixIdiomaticArray : bytes -> res bytes := FixIdiomaticArray_f repaired.

(* ================================================================== *)
(* plsql.go New: option application up to the call of Parse            *)
(* ================================================================== *)
Record options := { o_wrapped : bool; o_pg : bool; o_idiom : bool }.

(* what New hands to Parse/Build: the data the query runs over and the text that is parsed.
   New has no recover: a Panic of a rewriter is a Panic of New.                                *)
Definition new_prepare_f (fx : fixes) (o : options) (data : value) (query : bytes)
  : res (value * bytes) :=
  let data := if o_wrapped o then VObj [("root"%string, data)] else data in
  let! query := if o_pg o then DoubleQuotesToBackTick_f fx query else Ok query in
  let! query := if o_idiom o then FixIdiomaticArray_f fx query else Ok query in
  Ok (data, query).

Definition new_prepare := new_prepare_f repaired.

(* Parse + Build + Exec is an oracle here (modelled in Model/Exec.v for other properties): any
   function of the data and of the text handed to the parser.                                 *)
Definition api_run {R : Type} (engine : value -> bytes -> res R) (o : options) (data : value)
  (query : bytes) : res R :=
  let! (d, q) := new_prepare o data query in engine d q.
