(* Model/SelToken.v — executable model of the parsing half of /repo/selector.go (repaired tree):
     _FULLPATTERN / _ARRAYPATTERN / _PIPEPATTERN   -> m_full / m_array / m_pipe (+ find_all)
     strconv.Atoi, ReadIndex, ReadRange, ParseArray, ParsePipe, ParseSelector,
     strings.Split(selector, "::") of ExecReader    -> parse_all
   Definitions only (no proofs).

   Regular expressions.  Go's regexp is leftmost-first: FindAllString looks for the leftmost
   position at which the pattern matches, prefers the earlier alternative of an alternation,
   quantifiers are greedy, the next search starts after the match, bytes at which nothing matches
   are skipped.  All three patterns are alternations whose branches are made of greedy runs over
   byte classes, so "does branch k match here and how long" is a deterministic function of the
   suffix (backtracking a run can never help: what must follow a run is outside its class, see
   the remark at each branch).  A matcher [m : string -> option string] returns the token matched
   AT the head of the string; [find_all] is FindAllString(s, -1).  The patterns only ever start at
   an ASCII byte and every negated class is closed under all non-ASCII bytes, so working on bytes
   instead of runes (Go decodes UTF-8, invalid bytes as width-1 U+FFFD) gives the same tokens.

   Every Go operation that can panic is a primitive returning [Panic]: [byte0] (s[0]),
   [idx_list] (x[i]), [slice_list] (x[a:b]), [assert_arr] (x.([]any)).
   Go's int is 64 bit (amd64/arm64): [atoi] fails outside [-2^63, 2^63). *)
From GenqlV Require Import Base.Prelude.
Local Open Scope string_scope.

(* ---------- bytes ---------- *)

Definition ceq (a b : ascii) : bool := Ascii.eqb a b.

Definition is_digit (c : ascii) : bool :=
  let n := nat_of_ascii c in Nat.leb 48 n && Nat.leb n 57.

(* \w = [0-9A-Za-z_] *)
Definition is_word (c : ascii) : bool :=
  let n := nat_of_ascii c in
  (Nat.leb 48 n && Nat.leb n 57) || (Nat.leb 65 n && Nat.leb n 90) ||
  (Nat.leb 97 n && Nat.leb n 122) || Nat.eqb n 95.

Definition c_sq : ascii := "'"%char.
Definition c_lbra : ascii := "["%char.
Definition c_rbra : ascii := "]"%char.
Definition c_lcur : ascii := "{"%char.
Definition c_rcur : ascii := "}"%char.
Definition c_lpar : ascii := "("%char.
Definition c_rpar : ascii := ")"%char.
Definition c_col : ascii := ":"%char.
Definition c_pipe : ascii := "|"%char.
Definition c_sp : ascii := " "%char.
Definition c_bang : ascii := "!"%char.

(* ---------- checked primitives ---------- *)

Definition byte0 (s : string) : res ascii :=
  match s with EmptyString => Panic | String c _ => Ok c end.

Definition idx_list {A} (l : list A) (i : Z) : res A :=
  if ((i <? 0) || (Z.of_nat (List.length l) <=? i))%Z then Panic else
  match nth_error l (Z.to_nat i) with Some x => Ok x | None => Panic end.

(* l[b:e]; the model has no spare capacity: cap = len *)
Definition slice_list {A} (l : list A) (b e : Z) : res (list A) :=
  if ((b <? 0) || (e <? b) || (Z.of_nat (List.length l) <? e))%Z then Panic
  else Ok (firstn (Z.to_nat (e - b)) (skipn (Z.to_nat b) l)).

(* ---------- runs ---------- *)

(* longest prefix whose bytes satisfy p, and the rest *)
Fixpoint span (p : ascii -> bool) (s : string) : string * string :=
  match s with
  | EmptyString => (EmptyString, EmptyString)
  | String c r => if p c then let '(a, b) := span p r in (String c a, b) else (EmptyString, s)
  end.

Definition nonempty (s : string) : bool := match s with EmptyString => false | _ => true end.

Fixpoint drop (n : nat) (s : string) : string :=
  match n, s with
  | S k, String _ r => drop k r
  | _, _ => s
  end.

(* ---------- FindAllString ---------- *)

(* [skip] bytes of the current match are still to be passed over *)
Fixpoint find_all (m : string -> option string) (s : string) (skip : nat) : list string :=
  match s with
  | EmptyString => []
  | String c r =>
      match skip with
      | S k => find_all m r k
      | O =>
          match m s with
          | Some (String c' t) => String c' t :: find_all m r (String.length t)
          | _ => find_all m r O                (* no (non-empty) match here: skip the byte *)
          end
      end
  end.

(* try the branches of an alternation in order *)
Fixpoint first_of (alts : list (string -> option string)) (s : string) : option string :=
  match alts with
  | [] => None
  | a :: r => match a s with Some t => Some t | None => first_of r s end
  end.

(* '[^']*'+   — the run [^']* stops at a quote or at the end; giving bytes back cannot produce
   the quote that must follow, so the branch fails iff the run is not followed by a quote *)
Definition alt_quoted (s : string) : option string :=
  match s with
  | String c r =>
      if ceq c c_sq then
        let '(body, r1) := span (fun x => negb (ceq x c_sq)) r in
        let '(qs, _) := span (fun x => ceq x c_sq) r1 in
        if nonempty qs then Some (String c (body ++ qs)) else None
      else None
  | EmptyString => None
  end.

(* \<\-  (an escaped punctuation character is the literal character) *)
Definition alt_back (s : string) : option string :=
  match s with
  | String c (String d _) => if ceq c "<"%char && ceq d "-"%char then Some "<-" else None
  | _ => None
  end.

Definition alt_star (s : string) : option string :=
  match s with String c _ => if ceq c "*"%char then Some "*" else None | _ => None end.

(* \w+ *)
Definition alt_word (s : string) : option string :=
  let '(w, _) := span is_word s in if nonempty w then Some w else None.

(* open [^open close]* close *)
Definition alt_group (o cl : ascii) (s : string) : option string :=
  match s with
  | String c r =>
      if ceq c o then
        let '(body, r1) := span (fun x => negb (ceq x o || ceq x cl)) r in
        match r1 with
        | String c2 _ => if ceq c2 cl then Some (String c (body ++ String c2 EmptyString)) else None
        | EmptyString => None
        end
      else None
  | EmptyString => None
  end.

(* _FULLPATTERN = ('[^']*'+|\<\-|\*|[\w]+|\[[^\[\]]*\]|\{[^\{\}]*\}) *)
Definition m_full : string -> option string :=
  first_of [alt_quoted; alt_back; alt_star; alt_word; alt_group c_lbra c_rbra; alt_group c_lcur c_rcur].

(* \([^\)]*\)+ *)
Definition alt_paren (s : string) : option string :=
  match s with
  | String c r =>
      if ceq c c_lpar then
        let '(body, r1) := span (fun x => negb (ceq x c_rpar)) r in
        let '(ps, _) := span (fun x => ceq x c_rpar) r1 in
        if nonempty ps then Some (String c (body ++ ps)) else None
      else None
  | EmptyString => None
  end.

(* _ARRAYPATTERN = \([^\)]*\)+|\w+ *)
Definition m_array : string -> option string := first_of [alt_paren; alt_word].

(* (!?\|\w+) after the first group; returns the text matched.  `!?` is greedy but a `!` that is
   not followed by `|` cannot be re-read as `|`, so the optional is decided by the next byte *)
Definition pipe_suffix (s : string) : option string :=
  let '(bang, s1) := match s with
                     | String c r => if ceq c c_bang then (String c EmptyString, r) else (EmptyString, s)
                     | EmptyString => (EmptyString, s)
                     end in
  match s1 with
  | String c r =>
      if ceq c c_pipe then
        let '(w, _) := span is_word r in
        if nonempty w then Some (bang ++ String c w) else None
      else None
  | EmptyString => None
  end.

(* ('[^']*'+|\w+)(!?\|\w+) — group 1 tries the quoted form first, then the word; a shorter
   quoted/word run is always followed by a byte of the run's own class, never by `!` or `|`,
   so only the longest run can be continued *)
Definition alt_typed (s : string) : option string :=
  let try (g : string) : option string :=
    match pipe_suffix (drop (String.length g) s) with
    | Some sf => Some (g ++ sf)
    | None => None
    end in
  match alt_quoted s with
  | Some g => match try g with
              | Some t => Some t
              | None => match alt_word s with Some w => try w | None => None end
              end
  | None => match alt_word s with Some w => try w | None => None end
  end.

(* _PIPEPATTERN = ('[^']*'+|\w+)(!?\|\w+)|\w+ *)
Definition m_pipe : string -> option string := first_of [alt_typed; alt_word].

(* ---------- package strings ---------- *)

(* strings.TrimLeft(s, string(c)) / TrimRight / Trim with a one-byte cutset *)
Fixpoint trim_left (c : ascii) (s : string) : string :=
  match s with
  | String a r => if ceq a c then trim_left c r else s
  | EmptyString => EmptyString
  end.

Fixpoint trim_right (c : ascii) (s : string) : string :=
  match s with
  | EmptyString => EmptyString
  | String a r =>
      match trim_right c r with
      | EmptyString => if ceq a c then EmptyString else String a EmptyString
      | r' => String a r'
      end
  end.

Definition trim_char (c : ascii) (s : string) : string := trim_right c (trim_left c s).

(* strings.Split(s, string(c)): always at least one part *)
Fixpoint split_char (c : ascii) (s : string) : list string :=
  match s with
  | EmptyString => [EmptyString]
  | String a r =>
      if ceq a c then EmptyString :: split_char c r
      else match split_char c r with
           | p :: ps => String a p :: ps
           | [] => [String a EmptyString]      (* unreachable *)
           end
  end.

(* strings.Split(s, "::"): leftmost, non-overlapping *)
Fixpoint split_dc_aux (s : string) (skip : bool) : list string :=
  match s with
  | EmptyString => [EmptyString]
  | String a r =>
      if skip then split_dc_aux r false        (* second byte of a separator *)
      else
        if ceq a c_col && (match r with String b _ => ceq b c_col | EmptyString => false end)
        then EmptyString :: split_dc_aux r true
        else match split_dc_aux r false with
             | p :: ps => String a p :: ps
             | [] => [String a EmptyString]
             end
  end.
Definition split_dc (s : string) : list string := split_dc_aux s false.

(* strings.SplitN(s, "=>", 2): None when there is no "=>" *)
Fixpoint split_arrow (s : string) : option (string * string) :=
  match s with
  | EmptyString => None
  | String a r =>
      if ceq a "="%char && (match r with String b _ => ceq b ">"%char | EmptyString => false end)
      then Some (EmptyString, drop 1 r)
      else match split_arrow r with
           | Some (p, q) => Some (String a p, q)
           | None => None
           end
  end.

(* strings.ContainsAny(s, "[{'") *)
Fixpoint contains_open (s : string) : bool :=
  match s with
  | EmptyString => false
  | String a r => ceq a c_lbra || ceq a c_lcur || ceq a c_sq || contains_open r
  end.

(* strings.HasPrefix + TrimPrefix *)
Fixpoint strip_prefix (p s : string) : option string :=
  match p with
  | EmptyString => Some s
  | String a p' => match s with
                   | String b s' => if ceq a b then strip_prefix p' s' else None
                   | EmptyString => None
                   end
  end.

(* ---------- strconv.Atoi ---------- *)

Fixpoint digits_val (s : string) (acc : N) : option N :=
  match s with
  | EmptyString => Some acc
  | String c r => if is_digit c
                  then digits_val r (10 * acc + N.of_nat (nat_of_ascii c - 48))%N
                  else None
  end.

(* an optional leading sign *)
Definition split_sign (s : string) : bool * string :=
  match s with
  | String c r => if ceq c "+"%char then (false, r) else if ceq c "-"%char then (true, r) else (false, s)
  | EmptyString => (false, s)
  end.

Definition int_min : Z := (- 2 ^ 63)%Z.
Definition int_max : Z := (2 ^ 63 - 1)%Z.

(* optional sign, at least one decimal digit, nothing else; range error outside int *)
Definition atoi (s : string) : res Z :=
  let '(neg, body) := split_sign s in
  match body with
  | EmptyString => Err
  | _ => match digits_val body 0%N with
         | None => Err
         | Some n => let z := if neg then (- Z.of_N n)%Z else Z.of_N n in
                     if ((z <? int_min) || (int_max <? z))%Z then Err else Ok z
         end
  end.

(* ---------- selector tokens (the element types of ParseSelector's result) ---------- *)

(* IndexSelector: INDEX with index (-1 = each) | RANGE with [2]int (-1 = begin / end) *)
Inductive index_sel := IxIndex (i : Z) | IxRange (b e : Z).

(* PipeSelector{keySelector, typeSelector} *)
Record pipe_sel := mkPipe { pkey : string; ptype : string }.

Inductive token :=
| TFn (f : string)                (* TopLevelFunctionSelector *)
| TKey (k : string)               (* KeySelector *)
| TIndex (ds : list index_sel)    (* []*IndexSelector *)
| TKeep (ds : list index_sel)     (* KeepDimension *)
| TPipe (ps : list pipe_sel).     (* []*PipeSelector *)

Definition read_index (m : string) : res Z :=
  let! i := atoi m in
  if (i <? 0)%Z then Err else Ok i.

Definition read_bound (kw : string) (part : string) : res Z :=
  if String.eqb part kw then Ok (-1)%Z else read_index part.

Definition read_range (m : string) : res index_sel :=
  let str := trim_char c_sp m in
  let str := trim_left c_lpar str in
  let str := trim_right c_rpar str in
  let split := split_char c_col str in
  if negb (Nat.eqb (List.length split) 2) then Err else
  let! s0 := idx_list split 0 in
  let! b := read_bound "begin" s0 in
  let! s1 := idx_list split 1 in
  let! e := read_bound "end" s1 in
  Ok (IxRange b e).

Definition parse_dim (m : string) : res index_sel :=
  let! c := byte0 m in
  if ceq c c_lpar then read_range m
  else if String.eqb m "each" then Ok (IxIndex (-1))
  else let! n := read_index m in Ok (IxIndex n).

Definition parse_array (m : string) : res token :=
  let m := trim_left c_lbra m in
  let m := trim_right c_rbra m in
  let '(keep, m) := match strip_prefix "keep=>" m with
                    | Some r => (true, r)
                    | None => (false, m)
                    end in
  let matches := find_all m_array m 0 in
  let! slice := mapM parse_dim matches in
  Ok (if keep then TKeep slice else TIndex slice).

Definition parse_pipe_item (m : string) : res pipe_sel :=
  let split := split_char c_pipe m in
  let! k0 := idx_list split 0 in
  let key := trim_right c_sq (trim_left c_sq k0) in
  if Nat.eqb (List.length split) 1 then Ok (mkPipe key "")
  else if Nat.eqb (List.length split) 2 then
    let! t := idx_list split 1 in Ok (mkPipe key t)
  else Err.

Definition parse_pipe (m : string) : res (list pipe_sel) :=
  mapM parse_pipe_item (find_all m_pipe m 0).

Definition parse_token (m : string) : res token :=
  let! c := byte0 m in
  if ceq c c_lbra then parse_array (trim_char c_sp m)
  else if ceq c c_lcur then let! ps := parse_pipe m in Ok (TPipe ps)
  else Ok (TKey (trim_right c_sq (trim_left c_sq m))).

(* repaired (D20): the text before the first "=>" is a function name only if no bracket, brace
   or quote has been opened before it *)
Definition parse_selector (sel : string) : res (list token) :=
  let '(pre, sel) := match split_arrow sel with
                     | Some (f, rest) => if contains_open f then ([], sel) else ([TFn f], rest)
                     | None => ([], sel)
                     end in
  let! toks := mapM parse_token (find_all m_full sel 0) in
  Ok (pre ++ toks)%list.

(* the pinned ParseSelector: every "=>" splits *)
Definition pinned_parse_selector (sel : string) : res (list token) :=
  let '(pre, sel) := match split_arrow sel with
                     | Some (f, rest) => ([TFn f], rest)
                     | None => ([], sel)
                     end in
  let! toks := mapM parse_token (find_all m_full sel 0) in
  Ok (pre ++ toks)%list.

(* ExecReader's parse loop; the cache is the identity on semantics: cache[s] = parse_all s *)
Definition parse_all (s : string) : res (list (list token)) := mapM parse_selector (split_dc s).
