(* Model/Like.v — RegexComparison (plsql.go): LIKE as an anchored regular expression.
   Repaired code:  regExpr := ReplaceAll(QuoteMeta(ToLower(pattern)), "_", ".") ; "%" -> ".*" ;
                   "(?s)^" + regExpr + "$" matched against ToLower(%v left).
   Oracle (trusted): regexp.QuoteMeta(s) denotes the literal string s, "." with (?s) matches any one
   rune and ".*" any sequence of runes.  So the compiled expression is a list of items
   literal-rune | any-rune | any-sequence, which is what [like_items] builds; [items_match] is the
   backtracking matcher for that list.  Runes: UTF-8 sequences (valid input assumed; the generator
   only emits valid UTF-8).  ToLower is modelled on ASCII; other runes are left unchanged (the
   generator only uses caseless non-ASCII runes). *)
From GenqlV Require Import Base.Prelude.

Definition rune := string.   (* the bytes of one UTF-8 sequence *)

Definition lead_len (a : ascii) : nat :=
  let n := nat_of_ascii a in
  if Nat.ltb n 192 then 1 else if Nat.ltb n 224 then 2 else if Nat.ltb n 240 then 3 else 4.

Fixpoint take_str (n : nat) (s : string) : string * string :=
  match n, s with
  | S k, String a r => let (h, t) := take_str k r in (String a h, t)
  | _, _ => (EmptyString, s)
  end.

(* split into runes; fuel = length *)
Fixpoint runes_fuel (fuel : nat) (s : string) : list rune :=
  match fuel, s with
  | S f, String a r =>
      let (h, t) := take_str (lead_len a - 1) r in
      String a h :: runes_fuel f t
  | _, _ => []
  end.
Definition runes (s : string) : list rune := runes_fuel (String.length s) s.

Definition lower_ascii (a : ascii) : ascii :=
  let n := nat_of_ascii a in
  if Nat.leb 65 n && Nat.leb n 90 then ascii_of_nat (n + 32) else a.

Fixpoint to_lower (s : string) : string :=
  match s with EmptyString => EmptyString | String a r => String (lower_ascii a) (to_lower r) end.

Inductive ritem := RLit (r : rune) | RAny | RAnySeq.

Definition like_item (r : rune) : ritem :=
  if String.eqb r "_" then RAny else if String.eqb r "%" then RAnySeq else RLit r.

Definition like_items (pattern : string) : list ritem := map like_item (runes (to_lower pattern)).

(* anchored match of an item list against a rune list *)
Fixpoint items_match (p : list ritem) (s : list rune) : bool :=
  match p with
  | [] => match s with [] => true | _ => false end
  | RLit r :: p' => match s with c :: s' => String.eqb r c && items_match p' s' | [] => false end
  | RAny :: p' => match s with _ :: s' => items_match p' s' | [] => false end
  | RAnySeq :: p' =>
      (fix star (s : list rune) : bool :=
         items_match p' s || match s with [] => false | _ :: s' => star s' end) s
  end.

Definition regex_comparison (left pattern : string) : bool :=
  items_match (like_items pattern) (runes (to_lower left)).
