(* Model/ConcEvents.v — generic event / lockset layer for C13 (definitions only).

   A THREAD is a straight-line list of events (one control-flow path through one or several
   function calls): Lock m / Unlock m / RLock m / RUnlock m of a sync.(RW)Mutex, Read g / Write g of
   a shared location, Call f (a call to another function that itself touches tracked state),
   Return, Opaque (code the translator could not linearise).
   A SCHEDULE is a list of thread ids; [run progs sched] executes one event of the named thread
   per entry (a blocked thread does not move).  Threads are indexed by [nat]: "for all numbers of
   threads" is "for all families [progs : nat -> list ev]".

   Lock semantics follow sync.Mutex / sync.RWMutex: Lock waits until there is neither a writer nor a
   reader; RLock waits until there is no writer; Unlock releases the write lock WHOEVER holds it (Go
   does not track owners) and is a fatal error on an unlocked mutex (the machine then does not
   move); RUnlock likewise on a mutex without readers.  The identity of the holder is kept in the
   lock state so that "thread i is inside a critical section of m" is a property of the state.

   The same file holds the BOOLEAN CRITERIA that the regenerated translator table
   (vharness aux c13sites) must satisfy; Proofs/C13Lockset.v proves what they imply. *)
From GenqlV Require Import Base.Prelude.
Local Open Scope string_scope.

Definition tid := nat.
Definition mutex := string.
Definition loc := string.

Inductive ev :=
| ELock (m : mutex) | EUnlock (m : mutex) | ERLock (m : mutex) | ERUnlock (m : mutex)
| ERead (g : loc) | EWrite (g : loc)
| ECall (f : string)
| EReturn
| EOpaque.

Record lk := mkLk { wr : option tid; rds : list tid }.
Definition lk_free : lk := mkLk None [].

Record st := mkSt { rem : tid -> list ev; lks : mutex -> lk }.

Definition upd {B} (f : tid -> B) (i : tid) (v : B) : tid -> B :=
  fun j => if Nat.eqb j i then v else f j.
Definition updm {B} (f : mutex -> B) (m : mutex) (v : B) : mutex -> B :=
  fun n => if String.eqb n m then v else f n.

Fixpoint remove_one (i : tid) (l : list tid) : list tid :=
  match l with
  | [] => []
  | j :: r => if Nat.eqb j i then r else j :: remove_one i r
  end.

Definition mem (i : tid) (l : list tid) : bool := existsb (Nat.eqb i) l.

Definition step (s : st) (i : tid) : st :=
  match rem s i with
  | [] => s
  | e :: r =>
      let adv := mkSt (upd (rem s) i r) (lks s) in
      match e with
      | ELock m =>
          match wr (lks s m), rds (lks s m) with
          | None, [] => mkSt (upd (rem s) i r) (updm (lks s) m (mkLk (Some i) []))
          | _, _ => s                                            (* blocked *)
          end
      | ERLock m =>
          match wr (lks s m) with
          | None => mkSt (upd (rem s) i r) (updm (lks s) m (mkLk None (i :: rds (lks s m))))
          | Some _ => s                                          (* blocked *)
          end
      | EUnlock m =>
          match wr (lks s m) with
          | Some _ => mkSt (upd (rem s) i r) (updm (lks s) m (mkLk None (rds (lks s m))))
          | None => s                           (* fatal error: sync: unlock of unlocked mutex *)
          end
      | ERUnlock m =>
          match rds (lks s m) with
          | [] => s                             (* fatal error: sync: RUnlock of unlocked RWMutex *)
          | j :: rest =>
              mkSt (upd (rem s) i r)
                   (updm (lks s) m (mkLk (wr (lks s m))
                                         (if mem i (rds (lks s m)) then remove_one i (rds (lks s m)) else rest)))
          end
      | _ => adv
      end
  end.

Definition init (progs : tid -> list ev) : st := mkSt progs (fun _ => lk_free).
Definition run (progs : tid -> list ev) (sched : list tid) : st := fold_left step sched (init progs).

(* ---- what "inside a critical section" and "data race" mean ------------------------------- *)

Definition holds_w (m : mutex) (s : st) (i : tid) : bool :=
  match wr (lks s m) with Some j => Nat.eqb j i | None => false end.
Definition holds_r (m : mutex) (s : st) (i : tid) : bool := mem i (rds (lks s m)).

Inductive access := Rd | Wr.

(* the access to g that thread i is about to perform *)
Definition pending (g : loc) (s : st) (i : tid) : option access :=
  match rem s i with
  | ERead h :: _ => if String.eqb h g then Some Rd else None
  | EWrite h :: _ => if String.eqb h g then Some Wr else None
  | _ => None
  end.

Definition conflict (a b : access) : bool :=
  match a, b with Rd, Rd => false | _, _ => true end.

(* two different threads are both about to access g and at least one of them writes: neither access
   is ordered before the other by any lock *)
Definition race (g : loc) (s : st) : Prop :=
  exists i j a b, i <> j /\ pending g s i = Some a /\ pending g s j = Some b /\ conflict a b = true.

(* a pending Unlock / RUnlock that would be a fatal error *)
Definition fatal_unlock (m : mutex) (s : st) (i : tid) : Prop :=
  match rem s i with
  | EUnlock n :: _ => n = m /\ wr (lks s m) = None
  | ERUnlock n :: _ => n = m /\ rds (lks s m) = []
  | _ => False
  end.

(* ---- the static discipline (lockset criterion) --------------------------------------------- *)

(* [disciplined_from g m hw hr p]: starting with the write lock of m held (hw) / the read lock held
   (hr), along p: every Write g happens with the write lock held, every Read g with the write or the
   read lock held, m is never re-acquired while held, never released while not held, no call into
   lock-taking code is made while it is held, nothing is opaque, and at the end m is released. *)
Fixpoint disciplined_from (g : loc) (m : mutex) (hw hr : bool) (p : list ev) : bool :=
  match p with
  | [] => negb hw && negb hr
  | e :: r =>
      match e with
      | ELock n => if String.eqb n m then negb hw && negb hr && disciplined_from g m true false r
                   else disciplined_from g m hw hr r
      | EUnlock n => if String.eqb n m then hw && disciplined_from g m false hr r
                     else disciplined_from g m hw hr r
      | ERLock n => if String.eqb n m then negb hw && negb hr && disciplined_from g m false true r
                    else disciplined_from g m hw hr r
      | ERUnlock n => if String.eqb n m then hr && disciplined_from g m hw false r
                      else disciplined_from g m hw hr r
      | ERead h => if String.eqb h g then (hw || hr) && disciplined_from g m hw hr r
                   else disciplined_from g m hw hr r
      | EWrite h => if String.eqb h g then hw && disciplined_from g m hw hr r
                    else disciplined_from g m hw hr r
      | ECall _ => negb hw && negb hr && disciplined_from g m hw hr r
      | EReturn => disciplined_from g m hw hr r
      | EOpaque => false
      end
  end.

Definition disciplined (g : loc) (m : mutex) (p : list ev) : bool := disciplined_from g m false false p.

(* no write to g at all (registries after package initialisation) *)
Definition writes_loc (g : loc) (e : ev) : bool :=
  match e with EWrite h => String.eqb h g | EOpaque => true | _ => false end.
Definition read_only (g : loc) (p : list ev) : bool := negb (existsb (writes_loc g) p).

(* ---- the translator table and its criterion -------------------------------------------------- *)

(* one row per Go function (or function literal) that touches tracked state: its name and the
   linearised event sequence of each control-flow path *)
Definition site_table := list (string * list (list ev)).

Definition str_in (x : string) (l : list string) : bool := existsb (String.eqb x) l.

Definition has_prefix (p s : string) : bool := String.prefix p s.

(* functions that run before any query exists: package initialisation and the registration API
   (Register* / Import are documented as start-up calls) *)
Definition init_phase (f : string) : bool :=
  String.eqb f "init" || has_prefix "init." f || has_prefix "Register" f || String.eqb f "Import".

(* option constructors: their closures run inside New, before the *Query is handed to anyone *)
Definition ctor_phase (f : string) : bool := has_prefix "With" f.

Definition guarded_pairs : list (loc * mutex) := [("cache", "mut"); ("vars", "varsMut")].
Definition registries : list loc := ["functions"; "immediateFunctions"; "topLevelFunctions"].

Definition path_ok (f : string) (p : list ev) : bool :=
  negb (existsb (fun e => match e with EOpaque => true | _ => false end) p) &&
  (init_phase f ||
   (forallb (fun gm => ctor_phase f || disciplined (fst gm) (snd gm) p) guarded_pairs &&
    forallb (fun g => read_only g p) registries)).

Definition row_ok (r : string * list (list ev)) : bool := forallb (path_ok (fst r)) (snd r).
Definition table_ok (t : site_table) : bool := forallb row_ok t.

Fixpoint lookup_row (f : string) (t : site_table) : option (list (list ev)) :=
  match t with
  | [] => None
  | (n, ps) :: r => if String.eqb n f then Some ps else lookup_row f r
  end.

Definition ev_eqb (a b : ev) : bool :=
  match a, b with
  | ELock x, ELock y | EUnlock x, EUnlock y | ERLock x, ERLock y | ERUnlock x, ERUnlock y
  | ERead x, ERead y | EWrite x, EWrite y | ECall x, ECall y => String.eqb x y
  | EReturn, EReturn | EOpaque, EOpaque => true
  | _, _ => false
  end.

Fixpoint path_eqb (p q : list ev) : bool :=
  match p, q with
  | [], [] => true
  | a :: p', b :: q' => ev_eqb a b && path_eqb p' q'
  | _, _ => false
  end.

Definition path_in (p : list ev) (l : list (list ev)) : bool := existsb (path_eqb p) l.
Definition same_paths (a b : list (list ev)) : bool :=
  forallb (fun p => path_in p b) a && forallb (fun p => path_in p a) b.
