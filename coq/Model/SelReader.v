(* Model/SelReader.v — executable model of the evaluating half of /repo/selector.go (repaired
   tree): SelectDimension, SelectMany, Unwind, SelectObject, Reader, ReaderExecutor, ExecReader,
   Mix / MixArray / MixObject, Distinct.  Definitions only (no proofs).

   Data are the JSON-like [value]s of Base/Value (objects = association lists sorted by key).
   NOT in this fragment: data of Go type func() (any, error) (the three "thunk" cases of Reader
   call the thunk and re-dispatch on its result; they need a thunk constructor that [value] does
   not have), custom functions added with RegisterTopLevelFunction (only "mix" and "distinct"
   are registered by the package itself), and numeric element types other than float64.

   Oracles (standard library), each restricted to a class on which the text is known exactly,
   [OutOfModel] elsewhere: fmt %v (Base/Value.fmt_value), fmt %d of int64(x) (|x| < 2^63),
   fmt %f (exact, correctly rounded), strconv.ParseFloat (plain decimals with <= 15 digits
   exactly; certain syntax errors; everything else OutOfModel), sha256/base64 (assumed
   injective on the texts that occur: Distinct keeps the first item of each %v text).
   MixObject ranges over a Go map: when two flattened keys collide the result depends on the
   iteration order, which the model reports as OutOfModel. *)
From Coq Require Import Floats.
From GenqlV Require Import Base.Prelude Base.Fmt Base.Value Model.SelToken Model.SelFmt.
Local Open Scope string_scope.

(* ---------- SelectDimension / SelectMany / Unwind ---------- *)

Definition is_arr (v : value) : bool := match v with VArr _ => true | _ => false end.

(* x.([]any) without the comma-ok form *)
Definition assert_arr (v : value) : res (list value) :=
  match v with VArr l => Ok l | _ => Panic end.

Definition zlen {A} (l : list A) : Z := Z.of_nat (List.length l).

(* repaired (D19): every assertion is comma-ok, every index and bound is checked first *)
Fixpoint select_dimension (data : value) (dims : list index_sel) {struct dims} : res value :=
  match dims with
  | [] => Ok data
  | IxRange b e :: rest =>
      match data with
      | VArr array =>
          let b := if (b =? -1)%Z then 0%Z else b in
          let e := if (e =? -1)%Z then zlen array else e in
          if ((b <? 0) || (e <? b) || (zlen array <? e))%Z then Err else
          let! sl := slice_list array b e in
          select_dimension (VArr sl) rest
      | _ => Err
      end
  | IxIndex i :: rest =>
      match data with
      | VArr array =>
          if (i =? -1)%Z then
            let! slice := mapM (fun item => select_dimension item rest) array in
            Ok (VArr slice)
          else if ((i <? 0) || (zlen array <=? i))%Z then Err
          else let! x := idx_list array i in select_dimension x rest
      | _ => Err
      end
  end.

(* the pinned SelectDimension: unchecked assertions, index and slice expressions *)
Fixpoint pinned_select_dimension (data : value) (dims : list index_sel) {struct dims} : res value :=
  match dims with
  | [] => Ok data
  | IxRange b e :: rest =>
      let b := if (b =? -1)%Z then 0%Z else b in
      let! e := (if (e =? -1)%Z then let! a := assert_arr data in Ok (zlen a) else Ok e) in
      let! array := assert_arr data in
      let! sl := slice_list array b e in
      pinned_select_dimension (VArr sl) rest
  | IxIndex i :: rest =>
      if (i =? -1)%Z then
        let! array := assert_arr data in
        let! slice := mapM (fun item => pinned_select_dimension item rest) array in
        Ok (VArr slice)
      else
        let! array := assert_arr data in
        let! x := idx_list array i in
        pinned_select_dimension x rest
  end.

(* contribution of one item to Unwind's loop, [depth] already decremented *)
Fixpoint unwind_item (depth : Z) (v : value) {struct v} : list value :=
  match v with
  | VArr l => if (depth =? 0)%Z then l else flat_map (unwind_item (depth - 1)) l
  | _ => [v]
  end.

(* Unwind(data, depth); a negative depth never reaches 0 (it would need 2^63 nested arrays) *)
Definition unwind (data : list value) (depth : Z) : list value :=
  if (depth =? 0)%Z then data else flat_map (unwind_item (depth - 1)) data.

Definition select_many_with (sd : value -> list index_sel -> res value)
                            (data : list value) (dims : list index_sel) : res value :=
  let! rs := sd (VArr data) dims in
  if negb (is_arr rs) then Ok rs else
  let! l := assert_arr rs in
  Ok (VArr (unwind l (zlen dims - 1))).

Definition select_many := select_many_with select_dimension.

(* SelectObject; a missing key is nil *)
Definition select_object (kvs : list (string * value)) (k : string) : value :=
  match lookup k kvs with Some v => v | None => VNull end.

(* ---------- pipes ---------- *)

(* PipeSelector.GetType *)
Inductive key_type := KNone | KString | KNumber | KUnknown.
Definition get_type (p : pipe_sel) : key_type :=
  if String.eqb (ptype p) "" then KNone
  else if String.eqb (ptype p) "string" then KString
  else if String.eqb (ptype p) "number" then KNumber
  else KUnknown.

Definition pipe_one (data : list (string * value)) (p : pipe_sel) (copy : list (string * value))
  : res (list (string * value)) :=
  let v := select_object data (pkey p) in       (* data[key]: nil when absent *)
  match get_type p with
  | KNone => Ok (obj_set (pkey p) v copy)
  | KString => let! s := value_to_string v in Ok (obj_set (pkey p) (VStr s) copy)
  | KNumber => match v with
               | VStr s => let! x := parse_float s in Ok (obj_set (pkey p) (VNum x) copy)
               | _ => Err
               end
  | KUnknown => Err
  end.

Fixpoint pipe_object (data : list (string * value)) (ps : list pipe_sel) (copy : list (string * value))
  : res (list (string * value)) :=
  match ps with
  | [] => Ok copy
  | p :: r => let! copy' := pipe_one data p copy in pipe_object data r copy'
  end.

(* ---------- Reader ---------- *)

(* the data switch shared by the key and the pipe case: nil stays nil (the check at the top of
   Reader), a map is handled by [on_map], a slice is rebuilt element by element with the SAME
   selectors, anything else is "selectors are not valid on %T type" *)
Fixpoint reader_switch (on_map : list (string * value) -> res value) (d : value) : res value :=
  match d with
  | VNull => Ok VNull
  | VObj kvs => on_map kvs
  | VArr l =>
      let! l' := (fix goL (l : list value) : res (list value) :=
                    match l with
                    | [] => Ok []
                    | x :: r => let! y := reader_switch on_map x in let! ys := goL r in Ok (y :: ys)
                    end) l in
      Ok (VArr l')
  | _ => Err
  end.

(* [sd] is SelectDimension (repaired or pinned) *)
Fixpoint reader_with (sd : value -> list index_sel -> res value)
                     (sels : list token) (data : value) {struct sels} : res value :=
  match sels with
  | [] => Ok data
  | sel :: rest =>
      match sel with
      | TKey k =>
          reader_switch (fun kvs => reader_with sd rest (select_object kvs k)) data
      | TIndex ds =>
          match data with
          | VNull => Ok VNull
          | VArr l => let! rs := select_many_with sd l ds in reader_with sd rest rs
          | _ => Err
          end
      | TKeep ds =>
          match data with
          | VNull => Ok VNull
          | VArr l => let! rs := sd (VArr l) ds in reader_with sd rest rs
          | _ => Err
          end
      | TPipe ps =>
          reader_switch (fun kvs => let! copy := pipe_object kvs ps [] in
                                    reader_with sd rest (VObj copy)) data
      | TFn _ => match data with VNull => Ok VNull | _ => Err end   (* default: UNSUPPORTED_CASE *)
      end
  end.

Definition reader := reader_with select_dimension.
Definition pinned_reader := reader_with pinned_select_dimension.

(* ---------- top-level functions ---------- *)

Fixpoint mix_array_item (v : value) : list value :=
  match v with
  | VArr l => flat_map mix_array_item l
  | _ => [v]
  end.
Definition mix_array (l : list value) : list value := flat_map mix_array_item l.

(* mapper[key] = v; a key written twice means the Go result depends on map iteration order *)
Definition set_fresh (k : string) (v : value) (acc : list (string * value)) : res (list (string * value)) :=
  match lookup k acc with
  | Some _ => OutOfModel
  | None => Ok (obj_set k v acc)
  end.

Fixpoint set_all_fresh (pre : string) (kvs acc : list (string * value)) : res (list (string * value)) :=
  match kvs with
  | [] => Ok acc
  | (ik, iv) :: r => let! acc' := set_fresh (pre ++ "_" ++ ik) iv acc in set_all_fresh pre r acc'
  end.

Fixpoint mix_object (v : value) : res (list (string * value)) :=
  match v with
  | VObj kvs =>
      (fix go (kvs acc : list (string * value)) : res (list (string * value)) :=
         match kvs with
         | [] => Ok acc
         | (k, item) :: r =>
             match item with
             | VObj _ =>
                 let! rs := mix_object item in
                 let! acc' := set_all_fresh k rs acc in
                 go r acc'
             | _ => let! acc' := set_fresh k item acc in go r acc'
             end
         end) kvs []
  | _ => Err
  end.

Definition mix (data : value) : res value :=
  match data with
  | VArr l => Ok (VArr (mix_array l))
  | VObj _ => let! m := mix_object data in Ok (VObj m)
  | _ => Err
  end.

Fixpoint distinct_go (l : list value) (seen : list string) : res (list value) :=
  match l with
  | [] => Ok []
  | x :: r =>
      match fmt_value x with
      | None => OutOfModel
      | Some t =>
          if existsb (String.eqb t) seen then distinct_go r seen
          else let! r' := distinct_go r (t :: seen) in Ok (x :: r')
      end
  end.

Definition distinct (data : value) : res value :=
  match data with
  | VArr l => let! l' := distinct_go l [] in Ok (VArr l')
  | _ => Err
  end.

(* topLevelFunctions[name]: the package registers exactly "mix" and "distinct" *)
Definition top_level (name : string) : option (value -> res value) :=
  if String.eqb name "mix" then Some mix
  else if String.eqb name "distinct" then Some distinct
  else None.

Definition reader_executor_with (rd : list token -> value -> res value)
                                (data : value) (sels : list token) : res value :=
  match sels with
  | [] => Ok data
  | TFn name :: rest =>
      let! rs := rd rest data in
      match top_level name with
      | Some f => f rs
      | None => Err
      end
  | _ => rd sels data
  end.

Definition reader_executor := reader_executor_with reader.

Fixpoint exec_all_with (rd : list token -> value -> res value)
                       (all : list (list token)) (result : value) : res value :=
  match all with
  | [] => Ok result
  | item :: r => let! rs := reader_executor_with rd result item in exec_all_with rd r rs
  end.

Definition exec_all := exec_all_with reader.

(* ExecReader (the cache is a memo of parse_all; its locking belongs to C13) *)
Definition exec_reader (data : value) (selector : string) : res value :=
  let! all := parse_all selector in
  exec_all all data.

(* ExecReader of the pinned tree *)
Definition pinned_exec_reader (data : value) (selector : string) : res value :=
  let! all := mapM pinned_parse_selector (split_dc selector) in
  exec_all_with pinned_reader all data.
