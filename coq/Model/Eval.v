(* Model/Eval.v — the expression evaluator of plsql.go (Expr and the functions it dispatches to),
   heplers.go (ValueOf, AsType) and the key-path part of selector.go's Reader, for the REPAIRED code.
   The result of Expr is a Go `any` that may be an engine-internal wrapper; [raw] keeps those
   constructors so that "no wrapper escapes" is a statement about the model, not a convention. *)
From Coq Require Import Floats.
From GenqlV Require Import Base.Prelude Base.Fmt Base.Value Model.Ast Model.Like Model.Num.
Local Open Scope Z_scope.

(* ------------------------------------------------------------------ *)
(* selector.go Reader, KeySelector steps only (column references)      *)
(* ------------------------------------------------------------------ *)

Definition obj_get (k : string) (kvs : list (string * value)) : value :=
  match lookup k kvs with Some v => v | None => VNull end.

Fixpoint reader (path : list string) : value -> res value :=
  match path with
  | [] => fun v => Ok v
  | k :: rest =>
      fix go (v : value) : res value :=
        match v with
        | VNull => Ok VNull
        | VObj kvs => reader rest (obj_get k kvs)
        | VArr l =>
            let! l' := (fix each (l : list value) : res (list value) :=
                          match l with
                          | [] => Ok []
                          | x :: r => let! y := go x in let! ys := each r in Ok (y :: ys)
                          end) l in
            Ok (VArr l')
        | _ => Err      (* key selectors are not valid on scalars *)
        end
  end.

(* ------------------------------------------------------------------ *)
(* raw results of Expr                                                  *)
(* ------------------------------------------------------------------ *)

Inductive raw :=
| RVal (v : value)               (* a plain Go value: nil, bool, float64, string, []any, Map *)
| RCol (path : list string)      (* ColumnName wrapper *)
| RNeutral (s : string)          (* NeutalString wrapper (string literal) *)
| RNumPtr (p : option float)     (* *float64 returned by BinaryExpr / UnaryExpr; nil pointer = NULL *)
| ROmit                          (* Ommit(true): the select item adds no column *)
| RTuple (l : list raw).         (* []any built by ValueTupleExpr: elements keep their wrappers *)

Definition row := list (string * value).   (* the Map `current` *)

(* nested induction principle *)
Section raw_ind'.
  Variable P : raw -> Prop.
  Hypothesis Hval : forall v, P (RVal v).
  Hypothesis Hcol : forall p, P (RCol p).
  Hypothesis Hneutral : forall s, P (RNeutral s).
  Hypothesis Hnum : forall o, P (RNumPtr o).
  Hypothesis Homit : P ROmit.
  Hypothesis Htuple : forall l, Forall P l -> P (RTuple l).
  Fixpoint raw_ind' (r : raw) : P r :=
    match r with
    | RVal v => Hval v
    | RCol p => Hcol p
    | RNeutral s => Hneutral s
    | RNumPtr o => Hnum o
    | ROmit => Homit
    | RTuple l => Htuple l ((fix go (l : list raw) : Forall P l :=
                               match l with [] => Forall_nil _ | x :: r => Forall_cons _ (raw_ind' x) (go r) end) l)
    end.
End raw_ind'.

(* heplers.go Unwrapped, one member of the slice a value tuple evaluated to (the function recurses into a member
   that is itself a slice).  Go: `NeutalString` -> string; `*float64` -> the number, a nil pointer leaves the
   zero value nil in the copy; `[]any` -> Unwrapped of it; `default` -> the member as it is.  When HasWrapper
   finds no NeutalString / *float64 at any depth the slice ITSELF is returned: its members are then the same plain
   values the copy would hold, so in a model without slice identity both branches are this one function.
   The `default` branch is where a member that is neither plain nor one of the two wrappers stays in the result:
     - Ommit(true) (a SPIN / SPINASYNC call, the effect-only built-ins) is kept as a member: not a [value];
     - ColumnName cannot occur, ValueTupleExpr has read it (were it there, it would be kept: not a [value]). *)
Fixpoint unwrapped (r : raw) : res value :=
  match r with
  | RVal v => Ok v                     (* plain value (number / bool / NULL literal, column content, subquery rows, ...) *)
  | RNeutral s => Ok (VStr s)
  | RNumPtr None => Ok VNull
  | RNumPtr (Some f) => Ok (VNum f)
  | RTuple l =>
      let! vs := (fix each (l : list raw) : res (list value) :=
                    match l with
                    | [] => Ok []
                    | x :: r => let! v := unwrapped x in let! vs := each r in Ok (v :: vs)
                    end) l in
      Ok (VArr vs)
  | RCol _ => OutOfModel
  | ROmit => OutOfModel
  end.

(* heplers.go ValueOf *)
Definition value_of (current : row) (r : raw) : res value :=
  match r with
  | RVal v => Ok v
  | RCol p => reader p (VObj current)
  | RNeutral s => Ok (VStr s)
  | RNumPtr None => Ok VNull
  | RNumPtr (Some f) => Ok (VNum f)
  | ROmit => OutOfModel          (* Ommit used as an operand: not generated *)
  | RTuple l => unwrapped (RTuple l)   (* case []interface{}: Unwrapped(value) *)
  end.

(* AsType[bool] / AsType[float64] on a non-nil value *)
Definition as_bool (v : value) : res bool := match v with VBool b => Ok b | _ => Err end.
Definition as_num (v : value) : res float := match v with VNum f => Ok f | _ => Err end.

(* the scope copy that carries the backward-navigation marker *)
Definition scope (current : row) (data : value) : row := obj_set "<-" data current.

Definition cmp_holds (op : cmpop) (c : Z) : bool :=
  match op with
  | OpEq => c =? 0 | OpNe => negb (c =? 0)
  | OpGt => c =? 1 | OpGe => 0 <=? c
  | OpLt => c =? -1 | OpLe => c <=? 0
  end.

Definition fmt_res (v : value) : res string :=
  match fmt_value v with Some s => Ok s | None => OutOfModel end.

(* elements of the right-hand side of IN *)
Definition in_candidate (r : raw) : res value :=
  match r with
  | RNumPtr (Some f) => Ok (VNum f)
  | RNumPtr None => OutOfModel            (* nil *float64 dereference: not generated *)
  | RNeutral s => Ok (VStr s)             (* compared through %v, which prints the string *)
  | RVal (VObj ((_, v) :: _)) => Ok v     (* a row of a subquery: its first column in key order (FirstColumn) *)
  | RVal (VObj nil) => OutOfModel         (* an empty row: IN skips it, NOT IN compares the map itself: not generated *)
  | RVal v => Ok v
  | _ => OutOfModel
  end.

Fixpoint in_list (left : value) (cands : list raw) : res bool :=
  match cands with
  | [] => Ok false
  | c :: r =>
      let! v := in_candidate c in
      let! z := vcompare left v in
      if z =? 0 then Ok true else in_list left r
  end.

Definition bin_apply (op : binop) (x y : float) : res float :=
  match op with
  | BAdd => Ok (x + y)%float
  | BSub => Ok (x - y)%float
  | BMul => Ok (x * y)%float
  | BDiv => Ok (x / y)%float
  | BIntDiv => int_binop go_quot x y
  | BMod => go_fmod x y
  | BAnd => int_binop (fun a b => Ok (Z.land a b)) x y
  | BOr => int_binop (fun a b => Ok (Z.lor a b)) x y
  | BXor => int_binop (fun a b => Ok (Z.lxor a b)) x y
  | BShl => int_binop go_shl x y
  | BShr => int_binop go_shr x y
  end.

(* ------------------------------------------------------------------ *)
(* the evaluator                                                        *)
(* ------------------------------------------------------------------ *)

Section Eval.
  Variable Q : Type.

  (* what evaluation needs from the enclosing query *)
  Record env := {
    e_data : value;                                         (* query.data *)
    e_sub : Q -> row -> res value;                          (* row-scoped subquery: rows it returns *)
    e_exists : Q -> row -> res bool;
    e_agg : aggfn -> option (list string) -> row -> res raw; (* AggrFunExpr *)
    e_call : string -> string -> list value -> row -> res raw; (* FunExpr after argument evaluation *)
    e_hard : bool                                           (* HardCodedValueExprOpt (join ON) *)
  }.

  Variable E : env.

  Definition col_path (p : list string) : list string :=
    if e_hard E then
      (* the whole dotted name is one quoted key *)
      [fold_right (fun a b => if String.eqb b "" then a else (a ++ "." ++ b)%string) ""%string p]
    else p.

  (* An expression whose raw result may be the `*any` slot of a call started with a qualifier (ASYNC: FunExpr returns
     `&rs` and fills it from a goroutine).  Only SelectExpr resolves such a slot (its post-processor stores the pointee in
     the row); [e_call] stands for the value the slot will hold.  ValueTupleExpr / Unwrapped do NOT resolve it: the
     pointer stays a member of the slice (heplers.go Unwrapped, `default` branch), which is not a [value].  A tuple member
     of this shape is therefore out of model (see ETuple below).  CASE hands the result of a branch on unchanged. *)
  Fixpoint slot_form (e : expr Q) : bool :=
    match e with
    | ECall qual _ _ => negb (String.eqb qual "")
    | ECase whens els =>
        (fix go (ws : list (expr Q * expr Q)) : bool :=
           match ws with [] => false | (_, v) :: r => slot_form v || go r end) whens
        || match els with None => false | Some x => slot_form x end
    | _ => false
    end.

  Fixpoint eval (current : row) (e : expr Q) {struct e} : res raw :=
    let bool_operand (x : expr Q) : res bool :=
      let! r := eval current x in
      let! v := value_of current r in
      match v with VNull => Err | _ => as_bool v end in
    let num_operand (x : expr Q) (k : float -> res raw) : res raw :=
      let! r := eval current x in
      let! v := value_of current r in
      match v with
      | VNull => Ok (RNumPtr None)
      | _ => let! f := as_num v in k f
      end in
    match e with
    | ECol p => Ok (RCol (col_path p))
    | ENum f => Ok (RVal (VNum f))
    | EStr s => Ok (RNeutral s)
    | EBool b => Ok (RVal (VBool b))
    | ENull => Ok (RVal VNull)
    | EAnd a b =>
        let! x := bool_operand a in
        let! y := bool_operand b in
        Ok (RVal (VBool (x && y)))
    | EOr a b =>
        let! x := bool_operand a in
        let! y := bool_operand b in
        Ok (RVal (VBool (x || y)))
    | ENot a =>
        let! x := bool_operand a in
        Ok (RVal (VBool (negb x)))
    | ECmp op a b =>
        let cur := scope current (e_data E) in
        let! l := eval cur a in
        let! lv := value_of cur l in
        let! r := eval cur b in
        let! rv := value_of cur r in
        let! c := vcompare lv rv in
        Ok (RVal (VBool (cmp_holds op c)))
    | ELike neg a b =>
        let cur := scope current (e_data E) in
        let! l := eval cur a in
        let! lv := value_of cur l in
        let! r := eval cur b in
        let! rv := value_of cur r in
        let! ls := fmt_res lv in
        let! rs := fmt_res rv in
        Ok (RVal (VBool (xorb neg (regex_comparison ls rs))))
    | EIn neg a items =>
        let cur := scope current (e_data E) in
        let! l := eval cur a in
        let! lv := value_of cur l in
        let! cands := (fix each (l : list (expr Q)) : res (list raw) :=
                         match l with
                         | [] => Ok []
                         | x :: r =>
                             let! y := eval cur x in
                             let! y' := match y with
                                        | RCol p => let! v := reader p (VObj cur) in Ok (RVal v)
                                        | _ => Ok y
                                        end in
                             let! ys := each r in Ok (y' :: ys)
                         end) items in
        let! b := in_list lv cands in
        Ok (RVal (VBool (xorb neg b)))
    | EInSub neg a q =>
        let cur := scope current (e_data E) in
        let! l := eval cur a in
        let! lv := value_of cur l in
        let! rows := e_sub E q cur in
        match rows with
        | VArr rs => let! b := in_list lv (map RVal rs) in Ok (RVal (VBool (xorb neg b)))
        | VNull => Err
        | _ => Err
        end
    | EBetween neg a lo hi =>
        let! p := eval current a in
        let! pv := value_of current p in
        let! f := eval current lo in
        let! t := eval current hi in
        let! fv := value_of current f in
        let! tv := value_of current t in
        let! c1 := vcompare pv fv in
        let! c2 := vcompare pv tv in
        Ok (RVal (VBool (xorb neg ((0 <=? c1) && (c2 <=? 0)))))
    | EIs op a =>
        let! l := eval current a in
        let! lv := value_of current l in
        match op with
        | IsNull => Ok (RVal (VBool (match lv with VNull => true | _ => false end)))
        | IsNotNull => Ok (RVal (VBool (match lv with VNull => false | _ => true end)))
        | IsTrue | IsNotFalse =>
            match lv with VNull => Err | VBool b => Ok (RVal (VBool b)) | _ => Err end
        | IsNotTrue | IsFalse =>
            match lv with VNull => Err | VBool b => Ok (RVal (VBool (negb b))) | _ => Err end
        end
    | EBin op a b =>
        num_operand a (fun x =>
        num_operand b (fun y =>
        let! z := bin_apply op x y in Ok (RNumPtr (Some z))))
    | EUn op a =>
        let! r := eval current a in
        let! v := value_of current r in
        match v with
        | VNull => Err
        | _ =>
            match op with
            | UTilde => let! f := as_num v in let! n := to_int64 f in
                        Ok (RNumPtr (Some (of_int64 (Z.lnot n))))
            | UNeg => let! f := as_num v in Ok (RNumPtr (Some ((-1) * f)%float))
            | UBang => let! b := as_bool v in Ok (RVal (VBool (negb b)))
            end
        end
    | ECase whens els =>
        (fix go (ws : list (expr Q * expr Q)) : res raw :=
           match ws with
           | [] => match els with None => Ok (RVal VNull) | Some x => eval current x end
           | (c, v) :: r =>
               let! rc := eval current c in
               match rc with
               | RVal (VBool true) => eval current v
               | RVal (VBool false) => go r
               | _ => Err          (* rs.(bool) fails: a column holding a bool is a ColumnName *)
               end
           end) whens
    | ESub q =>
        let! rows := e_sub E q (scope current (e_data E)) in Ok (RVal rows)
    | EExists q =>
        let! b := e_exists E q (scope current (e_data E)) in Ok (RVal (VBool b))
    | EAgg f arg => e_agg E f arg current
    | ECall qual name args =>
        let! vs := (fix each (l : list (expr Q)) : res (list value) :=
                      match l with
                      | [] => Ok []
                      | x :: r => let! y := eval current x in
                                  let! v := value_of current y in
                                  let! ys := each r in Ok (v :: ys)
                      end) args in
        e_call E qual name vs current
    | ETuple items =>
        (* ValueTupleExpr: members left to right; a ColumnName is read at once (ExecReader on the current row), every
           other result is appended as it is, wrappers included *)
        let! rs := (fix each (l : list (expr Q)) : res (list raw) :=
                      match l with
                      | [] => Ok []
                      | x :: r =>
                          if slot_form x then OutOfModel else
                          let! y := eval current x in
                          let! y' := match y with
                                     | RCol p => let! v := reader p (VObj current) in Ok (RVal v)
                                     | _ => Ok y
                                     end in
                          let! ys := each r in Ok (y' :: ys)
                      end) items in
        Ok (RTuple rs)
    end.

  (* ExecWhere / ExecHaving: the raw result must itself be a Go bool *)
  Definition eval_cond (current : row) (c : option (expr Q)) : res bool :=
    match c with
    | None => Ok true
    | Some e =>
        let! r := eval current e in
        match r with RVal (VBool b) => Ok b | _ => Err end
    end.

  (* SelectExpr: one output object per row *)
  Fixpoint select_expr (current : row) (items : list (sel_item Q)) (acc : row) : res row :=
    match items with
    | [] => Ok acc
    | IStar :: r => select_expr current r (obj_merge acc current)
    | IExpr e name :: r =>
        let! x := eval current e in
        match x with
        | ROmit => select_expr current r acc
        | _ => let! v := value_of current x in select_expr current r (obj_set name v acc)
        end
    end.
End Eval.

Arguments Build_env {Q}.
Arguments slot_form {Q}. Arguments eval {Q}. Arguments eval_cond {Q}. Arguments select_expr {Q}.
Arguments e_data {Q}. Arguments e_sub {Q}. Arguments e_exists {Q}. Arguments e_agg {Q}.
Arguments e_call {Q}. Arguments e_hard {Q}.
