(* Model/Join.v — join.go for the REPAIRED code: extractJoinColumns, ToCatalog (rows grouped by the
   text key of their join columns, in order of first appearance here; the Go code iterates a map, so
   every consumer treats the result as a multiset), hashJoinAnalyze, strategy selection, the
   side swap for RIGHT joins, HashJoinMatchFunc and JoinMatchFunc.  INTO and USING are not modelled.
   The PARALLEL drivers compute the same per-key batches in goroutines and append them under a
   mutex; their schedule-independence is proved separately (Proofs/Conc*.v), here they denote the
   same multiset as the sequential drivers. *)
From Coq Require Import Floats.
From GenqlV Require Import Base.Prelude Base.Fmt Base.Value Model.Ast Model.Eval.
Local Open Scope list_scope.

(* extractColumnsFromExpr + extractJoinColumns *)
Fixpoint join_columns (ident identRight : string) (e : expr stmt) : res (list (list string)) :=
  match e with
  | ECmp _ (ECol pa) (ECol pb) =>
      if String.eqb ident (hd ""%string pa) then Ok [pa]
      else if String.eqb ident (hd ""%string pb) then Ok [pb]
      else if String.eqb identRight (hd ""%string pa) then Ok [pb] else Ok [pa]
  | ECmp _ _ _ => Err                         (* expected column name *)
  | EAnd a b | EOr a b =>
      let! x := join_columns ident identRight a in
      let! y := join_columns ident identRight b in
      Ok (x ++ y)
  | ELike _ _ _ | EIn _ _ _ | EInSub _ _ _ => OutOfModel
  | _ => Ok []
  end.

Fixpoint hash_join_analyze (e : expr stmt) : bool :=
  match e with
  | ECmp OpEq _ _ => true
  | EAnd a b => hash_join_analyze a && hash_join_analyze b
  | _ => false
  end.

Definition dotted (p : list string) : string :=
  fold_right (fun a b => if String.eqb b "" then a else (a ++ "." ++ b)%string) ""%string p.

(* the text key: every column value's %v text, length-prefixed *)
Fixpoint key_text (vals : list value) : res string :=
  match vals with
  | [] => Ok ""%string
  | v :: r =>
      match fmt_value v with
      | Some t => let! rest := key_text r in
                  Ok (N_to_dec (N.of_nat (String.length t)) ++ ":" ++ t ++ rest)%string
      | None => OutOfModel
      end
  end.

(* -0 and 0 are equal and must share a key *)
Definition norm_zero (v : value) : value :=
  match v with
  | VNum f => if PrimFloat.eqb f 0%float then VNum 0%float else v
  | _ => v
  end.

(* one catalog entry: key text, key map (as of the first row with that key), rows in source order *)
Definition centry := (string * (row * list value))%type.

Fixpoint cat_insert (k : string) (km : row) (r : value) (c : list centry) : list centry :=
  match c with
  | [] => [(k, (km, [r]))]
  | (k', (km', rs)) :: rest =>
      if String.eqb k k' then (k', (km', rs ++ [r])) :: rest
      else (k', (km', rs)) :: cat_insert k km r rest
  end.

Definition to_catalog (rows : list value) (ident identRight : string) (on : expr stmt) : res (list centry) :=
  let! cols := join_columns ident identRight on in
  (fix go (rows : list value) (c : list centry) : res (list centry) :=
     match rows with
     | [] => Ok c
     | r :: rest =>
         let! vals0 := mapM (fun p => reader p r) cols in
         let vals := map norm_zero vals0 in
         let! k := key_text vals in
         let km := fold_left (fun acc pv => obj_set (dotted (fst pv)) (snd pv) acc) (combine cols vals) [] in
         go rest (cat_insert k km r c)
     end) rows [].

Definition as_row (v : value) : res row := match v with VObj kv => Ok kv | _ => Panic end.

(* maps.Copy(mapper, l) ; maps.Copy(mapper, r) *)
Definition merge_rows (l r : value) : res value :=
  let! a := as_row l in
  let! b := as_row r in
  Ok (VObj (obj_merge (obj_merge [] a) b)).

Definition with_null (l : value) (rightIdent : string) : res value :=
  let! a := as_row l in
  Ok (VObj (obj_set rightIdent VNull (obj_merge [] a))).

Definition pairs (ls rs : list value) : res (list value) :=
  let! nested := mapM (fun l => mapM (fun r => merge_rows l r) rs) ls in
  Ok (List.concat nested).

Definition cat_find (k : string) (c : list centry) : option (row * list value) :=
  match find (fun e => String.eqb (fst e) k) c with Some e => Some (snd e) | None => None end.

(* HashJoinMatchFunc for one left key *)
Definition hash_match (inner : bool) (rightIdent : string) (le : centry) (rcat : list centry) : res (list value) :=
  let '(k, (_, lrows)) := le in
  match cat_find k rcat with
  | Some (_, rrows) => pairs lrows rrows
  | None => if inner then Ok [] else mapM (fun l => with_null l rightIdent) lrows
  end.

Section Nested.
  Variable data : row.      (* query.data, for the scope copy inside comparisons *)

  Definition on_env : env stmt :=
    {| e_data := VObj data;
       e_sub := fun _ _ => Err; e_exists := fun _ _ => Err;
       e_agg := fun _ _ _ => Err; e_call := fun _ _ _ _ => Err;
       e_hard := true |}.

  (* JoinMatchFunc for one left key group *)
  Definition loop_match (inner : bool) (rightIdent : string) (on : expr stmt) (le : centry)
             (rcat : list centry) : res (list value) :=
    let '(_, (lkeys, lrows)) := le in
    let! per_right := mapM (fun re : centry =>
        let '(_, (rkeys, rrows)) := re in
        let! r := eval on_env (obj_merge (obj_merge [] lkeys) rkeys) on in
        match r with
        | RVal (VBool true) => pairs lrows rrows
        | RVal (VBool false) => Ok []
        | _ => Err
        end) rcat in
    let out := List.concat per_right in
    match out with
    | [] => if inner then Ok [] else mapM (fun l => with_null l rightIdent) lrows
    | _ => Ok out
    end.
End Nested.

Definition is_straight (st : jstrategy) : bool :=
  match st with SStraight | SParallelStraight => true | _ => false end.

(* Join.Exec *)
Definition exec_join (jt : jointype) (st : jstrategy) (lrows rrows : list value) (lid rid : string)
           (on : expr stmt) (data : row) : res (list value) :=
  if is_straight st && negb (match jt with JInner => true | _ => false end) then Err else
  let swap := match jt with JRight => negb (is_straight st) | _ => false end in
  let '(L, R, li, ri) := if swap then (rrows, lrows, rid, lid) else (lrows, rrows, lid, rid) in
  let inner := match jt with JInner => true | _ => false end in
  let! lcat := to_catalog L li ri on in
  let! rcat := to_catalog R ri li on in
  let use_hash := negb (is_straight st) && hash_join_analyze on in
  let! batches := mapM (fun le => if use_hash then hash_match inner ri le rcat
                                  else loop_match data inner ri on le rcat) lcat in
  Ok (List.concat batches).
