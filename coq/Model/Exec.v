(* Model/Exec.v — the query pipeline of plsql.go for the REPAIRED code: BuildFrom / ProcessAlias,
   exec (row filter, nested dimensions with CopyQuery), ExecGroupBy / ExecHaving, aggregate
   evaluation (functions.go Sum/Avg/Min/Max/Count), ExecSelect, ExecDistinct, ExecOrderBy
   (sort.go), the LIMIT/OFFSET window, BuildUnion, BuildCte, derived tables, row-scoped
   subqueries and EXISTS — including what a subquery finds behind the back reference `<-`: the data
   map of the enclosing query, which still holds that query's CTE thunks ([c_up], [up_find]).
   A table name that is a selector ([FSel]: brackets, keep=>, each, ranges, pipes, `::`, fn=>) is resolved
   as BuildFromAliasedTable does it, by ExecReader on the text — the C09 model Model/SelReader.v.
   Definitions only. *)
From Coq Require Import Floats.
From GenqlV Require Import Base.Prelude Base.Fmt Base.Value Model.Ast Model.Like Model.Num Model.Eval.
(* the selector model of C09 (ParseSelector / ExecReader): used, with qualified names, for a FROM whose
   table name is a selector *)
From GenqlV Require Model.SelToken Model.SelReader Spec.SelectorSpec.
Local Open Scope Z_scope.
Local Open Scope list_scope.

(* ------------------------------------------------------------------ *)
(* small Go primitives                                                  *)
(* ------------------------------------------------------------------ *)

(* heplers.go AsArray on JSON-like data *)
Definition as_array (v : value) : res (list value) :=
  match v with
  | VArr l => Ok l
  | VObj _ => Ok [v]
  | _ => Err
  end.

(* ProcessAlias *)
Definition process_alias (rows : list value) (alias : string) : list value :=
  if String.eqb alias "" then rows else map (fun r => VObj [(alias, r)]) rows.

(* Go interface equality  a == b  on JSON-like dynamic values: comparing two maps or two slices
   panics at run time (uncomparable dynamic type); different dynamic types are simply unequal *)
Definition iface_eq (a b : value) : res bool :=
  match a, b with
  | VNull, VNull => Ok true
  | VBool x, VBool y => Ok (Bool.eqb x y)
  | VNum x, VNum y => Ok (PrimFloat.eqb x y)
  | VStr x, VStr y => Ok (String.eqb x y)
  | VArr _, VArr _ => Panic
  | VObj _, VObj _ => Panic
  | _, _ => Ok false
  end.

(* ------------------------------------------------------------------ *)
(* LIMIT / OFFSET on a Go slice with spare capacity                     *)
(* ------------------------------------------------------------------ *)

(* s[lo:hi] on a slice of length len(xs) and capacity cap: Go panics unless 0 <= lo <= hi <= cap;
   elements beyond the length are whatever the backing array holds, modelled as VNull padding *)
Definition go_slice (xs : list value) (cap : nat) (lo hi : Z) : res (list value) :=
  if (0 <=? lo) && (lo <=? hi) && (hi <=? Z.of_nat cap) then
    let padded := xs ++ repeat VNull (cap - List.length xs)%nat in
    Ok (firstn (Z.to_nat (hi - lo)) (skipn (Z.to_nat lo) padded))
  else Panic.

(* the tail of exec(): limitDefinition / offsetDefinition are -1 when absent *)
Definition window (rs : list value) (cap : nat) (limit offset : option Z) : res (list value) :=
  let len := Z.of_nat (List.length rs) in
  let off := match offset with Some o => o | None => 0 end in
  let lim := match limit with Some l => l | None => len end in
  if len <=? off then Ok []
  else
    let lim' := if len - off <? lim then len - off else lim in
    go_slice rs cap off (off + lim').

(* the pinned arithmetic, kept for the refutation lemma:  rs[offset:][:limit] with limit clamped to len *)
Definition pinned_window (rs : list value) (cap : nat) (limit offset : option Z) : res (list value) :=
  let len := Z.of_nat (List.length rs) in
  let off := match offset with Some o => o | None => 0 end in
  let lim := match limit with Some l => l | None => len end in
  if len <=? off then Ok []
  else
    let lim' := if len <=? lim then len else lim in
    let! a := go_slice rs cap off len in
    go_slice a (cap - Z.to_nat off)%nat 0 lim'.

(* ------------------------------------------------------------------ *)
(* ORDER BY (sort.go)                                                   *)
(* ------------------------------------------------------------------ *)

(* Compare(slice, i, j, orderBy): is row a strictly before row b? *)
Fixpoint order_less (keys : list (list string * bool)) (a b : value) : res bool :=
  match keys with
  | [] => Ok false
  | (k, asc) :: rest =>
      let! x := reader k a in
      match x with
      | VNull => Ok false
      | _ =>
          let! y := reader k b in
          match y with
          | VNull => Ok true
          | _ =>
              let! c := vcompare x y in
              if c =? 0 then order_less rest a b
              else Ok (c =? (if asc then -1 else 1))
          end
      end
  end.

(* sort.Slice is an oracle (any permutation that is sorted w.r.t. less); the executable instance is
   a stable insertion sort *)
Fixpoint insert_by (less : value -> value -> res bool) (x : value) (l : list value) : res (list value) :=
  match l with
  | [] => Ok [x]
  | y :: r =>
      let! b := less y x in
      if b then let! r' := insert_by less x r in Ok (y :: r') else Ok (x :: y :: r)
  end.

Fixpoint sort_by (less : value -> value -> res bool) (l : list value) : res (list value) :=
  match l with
  | [] => Ok []
  | x :: r => let! r' := sort_by less r in insert_by less x r'
  end.

(* a panic inside the comparator is recovered by Sort and returned as an error *)
Definition exec_order_by (keys : list (list string * bool)) (rows : list value) : res (list value) :=
  match keys with
  | [] => Ok rows
  | _ => catch_panic (sort_by (order_less keys) rows)
  end.

(* ------------------------------------------------------------------ *)
(* DISTINCT: keep the first row of each fingerprint                     *)
(* ------------------------------------------------------------------ *)

Section Distinct.
  Variable K : Type.
  Variable fp : value -> K.                (* sha256 . json.Marshal in the repaired code *)
  Variable keq : K -> K -> bool.
  Fixpoint distinct_by (seen : list K) (rows : list value) : list value :=
    match rows with
    | [] => []
    | r :: rest =>
        if existsb (keq (fp r)) seen then distinct_by seen rest
        else r :: distinct_by (fp r :: seen) rest
    end.
End Distinct.

(* executable instance: the fingerprint is the value itself (json.Marshal + sha256 assumed injective) *)
Definition exec_distinct (d : bool) (rows : list value) : list value :=
  if d then distinct_by value (fun v => v) veqb [] rows else rows.

(* ------------------------------------------------------------------ *)
(* aggregates (functions.go)                                            *)
(* ------------------------------------------------------------------ *)

(* ToFloat64(item) = ParseFloat(Sprintf("%v", item)) *)
Definition to_float64 (v : value) : res float :=
  match v with
  | VNum f => Ok f
  | VStr _ => OutOfModel        (* a numeric-looking string would parse: not generated *)
  | _ => Err
  end.

Definition max_float : float := 0x1.fffffffffffffp+1023%float.

Fixpoint fold_nums (f : float -> float -> float) (acc : float) (seen : bool) (l : list value)
  : res (float * bool) :=
  match l with
  | [] => Ok (acc, seen)
  | VNull :: r => fold_nums f acc seen r
  | x :: r => let! n := to_float64 x in fold_nums f (f acc n) true r
  end.

Definition agg_apply (f : aggfn) (members : list value) (arg : option (list value)) : res value :=
  match f, arg with
  | ACount, None => Ok (VNum (float_of_Z (Z.of_nat (List.length members))))
  | ACount, Some col => Ok (VNum (float_of_Z (Z.of_nat (List.length col))))
  | _, None => Err                                  (* Guard(1, args) *)
  | ASum, Some col =>
      let! r := fold_nums PrimFloat.add 0%float false col in
      Ok (if snd r then VNum (fst r) else VNull)
  | AAvg, Some col =>
      let! r := fold_nums PrimFloat.add 0%float false col in
      Ok (if snd r then VNum (fst r / float_of_Z (Z.of_nat (List.length col)))%float else VNull)
  | AMin, Some col =>
      let! r := fold_nums (fun m n => if PrimFloat.ltb n m then n else m) max_float false col in
      Ok (if snd r then VNum (fst r) else VNull)
  | AMax, Some col =>
      let! r := fold_nums (fun m n => if PrimFloat.ltb m n then n else m) (- max_float)%float false col in
      Ok (if snd r then VNum (fst r) else VNull)
  end.

(* AggrFunExpr + AggrFuncArgReader: the argument column is read from the member rows *)
Definition eval_agg (members : list value) (f : aggfn) (arg : option (list string)) : res raw :=
  let! col := match arg with
              | None => Ok None
              | Some p => let! v := reader p (VArr members) in
                          match v with VArr l => Ok (Some l) | _ => Err end
              end in
  let! v := agg_apply f members col in
  Ok (RVal v).

(* ------------------------------------------------------------------ *)
(* GROUP BY: ordered linear scan                                        *)
(* ------------------------------------------------------------------ *)

Definition group := (list (string * value) * list value)%type.   (* key row, members (source order) *)

Fixpoint keys_match (k1 k2 : list (string * value)) : res bool :=
  match k1, k2 with
  | [], [] => Ok true
  | (_, a) :: r1, (_, b) :: r2 =>
      let! e := iface_eq a b in
      if e then keys_match r1 r2 else Ok false
  | _, _ => Ok false
  end.

(* append the item to the first group with an equal key, or open a new group at the end *)
Fixpoint group_insert (key : list (string * value)) (item : value) (gs : list group) : res (list group) :=
  match gs with
  | [] => Ok [(key, [item])]
  | (k, ms) :: rest =>
      let! m := keys_match k key in
      if m then Ok ((k, ms ++ [item]) :: rest)
      else let! rest' := group_insert key item rest in Ok ((k, ms) :: rest')
  end.

(* ExecReader(item, keyText) on the steps the key text parses to — selector.go Reader, the KeySelector case (as
   [reader] of Model/Eval.v: NULL stays NULL, a missing key reads NULL, a slice is rebuilt element by element, a
   scalar is an error) and the []*IndexSelector case with ONE dimension (SelectMany: NULL stays NULL; anything but a
   slice is an error; `[each]` = -1 keeps the slice; an index outside 0 <= i < len is an error — the repaired
   SelectDimension checks it before indexing; Unwind at depth 0 is the identity).
   Proofs/C03PathReader.v proves that this is Model/SelReader.reader (the selector model of C09) on those tokens. *)
Fixpoint key_reader (p : list kstep) : value -> res value :=
  match p with
  | [] => fun v => Ok v
  | KKey k :: rest =>
      fix go (v : value) : res value :=
        match v with
        | VNull => Ok VNull
        | VObj kvs => key_reader rest (obj_get k kvs)
        | VArr l =>
            let! l' := (fix each (l : list value) : res (list value) :=
                          match l with
                          | [] => Ok []
                          | x :: r => let! y := go x in let! ys := each r in Ok (y :: ys)
                          end) l in
            Ok (VArr l')
        | _ => Err      (* key selectors are not valid on scalars *)
        end
  | KIdx i :: rest =>
      fun v =>
        match v with
        | VNull => Ok VNull
        | VArr l =>
            if i =? -1 then key_reader rest (VArr l)
            else if (i <? 0) || (Z.of_nat (List.length l) <=? i) then Err     (* index out of range *)
            else match nth_error l (Z.to_nat i) with
                 | Some x => key_reader rest x
                 | None => Panic                                                 (* unreachable *)
                 end
        | _ => Err      (* index selectors are not valid on maps / scalars *)
        end
  end.

(* innerMap[key] = ExecReader(item, key) for every grouping column *)
Definition group_key (cols : list gkey) (item : value) : res (list (string * value)) :=
  mapM (fun c => let! v := key_reader (gk_path c) item in Ok (gk_name c, v)) cols.

Fixpoint group_rows (cols : list gkey) (items : list value) (gs : list group) : res (list group) :=
  match items with
  | [] => Ok gs
  | it :: rest =>
      let! k := group_key cols it in
      let! gs' := group_insert k it gs in
      group_rows cols rest gs'
  end.

Definition group_row (g : group) : row := obj_set "*" (VArr (snd g)) (obj_of_list (fst g)).

(* ------------------------------------------------------------------ *)
(* one SELECT over resolved source rows                                 *)
(* ------------------------------------------------------------------ *)

Definition is_agg_item {Q} (it : sel_item Q) : bool :=
  match it with IExpr (EAgg _ _) _ => true | _ => false end.

Definition all_aggregate {Q} (items : list (sel_item Q)) : bool :=
  match items with [] => false | _ => forallb is_agg_item items end.

(* an enclosing query as a row-scoped subquery sees it through the back reference `<-`: its data
   map, the CTE thunks registered in that map, and which of them are being evaluated *)
Definition frame := (row * list (string * stmt) * list string)%type.
Definition fr_data (f : frame) : row := fst (fst f).
Definition fr_ctes (f : frame) : list (string * stmt) := snd (fst f).
Definition fr_busy (f : frame) : list string := snd f.

Record qctx := {
  c_data : row;                         (* query.data *)
  c_ctes : list (string * stmt);        (* CTE thunks registered in query.data *)
  c_busy : list string;                 (* CTEs being evaluated (in-progress guard) *)
  c_up : list frame                     (* the enclosing queries, innermost first: what the `<-` key of
                                           c_data, the `<-` key of that map, ... point at, together
                                           with the thunks those maps hold *)
}.

(* a thunk found in the data map of an enclosing query while a path is read *)
Record up_hit := {
  uh_frame : frame;                     (* the enclosing query that registered it *)
  uh_up : list frame;                   (* the queries enclosing that one *)
  uh_name : string;
  uh_body : stmt;
  uh_rest : list string                 (* the selectors that follow the name *)
}.

(* selector.go Mix / MixArray: flatten every level of nesting *)
Fixpoint mix_array (v : value) : list value :=
  match v with
  | VArr l => flat_map (fun x => match x with VArr _ => mix_array x | _ => [x] end) l
  | _ => [v]
  end.

Definition top_level_fn (fn : string) (v : value) : res value :=
  if String.eqb fn "mix" then
    match v with
    | VArr _ => Ok (VArr (mix_array v))
    | VObj _ => OutOfModel          (* MixObject: not modelled here *)
    | _ => Err
    end
  else if String.eqb fn "distinct" then OutOfModel
  else Err.

(* ------------------------------------------------------------------ *)
(* a table name that is a selector                                      *)
(* ------------------------------------------------------------------ *)

(* the keys of query.data the FIRST step of a parsed selector reads (the steps that follow work on what that
   step returned: document data).  [None]: the first step is not a key or a pipe — the selector is empty, or
   starts with a bracket, or is a bare `fn=>` — and whatever happens next happens to the data map as a whole *)
Definition sel_head (all : list (list SelToken.token)) : option (list string) :=
  match all with
  | [] => None
  | first :: _ =>
      match (match first with SelToken.TFn _ :: r => r | _ => first end) with
      | SelToken.TKey k :: _ => Some [k]
      | SelToken.TPipe ps :: _ => Some (map SelToken.pkey ps)
      | _ => None
      end
  end.

(* a unit of work for the fuelled interpreter: a statement, or a prepared SELECT whose source rows
   have already been resolved (EXISTS rewrites them before running) *)
Inductive job :=
| JStmt (q : stmt)
| JRows (s : select stmt) (rows : list value).

Section Run.
  (* the interpreter with one unit less fuel *)
  Variable rec : qctx -> job -> res value.
  (* FunExpr after argument evaluation *)
  Variable call : string -> string -> list value -> row -> res raw.
  (* ExecJoin *)
  Variable join : jointype -> jstrategy -> list value -> list value -> string -> string ->
                  expr stmt -> row -> res (list value).

  (* Prepare(Scope(current, query.data), ...): the subquery's data is the scope copy of the row (its
     `<-` key is the enclosing query's data map, which still holds the CTE thunks) *)
  Definition sub_ctx (parent : qctx) (cur : row) : qctx :=
    {| c_data := cur; c_ctes := []; c_busy := [];
       c_up := (c_data parent, c_ctes parent, c_busy parent) :: c_up parent |}.

  Definition from_ident (f : from_clause stmt) : string :=
    match f with
    | FTable p a => if String.eqb a "" then hd ""%string p else a
    | FTableFn _ p a => if String.eqb a "" then hd ""%string p else a
    | FSel sl a => if String.eqb a "" then sel_ident sl else a
    | FDerived _ a => a
    | _ => ""%string
    end.

  Definition cte_lookup (name : string) (ctes : list (string * stmt)) : option stmt :=
    match find (fun c => String.eqb (fst c) name) ctes with Some c => Some (snd c) | None => None end.

  (* Reader walking [path] through the data maps of the enclosing queries: [up] are the maps the
     successive `<-` keys point at.  A key that holds a thunk stops the walk (the thunk shadows a
     document entry of the same name: BuildCte overwrites the key in its copy of the map); the key
     `<-` moves one query up; anything else is plain data *)
  Fixpoint up_find (up : list frame) (path : list string) {struct up} : option up_hit :=
    match up, path with
    | fr :: up', k :: rest =>
        match cte_lookup k (fr_ctes fr) with
        | Some body => Some {| uh_frame := fr; uh_up := up'; uh_name := k; uh_body := body; uh_rest := rest |}
        | None => if String.eqb k "<-" then up_find up' rest else None
        end
    | _, _ => None
    end.

  (* does [path], read in the data of [ctx], run into a thunk of an enclosing query? *)
  Definition up_read (ctx : qctx) (path : list string) : option up_hit :=
    match path with
    | k :: rest => if String.eqb k "<-" then up_find (c_up ctx) rest else None
    | [] => None
    end.

  (* query.data is the document (or the scope copy of a row) in which BuildCte has overwritten the CTE names
     with thunks, and whose `<-` key is the data map of the enclosing query, thunks included.  [value] has no
     thunks: the model's [c_data] agrees with query.data on every key that is neither a registered CTE name nor
     `<-`.  A selector is [sel_visible] when its text parses and its first step reads such keys only; then
     ExecReader never meets a thunk and the C09 reader model on [c_data] is what the code computes.  A text that
     does not parse is an error whatever the data hold.  The text `dual` is the pseudo table. *)
  Definition sel_visible (ctes : list (string * stmt)) (text : string) : bool :=
    negb (String.eqb text "dual") &&
    match SelToken.parse_all text with
    | Ok all =>
        match sel_head all with
        | Some names =>
            forallb (fun k => negb (String.eqb k "<-") &&
                              match cte_lookup k ctes with None => true | Some _ => false end) names
        | None => false
        end
    | _ => true
    end.

  (* BuildFrom / BuildFromAliasedTable / BuildJoin: the source rows; [None] = dual *)
  Fixpoint build_from (ctx : qctx) (f : from_clause stmt) : res (option (list value)) :=
    match f with
    | FDual => Ok None
    | FTable path alias =>
        match path with
        | [] => Err
        | k :: rest =>
            match cte_lookup k (c_ctes ctx) with
            | Some body =>
                if existsb (String.eqb k) (c_busy ctx) then Err   (* recursive reference *)
                else
                  let! rs := rec {| c_data := c_data ctx; c_ctes := c_ctes ctx; c_busy := k :: c_busy ctx;
                                    c_up := c_up ctx |}
                                 (JStmt body) in
                  let! v := reader rest rs in
                  let! arr := as_array v in
                  Ok (Some (process_alias arr alias))
            | None =>
                match up_read ctx path with
                | Some h =>
                    (* `<-`. ... .name: the thunk of an enclosing query, evaluated by that query
                       (its data map, its thunks, its in-progress marks) *)
                    let fr := uh_frame h in
                    if existsb (String.eqb (uh_name h)) (fr_busy fr) then Err   (* recursive reference *)
                    else
                      let! rs := rec {| c_data := fr_data fr; c_ctes := fr_ctes fr;
                                        c_busy := uh_name h :: fr_busy fr; c_up := uh_up h |}
                                     (JStmt (uh_body h)) in
                      let! v := reader (uh_rest h) rs in
                      let! arr := as_array v in
                      Ok (Some (process_alias arr alias))
                | None =>
                    let! v := reader path (VObj (c_data ctx)) in
                    match v with
                    | VNull => Ok (Some [])          (* unknown table: empty source *)
                    | _ => let! arr := as_array v in Ok (Some (process_alias arr alias))
                    end
                end
            end
        end
    | FTableFn fn path alias =>
        (* ReaderExecutor: read the path, then apply the registered top-level function *)
        match up_read ctx path with
        | Some _ => OutOfModel         (* a function applied to a thunk of an enclosing query *)
        | None =>
            let! v := reader path (VObj (c_data ctx)) in
            let! w := top_level_fn fn v in
            match w with
            | VNull => Ok (Some [])
            | _ => let! arr := as_array w in Ok (Some (process_alias arr alias))
            end
        end
    | FSel sl alias =>
        (* ExecReader(query.data, tableName) with the whole selector language: the C09 model *)
        let text := SelectorSpec.print_sel sl in
        if sel_visible (c_ctes ctx) text then
          let! v := SelReader.exec_reader (VObj (c_data ctx)) text in
          match v with
          | VNull => Ok (Some [])            (* nothing there: empty source *)
          | _ => let! arr := as_array v in Ok (Some (process_alias arr alias))
          end
        else OutOfModel
    | FDerived q alias =>
        let! v := rec ctx (JStmt q) in
        let! arr := as_array v in
        Ok (Some (process_alias arr alias))
    | FJoin jt st l r on =>
        let! lf := build_from ctx l in
        let! rf := build_from ctx r in
        match lf, rf with
        | Some lrows, Some rrows =>
            let! rows := join jt st lrows rrows (from_ident l) (from_ident r) on (c_data ctx) in
            Ok (Some rows)
        | _, _ => Err
        end
    end.

  (* the environment expression evaluation sees while query [s] runs over [filtered] rows *)
  Definition mk_env (ctx : qctx) (s : select stmt) (filtered : list value) : env stmt :=
    {| e_data := VObj (c_data ctx);
       e_sub := fun q cur => rec (sub_ctx ctx cur) (JStmt q);
       e_exists := fun q cur =>
         match q with
         | SSelect s' =>
             let cctx := sub_ctx ctx cur in
             let! src := build_from cctx (s_from s') in
             match src with
             | None => OutOfModel
             | Some rows =>
                 (* the outer row's columns (and the back reference) are merged into copies of the
                    nested rows, then the prepared query runs over them *)
                 let! merged := mapM (fun item => match item with
                                                  | VObj kv => Ok (VObj (obj_merge kv cur))
                                                  | _ => Err end) rows in
                 let! out := rec cctx (JRows s' merged) in
                 match out with VArr l => Ok (negb (Nat.eqb (List.length l) 0)) | _ => Err end
             end
         | _ => Err
         end;
       e_agg := fun f arg cur =>
         match s_group s with
         | [] => eval_agg filtered f arg
         | _ => match lookup "*" cur with
                | Some (VArr ms) => eval_agg ms f arg
                | _ => Err
                end
         end;
       e_call := call;
       e_hard := false |}.

  (* ExecSelect *)
  Definition exec_select (E : env stmt) (s : select stmt) (rows : list value) : res (list value) :=
    if (match s_group s with [] => true | _ => false end) && all_aggregate (s_items s) then
      let! r := select_expr E [] (s_items s) [] in Ok [VObj r]
    else
      mapM (fun cur => match cur with
                       | VArr _ => Ok cur           (* an inner dimension: already projected *)
                       | VObj kv => let! r := select_expr E kv (s_items s) [] in Ok (VObj r)
                       | _ => Err
                       end) rows.

  (* the row loop of exec(): Map rows are filtered, []any elements are inner dimensions evaluated by
     a copy of the query, anything else is skipped *)
  Definition filter_rows (ctx : qctx) (s : select stmt) (E : env stmt) (from : list value) : res (list value) :=
    (fix go (l : list value) : res (list value) :=
       match l with
       | [] => Ok []
       | cur :: r =>
           match cur with
           | VArr inner =>
               (* CopyQuery: same clauses, but neither DISTINCT nor the CTE in-progress state differ *)
               let! rs := rec ctx (JRows
                   {| s_with := []; s_from := s_from s; s_where := s_where s; s_group := s_group s;
                      s_having := s_having s; s_items := s_items s; s_distinct := false;
                      s_order := s_order s; s_limit := s_limit s; s_offset := s_offset s |} inner) in
               let! rest := go r in Ok (rs :: rest)
           | VObj kv =>
               let! keep := eval_cond E kv (s_where s) in
               let! rest := go r in
               Ok (if keep then cur :: rest else rest)
           | _ => go r
           end
       end) from.

  Definition exec_group_by (E : env stmt) (s : select stmt) (rows : list value) : res (list value) :=
    match s_group s with
    | [] => Ok rows
    | cols =>
        let! gs := group_rows cols rows [] in
        let! kept := (fix go (gs : list group) : res (list value) :=
                        match gs with
                        | [] => Ok []
                        | g :: r =>
                            let cur := group_row g in
                            let! h := eval_cond E cur (s_having s) in
                            let! rest := go r in
                            Ok (if h then VObj cur :: rest else rest)
                        end) gs in
        Ok kept
    end.

  (* exec() over resolved source rows ([None] = dual) *)
  Definition run_select (ctx : qctx) (s : select stmt) (src : option (list value)) : res value :=
    catch_panic
    match src with
    | None =>
        let E := mk_env ctx s [] in
        let! rs := exec_select E s [VObj (c_data ctx)] in
        match rs with [] => Ok VNull | r :: _ => Ok r end
    | Some from =>
        let E0 := mk_env ctx s [] in
        let! filtered := filter_rows ctx s E0 from in
        let E := mk_env ctx s filtered in
        let! grouped := exec_group_by E s filtered in
        let! selected := exec_select E s grouped in
        let distinct := exec_distinct (s_distinct s) selected in
        let! ordered := exec_order_by (s_order s) distinct in
        let! win := window ordered (List.length ordered) (s_limit s) (s_offset s) in
        Ok (VArr win)
    end.

  Definition register_ctes (ctx : qctx) (w : list (string * stmt)) : qctx :=
    {| c_data := c_data ctx; c_ctes := rev w ++ c_ctes ctx; c_busy := c_busy ctx; c_up := c_up ctx |}.

  Definition union_select (all : bool) (limit offset : option Z) : select stmt :=
    {| s_with := []; s_from := FDual; s_where := None; s_group := []; s_having := None;
       s_items := [IStar]; s_distinct := negb all; s_order := []; s_limit := limit; s_offset := offset |}.

  Definition exec_step (ctx : qctx) (j : job) : res value :=
    match j with
    | JStmt (SSelect s) =>
        let ctx' := register_ctes ctx (s_with s) in
        let! src := build_from ctx' (s_from s) in
        run_select ctx' s src
    | JStmt (SUnion all l r limit offset) =>
        let! lv := rec ctx (JStmt l) in
        let! rv := rec ctx (JStmt r) in
        let! la := as_array lv in
        let! ra := as_array rv in
        run_select ctx (union_select all limit offset) (Some (la ++ ra))
    | JRows s rows => run_select ctx s (Some rows)
    end.
End Run.

(* ------------------------------------------------------------------ *)
(* tying the knot with fuel; out of fuel is reported as OutOfModel       *)
(* ------------------------------------------------------------------ *)

Section Top.
  Variable call : string -> string -> list value -> row -> res raw.
  Variable join : jointype -> jstrategy -> list value -> list value -> string -> string ->
                  expr stmt -> row -> res (list value).

  Fixpoint exec (fuel : nat) (ctx : qctx) (j : job) : res value :=
    match fuel with
    | O => OutOfModel
    | S n => exec_step (exec n) call join ctx j
    end.

  (* New + Exec: the API result is always a slice; a dual query's single value is wrapped *)
  Definition api_run (fuel : nat) (wrapped : bool) (doc : value) (q : stmt) : res (list value) :=
    let data := if wrapped then [("root"%string, doc)] else
                  match doc with VObj kv => kv | _ => [] end in
    let! v := catch_panic (exec fuel {| c_data := data; c_ctes := []; c_busy := []; c_up := [] |} (JStmt q)) in
    match v with
    | VArr l => Ok l
    | _ => Ok [v]
    end.
End Top.

Definition no_call : string -> string -> list value -> row -> res raw := fun _ _ _ _ => OutOfModel.
Definition no_join : jointype -> jstrategy -> list value -> list value -> string -> string ->
                     expr stmt -> row -> res (list value) := fun _ _ _ _ _ _ _ _ => OutOfModel.
