(* Model/Compare.v — executable model of compare/compare.go (Compare, compare, Cmp, As).
   Go values are given exactly: integers as (kind, Z), floats as dyadics m * 2^e.
   The model mirrors the code's dispatch:
     Compare: type switch on the LEFT operand; 12 numeric kinds -> compare(t, b); default ->
              strings.Compare(%v a, %v b)
     compare: numeric right -> Cmp ; string right -> strings.Compare(%v a, t) ;
              otherwise strings.Compare(%v a, %v v)
     Cmp    : both integer kinds -> exact sign/magnitude comparison;
              otherwise both converted to float64 and compared with == and >.
   Conversions integer -> float64 round in Go; the model returns OutOfModel when the
   conversion would not be exact (outside "the exactly-representable range" of the property). *)
From GenqlV Require Import Base.Prelude Base.Fmt.
Local Open Scope Z_scope.

Inductive ikind := KInt | KInt8 | KInt16 | KInt32 | KInt64
                 | KUint | KUint8 | KUint16 | KUint32 | KUint64.

Inductive gval :=
| GInt (k : ikind) (z : Z)          (* any Go integer kind, exact value                *)
| GFloat (single : bool) (m e : Z)  (* float32 / float64 with exact value m * 2^e       *)
| GStr (s : string)
| GBool (b : bool)
| GNil.

Definition ik_lo (k : ikind) : Z :=
  match k with
  | KInt | KInt64 => - 2 ^ 63 | KInt8 => -128 | KInt16 => -32768 | KInt32 => - 2 ^ 31
  | _ => 0
  end.
Definition ik_hi (k : ikind) : Z :=
  match k with
  | KInt | KInt64 => 2 ^ 63 - 1 | KInt8 => 127 | KInt16 => 32767 | KInt32 => 2 ^ 31 - 1
  | KUint | KUint64 => 2 ^ 64 - 1 | KUint8 => 255 | KUint16 => 65535 | KUint32 => 2 ^ 32 - 1
  end.

(* well-formed Go value *)
Definition wf_gval (v : gval) : bool :=
  match v with
  | GInt k z => (ik_lo k <=? z) && (z <=? ik_hi k)
  | _ => true
  end.

Definition is_num (v : gval) : bool :=
  match v with GInt _ _ | GFloat _ _ _ => true | _ => false end.

(* ---------- exact dyadic arithmetic ---------- *)

(* three-way comparison of m1 * 2^e1 and m2 * 2^e2 *)
Definition dy_cmp (m1 e1 m2 e2 : Z) : Z :=
  let e := Z.min e1 e2 in
  match Z.compare (m1 * 2 ^ (e1 - e)) (m2 * 2 ^ (e2 - e)) with
  | Lt => -1 | Eq => 0 | Gt => 1
  end.

(* remove factors of two: odd part of |z| (fuel: bit length) *)
Fixpoint odd_part (fuel : nat) (z : Z) : Z :=
  match fuel with
  | O => z
  | S f => if (z =? 0) || Z.odd z then z else odd_part f (z / 2)
  end.

(* an integer converts to float64 without rounding iff its odd part fits in 53 bits *)
Definition int_exact_f64 (z : Z) : bool := Z.abs (odd_part 70 z) <? 2 ^ 53.

(* ---------- %v ---------- *)

Definition fmt_gval (v : gval) : res string :=
  match v with
  | GInt _ z => Ok (Z_to_dec z)
  | GFloat single m e =>
      match fmt_dyadic m e with
      | Some s =>
          (* for float32 Go prints the shortest decimal that round-trips in 32 bits; the exact
             expansion is that decimal only when it has at most 6 significant digits *)
          if single then
            (if Nat.leb (String.length s) 6 then Ok s else OutOfModel)
          else Ok s
      | None => OutOfModel
      end
  | GStr s => Ok s
  | GBool true => Ok "true"%string
  | GBool false => Ok "false"%string
  | GNil => Ok "<nil>"%string
  end.

(* ---------- Cmp ---------- *)

Definition as_f64 (v : gval) : res (Z * Z) :=
  match v with
  | GInt _ z => if int_exact_f64 z then Ok (z, 0) else OutOfModel
  | GFloat _ m e => Ok (m, e)
  | _ => Ok (0, 0)        (* As returns the zero value for non-numeric input; unreachable from Cmp *)
  end.

Definition Cmp (a b : gval) : res Z :=
  match a, b with
  | GInt _ x, GInt _ y =>
      Ok (match Z.compare x y with Lt => -1 | Eq => 0 | Gt => 1 end)
  | _, _ =>
      let! x := as_f64 a in
      let! y := as_f64 b in
      Ok (dy_cmp (fst x) (snd x) (fst y) (snd y))
  end.

(* compare[T](a T, v any) — a is numeric *)
Definition compare_num (a v : gval) : res Z :=
  match v with
  | GInt _ _ | GFloat _ _ _ => Cmp a v
  | GStr t => let! s := fmt_gval a in Ok (str_cmp s t)
  | _ => let! s := fmt_gval a in let! t := fmt_gval v in Ok (str_cmp s t)
  end.

Definition Compare (a b : gval) : res Z :=
  match a with
  | GInt _ _ | GFloat _ _ _ => compare_num a b
  | _ => let! s := fmt_gval a in let! t := fmt_gval b in Ok (str_cmp s t)
  end.

(* ---------- the pinned (unrepaired) Cmp, kept for the refutation lemma ---------- *)

(* Go's T(x) conversion into an integer kind: floats truncate toward zero, integers wrap *)
Definition wrap_into (k : ikind) (z : Z) : Z :=
  let w := ik_hi k - ik_lo k + 1 in
  ((z - ik_lo k) mod w) + ik_lo k.

Definition trunc_dy (m e : Z) : Z :=
  if 0 <=? e then m * 2 ^ e else Z.quot m (2 ^ (- e)).

Definition pinned_Cmp (a b : gval) : res Z :=
  match a with
  | GInt k x =>
      let v := match b with
               | GInt _ y => wrap_into k y
               | GFloat _ m e => wrap_into k (trunc_dy m e)
               | _ => 0
               end in
      Ok (match Z.compare x v with Lt => -1 | Eq => 0 | Gt => 1 end)
  | _ => Cmp a b
  end.
