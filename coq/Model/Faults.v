(* Model/Faults.v — the function-call hook of the engine model (Model/Exec.v, Section Top) for
   property C19: FunExpr after argument evaluation, restricted to the functions the fault
   enumeration uses.

   * FAULT(tag, x [, ret])  — the harness's fault-injecting user function.  It is a PURE function of
     its arguments: it returns its last argument unless (tag, x) is the current trigger, in which
     case it returns an error (or panics, for the panicking variant).  Every call site of a
     generated query carries a distinct literal tag and an argument that identifies the row, so the
     k-th invocation of the fault-free run is a unique (tag, x) pair.
   * RAISE(msg)             — functions.go RaiseFunc: Guard(1), then always an error.
   * RAISE_WHEN(cond, msg)  — functions.go RaiseWhenFunc: Guard(2); asNonNull[bool](cond): a NULL
     or non-bool condition is an error; cond = true is an error; cond = false returns Ommit(true):
     the select item adds no column.
   Qualifiers: none or SCOPED evaluate the arguments and call the function (the two branches of
   FunExpr are identical).  ONCE / GLOBAL cache by function NAME in the query object, ASYNC / SPIN run
   in goroutines: all of them are outside this model (OutOfModel).

   [fault_join] is Model/Join.v's exec_join with the hook threaded into the ON-clause evaluator
   (JoinMatchFunc calls Expr, which reaches FunExpr when the ON expression contains a call outside
   a comparison — extractJoinColumns only inspects comparisons).  Caveat: FunExpr calls
   FuncArgReader WITHOUT the hard-coded-read option, so a column reference inside the arguments of
   a call in ON is looked up as a nested path in the flat key map and reads as NULL in the Go code,
   whereas [eval] keeps e_hard for the arguments; the model of calls in ON is therefore faithful for
   arguments without column references only (the harness generates literals there).
   Definitions only. *)
From Coq Require Import Floats.
From GenqlV Require Import Base.Prelude Base.Value Model.Ast Model.Eval Model.Exec Model.Join.
Local Open Scope list_scope.
Local Open Scope string_scope.

Inductive fault_kind := FkError | FkPanic.

Record trigger := { t_tag : value; t_arg : value; t_kind : fault_kind }.

Definition fault_outcome (k : fault_kind) : res raw :=
  match k with FkError => Err | FkPanic => Panic end.

(* does the pair (tag, x) fire?  [None] = the fault-free run *)
Definition fires (t : option trigger) (tag x : value) : option fault_kind :=
  match t with
  | Some tr => if veqb tag (t_tag tr) && veqb x (t_arg tr) then Some (t_kind tr) else None
  | None => None
  end.

Definition fault_fn (t : option trigger) (args : list value) : res raw :=
  match args with
  | [tag; x] => match fires t tag x with Some k => fault_outcome k | None => Ok (RVal x) end
  | [tag; x; ret] => match fires t tag x with Some k => fault_outcome k | None => Ok (RVal ret) end
  | _ => Err                                  (* the harness function rejects other arities *)
  end.

Definition raise_fn (args : list value) : res raw := Err.   (* Guard fails or the message is raised *)

Definition raise_when_fn (args : list value) : res raw :=
  match args with
  | [VBool true; _] => Err
  | [VBool false; _] => Ok ROmit
  | [_; _] => Err                             (* asNonNull[bool]: NULL or a non-bool condition *)
  | _ => Err                                  (* Guard(2, args) *)
  end.

Definition plain_qualifier (qual : string) : bool :=
  String.eqb qual "" || String.eqb qual "scoped".

Definition fault_call (t : option trigger) (qual name : string) (args : list value) (cur : row)
  : res raw :=
  if negb (plain_qualifier qual) then OutOfModel
  else if String.eqb name "fault" then fault_fn t args
  else if String.eqb name "raise" then raise_fn args
  else if String.eqb name "raise_when" then raise_when_fn args
  else OutOfModel.

(* ------------------------------------------------------------------ *)
(* ExecJoin with calls in the ON clause                                 *)
(* ------------------------------------------------------------------ *)

Section JoinWithCalls.
  Variable call : string -> string -> list value -> row -> res raw.

  Definition on_env_call (data : row) : env stmt :=
    {| e_data := VObj data;
       e_sub := fun _ _ => Err; e_exists := fun _ _ => Err;
       e_agg := fun _ _ _ => Err; e_call := call;
       e_hard := true |}.

  (* JoinMatchFunc for one left key group (Model/Join.v loop_match, hook threaded through) *)
  Definition loop_match_call (data : row) (inner : bool) (rightIdent : string) (on : expr stmt)
             (le : centry) (rcat : list centry) : res (list value) :=
    let '(_, (lkeys, lrows)) := le in
    let! per_right := mapM (fun re : centry =>
        let '(_, (rkeys, rrows)) := re in
        let! r := eval (on_env_call data) (obj_merge (obj_merge [] lkeys) rkeys) on in
        match r with
        | RVal (VBool true) => pairs lrows rrows
        | RVal (VBool false) => Ok []
        | _ => Err
        end) rcat in
    let out := List.concat per_right in
    match out with
    | [] => if inner then Ok [] else mapM (fun l => with_null l rightIdent) lrows
    | _ => Ok out
    end.

  (* Join.Exec (Model/Join.v exec_join) *)
  Definition fault_join (jt : jointype) (st : jstrategy) (lrows rrows : list value) (lid rid : string)
             (on : expr stmt) (data : row) : res (list value) :=
    if is_straight st && negb (match jt with JInner => true | _ => false end) then Err else
    let swap := match jt with JRight => negb (is_straight st) | _ => false end in
    let '(L, R, li, ri) := if swap then (rrows, lrows, rid, lid) else (lrows, rrows, lid, rid) in
    let inner := match jt with JInner => true | _ => false end in
    let! lcat := to_catalog L li ri on in
    let! rcat := to_catalog R ri li on in
    let use_hash := negb (is_straight st) && hash_join_analyze on in
    let! batches := mapM (fun le => if use_hash then hash_match inner ri le rcat
                                    else loop_match_call data inner ri on le rcat) lcat in
    Ok (List.concat batches).
End JoinWithCalls.

(* the model of New + Exec with the fault hook installed everywhere *)
Definition faulty_run (t : option trigger) (fuel : nat) (wrapped : bool) (doc : value) (q : stmt)
  : res (list value) :=
  api_run (fault_call t) (fault_join (fault_call t)) fuel wrapped doc q.
