(* Model/Num.v — the float64 / int64 arithmetic BinaryExpr and UnaryExpr perform (plsql.go).
   + - * / are the IEEE primitives.  DIV & | ^ << >> ~ go through int64(x): truncation toward zero
   for |x| < 2^63 (outside: implementation-defined in Go => OutOfModel), two's-complement wrap. *)
From Coq Require Import Floats.
From GenqlV Require Import Base.Prelude Base.Value.
Local Open Scope Z_scope.

Definition two63 : Z := 2 ^ 63.
Definition two64 : Z := 2 ^ 64.

Definition wrap64 (z : Z) : Z := ((z + two63) mod two64) - two63.

(* exact value of a finite double, truncated toward zero *)
Definition trunc_float (f : float) : option Z :=
  match float_dyadic f with
  | Some (m, e) => Some (if 0 <=? e then m * 2 ^ e else Z.quot m (2 ^ (- e)))
  | None => None
  end.

(* Go: int64(f) *)
Definition to_int64 (f : float) : res Z :=
  match trunc_float f with
  | Some z => if (- two63 <=? z) && (z <? two63) then Ok z else OutOfModel
  | None => OutOfModel
  end.

(* Go: float64(n) for an int64 n (round to nearest even) *)
Definition of_int64 (z : Z) : float :=
  if z =? - two63 then (-0x1p63)%float else float_of_Z z.

Definition int_binop (f : Z -> Z -> res Z) (x y : float) : res float :=
  let! a := to_int64 x in
  let! b := to_int64 y in
  let! r := f a b in
  Ok (of_int64 (wrap64 r)).

Definition go_shl (a n : Z) : res Z :=
  if n <? 0 then Panic else if 64 <=? n then Ok 0 else Ok (a * 2 ^ n).
Definition go_shr (a n : Z) : res Z :=
  if n <? 0 then Panic else if 64 <=? n then Ok (if a <? 0 then -1 else 0) else Ok (Z.shiftr a n).
Definition go_quot (a b : Z) : res Z :=
  if b =? 0 then Panic else Ok (Z.quot a b).

(* math.Mod: exact C fmod on finite operands; NaN for y = 0 or infinite x; x for infinite y *)
Definition go_fmod (x y : float) : res float :=
  match Prim2SF x, Prim2SF y with
  | S754_nan, _ | _, S754_nan => Ok nan
  | S754_infinity _, _ => Ok nan
  | _, S754_zero _ => Ok nan
  | _, S754_infinity _ => Ok x
  | S754_zero _, _ => Ok x
  | S754_finite sx mx ex, S754_finite sy my ey =>
      let e := Z.min ex ey in
      let X := Zpos mx * 2 ^ (ex - e) in
      let Y := Zpos my * 2 ^ (ey - e) in
      let R := Z.rem X Y in
      if R =? 0 then Ok (if sx then (-0)%float else 0%float)
      else if R <? 2 ^ 62 then
        let r := Z.ldexp (float_of_Z R) e in
        Ok (if sx then PrimFloat.opp r else r)
      else OutOfModel
  end.
