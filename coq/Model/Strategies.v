(* Model/Strategies.v — function execution strategies of plsql.go FunExpr (ASYNC / SPIN /
   SPINASYNC / ONCE / SCOPED / default), SelectExpr's slot post-processor, execAndPostProcess
   (exec; wg.Wait; post-processors) and the nested wait propagation
   (`query.wg.Add(1); go func(){ sub.wg.Wait(); query.wg.Done() }()` in BuildFromAliasedTable /
   SubqueryExpr / exec's inner dimensions), as a small concurrent machine.

   Two layers, definitions only:

   1. [compile]: what the MAIN goroutine does.  It evaluates rows x select items in order and is
      deterministic: before wg.Wait it reads nothing a worker writes (the -race stage of the check
      watches exactly this).  Its run is therefore a list of atomic actions — a synchronous call
      of a user function, the start of a worker goroutine (with wg.Add for ASYNC and SPINASYNC),
      the start of a forwarder goroutine for a nested query — followed by either "exec returned
      an error" or "Wait; post-processors; return".  The result under construction is a template
      whose ASYNC columns are slots (Go: the *any returned by FunExpr).
   2. [step]/[run]: the interleaving semantics.  Thread 0 is main, thread S n is the n-th
      goroutine started.  A schedule is a list of thread ids; a step that is not enabled (a
      thread that does not exist yet or has finished, wg.Wait at a non-zero counter) leaves the
      state unchanged, so EVERY list is a schedule and the enabled ones are the valid ones.
      User functions are an oracle [f : name -> args -> outcome]; their latency is the position
      of the worker's steps in the schedule.

   The model is of the repaired code (fixes/C14): goroutine bodies recover (D23), the error of an
   ASYNC call is returned by a post-processor (D60), inner dimensions hand their post-processors
   and their wait to the parent (D62), a slot's post-processor leaves a later column alone (D63). *)
From Coq Require Import Floats.
From GenqlV Require Import Base.Prelude Base.Value.
Local Open Scope string_scope.
Local Open Scope list_scope.

(* ------------------------------------------------------------------ *)
(* Queries                                                              *)
(* ------------------------------------------------------------------ *)

Inductive qual := QNone | QAsync | QSpin | QSpinAsync | QOnce | QScoped | QOther.

Inductive arg := ACol (c : string) | ALit (v : value).

(* a select item of a flat query: `c AS nm` or `QUAL.FN(args) AS nm` *)
Inductive fitem :=
| FCol (c : string) (nm : string)
| FCall (q : qual) (fn : string) (args : list arg) (nm : string).

Definition row := list (string * value).

(* FROM of a select-list subquery: `dual` (one row: the outer row) or a root table *)
Inductive subsrc := SDual | STable (rows : list row).

Inductive item :=
| IFlat (i : fitem)
| ISub (src : subsrc) (its : list fitem) (nm : string).      (* (SELECT its FROM src) AS nm *)

Inductive dproj := DStar | DCols (cols : list (string * string)).   (* `*`  |  d.c AS nm, ... *)

Inductive query :=
| QTable (rows : list row) (items : list item)                         (* SELECT items FROM t *)
| QDerived (rows : list row) (inner : list fitem) (alias : string) (p : dproj)
                                                   (* SELECT p FROM (SELECT inner FROM t) alias *)
| QMulti (dims : list (list row)) (items : list fitem).  (* SELECT items FROM m, m an array of arrays *)

(* ------------------------------------------------------------------ *)
(* Function registry (functions.go init(), regenerated and compared on   *)
(* every run: obligation structural:registry) and user functions         *)
(* ------------------------------------------------------------------ *)

(* (lower-cased name, registered with RegisterImmediateFunction?) in init() order *)
Definition registry : list (string * bool) :=
  [ ("sum", true); ("avg", true); ("min", true); ("max", true); ("count", true);
    ("concat", false); ("first", false); ("last", false); ("elementat", false);
    ("defaultkey", false); ("changetype", false); ("unwind", false); ("if", false);
    ("fuse", true); ("daterange", true); ("constant", true); ("getvar", true); ("setvar", true);
    ("raise_when", true); ("raise", true); ("report_when", true); ("report", true);
    ("hash", false); ("encode", false); ("decode", false); ("timestamp", true);
    ("array", false); ("to_lower", true); ("to_upper", true) ].

Fixpoint assoc {A} (k : string) (l : list (string * A)) : option A :=
  match l with
  | [] => None
  | (k', a) :: r => if String.eqb k k' then Some a else assoc k r
  end.

(* IsImmediateFunction: membership in immediateFunctions *)
Definition is_immediate (reg : list (string * bool)) (name : string) : bool :=
  existsb (fun e => String.eqb name (fst e) && snd e) reg.

(* functions[name] *)
Definition is_registered (reg : list (string * bool)) (name : string) : bool :=
  existsb (fun e => String.eqb name (fst e)) reg.

(* outcome of one invocation of a user function *)
Inductive fres := FOk (v : value) | FErr | FPanic.
Definition oracle := string -> list value -> fres.

Definition failed (r : fres) : bool := match r with FOk _ => false | _ => true end.

(* one invocation: where (row/item path), which function, which arguments *)
Record call := mkCall { c_tag : list nat; c_fn : string; c_args : list value }.

Definition apply_f (f : oracle) (c : call) : fres := f (c_fn c) (c_args c).

(* ------------------------------------------------------------------ *)
(* Templates: rows under construction                                   *)
(* ------------------------------------------------------------------ *)

Inductive cell :=
| CVal (v : value)
| CSlot (n : nat)                       (* the *any of the n-th goroutine started *)
| CObj (kvs : list (string * cell))
| CArr (l : list cell).

Definition trow := list (string * cell).

(* data[k] = c on a key-sorted association list *)
Fixpoint aset {A} (k : string) (c : A) (kvs : list (string * A)) : list (string * A) :=
  match kvs with
  | [] => [(k, c)]
  | (k', c') :: r =>
      match String.compare k k' with
      | Eq => (k, c) :: r
      | Lt => (k, c) :: (k', c') :: r
      | Gt => (k', c') :: aset k c r
      end
  end.

(* value of a slot after the wait *)
Definition slot_value (sl : list (option fres)) (n : nat) : value :=
  match nth_error sl n with
  | Some (Some (FOk v)) => v
  | _ => VNull
  end.

Fixpoint deref (sl : list (option fres)) (c : cell) : value :=
  match c with
  | CVal v => v
  | CSlot n => slot_value sl n
  | CObj kvs => VObj ((fix go (l : list (string * cell)) : list (string * value) :=
                         match l with [] => [] | (k, x) :: r => (k, deref sl x) :: go r end) kvs)
  | CArr l => VArr ((fix go (l : list cell) : list value :=
                       match l with [] => [] | x :: r => deref sl x :: go r end) l)
  end.

(* the post-processors: first the error of every ASYNC call (any one fails the query), then
   the slots are replaced by their values *)
Definition finalize (sl : list (option fres)) (t : cell) : res value :=
  if existsb (fun o => match o with Some r => failed r | None => false end) sl
  then Err else Ok (deref sl t).

(* ------------------------------------------------------------------ *)
(* Main-thread actions                                                  *)
(* ------------------------------------------------------------------ *)

Inductive wkind := WAsync | WSpinAsync | WSpin.
Definition counted (k : wkind) : bool := match k with WSpin => false | _ => true end.

(* inside one query (one WaitGroup) *)
Inductive mact := MSync (c : call) | MSpawn (k : wkind) (c : call).

(* a closed nested query execution = its actions, then the forwarder; root actions stand alone *)
Inductive block := BRoot (a : mact) | BSub (l : list mact).

(* flattened: WaitGroup ids are explicit; 0 is the query Exec was called on *)
Inductive action :=
| ASync (c : call)
| ASpawn (k : wkind) (g : nat) (c : call)      (* wg[g].Add(1) unless SPIN; go worker *)
| AFwd (g : nat).                               (* wg[0].Add(1); go { wg[g].Wait(); wg[0].Done() } *)

Definition lift (g : nat) (a : mact) : action :=
  match a with MSync c => ASync c | MSpawn k c => ASpawn k g c end.

Definition flat_block (g : nat) (b : block) : list action :=
  match b with
  | BRoot a => [lift 0 a]
  | BSub l => map (lift g) l ++ [AFwd g]
  end.

Fixpoint flatten_from (g : nat) (bs : list block) : list action :=
  match bs with
  | [] => []
  | b :: r => flat_block g b ++ flatten_from (S g) r
  end.

(* how main ends *)
Inductive fin := FinFail | FinPost (t : cell).

(* a compiled run of main: closed blocks, then either the actions of the nested query in which
   exec failed (no forwarder is started for it) or the template to post-process *)
Inductive prog :=
| PFail (bs : list block) (partial : list mact)
| PPost (bs : list block) (t : cell).

Definition prog_acts (p : prog) : list action :=
  match p with
  | PFail bs partial => flatten_from 1 bs ++ map (lift (S (List.length bs))) partial
  | PPost bs _ => flatten_from 1 bs
  end.
Definition prog_fin (p : prog) : fin :=
  match p with PFail _ _ => FinFail | PPost _ t => FinPost t end.

(* goroutine programs *)
Inductive wprog := WCall (k : wkind) (g : nat) (c : call) | WFwd (g : nat).

Definition spawned_by (a : action) : list wprog :=
  match a with
  | ASync _ => []
  | ASpawn k g c => [WCall k g c]
  | AFwd g => [WFwd g]
  end.
Definition spawned (acts : list action) : list wprog := flat_map spawned_by acts.

Definition sync_calls (acts : list action) : list call :=
  flat_map (fun a => match a with ASync c => [c] | _ => [] end) acts.

(* slot contents when every ASYNC call has run *)
Definition ideal_slot (f : oracle) (w : wprog) : option fres :=
  match w with WCall WAsync _ c => Some (apply_f f c) | _ => None end.
Definition ideal_slots (f : oracle) (acts : list action) : list (option fres) :=
  map (ideal_slot f) (spawned acts).

(* the result of main when nothing is concurrent: every goroutine runs to completion where it
   is started *)
Definition seq_result (f : oracle) (acts : list action) (e : fin) : res value :=
  match e with
  | FinFail => Err
  | FinPost t => finalize (ideal_slots f acts) t
  end.

(* ------------------------------------------------------------------ *)
(* The concurrent machine                                               *)
(* ------------------------------------------------------------------ *)

(* worker pc: 0 not yet called / waiting (forwarder), 1 function returned (result in w_tmp),
   2 result stored (slot written, error reported), 3 after wg.Done / finished *)
Record worker := mkW { w_prog : wprog; w_pc : nat; w_tmp : option fres; w_slot : option fres }.

Inductive phase := Running | Waited | Finished.

Record st := mkSt {
  m_done : list action;            (* executed by main, oldest first *)
  m_todo : list action;
  m_phase : phase;
  m_res : option (res value);      (* what Exec returned *)
  wgs : nat -> nat;                (* WaitGroup counters *)
  ws : list worker;                (* goroutines in start order *)
  log : list call;                 (* invocations of user functions, in time order *)
  rep : list call                  (* errors handed to options.errors *)
}.

Definition upd (m : nat -> nat) (g : nat) (v : nat) : nat -> nat :=
  fun h => if Nat.eqb h g then v else m h.

Definition init (acts : list action) : st :=
  mkSt [] acts Running None (fun _ => 0) [] [] [].

(* the WaitGroup a goroutine calls Done on *)
Definition target (w : wprog) : option nat :=
  match w with
  | WCall k g _ => if counted k then Some g else None
  | WFwd _ => Some 0
  end.

Definition new_worker (p : wprog) : worker := mkW p 0 None None.

Definition add_for (m : nat -> nat) (p : wprog) : nat -> nat :=
  match target p with Some g => upd m g (S (m g)) | None => m end.

Definition slots_of (l : list worker) : list (option fres) :=
  map (fun w => match w_prog w with WCall WAsync _ _ => w_slot w | _ => None end) l.

Definition main_step (e : fin) (s : st) : st :=
  match m_res s with
  | Some _ => s                                                     (* Exec has returned *)
  | None =>
    match m_todo s with
    | a :: rest =>
        let s1 := mkSt (m_done s ++ [a]) rest (m_phase s) None (wgs s) (ws s) (log s) (rep s) in
        match a with
        | ASync c => mkSt (m_done s1) rest (m_phase s) None (wgs s) (ws s) (log s ++ [c]) (rep s)
        | ASpawn k g c =>
            mkSt (m_done s1) rest (m_phase s) None (add_for (wgs s) (WCall k g c))
                 (ws s ++ [new_worker (WCall k g c)]) (log s) (rep s)
        | AFwd g =>
            mkSt (m_done s1) rest (m_phase s) None (add_for (wgs s) (WFwd g))
                 (ws s ++ [new_worker (WFwd g)]) (log s) (rep s)
        end
    | [] =>
        match e with
        | FinFail => mkSt (m_done s) [] (m_phase s) (Some Err) (wgs s) (ws s) (log s) (rep s)
        | FinPost t =>
            match m_phase s with
            | Running =>
                if Nat.eqb (wgs s 0) 0                               (* query.wg.Wait() *)
                then mkSt (m_done s) [] Waited None (wgs s) (ws s) (log s) (rep s)
                else s
            | _ => mkSt (m_done s) [] Finished (Some (finalize (slots_of (ws s)) t))
                        (wgs s) (ws s) (log s) (rep s)
            end
        end
    end
  end.

Fixpoint set_nth {A} (n : nat) (a : A) (l : list A) : list A :=
  match l, n with
  | [], _ => []
  | _ :: r, 0 => a :: r
  | x :: r, S k => x :: set_nth k a r
  end.

Definition done_on (m : nat -> nat) (p : wprog) : nat -> nat :=
  match target p with Some g => upd m g (Nat.pred (m g)) | None => m end.

Definition worker_step (f : oracle) (s : st) (n : nat) : st :=
  match nth_error (ws s) n with
  | None => s                                                        (* not started yet *)
  | Some w =>
    let put w' := set_nth n w' (ws s) in
    match w_prog w, w_pc w with
    | WCall k g c, 0 =>                                              (* function(query, current, nil, slice) *)
        mkSt (m_done s) (m_todo s) (m_phase s) (m_res s) (wgs s)
             (put (mkW (w_prog w) 1 (Some (apply_f f c)) (w_slot w))) (log s ++ [c]) (rep s)
    | WCall k g c, 1 =>                                              (* rs, err = ... / options.errors(err) *)
        mkSt (m_done s) (m_todo s) (m_phase s) (m_res s) (wgs s)
             (put (mkW (w_prog w) 2 (w_tmp w) (w_tmp w))) (log s)
             (match k, w_tmp w with
              | WAsync, _ => rep s
              | _, Some r => if failed r then rep s ++ [c] else rep s
              | _, None => rep s
              end)
    | WFwd g, 0 =>                                                   (* sub.wg.Wait() *)
        if Nat.eqb (wgs s g) 0
        then mkSt (m_done s) (m_todo s) (m_phase s) (m_res s) (wgs s)
                  (put (mkW (w_prog w) 2 None None)) (log s) (rep s)
        else s
    | p, 2 =>                                                        (* wg.Done() *)
        mkSt (m_done s) (m_todo s) (m_phase s) (m_res s) (done_on (wgs s) p)
             (put (mkW (w_prog w) 3 (w_tmp w) (w_slot w))) (log s) (rep s)
    | _, _ => s
    end
  end.

Definition step (f : oracle) (e : fin) (s : st) (t : nat) : st :=
  match t with
  | 0 => main_step e s
  | S n => worker_step f s n
  end.

Definition run (f : oracle) (acts : list action) (e : fin) (sched : list nat) : st :=
  fold_left (step f e) sched (init acts).

(* a step that changes nothing is not enabled; a valid schedule has enabled steps only *)
Definition enabled (f : oracle) (e : fin) (s : st) (t : nat) : Prop := step f e s t <> s.

Fixpoint valid_from (f : oracle) (e : fin) (s : st) (sched : list nat) : Prop :=
  match sched with
  | [] => True
  | t :: r => enabled f e s t /\ valid_from f e (step f e s t) r
  end.
Definition valid (f : oracle) (acts : list action) (e : fin) (sched : list nat) : Prop :=
  valid_from f e (init acts) sched.

(* every goroutine has finished and Exec has returned *)
Definition final (s : st) : Prop :=
  m_res s <> None /\ Forall (fun w => w_pc w = 3) (ws s).

(* ------------------------------------------------------------------ *)
(* FunExpr / SelectExpr on the main goroutine                           *)
(* ------------------------------------------------------------------ *)

Definition memo := list (string * value).    (* query.singletonExecutions, "once." entries *)

Definition eval_arg (r : row) (a : arg) : value :=
  match a with
  | ACol c => match lookup c r with Some v => v | None => VNull end   (* a missing key reads as nil *)
  | ALit v => v
  end.

Definition nspawn (l : list mact) : nat :=
  List.length (flat_map (fun a => match a with MSpawn _ _ => [tt] | _ => [] end) l).

(* FunExpr + the AliasedExpr case of SelectExpr for one item.
   Result: the actions performed, and None when an error is returned, otherwise the column
   (None for Ommit) and the memo.  [nw] = number of goroutines started so far (slot identity). *)
Definition eval_fitem (reg : list (string * bool)) (f : oracle) (tag : list nat) (r : row)
    (mm : memo) (nw : nat) (it : fitem) : list mact * option (option (string * cell) * memo) :=
  match it with
  | FCol c nm => ([], Some (Some (nm, CVal (eval_arg r (ACol c))), mm))
  | FCall q fn args nm =>
      if negb (is_registered reg fn) then ([], None)                       (* INVALID_FUNCTION *)
      else
        let imm := is_immediate reg fn in
        let c := mkCall tag fn (map (eval_arg r) args) in                  (* FuncArgReader *)
        match q with
        | QAsync =>
            if imm then ([], None)
            else ([MSpawn WAsync c], Some (Some (nm, CSlot nw), mm))
        | QSpin =>
            if imm then ([], None)
            else ([MSpawn WSpin c], Some (None, mm))                       (* Ommit *)
        | QSpinAsync =>
            if imm then ([], None)
            else ([MSpawn WSpinAsync c], Some (None, mm))
        | QOnce =>
            match assoc fn mm with
            | Some v => ([], Some (Some (nm, CVal v), mm))
            | None =>
                match apply_f f c with
                | FOk v => ([MSync c], Some (Some (nm, CVal v), (fn, v) :: mm))
                | _ => ([MSync c], None)
                end
            end
        | _ =>
            match apply_f f c with
            | FOk v => ([MSync c], Some (Some (nm, CVal v), mm))
            | _ => ([MSync c], None)
            end
        end
  end.

(* SelectExpr over the items of one row; [i] = index of the next item *)
Fixpoint eval_fitems (reg : list (string * bool)) (f : oracle) (tag : list nat) (i : nat) (r : row)
    (mm : memo) (nw : nat) (its : list fitem) (acc : trow) : list mact * option (trow * memo) :=
  match its with
  | [] => ([], Some (acc, mm))
  | it :: rest =>
      match eval_fitem reg f (tag ++ [i]) r mm nw it with
      | (a1, None) => (a1, None)
      | (a1, Some (oc, mm')) =>
          let acc' := match oc with Some (nm, c) => aset nm c acc | None => acc end in
          match eval_fitems reg f tag (S i) r mm' (nw + nspawn a1) rest acc' with
          | (a2, o) => (a1 ++ a2, o)
          end
      end
  end.

(* ExecSelect over the rows of a flat query; [j] = index of the next row *)
Fixpoint eval_rows (reg : list (string * bool)) (f : oracle) (tag : list nat) (j : nat)
    (mm : memo) (nw : nat) (its : list fitem) (rows : list row) : list mact * option (list trow * memo) :=
  match rows with
  | [] => ([], Some ([], mm))
  | r :: rest =>
      match eval_fitems reg f (tag ++ [j]) 0 r mm nw its [] with
      | (a1, None) => (a1, None)
      | (a1, Some (tr, mm')) =>
          match eval_rows reg f tag (S j) mm' (nw + nspawn a1) its rest with
          | (a2, None) => (a1 ++ a2, None)
          | (a2, Some (trs, mm'')) => (a1 ++ a2, Some (tr :: trs, mm''))
          end
      end
  end.

(* outcome of a piece of main's run at the root level *)
Record rout (A : Type) := mkRout { ro_blocks : list block; ro_partial : list mact; ro_val : option A }.
Arguments mkRout {A}.
Arguments ro_blocks {A}.
Arguments ro_partial {A}.
Arguments ro_val {A}.

Definition nworkers (bs : list block) : nat :=
  List.length (spawned (flatten_from 1 bs)).   (* the group ids do not matter for the count *)

Definition block_workers (b : block) : nat :=
  match b with BRoot a => nspawn [a] | BSub l => S (nspawn l) end.

(* a nested query: its own WaitGroup and memo; closed by the forwarder unless exec failed *)
Definition run_sub {A} (res : list mact * option A) : rout A :=
  match res with
  | (l, None) => mkRout [] l None
  | (l, Some a) => mkRout [BSub l] [] (Some a)
  end.

Definition objs (trs : list trow) : list cell := map CObj trs.

(* one item of the outer select list *)
Definition eval_item (reg : list (string * bool)) (f : oracle) (tag : list nat) (r : row)
    (mm : memo) (nw : nat) (it : item) : rout (option (string * cell) * memo) :=
  match it with
  | IFlat fi =>
      match eval_fitem reg f tag r mm nw fi with
      | (l, o) => mkRout (map BRoot l) [] o
      end
  | ISub src its nm =>                                                     (* SubqueryExpr *)
      match src with
      | SDual =>
          match run_sub (eval_fitems reg f (tag ++ [0]) 0 r [] nw its []) with
          | mkRout bs p None => mkRout bs p None
          | mkRout bs p (Some (tr, _)) => mkRout bs p (Some (Some (nm, CObj tr), mm))
          end
      | STable rows =>
          match run_sub (eval_rows reg f tag 0 [] nw its rows) with
          | mkRout bs p None => mkRout bs p None
          | mkRout bs p (Some (trs, _)) => mkRout bs p (Some (Some (nm, CArr (objs trs)), mm))
          end
      end
  end.

Definition sum_workers (bs : list block) : nat := fold_right (fun b n => block_workers b + n) 0 bs.

Fixpoint eval_items (reg : list (string * bool)) (f : oracle) (tag : list nat) (i : nat) (r : row)
    (mm : memo) (nw : nat) (its : list item) (acc : trow) : rout (trow * memo) :=
  match its with
  | [] => mkRout [] [] (Some (acc, mm))
  | it :: rest =>
      match eval_item reg f (tag ++ [i]) r mm nw it with
      | mkRout b1 p1 None => mkRout b1 p1 None
      | mkRout b1 p1 (Some (oc, mm')) =>
          let acc' := match oc with Some (nm, c) => aset nm c acc | None => acc end in
          match eval_items reg f tag (S i) r mm' (nw + sum_workers b1) rest acc' with
          | mkRout b2 p2 o => mkRout (b1 ++ b2) p2 o
          end
      end
  end.

Fixpoint eval_orows (reg : list (string * bool)) (f : oracle) (j : nat) (mm : memo) (nw : nat)
    (its : list item) (rows : list row) : rout (list trow * memo) :=
  match rows with
  | [] => mkRout [] [] (Some ([], mm))
  | r :: rest =>
      match eval_items reg f [j] 0 r mm nw its [] with
      | mkRout b1 p1 None => mkRout b1 p1 None
      | mkRout b1 p1 (Some (tr, mm')) =>
          match eval_orows reg f (S j) mm' (nw + sum_workers b1) its rest with
          | mkRout b2 p2 None => mkRout (b1 ++ b2) p2 None
          | mkRout b2 p2 (Some (trs, mm'')) => mkRout (b1 ++ b2) p2 (Some (tr :: trs, mm''))
          end
      end
  end.

(* inner dimensions: one copy of the query per inner array, ONCE results shared (D62) *)
Fixpoint eval_dims (reg : list (string * bool)) (f : oracle) (d : nat) (mm : memo) (nw : nat)
    (its : list fitem) (dims : list (list row)) : rout (list cell) :=
  match dims with
  | [] => mkRout [] [] (Some [])
  | rows :: rest =>
      match run_sub (eval_rows reg f [d] 0 mm nw its rows) with
      | mkRout b1 p1 None => mkRout b1 p1 None
      | mkRout b1 p1 (Some (trs, mm')) =>
          match eval_dims reg f (S d) mm' (nw + sum_workers b1) its rest with
          | mkRout b2 p2 None => mkRout (b1 ++ b2) p2 None
          | mkRout b2 p2 (Some cs) => mkRout (b1 ++ b2) p2 (Some (CArr (objs trs) :: cs))
          end
      end
  end.

(* the outer select over the rows {alias: inner row} of a derived table *)
Definition cell_lookup (c : string) (tr : trow) : cell :=
  match assoc c tr with Some x => x | None => CVal VNull end.

Definition project (alias : string) (p : dproj) (tr : trow) : trow :=
  match p with
  | DStar => [(alias, CObj tr)]
  | DCols cols => fold_left (fun acc cn => aset (snd cn) (cell_lookup (fst cn) tr) acc) cols []
  end.

Definition to_prog {A} (o : rout A) (mk : A -> cell) : prog :=
  match ro_val o with
  | None => PFail (ro_blocks o) (ro_partial o)
  | Some a => PPost (ro_blocks o) (mk a)
  end.

(* New + Exec on the main goroutine *)
Definition compile (reg : list (string * bool)) (f : oracle) (q : query) : prog :=
  match q with
  | QTable rows items =>
      to_prog (eval_orows reg f 0 [] 0 items rows) (fun x => CArr (objs (fst x)))
  | QDerived rows inner alias p =>
      to_prog (run_sub (eval_rows reg f [] 0 [] 0 inner rows))
              (fun x => CArr (objs (map (project alias p) (fst x))))
  | QMulti dims items =>
      to_prog (eval_dims reg f 0 [] 0 items dims) CArr
  end.

(* Exec under a schedule *)
Definition exec_sched (reg : list (string * bool)) (f : oracle) (q : query) (sched : list nat) : st :=
  let p := compile reg f q in run f (prog_acts p) (prog_fin p) sched.

(* Exec when every goroutine runs where it is started *)
Definition exec_seq (reg : list (string * bool)) (f : oracle) (q : query) : res value :=
  let p := compile reg f q in seq_result f (prog_acts p) (prog_fin p).
