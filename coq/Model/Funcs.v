(* Model/Funcs.v — code-shaped model of genql's built-in functions (/repo/functions.go) and of the
   call path  FunExpr -> FuncArgReader -> function  (plsql.go).  Definitions only.

   * Values are Base/Value.v [value]s.  Go values that are not JSON-like but can come out of a
     built-in are represented as single-key objects with a reserved key ("tagged" values):
       Go int n            VObj [("<<int>>",  VStr (decimal n))]      (CHANGETYPE(..,'integer'), COUNT)
       genql.Ommit(true)   VObj [("<<omit>>", VBool true)]            (SETVAR, REPORT, RAISE_WHEN ...)
       int64 (TIMESTAMP)   VObj [("<<int64>>", VNull)]                (value not modelled)
       genql.Fuse m        VObj [("<<fuse>>", VObj m)]
     A tagged value is not a []any, not a Map, not a string/float64/bool for AsType.
   * Every standard-library call is a field of the record [oracles]; nothing is assumed about them
     here.  The laws the theorems rely on are stated as explicit premises in Proofs/C18Lemmas.v.
     hex (encoding/hex) is implemented exactly.
   * [variant]: the model is written once; the few places where the pinned tree is defective are
     guarded by [repaired]:  [call Repaired] is the code with the fixes/C18 patches applied,
     [call Pinned] is the code as it is at the pinned commit (nil-pointer dereferences after
     AsType and ELEMENTAT's unchecked negative index are [Panic]s;
     DATERANGE assigns [from] twice and returns a []string). *)
From Coq Require Import Floats.
From GenqlV Require Import Base.Prelude Base.Fmt Base.Value.
Local Open Scope string_scope.

(* ------------------------------------------------------------------ *)
(* Oracles (standard library)                                          *)
(* ------------------------------------------------------------------ *)

(* outcome of a standard-library call: value, error, or "this instance does not know" *)
Inductive ores (A : Type) : Type := OOk (a : A) | OFail | OUnk.
Arguments OOk {A} a. Arguments OFail {A}. Arguments OUnk {A}.

Definition lift {A} (o : ores A) : res A :=
  match o with OOk a => Ok a | OFail => Err | OUnk => OutOfModel end.

Inductive hash_alg := Sha1 | Sha256 | Sha512 | Md5.

(* digest size in bytes *)
Definition digest_len (a : hash_alg) : nat :=
  match a with Sha1 => 20 | Sha256 => 32 | Sha512 => 64 | Md5 => 16 end.

Record oracles := {
  gob_ser   : value -> ores bytes;   (* gob.NewEncoder(buf).Encode(struct{Data any}{v}) *)
  gob_deser : bytes -> ores value;   (* gob.NewDecoder(buf).Decode(&struct{Data any}) *)
  b64_enc   : bytes -> bytes;        (* base64.URLEncoding.EncodeToString *)
  b64_dec   : bytes -> ores bytes;   (* base64.URLEncoding.DecodeString *)
  b32_enc   : bytes -> bytes;        (* base32.StdEncoding.EncodeToString *)
  b32_dec   : bytes -> ores bytes;   (* base32.StdEncoding.DecodeString *)
  hash_sum  : hash_alg -> bytes -> bytes;  (* h := X.New(); h.Write(b); h.Sum(nil) *)
  str_lower : bytes -> ores bytes;   (* strings.ToLower (never fails; OUnk = instance ignorant) *)
  str_upper : bytes -> ores bytes;   (* strings.ToUpper *)
  parse_float : bytes -> ores float; (* strconv.ParseFloat(s, 64) *)
  atoi      : bytes -> ores Z        (* strconv.Atoi *)
}.

(* ------------------------------------------------------------------ *)
(* encoding/hex, exactly                                               *)
(* ------------------------------------------------------------------ *)

Definition hex_digit (n : N) : ascii :=
  match n with
  | 0 => "0" | 1 => "1" | 2 => "2" | 3 => "3" | 4 => "4" | 5 => "5" | 6 => "6" | 7 => "7"
  | 8 => "8" | 9 => "9" | 10 => "a" | 11 => "b" | 12 => "c" | 13 => "d" | 14 => "e" | _ => "f"
  end%N%char.

(* hex.EncodeToString *)
Fixpoint hex_enc (s : string) : string :=
  match s with
  | EmptyString => EmptyString
  | String c r => let n := N_of_ascii c in
                  String (hex_digit (n / 16)%N) (String (hex_digit (n mod 16)%N) (hex_enc r))
  end.

(* fromHexChar: accepts 0-9 a-f A-F *)
Definition hex_val (c : ascii) : option N :=
  let n := N_of_ascii c in
  (if (48 <=? n) && (n <=? 57) then Some (n - 48)
   else if (97 <=? n) && (n <=? 102) then Some (n - 87)
   else if (65 <=? n) && (n <=? 70) then Some (n - 55)
   else None)%N.

(* hex.DecodeString: error on an invalid byte or odd length *)
Fixpoint hex_dec (s : string) : option string :=
  match s with
  | EmptyString => Some EmptyString
  | String a (String b r) =>
      match hex_val a, hex_val b, hex_dec r with
      | Some x, Some y, Some t => Some (String (ascii_of_N (x * 16 + y)%N) t)
      | _, _, _ => None
      end
  | String _ EmptyString => None
  end.

Definition opt_ores {A} (o : option A) : ores A := match o with Some a => OOk a | None => OFail end.

(* ------------------------------------------------------------------ *)
(* decimal numerals                                                     *)
(* ------------------------------------------------------------------ *)

Definition digit_val (c : ascii) : option N :=
  let n := N_of_ascii c in
  (if (48 <=? n) && (n <=? 57) then Some (n - 48) else None)%N.

(* all characters are digits: value and number of digits *)
Fixpoint digits_val (s : string) (acc : N) (cnt : nat) : option (N * nat) :=
  match s with
  | EmptyString => Some (acc, cnt)
  | String c r => match digit_val c with
                  | Some d => digits_val r (acc * 10 + d)%N (S cnt)
                  | None => None
                  end
  end.

Definition nat_dec (s : string) : option N :=
  match s with
  | EmptyString => None
  | _ => match digits_val s 0%N 0%nat with Some (n, _) => Some n | None => None end
  end.

(* optional sign, then at least one digit *)
Definition signed_dec (s : string) : option Z :=
  match s with
  | String "-" r => match nat_dec r with Some n => Some (- Z.of_N n)%Z | None => None end
  | String "+" r => match nat_dec r with Some n => Some (Z.of_N n) | None => None end
  | _ => match nat_dec s with Some n => Some (Z.of_N n) | None => None end
  end.

(* ------------------------------------------------------------------ *)
(* tagged (non-JSON) Go values                                          *)
(* ------------------------------------------------------------------ *)

Definition tag_int := "<<int>>".
Definition tag_omit := "<<omit>>".
Definition tag_i64 := "<<int64>>".
Definition tag_fuse := "<<fuse>>".
Definition tag_leak := "<<leak>>".

Definition vint (z : Z) : value := VObj [(tag_int, VStr (Z_to_dec z))].
Definition vomit : value := VObj [(tag_omit, VBool true)].
Definition vint64_opaque : value := VObj [(tag_i64, VNull)].
Definition vfuse (m : list (string * value)) : value := VObj [(tag_fuse, VObj m)].

Definition is_tag (k : string) : bool :=
  String.eqb k tag_int || String.eqb k tag_omit || String.eqb k tag_i64 || String.eqb k tag_fuse
  || String.eqb k tag_leak.

Definition is_tagged_obj (kvs : list (string * value)) : bool :=
  match kvs with [(k, _)] => is_tag k | _ => false end.

(* fmt %v of a tagged value: Some r if [kvs] is tagged (r = None: text not modelled) *)
Definition fmt_tagged (kvs : list (string * value)) : option (option string) :=
  match kvs with
  | [(k, p)] =>
      if String.eqb k tag_int then Some (match p with VStr s => Some s | _ => None end)
      else if String.eqb k tag_omit then Some (match p with VBool true => Some "true" | VBool false => Some "false" | _ => None end)
      else if is_tag k then Some None
      else None
  | _ => None
  end.

(* fmt.Sprintf("%v", v) for JSON-like and tagged values; None = outside the modelled class of
   number formatting (Base/Fmt.v) *)
Fixpoint fmt_gv (v : value) : option string :=
  match v with
  | VNull => Some "<nil>"
  | VBool true => Some "true"
  | VBool false => Some "false"
  | VNum f => fmt_float f
  | VStr s => Some s
  | VArr l =>
      match sequence_opt (map fmt_gv l) with
      | Some parts => Some ("[" ++ join_sp parts ++ "]")
      | None => None
      end
  | VObj kvs =>
      match fmt_tagged kvs with
      | Some r => r
      | None =>
          match sequence_opt (map (fun kv => match fmt_gv (snd kv) with
                                             | Some s => Some (fst kv ++ ":" ++ s)
                                             | None => None end) kvs) with
          | Some parts => Some ("map[" ++ join_sp parts ++ "]")
          | None => None
          end
      end
  end.

Definition sprint (v : value) : res string :=
  match fmt_gv v with Some s => Ok s | None => OutOfModel end.

(* ------------------------------------------------------------------ *)
(* query context the functions read                                     *)
(* ------------------------------------------------------------------ *)

Record fctx := {
  consts : option (list (string * value));   (* query.options.constants (nil map = None) *)
  vars   : option (list (string * value))    (* query.options.vars      (nil map = None) *)
}.

Inductive variant := Pinned | Repaired.

(* ------------------------------------------------------------------ *)
(* names, tables                                                        *)
(* ------------------------------------------------------------------ *)

Definition hash_alg_of (name : string) : option hash_alg :=
  if String.eqb name "sha1" then Some Sha1
  else if String.eqb name "sha256" then Some Sha256
  else if String.eqb name "sha512" then Some Sha512
  else if String.eqb name "md5" then Some Md5
  else None.


Inductive base := B64 | B32 | Hex.
Definition base_of (name : string) : option base :=
  if String.eqb name "base64" then Some B64
  else if String.eqb name "base32" then Some B32
  else if String.eqb name "hex" then Some Hex
  else None.


Inductive builtin :=
| BSum | BAvg | BMin | BMax | BCount | BConcat | BFirst | BLast | BElementAt | BDefaultKey
| BChangeType | BUnwind | BIf | BFuse | BDateRange | BConstant | BGetVar | BSetVar
| BRaiseWhen | BRaise | BReportWhen | BReport | BHash | BEncode | BDecode | BTimestamp
| BArray | BToLower | BToUpper.

(* name, function, registered with RegisterImmediateFunction? — in init() order *)
Definition registry_table : list (string * (builtin * bool)) :=
  [ ("sum", (BSum, true)); ("avg", (BAvg, true)); ("min", (BMin, true)); ("max", (BMax, true));
    ("count", (BCount, true)); ("concat", (BConcat, false)); ("first", (BFirst, false));
    ("last", (BLast, false)); ("elementat", (BElementAt, false)); ("defaultkey", (BDefaultKey, false));
    ("changetype", (BChangeType, false)); ("unwind", (BUnwind, false)); ("if", (BIf, false));
    ("fuse", (BFuse, true)); ("daterange", (BDateRange, true)); ("constant", (BConstant, true));
    ("getvar", (BGetVar, true)); ("setvar", (BSetVar, true)); ("raise_when", (BRaiseWhen, true));
    ("raise", (BRaise, true)); ("report_when", (BReportWhen, true)); ("report", (BReport, true));
    ("hash", (BHash, false)); ("encode", (BEncode, false)); ("decode", (BDecode, false));
    ("timestamp", (BTimestamp, true)); ("array", (BArray, false)); ("to_lower", (BToLower, true));
    ("to_upper", (BToUpper, true)) ].

Fixpoint assoc {A} (k : string) (l : list (string * A)) : option A :=
  match l with
  | [] => None
  | (k', a) :: r => if String.eqb k k' then Some a else assoc k r
  end.

Definition lookup_builtin (name : string) : option builtin :=
  match assoc name registry_table with Some (b, _) => Some b | None => None end.

(* the argument count Guard demands; None = variadic (no Guard) *)
Definition arity (b : builtin) : option nat :=
  match b with
  | BConcat | BArray | BCount => None
  | BTimestamp => Some 0
  | BElementAt | BChangeType | BDateRange | BSetVar | BRaiseWhen | BReportWhen
  | BHash | BEncode | BDecode => Some 2
  | BIf => Some 3
  | _ => Some 1
  end%nat.


Definition ascii_lower_char (c : ascii) : ascii :=
  let n := N_of_ascii c in
  if ((65 <=? n) && (n <=? 90))%N then ascii_of_N (n + 32) else c.
Fixpoint ascii_lower (s : string) : string :=
  match s with EmptyString => EmptyString | String c r => String (ascii_lower_char c) (ascii_lower r) end.


(* argument expressions: a value (literal / column / constant of the document) or a nested call *)
Inductive fexpr :=
| Lit (v : value)
| Call (name : string) (args : list fexpr).


(* AggrFunExpr (plsql.go): SUM/AVG/MIN/MAX/COUNT are parsed as aggregate functions; their result
   passes through AsNumber, which turns the Go int COUNT returns into a float64 *)
Definition is_aggr_name (n : string) : bool :=
  String.eqb n "sum" || String.eqb n "avg" || String.eqb n "min" || String.eqb n "max" || String.eqb n "count".

Definition as_number (v : value) : value :=
  match v with
  | VObj [(k, VStr d)] =>
      if String.eqb k tag_int then
        match signed_dec d with Some z => VNum (float_of_Z z) | None => v end
      else v
  | _ => v
  end.

Section Funcs.
  Variable V : variant.
  Variable O : oracles.
  Variable C : fctx.

  Definition repaired : bool := match V with Repaired => true | Pinned => false end.

  (* ---- Guard(n, args) ---- *)
  Definition guard (n : nat) (args : list value) : res unit :=
    if Nat.ltb (List.length args) n then Err          (* too few arguments *)
    else if Nat.ltb n (List.length args) then Err     (* too many arguments *)
    else Ok tt.

  (* args[i]; the index is in range after Guard — an unchecked Go index otherwise *)
  Definition arg (i : nat) (args : list value) : res value :=
    match nth_error args i with Some v => Ok v | None => Panic end.

  (* ---- AsType[T](v) : ( *T, error ) ----
     (nil, nil) for a nil value; (&t, nil) when v has dynamic type T; (new(T), INVALID_CAST) else.
     [Ok None] is the nil pointer. *)
  Definition as_arr (v : value) : res (option (list value)) :=
    match v with VNull => Ok None | VArr l => Ok (Some l) | _ => Err end.
  Definition as_num (v : value) : res (option float) :=
    match v with VNull => Ok None | VNum f => Ok (Some f) | _ => Err end.
  Definition as_str (v : value) : res (option string) :=
    match v with VNull => Ok None | VStr s => Ok (Some s) | _ => Err end.
  Definition as_bool (v : value) : res (option bool) :=
    match v with VNull => Ok None | VBool b => Ok (Some b) | _ => Err end.
  Definition as_any (v : value) : res (option value) :=          (* T = any: never INVALID_CAST *)
    match v with VNull => Ok None | _ => Ok (Some v) end.
  Definition as_map (v : value) : res (option (list (string * value))) :=
    match v with
    | VNull => Ok None
    | VObj kvs => if is_tagged_obj kvs then Err else Ok (Some kvs)
    | _ => Err
    end.

  (* the repaired code rejects NULL where the pointer is dereferenced unconditionally
     (asNonNull[T] in fixes/C18/D41b); the pinned code carries the nil pointer on *)
  Definition non_null {T} (r : res (option T)) : res (option T) :=
    match r with
    | Ok None => if repaired then Err else Ok None
    | x => x
    end.

  (* *p : nil-pointer dereference is a run-time panic *)
  Definition deref {T} (p : option T) : res T :=
    match p with Some t => Ok t | None => Panic end.

  (* ---- ToFloat64 / ToInt : strconv on the %v text ---- *)
  Definition to_float64 (v : value) : res float :=
    let! s := sprint v in lift (parse_float O s).
  Definition to_int (v : value) : res Z :=
    let! s := sprint v in lift (atoi O s).

  (* ---- SUM / AVG / MIN / MAX ---- *)
  (* the loop: skip nil, ToFloat64 every other item, fold *)
  Fixpoint num_fold (step : float -> float -> float) (acc : float) (all_null : bool) (l : list value)
    : res (float * bool) :=
    match l with
    | [] => Ok (acc, all_null)
    | VNull :: r => num_fold step acc all_null r
    | x :: r => let! n := to_float64 x in num_fold step (step acc n) false r
    end.

  Definition max_float64 : float := 0x1.fffffffffffffp+1023%float.

  Definition aggr_func (init : float) (step : float -> float -> float)
             (fin : float -> list value -> float) (args : list value) : res value :=
    let! tt := guard 1 args in
    let! a0 := arg 0 args in
    let! p := non_null (as_arr a0) in
    let! l := deref p in
    let! (acc, all_null) := num_fold step init true l in
    if all_null then Ok VNull else Ok (VNum (fin acc l)).

  Definition sum_func := aggr_func 0%float PrimFloat.add (fun a _ => a).
  Definition avg_func := aggr_func 0%float PrimFloat.add
    (fun a l => PrimFloat.div a (float_of_Z (Z.of_nat (List.length l)))).
  Definition min_func := aggr_func max_float64 (fun acc n => if PrimFloat.ltb n acc then n else acc) (fun a _ => a).
  Definition max_func := aggr_func (PrimFloat.opp max_float64) (fun acc n => if PrimFloat.ltb acc n then n else acc) (fun a _ => a).

  (* COUNT: with no argument it reads current["*"] / query.from (C03's business): out of model *)
  Definition count_func (args : list value) : res value :=
    match args with
    | [] => OutOfModel
    | a0 :: _ =>
        let! p := non_null (as_arr a0) in
        let! l := deref p in
        Ok (vint (Z.of_nat (List.length l)))
    end.

  (* ---- CONCAT: Sprintf("%v") of every argument, NULL included (prints <nil>: D42) ---- *)
  Fixpoint concat_loop (buf : string) (args : list value) : res string :=
    match args with
    | [] => Ok buf
    | a :: r => let! s := sprint a in concat_loop (buf ++ s) r
    end.
  Definition concat_func (args : list value) : res value :=
    let! s := concat_loop "" args in Ok (VStr s).

  (* ---- FIRST / LAST / ELEMENTAT ---- *)
  (* slice[i] (through the pointer) : unchecked index *)
  Definition index_at (l : list value) (i : Z) : res value :=
    if (i <? 0)%Z then Panic
    else match nth_error l (Z.to_nat i) with Some v => Ok v | None => Panic end.

  Definition first_func (args : list value) : res value :=
    let! tt := guard 1 args in
    let! a0 := arg 0 args in
    match a0 with
    | VNull => Ok VNull
    | _ =>
        let! p := as_arr a0 in
        let! l := deref p in
        if Nat.ltb 0 (List.length l) then index_at l 0 else Ok VNull
    end.

  Definition last_func (args : list value) : res value :=
    let! tt := guard 1 args in
    let! a0 := arg 0 args in
    match a0 with
    | VNull => Ok VNull
    | _ =>
        let! p := as_arr a0 in
        let! l := deref p in
        let len := Z.of_nat (List.length l) in
        if (0 <? len)%Z then index_at l (len - 1) else Ok VNull
    end.

  (* int(f) for a float64 f as compiled on amd64: truncation toward zero; NaN, infinities and
     values outside int64 give the "integer indefinite" value -2^63 *)
  Definition go_int_of_float (f : float) : Z :=
    match Prim2SF f with
    | S754_zero _ => 0%Z
    | S754_finite s m e =>
        let a := (if 0 <=? e then Zpos m * 2 ^ e else Zpos m / 2 ^ (- e))%Z in
        let z := (if s then - a else a)%Z in
        if ((- 2 ^ 63 <=? z) && (z <? 2 ^ 63))%Z then z else (- 2 ^ 63)%Z
    | _ => (- 2 ^ 63)%Z
    end.

  Definition elementat_func (args : list value) : res value :=
    let! tt := guard 2 args in
    let! a0 := arg 0 args in
    match a0 with
    | VNull => Ok VNull
    | _ =>
        let! p := as_arr a0 in
        let! a1 := arg 1 args in
        let! q := non_null (as_num a1) in
        let! l := deref p in
        let! f := deref q in
        let index := go_int_of_float f in
        let len := Z.of_nat (List.length l) in
        if repaired then
          (* if index >= 0 && len(slice) > index *)
          if ((0 <=? index) && (index <? len))%Z then index_at l index else Err
        else
          (* if len(slice) > index *)
          if (index <? len)%Z then index_at l index else Err
    end.

  (* ---- DEFAULTKEY ---- *)
  Definition defaultkey_func (args : list value) : res value :=
    let! tt := guard 1 args in
    let! a0 := arg 0 args in
    match a0 with
    | VNull => Ok VNull
    | _ =>
        let! p := as_map a0 in
        let! m := deref p in
        match m with
        | [(_, v)] => Ok v
        | _ => Err          (* multiple keys / no key *)
        end
    end.

  (* ---- CHANGETYPE ---- *)
  Definition changetype_func (args : list value) : res value :=
    let! tt := guard 2 args in
    let! a0 := arg 0 args in
    let! pv := as_any a0 in
    match pv with
    | None => Ok VNull
    | Some v =>
        let! a1 := arg 1 args in
        let! pt := non_null (as_str a1) in
        let! t := deref pt in
        let! tl := lift (str_lower O t) in
        if String.eqb tl "array" then Ok (VArr [v])
        else if String.eqb tl "string" then (let! s := sprint v in Ok (VStr s))
        else if String.eqb tl "double" then (let! f := to_float64 v in Ok (VNum f))
        else if String.eqb tl "integer" then (let! z := to_int v in Ok (vint z))
        else Err
    end.

  (* ---- UNWIND: output = append(output, item...) / append(output, item) ---- *)
  Definition unwind_step (output : list value) (item : value) : list value :=
    match item with
    | VArr inner => (output ++ inner)%list
    | _ => (output ++ [item])%list
    end.

  Definition unwind_func (args : list value) : res value :=
    let! tt := guard 1 args in
    let! a0 := arg 0 args in
    match a0 with
    | VNull => Ok VNull
    | _ =>
        let! p := as_arr a0 in
        let! l := deref p in
        Ok (VArr (fold_left unwind_step l []))
    end.

  (* ---- IF ---- *)
  Definition if_func (args : list value) : res value :=
    let! tt := guard 3 args in
    let! a0 := arg 0 args in
    let! pc := non_null (as_bool a0) in
    let! a1 := arg 1 args in
    let! wt := as_any a1 in
    let! a2 := arg 2 args in
    let! wf := as_any a2 in
    let! c := deref pc in
    if c then match wt with None => Ok VNull | Some x => Ok x end
    else match wf with None => Ok VNull | Some y => Ok y end.

  (* ---- FUSE ---- *)
  Definition fuse_func (args : list value) : res value :=
    let! tt := guard 1 args in
    let! a0 := arg 0 args in
    match a0 with
    | VNull => Ok VNull
    | VObj kvs => if is_tagged_obj kvs then Err else Ok (vfuse kvs)
    | _ => Err
    end.

  (* ---- DATERANGE ---- *)
  Definition daterange_func (args : list value) : res value :=
    let! tt := guard 2 args in
    let! a0 := arg 0 args in
    let! a1 := arg 1 args in
    let! from := match a0 with VNull => Ok "" | _ => sprint a0 end in
    if repaired then
      let! to := match a1 with VNull => Ok "" | _ => sprint a1 end in
      Ok (VArr [VStr from; VStr to])
    else
      (* pinned: the second assignment also goes to [from]; the result is a []string *)
      let! from' := match a1 with VNull => Ok from | _ => sprint a1 end in
      Ok (VObj [(tag_leak, VStr "[]string")]).

  (* ---- CONSTANT ---- *)
  Definition constant_func (args : list value) : res value :=
    let! tt := guard 1 args in
    match consts C with
    | None => Err                       (* constants not initialized *)
    | Some m =>
        let! a0 := arg 0 args in
        let! key := sprint a0 in
        match lookup key m with Some v => Ok v | None => Err end
    end.

  (* ---- GETVAR / SETVAR (the state change itself is C20's; only the result is modelled) ---- *)
  Definition getvar_func (args : list value) : res value :=
    let! tt := guard 1 args in
    let! a0 := arg 0 args in
    let! key := sprint a0 in
    match vars C with
    | None => Ok VNull                  (* reading a nil map *)
    | Some m => match lookup key m with Some v => Ok v | None => Ok VNull end
    end.

  Definition setvar_func (args : list value) : res value :=
    let! tt := guard 2 args in
    let! a0 := arg 0 args in
    let! key := sprint a0 in
    match vars C with
    | None => Panic          (* assignment to entry in nil map — in BOTH variants: a query built
                                without WithVars has no variable map; exec's recover frame turns
                                the panic into an error at the API level (not a C18 defect) *)
    | Some _ => Ok vomit
    end.

  (* ---- RAISE_WHEN / RAISE / REPORT_WHEN / REPORT ---- *)
  Definition raise_when_func (args : list value) : res value :=
    let! tt := guard 2 args in
    let! a0 := arg 0 args in
    let! pc := non_null (as_bool a0) in
    let! c := deref pc in
    if c then Err else Ok vomit.

  Definition raise_func (args : list value) : res value :=
    let! tt := guard 1 args in Err.

  Definition report_when_func (args : list value) : res value :=
    let! tt := guard 2 args in
    let! a0 := arg 0 args in
    let! pc := non_null (as_bool a0) in
    let! c := deref pc in
    Ok vomit.

  Definition report_func (args : list value) : res value :=
    let! tt := guard 1 args in Ok vomit.

  (* ---- TO_LOWER / TO_UPPER ---- *)
  Definition case_func (f : bytes -> ores bytes) (args : list value) : res value :=
    let! tt := guard 1 args in
    let! a0 := arg 0 args in
    let! p := non_null (as_str a0) in
    let! s := deref p in
    let! r := lift (f s) in
    Ok (VStr r).
  Definition to_lower_func := case_func (str_lower O).
  Definition to_upper_func := case_func (str_upper O).

  (* ---- HASH ---- *)
  Definition hash_func (args : list value) : res value :=
    let! tt := guard 2 args in
    let! a0 := arg 0 args in
    let! buffer := lift (gob_ser O a0) in
    let! a1 := arg 1 args in
    let! pf := non_null (as_str a1) in
    let! name := deref pf in
    let! nl := lift (str_lower O name) in
    match hash_alg_of nl with
    | Some a => Ok (VStr (hex_enc (hash_sum O a buffer)))
    | None => Err
    end.

  (* ---- ENCODE / DECODE ---- *)
  Definition encode_func (args : list value) : res value :=
    let! tt := guard 2 args in
    let! a0 := arg 0 args in
    let! buffer := lift (gob_ser O a0) in
    let! a1 := arg 1 args in
    let! pb := non_null (as_str a1) in
    let! name := deref pb in
    let! nl := lift (str_lower O name) in
    match base_of nl with
    | Some B64 => Ok (VStr (b64_enc O buffer))
    | Some B32 => Ok (VStr (b32_enc O buffer))
    | Some Hex => Ok (VStr (hex_enc buffer))
    | None => Err
    end.

  Definition decode_func (args : list value) : res value :=
    let! tt := guard 2 args in
    let! a0 := arg 0 args in
    let! pd := non_null (as_str a0) in
    let! a1 := arg 1 args in
    let! pb := non_null (as_str a1) in
    let! name := deref pb in
    let! nl := lift (str_lower O name) in
    let! buffer :=
      match base_of nl with
      | Some B64 => let! data := deref pd in lift (b64_dec O data)
      | Some B32 => let! data := deref pd in lift (b32_dec O data)
      | Some Hex => let! data := deref pd in lift (opt_ores (hex_dec data))
      | None => Err
      end in
    lift (gob_deser O buffer).

  (* ---- ARRAY / TIMESTAMP ---- *)
  Definition array_func (args : list value) : res value := Ok (VArr args).

  Definition timestamp_func (args : list value) : res value :=
    let! tt := guard 0 args in Ok vint64_opaque.

  (* ---------------------------------------------------------------- *)
  (* the registration table (functions.go init)                        *)
  (* ---------------------------------------------------------------- *)

  Definition call_builtin (b : builtin) (args : list value) : res value :=
    match b with
    | BSum => sum_func args | BAvg => avg_func args | BMin => min_func args | BMax => max_func args
    | BCount => count_func args | BConcat => concat_func args | BFirst => first_func args
    | BLast => last_func args | BElementAt => elementat_func args
    | BDefaultKey => defaultkey_func args | BChangeType => changetype_func args
    | BUnwind => unwind_func args | BIf => if_func args | BFuse => fuse_func args
    | BDateRange => daterange_func args | BConstant => constant_func args
    | BGetVar => getvar_func args | BSetVar => setvar_func args
    | BRaiseWhen => raise_when_func args | BRaise => raise_func args
    | BReportWhen => report_when_func args | BReport => report_func args
    | BHash => hash_func args | BEncode => encode_func args | BDecode => decode_func args
    | BTimestamp => timestamp_func args | BArray => array_func args
    | BToLower => to_lower_func args | BToUpper => to_upper_func args
    end.

  (* ---------------------------------------------------------------- *)
  (* FunExpr: look the lowered name up, read the arguments, call        *)
  (* ---------------------------------------------------------------- *)

  (* ASCII lower-casing of the function name (sqlparser's IdentifierCI.Lowered on the names the
     generators produce) *)
  (* functions[name](query, current, nil, args); unknown name: INVALID_FUNCTION *)
  Definition call (name : string) (args : list value) : res value :=
    match lookup_builtin (ascii_lower name) with
    | Some b => call_builtin b args
    | None => Err
    end.

  (* FunExpr / AggrFunExpr with FuncArgReader: evaluate the arguments left to right, stop at the
     first error, call.  Not modelled (the generators keep away from it): the per-query memo of
     aggregate calls, AggrFuncArgReader's special reading of column arguments, the ASYNC / SPIN /
     ONCE / GLOBAL qualifiers and AWAIT. *)
  Fixpoint eval (e : fexpr) : res value :=
    match e with
    | Lit v => Ok v
    | Call name args =>
        let! vs := (fix args_loop (l : list fexpr) : res (list value) :=
                      match l with
                      | [] => Ok []
                      | a :: r => let! v := eval a in let! vs := args_loop r in Ok (v :: vs)
                      end) args in
        let! r := call name vs in
        Ok (if is_aggr_name (ascii_lower name) then as_number r else r)
    end.

End Funcs.

(* (name, immediate?) as the translator prints it *)
Definition registry : list (string * bool) :=
  map (fun e => (fst e, snd (snd e))) registry_table.
