(* Model/Vars.v — the variable store of functions.go (GetVarFunc / SetVarFunc on Options.vars) and
   the order in which plsql.go reaches it: exec() evaluates WHERE for every source row first, then
   ExecSelect visits the surviving rows in source order and SelectExpr visits the select items left
   to right; FunExpr's default branch evaluates a call's arguments left to right (FuncArgReader)
   and only then calls the function.  The map is the CALLER's map (WithVars stores the reference),
   so it persists across queries; without WithVars it is a nil map: reads find nothing, a write
   panics and exec()'s recover turns the panic into an error.

   The pure evaluator of Model/Eval.v cannot thread state, so this file layers a small stateful
   interpreter on it: the store is an explicit argument and result, and Eval's [e_call] hook is
   instantiated with a READ-ONLY view of the current store (GETVAR inside an expression).  A
   SETVAR can therefore only be modelled where its result, the Ommit marker, reaches SelectExpr
   unchanged: as a whole select item ([VSet]), or as a branch result of a CASE expression that is
   itself a whole select item ([VCase]: CaseExpr evaluates the WHEN conditions in order, returns
   what the first arm whose condition is true evaluates to - for a SETVAR call the marker, after
   the store was updated - and SelectExpr then adds no column for the item on that row).  Anywhere
   else the model answers OutOfModel.
   Definitions only. *)
From Coq Require Import Floats.
From GenqlV Require Import Base.Prelude Base.Fmt Base.Value Model.Ast Model.Eval.

Definition store := list (string * value).   (* map[string]any, canonical form: sorted by key *)
Definition vars := option store.             (* None = Options.vars is nil (no WithVars) *)

(* ------------------------------------------------------------------ *)
(* functions.go                                                         *)
(* ------------------------------------------------------------------ *)

(* Guard(n, args) *)
Definition guard (n : nat) (args : list value) : res unit :=
  if Nat.eqb (List.length args) n then Ok tt else Err.

(* key := fmt.Sprintf("%v", args[0]) *)
Definition key_of (v : value) : res string := fmt_res v.

(* value, ok := vars[key]; a nil map reads as an empty one; a stored nil and a missing key both
   come back as nil *)
Definition map_get (k : string) (m : vars) : value :=
  match m with
  | None => VNull
  | Some st => match lookup k st with Some v => v | None => VNull end
  end.

(* vars[key] = value; assignment to an entry of a nil map panics *)
Definition map_put (k : string) (v : value) (m : vars) : res vars :=
  match m with
  | None => Panic
  | Some st => Ok (Some (obj_set k v st))
  end.

Definition get_var_func (m : vars) (args : list value) : res raw :=
  let! _ := guard 1 args in
  match args with
  | a :: _ => let! k := key_of a in Ok (RVal (map_get k m))
  | [] => Panic                                   (* args[0]: excluded by Guard *)
  end.

Definition set_var_func (m : vars) (args : list value) : res (raw * vars) :=
  let! _ := guard 2 args in
  match args with
  | a :: v :: _ => let! k := key_of a in
                   let! m' := map_put k v m in
                   Ok (ROmit, m')                 (* return Ommit(true), nil *)
  | _ => Panic                                    (* args[0], args[1]: excluded by Guard *)
  end.

(* ------------------------------------------------------------------ *)
(* plsql.go                                                             *)
(* ------------------------------------------------------------------ *)

Section Vars.
  Variable Q : Type.          (* subqueries: never evaluated here *)
  Variable data : value.      (* query.data, the document *)

  (* what a CASE arm (or ELSE) evaluates to *)
  Inductive branch :=
  | BExpr (e : expr Q)                  (* e                   : e contains no call *)
  | BSet (k e : expr Q).                (* SETVAR(k, e)        : e may contain GETVAR calls *)

  Inductive item :=
  | VSet (k e : expr Q)                 (* SETVAR(k, e)        : e may contain GETVAR calls *)
  | VGet (k : expr Q) (name : string)   (* GETVAR(k) AS name *)
  | VPure (e : expr Q) (name : string)  (* e AS name           : e contains no call *)
  | VCase (whens : list (expr Q * branch)) (els : option branch) (name : string).
      (* CASE WHEN c1 THEN b1 ... [ELSE b] END AS name : the conditions may contain GETVAR calls *)

  Record query := { q_where : option (expr Q); q_items : list item }.

  (* FunExpr, default branch, seen through Eval's hook (arguments already evaluated).  Inside an
     expression only GETVAR is modelled. *)
  Definition call_pure : string -> string -> list value -> row -> res raw :=
    fun _ _ _ _ => OutOfModel.
  Definition call_rd (m : vars) : string -> string -> list value -> row -> res raw :=
    fun qual name args _ =>
      if (String.eqb qual "" && String.eqb name "getvar")%bool then get_var_func m args
      else OutOfModel.

  Definition mk_env (call : string -> string -> list value -> row -> res raw) : env Q :=
    Build_env data (fun _ _ => OutOfModel) (fun _ _ => OutOfModel) (fun _ _ _ => OutOfModel)
              call false.
  Definition env_pure : env Q := mk_env call_pure.
  Definition env_rd (m : vars) : env Q := mk_env (call_rd m).

  (* FuncArgReader, one argument: Expr then ValueOf *)
  Definition arg (E : env Q) (cur : row) (e : expr Q) : res value :=
    let! r := eval E cur e in value_of cur r.

  (* the tail of SelectExpr's AliasedExpr case: Ommit => continue, else data[name] = ValueOf(..) *)
  Definition sel_store (cur acc : row) (name : string) (x : raw) : res row :=
    match x with
    | ROmit => Ok acc
    | _ => let! v := value_of cur x in Ok (obj_set name v acc)
    end.

  Definition cast {A B} (r : res A) : res B :=
    match r with Ok _ => OutOfModel | Err => Err | Panic => Panic | OutOfModel => OutOfModel end.

  (* a select item (or CASE result) that is the call SETVAR(k, e), the item being named [name]:
     FuncArgReader: key, then value (which may read the store); then SetVarFunc; then SelectExpr's
     tail on what the call returned *)
  Definition run_set (m : vars) (cur acc : row) (k e : expr Q) (name : string) : res row * vars :=
    match (let! kv := arg env_pure cur k in
           let! ev := arg (env_rd m) cur e in
           set_var_func m [kv; ev]) with
    | Ok (x, m') => (sel_store cur acc name x, m')
    | bad => (cast bad, m)
    end.

  (* a select item (or CASE result) that is a call-free expression *)
  Definition run_pure (cur acc : row) (e : expr Q) (name : string) : res row :=
    let! x := eval env_pure cur e in sel_store cur acc name x.

  (* CaseExpr's loop: the conditions in order, each against the store as it is now (no arm has
     been evaluated yet); rs.(bool) on the raw result; the first true condition selects its arm;
     none: ELSE, or - None - the NullVal literal *)
  Fixpoint pick (m : vars) (cur : row) (whens : list (expr Q * branch)) (els : option branch)
    : res (option branch) :=
    match whens with
    | [] => Ok els
    | (c, b) :: r =>
        let! rc := eval (env_rd m) cur c in
        match rc with
        | RVal (VBool true) => Ok (Some b)
        | RVal (VBool false) => pick m cur r els
        | _ => Err
        end
    end.

  (* Expr(when.Val) / Expr(expr.Else) / Expr(&NullVal{}) and SelectExpr's tail on its result *)
  Definition run_branch (m : vars) (cur acc : row) (name : string) (b : option branch)
    : res row * vars :=
    match b with
    | Some (BSet k e) => run_set m cur acc k e name
    | Some (BExpr e) => (run_pure cur acc e name, m)
    | None => (run_pure cur acc ENull name, m)
    end.

  (* one select item on the current row; the store comes back even when the item fails *)
  Definition run_item (m : vars) (cur acc : row) (it : item) : res row * vars :=
    match it with
    | VSet k e => run_set m cur acc k e ""
    | VGet k name =>
        (let! kv := arg env_pure cur k in
         let! x := get_var_func m [kv] in
         sel_store cur acc name x, m)
    | VPure e name => (run_pure cur acc e name, m)
    | VCase whens els name =>
        match pick m cur whens els with
        | Ok b => run_branch m cur acc name b
        | bad => (cast bad, m)
        end
    end.

  (* SelectExpr: items left to right *)
  Fixpoint run_row (m : vars) (cur : row) (items : list item) (acc : row) : res row * vars :=
    match items with
    | [] => (Ok acc, m)
    | it :: r =>
        match run_item m cur acc it with
        | (Ok acc', m') => run_row m' cur r acc'
        | bad => bad
        end
    end.

  (* ExecSelect: rows in source order *)
  Fixpoint run_rows (m : vars) (items : list item) (rows : list row) : res (list row) * vars :=
    match rows with
    | [] => (Ok [], m)
    | cur :: r =>
        match run_row m cur items [] with
        | (Ok o, m') =>
            match run_rows m' items r with
            | (Ok os, m'') => (Ok (o :: os), m'')
            | bad => bad
            end
        | (bad, m') => (cast bad, m')
        end
    end.

  (* exec(): the WHERE loop runs over all rows before any select item is evaluated; a GETVAR in
     WHERE therefore reads the store as it was when the query started *)
  Fixpoint exec_where (m : vars) (w : option (expr Q)) (rows : list row) : res (list row) :=
    match rows with
    | [] => Ok []
    | cur :: r =>
        let! b := eval_cond (env_rd m) cur w in
        let! rest := exec_where m w r in
        Ok (if b then cur :: rest else rest)
    end.

  (* exec() with its recover frame; the second component is the caller's map afterwards *)
  Definition run_query (m : vars) (q : query) (rows : list row) : res (list row) * vars :=
    match exec_where m (q_where q) rows with
    | Ok kept => let '(o, m') := run_rows m (q_items q) kept in (catch_panic o, m')
    | bad => (catch_panic bad, m)
    end.

  (* several queries given the same map, one after the other *)
  Fixpoint run_queries (m : vars) (qs : list (query * list row))
    : list (res (list row) * vars) :=
    match qs with
    | [] => []
    | (q, rows) :: r =>
        let '(o, m') := run_query m q rows in
        (o, m') :: run_queries m' r
    end.
End Vars.

Arguments BExpr {Q}. Arguments BSet {Q}.
Arguments VSet {Q}. Arguments VGet {Q}. Arguments VPure {Q}. Arguments VCase {Q}.
Arguments Build_query {Q}. Arguments q_where {Q}. Arguments q_items {Q}.
Arguments env_pure {Q}. Arguments env_rd {Q}. Arguments mk_env {Q}. Arguments arg {Q}.
Arguments run_set {Q}. Arguments run_pure {Q}. Arguments pick {Q}. Arguments run_branch {Q}.
Arguments run_item {Q}. Arguments run_row {Q}. Arguments run_rows {Q}.
Arguments exec_where {Q}. Arguments run_query {Q}. Arguments run_queries {Q}.
