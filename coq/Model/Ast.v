(* Model/Ast.v — abstract syntax of the query fragment the engine model covers.  It is the Coq
   mirror of the Go harness's query AST (harness/qast.go), which renders the same tree to SQL text
   for the real engine.  Subqueries are a type parameter [Q] of expressions so that expression
   evaluation is structural; [stmt] ties the knot. *)
From Coq Require Import Floats.
From GenqlV Require Import Base.Prelude Base.Value.
(* the selector language of C09 (abstract syntax and its concrete text); not imported: its names
   (Key, Index, Path, join, ...) stay qualified *)
From GenqlV Require Spec.SelectorSpec.

(* the identifier a query gets from a table name without alias: strings.SplitN(tableName, ".", 2)[0] *)
Fixpoint before_dot (s : string) : string :=
  match s with
  | EmptyString => EmptyString
  | String c r => if Ascii.eqb c "."%char then EmptyString else String c (before_dot r)
  end.
Definition sel_ident (a : SelectorSpec.sel) : string := before_dot (SelectorSpec.print_sel a).

Inductive cmpop := OpEq | OpNe | OpLt | OpLe | OpGt | OpGe.
Inductive binop := BAdd | BSub | BMul | BDiv | BIntDiv | BMod | BAnd | BOr | BXor | BShl | BShr.
Inductive unop := UNeg | UTilde | UBang.
Inductive isop := IsNull | IsNotNull | IsTrue | IsNotTrue | IsFalse | IsNotFalse.
Inductive aggfn := ACount | ASum | AMin | AMax | AAvg.

(* one step of a GROUP BY key: the grouping column is a SELECTOR (plsql.go ExecGroupBy reads it with
   ExecReader(row, keyText)), of which the model keeps key steps `a.b` and single index steps `[i]`
   ([KIdx (-1)] is `[each]`) *)
Inductive kstep :=
| KKey (k : string)
| KIdx (i : Z).

(* a grouping column: the text BuildGroup registers (the column's name, or qualifier.name) — it is the key
   under which the group row carries the value — and the selector steps that text parses to *)
Definition gkey := (string * list kstep)%type.
Definition gk_name (c : gkey) : string := fst c.
Definition gk_path (c : gkey) : list kstep := snd c.

(* a flat grouping column  GROUP BY c *)
Definition gcol (c : string) : gkey := (c, [KKey c]).

Section Expr.
  Variable Q : Type.

  Inductive expr :=
  | ECol (path : list string)           (* column or nested path a.b.c; a leading "<-" navigates back *)
  | ENum (f : float)                    (* non-negative numeric literal (negatives parse as unary minus) *)
  | EStr (s : string)
  | EBool (b : bool)
  | ENull
  | EAnd (a b : expr)
  | EOr (a b : expr)
  | ENot (a : expr)
  | ECmp (op : cmpop) (a b : expr)
  | ELike (neg : bool) (a b : expr)
  | EIn (neg : bool) (a : expr) (items : list expr)     (* literal list *)
  | EInSub (neg : bool) (a : expr) (q : Q)              (* single-column subquery *)
  | EBetween (neg : bool) (a lo hi : expr)
  | EIs (op : isop) (a : expr)
  | EBin (op : binop) (a b : expr)
  | EUn (op : unop) (a : expr)
  | ECase (whens : list (expr * expr)) (els : option expr)
  | ESub (q : Q)                                         (* row-scoped subquery *)
  | EExists (q : Q)
  | EAgg (f : aggfn) (arg : option (list string))        (* COUNT( * ) = None; otherwise a column path *)
  | ECall (qual name : string) (args : list expr)        (* [QUALIFIER.]NAME(args) *)
  | ETuple (items : list expr).                          (* value tuple (a, b, …) used as a VALUE: sqlparser.ValTuple *)

  Inductive sel_item :=
  | IStar
  | IExpr (e : expr) (name : string).   (* name = alias, or the column's last path component *)

  Inductive jointype := JInner | JLeft | JRight.
  Inductive jstrategy := SAuto | SHash | SStraight | SParallel | SParallelHash | SParallelStraight.

  Inductive from_clause :=
  | FDual
  | FTable (path : list string) (alias : string)     (* alias "" = none *)
  | FTableFn (fn : string) (path : list string) (alias : string)   (* `fn=>path`: top-level selector function *)
  | FSel (a : SelectorSpec.sel) (alias : string)     (* a table name that is a SELECTOR (brackets, keep=>, each,
                                                        ranges, pipes, `::`, fn=>): the text is print_sel a *)
  | FDerived (q : Q) (alias : string)
  | FJoin (jt : jointype) (st : jstrategy) (l r : from_clause) (on : expr).

  Record select := {
    s_with : list (string * Q);
    s_from : from_clause;
    s_where : option expr;
    s_group : list gkey;                 (* grouping columns: flat names, key paths, indexed selectors *)
    s_having : option expr;
    s_items : list sel_item;
    s_distinct : bool;
    s_order : list (list string * bool); (* key path, ascending? *)
    s_limit : option Z;
    s_offset : option Z
  }.
End Expr.

Arguments ECol {Q}. Arguments ENum {Q}. Arguments EStr {Q}. Arguments EBool {Q}. Arguments ENull {Q}.
Arguments EAnd {Q}. Arguments EOr {Q}. Arguments ENot {Q}. Arguments ECmp {Q}. Arguments ELike {Q}.
Arguments EIn {Q}. Arguments EInSub {Q}. Arguments EBetween {Q}. Arguments EIs {Q}. Arguments EBin {Q}.
Arguments EUn {Q}. Arguments ECase {Q}. Arguments ESub {Q}. Arguments EExists {Q}. Arguments EAgg {Q}.
Arguments ECall {Q}. Arguments ETuple {Q}.
Arguments IStar {Q}. Arguments IExpr {Q}.
Arguments FDual {Q}. Arguments FTable {Q}. Arguments FTableFn {Q}. Arguments FSel {Q}. Arguments FDerived {Q}. Arguments FJoin {Q}.
Arguments Build_select {Q}.
Arguments s_with {Q}. Arguments s_from {Q}. Arguments s_where {Q}. Arguments s_group {Q}.
Arguments s_having {Q}. Arguments s_items {Q}. Arguments s_distinct {Q}. Arguments s_order {Q}.
Arguments s_limit {Q}. Arguments s_offset {Q}.

Inductive stmt :=
| SSelect (s : select stmt)
| SUnion (all : bool) (l r : stmt) (limit offset : option Z).
