(* Model/ConcCache.v — genql.ExecReader as a thread program over the process-wide selector cache
   (selector.go: var mut sync.Mutex; var cache map[string][][]any).  Definitions only.

   REPAIRED program (the model of the code after fix D32), one step per line:

       PLock        mut.Lock()
       PCheck       _, ok := cache[selector]                       Read cache
       PParse       strings.Split + ParseSelector loop             local, pure
       PStore p     cache[selector] = allSelectors                 Write cache
       PFetch       allSelectors := cache[selector]                Read cache   (lock still held)
       PUnlock x    mut.Unlock()
       PUnlockErr   mut.Unlock(); return nil, err                  the parse-error path
       PEval x      for item := range allSelectors { ReaderExecutor }   local
       PDone r      return

   PINNED program: after PCheck-hit / PStore the lock is released first (PUnlockEarly) and the
   entry is read afterwards (PFetchLate: `range cache[selector]` outside the lock).

   The shared map is a function from selector text to parsed value; map operations are atomic
   steps here — that is exactly what data-race freedom buys (Go memory model: DRF programs are
   sequentially consistent), and race freedom is what the lock invariant proves.

   [parse] and [eval] are arbitrary pure functions (Section variables); Run/C13Run.v and the
   refutation instantiate them with the C09 model (parse_all, exec_all).  A panic inside
   ParseSelector would unwind ExecReader with the mutex held (there is no defer): the model keeps
   that behaviour (PParse -> PDone Panic without unlocking). *)
From GenqlV Require Import Base.Prelude Model.ConcEvents.
Local Open Scope string_scope.

Section Cache.
Context {P D V : Type}.
Variable parse : string -> res P.
Variable eval : P -> D -> res V.
Variable pzero : P.          (* what a Go map read yields for a missing key: the nil slice *)

Record call := mkCall { c_sel : string; c_doc : D }.

Inductive pc :=
| PLock | PCheck | PParse | PStore (p : P) | PFetch | PUnlock (x : P) | PUnlockErr (e : res V)
| PEval (x : P) | PDone (r : res V)
| PUnlockEarly | PFetchLate.

Record cst := mkCst { lock : option tid; cache : string -> option P; pcs : tid -> pc }.

Definition cupd (c : string -> option P) (k : string) (v : P) : string -> option P :=
  fun k' => if String.eqb k' k then Some v else c k'.

Definition fetch (c : string -> option P) (k : string) : P :=
  match c k with Some x => x | None => pzero end.

Variable repaired : bool.    (* true: the code after D32; false: the pinned tree *)
Variable calls : tid -> call.

Definition after_present : pc := if repaired then PFetch else PUnlockEarly.

Definition set_pc (s : cst) (i : tid) (p : pc) : cst := mkCst (lock s) (cache s) (upd (pcs s) i p).

Definition cstep (s : cst) (i : tid) : cst :=
  let sel := c_sel (calls i) in
  match pcs s i with
  | PLock => match lock s with
             | None => mkCst (Some i) (cache s) (upd (pcs s) i PCheck)
             | Some _ => s                                           (* blocked *)
             end
  | PCheck => match cache s sel with
              | Some _ => set_pc s i after_present
              | None => set_pc s i PParse
              end
  | PParse => match parse sel with
              | Ok p => set_pc s i (PStore p)
              | Err => set_pc s i (PUnlockErr Err)
              | OutOfModel => set_pc s i (PUnlockErr OutOfModel)
              | Panic => set_pc s i (PDone Panic)                    (* unwinds with the lock held *)
              end
  | PStore p => mkCst (lock s) (cupd (cache s) sel p) (upd (pcs s) i after_present)
  | PFetch => set_pc s i (PUnlock (fetch (cache s) sel))
  | PUnlock x => match lock s with
                 | Some _ => mkCst None (cache s) (upd (pcs s) i (PEval x))
                 | None => s                                         (* fatal error *)
                 end
  | PUnlockErr e => match lock s with
                    | Some _ => mkCst None (cache s) (upd (pcs s) i (PDone e))
                    | None => s
                    end
  | PEval x => set_pc s i (PDone (eval x (c_doc (calls i))))
  | PDone _ => s
  | PUnlockEarly => match lock s with
                    | Some _ => mkCst None (cache s) (upd (pcs s) i PFetchLate)
                    | None => s
                    end
  | PFetchLate => set_pc s i (PEval (fetch (cache s) sel))
  end.

Definition cinit : cst := mkCst None (fun _ => None) (fun _ => PLock).
Definition crun (sched : list tid) : cst := fold_left cstep sched cinit.

(* what a call returns when it runs alone (empty cache, nobody else): parse, then evaluate *)
Definition solo (c : call) : res V := let! p := parse (c_sel c) in eval p (c_doc c).

(* inside the critical section of mut *)
Definition in_cs (p : pc) : bool :=
  match p with
  | PCheck | PParse | PStore _ | PFetch | PUnlock _ | PUnlockErr _ | PUnlockEarly => true
  | _ => false
  end.

(* the access to the shared map that the thread is about to perform *)
Definition cache_access (p : pc) : option access :=
  match p with
  | PCheck | PFetch | PFetchLate => Some Rd
  | PStore _ => Some Wr
  | _ => None
  end.

Definition cache_race (s : cst) : Prop :=
  exists i j a b, i <> j /\ cache_access (pcs s i) = Some a /\ cache_access (pcs s j) = Some b /\
                  conflict a b = true.

Definition is_done (p : pc) : bool := match p with PDone _ => true | _ => false end.

(* the event each step performs, for the comparison with the translator's table *)
Definition ev_of_pc (p : pc) : option ev :=
  match p with
  | PLock => Some (ELock "mut")
  | PCheck | PFetch | PFetchLate => Some (ERead "cache")
  | PStore _ => Some (EWrite "cache")
  | PUnlock _ | PUnlockErr _ | PUnlockEarly => Some (EUnlock "mut")
  | PParse | PEval _ => None
  | PDone _ => Some EReturn
  end.

Fixpoint iter_step (n : nat) (s : cst) (i : tid) : cst :=
  match n with O => s | S k => iter_step k (cstep s i) i end.

End Cache.

Arguments PLock {P V}.
Arguments PCheck {P V}.
Arguments PParse {P V}.
Arguments PStore {P V} p.
Arguments PFetch {P V}.
Arguments PUnlock {P V} x.
Arguments PUnlockErr {P V} e.
Arguments PEval {P V} x.
Arguments PDone {P V} r.
Arguments PUnlockEarly {P V}.
Arguments PFetchLate {P V}.

(* ---- the event paths of ExecReader, as the translator must find them in selector.go -------- *)

Definition er_hit : list ev := [ELock "mut"; ERead "cache"; ERead "cache"; EUnlock "mut"; EReturn].
Definition er_miss : list ev :=
  [ELock "mut"; ERead "cache"; EWrite "cache"; ERead "cache"; EUnlock "mut"; EReturn].
Definition er_err : list ev := [ELock "mut"; ERead "cache"; EUnlock "mut"; EReturn].
Definition exec_reader_paths : list (list ev) := [er_hit; er_miss; er_err].

(* ... and of the pinned tree (entry read after the unlock) *)
Definition er_pinned_hit : list ev := [ELock "mut"; ERead "cache"; EUnlock "mut"; ERead "cache"; EReturn].
Definition er_pinned_miss : list ev :=
  [ELock "mut"; ERead "cache"; EWrite "cache"; EUnlock "mut"; ERead "cache"; EReturn].
Definition pinned_exec_reader_paths : list (list ev) := [er_pinned_hit; er_pinned_miss; er_err].

(* calls made outside the critical section (ReaderExecutor after the Unlock) are not part of the
   protocol: they are erased before the comparison (inside the critical section a call is rejected
   by [disciplined] anyway) *)
Definition strip_calls (p : list ev) : list ev :=
  filter (fun e => match e with ECall _ => false | _ => true end) p.

(* the complete structural criterion checked against the regenerated table: every path of every
   listed function follows the discipline, and ExecReader has exactly the paths of the model *)
Definition exec_reader_shape (t : site_table) : bool :=
  match lookup_row "ExecReader" t with
  | Some ps => same_paths (map strip_calls ps) exec_reader_paths
  | None => false
  end.

Definition c13_sites_ok (t : site_table) : bool := table_ok t && exec_reader_shape t.

(* for the report: the (function, path) pairs that fail *)
Definition c13_offenders (t : site_table) : list (string * list ev) :=
  flat_map (fun r => map (fun p => (fst r, p)) (filter (fun p => negb (path_ok (fst r) p)) (snd r))) t.
