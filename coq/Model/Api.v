(* Model/Api.v — genql.New + Query.Exec as the caller sees them (repaired code):
   New:  defer recover; options; [PostgresEscapingDialect: DoubleQuotesToBackTick];
         [IdomaticArrays: FixIdiomaticArray]; Parse (sqlparser: an oracle that returns an arbitrary
         statement of the modelled AST, or a parse error, or a statement outside the modelled
         grammar); Build.   Exec: execAndPostProcess with its own recover.
   Goroutines: a goroutine whose body panics kills the process unless the body recovers. *)
From GenqlV Require Import Base.Prelude Base.Value Model.Ast Model.Eval Model.Exec Model.Join Model.Processors.

Record options := { o_wrapped : bool; o_pg : bool; o_idiom : bool }.

(* what the parser may answer for a query text *)
Inductive parsed :=
| PError                    (* syntax error *)
| PUnsupported              (* a statement / construct outside the supported grammar: Build returns an
                               error, or panics (nil dereference, failed assertion) under New's recover *)
| PStmt (q : stmt).

Section Api.
  Variable parse : string -> parsed.
  Variable call : string -> string -> list value -> row -> res raw.

  Definition preprocess (o : options) (text : string) : res string :=
    let! t1 := if o_pg o then DoubleQuotesToBackTick text else Ok text in
    if o_idiom o then FixIdiomaticArray t1 else Ok t1.

  (* New and Exec composed; the body runs under the recovering frames of New / execAndPostProcess *)
  Definition api (fuel : nat) (o : options) (doc : value) (text : string) : res (list value) :=
    catch_panic
      (let! t := preprocess o text in
       match parse t with
       | PError => Err
       | PUnsupported => Panic       (* worst case: the construction path panics *)
       | PStmt q => Exec.api_run call exec_join fuel (o_wrapped o) doc q
       end).
End Api.

(* ---------- goroutines ---------- *)

Inductive thread_outcome := Finished | Recovered | ProcessDies.

(* a goroutine body: does it recover its own panics, and what does it evaluate to *)
Definition run_goroutine {A} (recovers : bool) (body : res A) : thread_outcome :=
  match body with
  | Panic => if recovers then Recovered else ProcessDies
  | _ => Finished
  end.
