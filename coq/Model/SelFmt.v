(* Model/SelFmt.v — the standard-library conversions the selector pipes use, as executable
   oracles: fmt "%d" of int64(x), fmt "%f", fmt "%v", strconv.ParseFloat.  Each is exact on a
   stated class and [OutOfModel] outside it (never a guess).  Definitions only. *)
From Coq Require Import Floats.
From GenqlV Require Import Base.Prelude Base.Fmt Base.Value Model.SelToken.
Local Open Scope string_scope.

(* ---------- conversions used by pipes ---------- *)

(* the double  (-1)^s * m * 2^e  is an integer *)
Definition dyadic_is_int (m : positive) (e : Z) : bool :=
  if (0 <=? e)%Z then true else (Zpos m mod 2 ^ (- e) =? 0)%Z.

Definition dyadic_int (m : positive) (e : Z) : Z :=
  if (0 <=? e)%Z then (Zpos m * 2 ^ e)%Z else (Zpos m / 2 ^ (- e))%Z.

Definition pad_left0 (n : nat) (s : string) : string := zeros (n - String.length s) ++ s.

(* fmt.Sprintf("%f", x): six decimals, exact value rounded half-to-even *)
Definition fmt_f6_pos (m : positive) (e : Z) : string :=
  let num := (Zpos m * 1000000)%Z in
  let q :=
    if (0 <=? e)%Z then (num * 2 ^ e)%Z
    else
      let d := (2 ^ (- e))%Z in
      let q0 := (num / d)%Z in
      let r2 := (2 * (num mod d))%Z in
      if (r2 <? d)%Z then q0
      else if (d <? r2)%Z then (q0 + 1)%Z
      else if Z.even q0 then q0 else (q0 + 1)%Z in
  let ip := (q / 1000000)%Z in
  let fp := (q mod 1000000)%Z in
  Z_to_dec ip ++ "." ++ pad_left0 6 (Z_to_dec fp).

Definition sign_str (s : bool) : string := if s then "-" else "".

(* the STRING pipe on a float64: "%d" of int64(x) when math.Mod(x, 1) == 0, else "%f" *)
Definition num_to_string (f : float) : res string :=
  match Prim2SF f with
  | S754_zero _ => Ok "0"                       (* int64(-0) = 0 *)
  | S754_finite s m e =>
      if dyadic_is_int m e then
        let z := dyadic_int m e in
        if (z <? 2 ^ 63)%Z then Ok (sign_str s ++ Z_to_dec z)
        else OutOfModel                         (* int64(x) is implementation-defined *)
      else Ok (sign_str s ++ fmt_f6_pos m e)
  | S754_infinity s => Ok (if s then "-Inf" else "+Inf")    (* Mod = NaN, "%f" *)
  | S754_nan => Ok "NaN"
  end.

Definition value_to_string (v : value) : res string :=
  match v with
  | VNum f => num_to_string f
  | _ => match fmt_value v with Some s => Ok s | None => OutOfModel end
  end.

(* strconv.ParseFloat(s, 64) on [+-]?digits[.digits] with at most 15 digits in all: the decimal
   mantissa and the power of ten are both exact doubles, so one IEEE division is the correctly
   rounded result *)
Fixpoint all_digits (s : string) : bool :=
  match s with EmptyString => true | String c r => is_digit c && all_digits r end.

Fixpoint pow10 (n : nat) : Z := match n with O => 1%Z | S k => (10 * pow10 k)%Z end.

Definition pf_char_ok (c : ascii) : bool :=
  is_digit c ||
  existsb (ceq c) (list_of_bs "+-._eExXpPaAbBcCdDfFiInNtTyY").

Fixpoint all_pf_chars (s : string) : bool :=
  match s with EmptyString => true | String c r => pf_char_ok c && all_pf_chars r end.

Definition parse_float (s : string) : res float :=
  let '(neg, body) := split_sign s in
  let parts := split_char "."%char body in
  let simple : option (string * string) :=
    match parts with
    | [ip] => if nonempty ip && all_digits ip then Some (ip, EmptyString) else None
    | [ip; fp] => if nonempty ip && all_digits ip && nonempty fp && all_digits fp
                  then Some (ip, fp) else None
    | _ => None
    end in
  match simple with
  | Some (ip, fp) =>
      if Nat.leb (String.length ip + String.length fp) 15 then
        match digits_val (ip ++ fp) 0%N with
        | Some mant =>
            let x := PrimFloat.div (float_of_Z (Z.of_N mant)) (float_of_Z (pow10 (String.length fp))) in
            Ok (if neg then PrimFloat.opp x else x)
        | None => OutOfModel
        end
      else OutOfModel
  | None =>
      if negb (nonempty s) || negb (all_pf_chars s) then Err   (* no float syntax uses such a byte *)
      else OutOfModel
  end.

