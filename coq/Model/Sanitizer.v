(* Model/Sanitizer.v — /repo/sanitizer/sanitizer.go AFTER the repairs D36, D37, D38, D40, D51, D52, D53, D54
   (fixes/C16/*.patch).  Definitions only.  The pinned (unrepaired) variants that the refutation
   lemmas need are at the end.

   Representation.  The Go lexer keeps (src, start, pos); here the unread input src[pos:] is the
   [bytes] argument the machine recurses on and src[start:pos] is the accumulator [acc], so every
   Go slice expression src[start:pos], src[start:pos-width] is a value that exists by
   construction (start <= pos-width <= pos <= len src is the representation invariant; the
   slices of the Go code cannot go out of bounds).  The only unchecked Go operation left is the
   index args[argIdx] / argUse[argIdx] of Command.Sanitize, modelled by [index_z] / [set_index_z]
   which return [Panic] out of range.

   Runes.  Every Go state function decodes one rune per iteration with utf8.DecodeRuneInString.
   The lexer uses the rune only to (a) compare it with ASCII characters, (b) advance by its
   width, (c) stop when it is RuneError with width 0 (end of input).  After D54 an invalid UTF-8
   byte (RuneError, width 1) is an ordinary one-byte rune that matches no case, exactly like
   U+FFFD itself (width 3); the pinned code stopped lexing there and silently DROPPED the rest of
   the template.  So [decode_rune] returns just that information; it is a transcription of
   utf8.DecodeRuneInString (first[] / acceptRanges tables).  A nextRune look-ahead compared with
   an ASCII character is a one-byte peek: a byte >= 0x80 never decodes to an ASCII rune. *)
From Coq Require Import SpecFloat.
From GenqlV Require Import Base.Prelude Base.Fmt Model.MySqlString.
Local Open Scope string_scope.
Local Open Scope bool_scope.

(* ---------------------------------------------------------------- utf8.DecodeRuneInString *)

Inductive rune :=
| REof                 (* (RuneError, 0) *)
| RAscii (c : ascii)   (* (c, 1), c < 0x80 *)
| RMulti (w : nat)     (* a valid 2-, 3- or 4-byte sequence: (r >= 0x80, w); includes U+FFFD itself (EF BF BD, width 3) *)
| RBad.                (* (RuneError, 1) *)

Definition cont_byte (c : ascii) : bool := in_range c 128 191.

Definition decode_rune (s : bytes) : rune :=
  match s with
  | EmptyString => REof
  | String c0 r0 =>
      let n0 := code c0 in
      if (n0 <? 128)%N then RAscii c0
      else if (n0 <? 194)%N || (244 <? n0)%N then RBad          (* first[] = xx *)
      else
        let lo := if (n0 =? 224)%N then 160%N else if (n0 =? 240)%N then 144%N else 128%N in
        let hi := if (n0 =? 237)%N then 159%N else if (n0 =? 244)%N then 143%N else 191%N in
        match r0 with
        | EmptyString => RBad
        | String c1 r1 =>
            if negb (in_range c1 lo hi) then RBad
            else if (n0 <? 224)%N then RMulti 2
            else
              match r1 with
              | EmptyString => RBad
              | String c2 r2 =>
                  if negb (cont_byte c2) then RBad
                  else if (n0 <? 240)%N then RMulti 3
                  else
                    match r2 with
                    | EmptyString => RBad
                    | String c3 _ => if cont_byte c3 then RMulti 4 else RBad
                    end
              end
        end
  end.

(* ---------------------------------------------------------------- the sqlLexer *)

Inductive part := PRaw (s : bytes) | PArg (n : Z).   (* Part: string | int *)

(* the Go state functions that loop over runes *)
Inductive sctl :=
| CRaw      (* rawState *)
| CSQ       (* singleQuoteState *)
| CDQ       (* doubleQuoteState *)
| CEsc      (* escapeStringState (after e' / E') *)
| CBT       (* backtickState (D38) *)
| CLine     (* oneLineCommentState *)
| CBlock.   (* multilineCommentState *)

Inductive sstate :=
| SRun (c : sctl)             (* at the top of the for loop of state function c *)
| SPlace                      (* placeholderState *)
| SCont (k : nat) (c : sctl)  (* k more bytes of the multi-byte rune just decoded *)
| SPeek (c : sctl)            (* this byte was seen as nextRune and is consumed by l.pos += width *)
| SEscNext (c : sctl).        (* after a backslash: the next rune, whatever it is, is skipped *)

(* rawState, the switch on an ASCII rune c (look-ahead in rest) *)
Definition raw_next (c : ascii) (rest : bytes) : sstate :=
  if (is c "e" || is c "E") && nxt_is rest c_sq then SPeek CEsc
  else if is c c_sq then SRun CSQ
  else if is c c_dq then SRun CDQ
  else if is c c_bt then SRun CBT                                           (* D38 *)
  else if is c "$" && nxt_sat rest is_digit then SPlace
  else if is c "-" && nxt_is rest "-" && blank_or_eof (peek2 rest) then SPeek CLine  (* D51 *)
  else if is c "#" then SRun CLine                                          (* D51 *)
  else if is c "/" && nxt_is rest "*" then SPeek CBlock
  else if is c "/" && nxt_is rest "/" then SPeek CLine                      (* D51 *)
  else SRun CRaw.

(* singleQuoteState / escapeStringState / doubleQuoteState / backtickState *)
Definition quoted_next (ctl : sctl) (delim : ascii) (bsl : bool) (c : ascii) (rest : bytes) : sstate :=
  if bsl && is c c_bsl then SEscNext ctl                                    (* D40 for CSQ, CDQ *)
  else if is c delim then (if nxt_is rest delim then SPeek ctl else SRun CRaw)
  else SRun ctl.

Definition ascii_next (ctl : sctl) (c : ascii) (rest : bytes) : sstate :=
  match ctl with
  | CRaw => raw_next c rest
  | CSQ => quoted_next CSQ c_sq true c rest
  | CEsc => quoted_next CEsc c_sq true c rest
  | CDQ => quoted_next CDQ c_dq true c rest
  | CBT => quoted_next CBT c_bt false c rest
  | CLine => if is c c_nl then SRun CRaw else SRun CLine                     (* D51: only \n, no backslash *)
  | CBlock => if is c "*" && nxt_is rest "/" then SPeek CRaw else SRun CBlock (* D52: no nesting *)
  end.

(* one iteration of a state function: decode a rune, dispatch *)
Definition run_next (ctl : sctl) (c : ascii) (rest : bytes) : sstate :=
  match decode_rune (String c rest) with
  | RAscii _ => ascii_next ctl c rest
  | RMulti w => SCont (w - 1) ctl        (* no case matches: the loop continues after w bytes *)
  | RBad | REof => SRun ctl              (* case utf8.RuneError with width 1 (D54): nothing, the loop continues;
                                            REof cannot occur here, the input is not empty *)
  end.

Definition snext (st : sstate) (c : ascii) (rest : bytes) : sstate :=
  match st with
  | SRun ctl => run_next ctl c rest
  | SPlace => if is_digit c then SPlace else run_next CRaw c rest  (* l.pos -= width; return rawState *)
  | SCont (S (S k)) ctl => SCont (S k) ctl
  | SCont _ ctl => SRun ctl
  | SPeek ctl => SRun ctl
  | SEscNext ctl =>
      match decode_rune (String c rest) with
      | RMulti w => SCont (w - 1) ctl
      | _ => SRun ctl                    (* width 1, also for an invalid byte *)
      end
  end.

(* Go int is 64-bit two's complement: num *= 10; num += int(r - '0') wrap around *)
Definition wrap64 (z : Z) : Z := ((z + 9223372036854775808) mod 18446744073709551616 - 9223372036854775808)%Z.
Definition digit_val (c : ascii) : Z := (Z.of_N (code c) - 48)%Z.

Definition snoc (s : bytes) (c : ascii) : bytes := s ++ String c EmptyString.

(* the parts appended by one step and the new (acc, num) *)
Definition run_data (ctl : sctl) (acc : bytes) (num : Z) (c : ascii) (rest : bytes)
  : list part * (bytes * Z) :=
  match run_next ctl c rest with
  | SPlace => ([PRaw acc], (EmptyString, 0%Z))           (* parts = append(parts, src[start:pos-width]); start = pos; num := 0 *)
  | _ => ([], (snoc acc c, num))
  end.

Definition sdata (st : sstate) (acc : bytes) (num : Z) (c : ascii) (rest : bytes)
  : list part * (bytes * Z) :=
  match st with
  | SRun ctl => run_data ctl acc num c rest
  | SPlace =>
      if is_digit c then ([], (acc, wrap64 (num * 10 + digit_val c)))
      else let '(out, d) := run_data CRaw EmptyString num c rest in (PArg num :: out, d)
  | _ => ([], (snoc acc c, num))
  end.

(* end of input: DecodeRuneInString of the empty string = (RuneError, 0):
   if l.pos-l.start > 0 { parts = append(parts, src[start:pos]) }; return nil *)
Definition sfinish (st : sstate) (acc : bytes) (num : Z) : list part :=
  match st with
  | SPlace => [PArg num]
  | _ => match acc with EmptyString => [] | _ => [PRaw acc] end
  end.

Fixpoint lex_from (st : sstate) (acc : bytes) (num : Z) (s : bytes) : list part :=
  match s with
  | EmptyString => sfinish st acc num
  | String c rest =>
      let '(out, (acc', num')) := sdata st acc num c rest in
      (out ++ lex_from (snext st c rest) acc' num' rest)%list
  end.

(* NewQuery(sql).Parts *)
Definition lex (sql : bytes) : list part := lex_from (SRun CRaw) EmptyString 0%Z sql.

(* the control states of the lexer at every byte offset *)
Fixpoint sstates (st : sstate) (s : bytes) : list sstate :=
  match s with
  | EmptyString => []
  | String c rest => st :: sstates (snext st c rest) rest
  end.

(* ---------------------------------------------------------------- argument formatting *)

Inductive arg :=
| ANull
| AInt (z : Z)             (* int64 *)
| AFloat (f : spec_float)  (* float64, as sign / mantissa / exponent *)
| ABool (b : bool)
| AStr (s : bytes)
| AOther.                  (* a Go type the switch does not list (int, uint32, float32, structs ...);
                              []byte and time.Time are NOT modelled (outside the property) *)

Fixpoint replace_byte (k : ascii) (w : bytes) (s : bytes) : bytes :=   (* strings.ReplaceAll(s, string(k), w) *)
  match s with
  | EmptyString => EmptyString
  | String c r => if is c k then w ++ replace_byte k w r else String c (replace_byte k w r)
  end.

Definition str_bsl2 : bytes := String c_bsl (String c_bsl EmptyString).
Definition str_sq2 : bytes := String c_sq (String c_sq EmptyString).

(* QuoteString after D36 *)
Definition quote_string (s : bytes) : bytes :=
  String c_sq (replace_byte c_sq str_sq2 (replace_byte c_bsl str_bsl2 s) ++ String c_sq EmptyString).

(* strconv.FormatFloat(x, 'f', -1, 64) of |x| = sig * 10^q, sig > 0 *)
Definition fmt_f_sig (neg : bool) (sig : N) (q : Z) : bytes :=
  let ds := N_to_dec sig in
  let nd := Z.of_nat (String.length ds) in
  let dp := (nd + q)%Z in
  let body :=
    if (dp <=? 0)%Z then "0." ++ zeros (Z.to_nat (- dp)) ++ ds
    else if (nd <=? dp)%Z then ds ++ zeros (Z.to_nat (dp - nd))
    else String.substring 0 (Z.to_nat dp) ds ++ "." ++
         String.substring (Z.to_nat dp) (Z.to_nat (nd - dp)) ds in
  if neg then String "-" body else body.

(* exact decimal expansion of m * 2^e; it is the shortest round-tripping one when it has at most
   15 significant digits (same class as Base/Fmt.v) -- otherwise out of model *)
Definition fmt_f (f : spec_float) : res bytes :=
  match f with
  | S754_zero s => Ok (if s then "-0" else "0")
  | S754_finite s m e =>
      let a := Npos m in
      let n := if (0 <=? e)%Z then (a * 2 ^ Z.to_N e)%N else (a * 5 ^ Z.to_N (- e))%N in
      let q := if (0 <=? e)%Z then 0%Z else e in
      let '(sig, q') := strip10 400 n q in
      if Nat.leb (String.length (N_to_dec sig)) 15 then Ok (fmt_f_sig s sig q') else OutOfModel
  | _ => Err                                                    (* D53: NaN, +Inf, -Inf *)
  end.

Definition fmt_arg (a : arg) : res bytes :=
  match a with
  | ANull => Ok "null"
  | AInt z => Ok (Z_to_dec z)                                   (* strconv.FormatInt(arg, 10) *)
  | AFloat f => fmt_f f
  | ABool b => Ok (if b then "true" else "false")
  | AStr s => Ok (quote_string s)
  | AOther => Err                                               (* invalid arg type *)
  end.

(* ---------------------------------------------------------------- Command.Sanitize *)

Definition index_z {A} (l : list A) (i : Z) : res A :=
  if (i <? 0)%Z then Panic
  else match nth_error l (Z.to_nat i) with Some x => Ok x | None => Panic end.

Fixpoint set_nth {A} (l : list A) (i : nat) (x : A) : option (list A) :=
  match l, i with
  | [], _ => None
  | _ :: r, O => Some (x :: r)
  | y :: r, S k => match set_nth r k x with Some r' => Some (y :: r') | None => None end
  end.

Definition set_index_z {A} (l : list A) (i : Z) (x : A) : res (list A) :=
  if (i <? 0)%Z then Panic
  else match set_nth l (Z.to_nat i) x with Some l' => Ok l' | None => Panic end.

Definition zlen {A} (l : list A) : Z := Z.of_nat (List.length l).

(* the loop over q.Parts; [check0] = the D37 test argIdx < 0 *)
Fixpoint san_loop (check0 : bool) (qs : bytes -> bytes) (ff : spec_float -> res bytes)
    (parts : list part) (args : list arg) (used : list bool) (buf : bytes)
  : res (bytes * list bool) :=
  match parts with
  | [] => Ok (buf, used)
  | PRaw s :: ps => san_loop check0 qs ff ps args used (buf ++ s)
  | PArg n :: ps =>
      let argIdx := wrap64 (n - 1) in
      if check0 && (argIdx <? 0)%Z then Err
      else if (argIdx >=? zlen args)%Z then Err                  (* insufficient arguments *)
      else
        let! a := index_z args argIdx in
        let! str := match a with
                    | AStr s => Ok (qs s)
                    | AFloat f => ff f
                    | _ => fmt_arg a
                    end in
        let! used' := set_index_z used argIdx true in
        san_loop check0 qs ff ps args used' (buf ++ str)
  end.

Definition sanitize_with (check0 : bool) (qs : bytes -> bytes) (ff : spec_float -> res bytes)
    (parts : list part) (args : list arg) : res bytes :=
  let! r := san_loop check0 qs ff parts args (repeat false (List.length args)) EmptyString in
  let '(buf, used) := r in
  if forallb (fun b => b) used then Ok buf else Err.             (* unused argument *)

Definition sanitize (parts : list part) (args : list arg) : res bytes :=
  sanitize_with true quote_string fmt_f parts args.

(* SanitizeSQL *)
Definition sanitize_sql (sql : bytes) (args : list arg) : res bytes := sanitize (lex sql) args.

(* ---------------------------------------------------------------- pinned variants (for refutations) *)

Definition pinned_quote_string (s : bytes) : bytes :=
  String c_sq (replace_byte c_sq str_sq2 s ++ String c_sq EmptyString).

Definition pinned_fmt_f (f : spec_float) : res bytes :=
  match f with
  | S754_nan => Ok "NaN"
  | S754_infinity s => Ok (if s then "-Inf" else "+Inf")
  | _ => fmt_f f
  end.

(* Sanitize of the pinned tree: no argIdx < 0 test, quotes only doubled, non-finite floats printed *)
Definition pinned_sanitize (parts : list part) (args : list arg) : res bytes :=
  sanitize_with false pinned_quote_string pinned_fmt_f parts args.
