(* Model/ConcHeap.v — threads that share pre-existing data read-only and write only to objects
   they allocated themselves (C13, queries on ONE shared document).  Definitions only.

   Addresses are either pre-existing ([APre n]: the shared input document, registries after
   initialisation, ...) or handed out by the allocator ([AHeap n], n counts allocations of the whole
   process).  A program names an object as [OPre n] or as [OOf t k]: the k-th object allocated by
   thread t.  A thread that never names [OOf t _] with t different from itself has received no object
   from another thread ("exchanges none"). *)
From GenqlV Require Import Base.Prelude Model.ConcEvents.

Inductive addr := APre (n : nat) | AHeap (n : nat).
Inductive operand := OPre (n : nat) | OOf (t : tid) (k : nat).
Inductive hev := HAlloc | HRead (o : operand) | HWrite (o : operand).

Record hst := mkHst { hrem : tid -> list hev; hnext : nat; hown : tid -> list nat }.

Definition resolve (s : hst) (o : operand) : option addr :=
  match o with
  | OPre n => Some (APre n)
  | OOf t k => option_map AHeap (nth_error (hown s t) k)
  end.

Definition hstep (s : hst) (i : tid) : hst :=
  match hrem s i with
  | [] => s
  | HAlloc :: r => mkHst (upd (hrem s) i r) (S (hnext s)) (upd (hown s) i (hown s i ++ [hnext s]))
  | HRead o :: r | HWrite o :: r =>
      match resolve s o with
      | Some _ => mkHst (upd (hrem s) i r) (hnext s) (hown s)
      | None => s                       (* nil dereference: the thread does not continue *)
      end
  end.

Definition hinit (progs : tid -> list hev) : hst := mkHst progs 0 (fun _ => []).
Definition hrun (progs : tid -> list hev) (sched : list tid) : hst := fold_left hstep sched (hinit progs).

(* the access thread i is about to perform, with the address it resolves to *)
Definition hpending (s : hst) (i : tid) : option (access * addr) :=
  match hrem s i with
  | HRead o :: _ => option_map (fun a => (Rd, a)) (resolve s o)
  | HWrite o :: _ => option_map (fun a => (Wr, a)) (resolve s o)
  | _ => None
  end.

Definition hrace (s : hst) : Prop :=
  exists i j a b x, i <> j /\ hpending s i = Some (a, x) /\ hpending s j = Some (b, x) /\ conflict a b = true.

(* thread i writes only to its own allocations and names nobody else's *)
Definition private_ev (i : tid) (e : hev) : bool :=
  match e with
  | HAlloc => true
  | HRead (OPre _) => true
  | HRead (OOf t _) => Nat.eqb t i
  | HWrite (OPre _) => false
  | HWrite (OOf t _) => Nat.eqb t i
  end.
Definition private (i : tid) (p : list hev) : bool := forallb (private_ev i) p.
