(* Model/FuncsInst.v — an executable instance of the [oracles] record of Model/Funcs.v, used by the
   correspondence run (Run/C18Run.v) and by the non-vacuity examples.  Definitions only.

   strconv.Atoi is implemented exactly.  strconv.ParseFloat is implemented on the class
   "plain decimal, < 2^53 mantissa, |decimal exponent| <= 22" (one correctly rounded IEEE
   operation, Clinger's fast path) and answers [OUnk] (case skipped, counted) for inf/nan/hex/
   underscores/long mantissas.  strings.ToLower/ToUpper come from a per-case table the harness
   fills by calling the Go standard library itself (the oracle), with ASCII folding as fallback.
   gob, base64, base32 and the hash functions are *symbolic*: a different but law-abiding
   encoding (outputs that depend on them are compared through the laws on the Go side, never
   byte for byte). *)
From Coq Require Import Floats.
From GenqlV Require Import Base.Prelude Base.Fmt Base.Value Model.Funcs.
Local Open Scope string_scope.

(* strconv.Atoi (int is 64 bits) *)
Definition atoi_inst (s : string) : ores Z :=
  match signed_dec s with
  | Some z => if ((- 2 ^ 63 <=? z) && (z <? 2 ^ 63))%Z then OOk z else OFail   (* value out of range *)
  | None => OFail                                                               (* invalid syntax *)
  end.

(* ---------- strconv.ParseFloat on plain decimals ---------- *)

(* longest digit prefix: (value, count, rest) *)
Fixpoint take_digits (s : string) (acc : N) (cnt : nat) : N * nat * string :=
  match s with
  | EmptyString => (acc, cnt, EmptyString)
  | String c r => match digit_val c with
                  | Some d => take_digits r (acc * 10 + d)%N (S cnt)
                  | None => (acc, cnt, s)
                  end
  end.

Fixpoint has_char (p : ascii -> bool) (s : string) : bool :=
  match s with EmptyString => false | String c r => p c || has_char p r end.

Definition pow10_float (k : N) : float :=
  if (k <=? 18)%N then float_of_Z (Z.of_N (10 ^ k))
  else PrimFloat.mul (float_of_Z (Z.of_N (10 ^ 18))) (float_of_Z (Z.of_N (10 ^ (k - 18)))).

Definition is_x (c : ascii) : bool := Ascii.eqb c "x" || Ascii.eqb c "X".

Definition parse_float_inst (s0 : string) : ores float :=
  (* not decided by this instance: underscores, hex (0x...), inf/infinity/nan *)
  if has_char (fun c => Ascii.eqb c "_") s0 then OUnk else
  let '(neg, s) := match s0 with
                   | String "-" r => (true, r)
                   | String "+" r => (false, r)
                   | _ => (false, s0)
                   end in
  match s with
  | String c r0 =>
      if Ascii.eqb c "i" || Ascii.eqb c "I" || Ascii.eqb c "n" || Ascii.eqb c "N" then OUnk else
      if Ascii.eqb c "0" && (match r0 with String c2 _ => is_x c2 | _ => false end) then OUnk else
      let '(ip, ni, r1) := take_digits s 0%N 0%nat in
      let '(m, nf, r2) := match r1 with
                          | String "." r => let '(m', nf', r') := take_digits r ip 0%nat in (m', nf', r')
                          | _ => (ip, 0%nat, r1)
                          end in
      if Nat.eqb (ni + nf) 0 then OFail else
      let exp_part : option Z :=
        match r2 with
        | EmptyString => Some 0%Z
        | String e r => if Ascii.eqb e "e" || Ascii.eqb e "E" then signed_dec r else None
        end in
      match exp_part with
      | None => OFail
      | Some ex =>
          let E := (ex - Z.of_nat nf)%Z in
          if (m =? 0)%N then OOk (if neg then (-0)%float else 0%float)
          else if ((m <? 2 ^ 53)%N && (Z.abs E <=? 22)%Z) then
            let fm := float_of_Z (Z.of_N m) in
            let p := pow10_float (Z.to_N (Z.abs E)) in
            let v := if (0 <=? E)%Z then PrimFloat.mul fm p else PrimFloat.div fm p in
            OOk (if neg then PrimFloat.opp v else v)
          else OUnk
      end
  | EmptyString => OFail
  end.

(* ---------- case maps: table filled from Go's strings.ToLower/ToUpper, ASCII fallback ---------- *)

Definition ascii_upper_char (c : ascii) : ascii :=
  let n := N_of_ascii c in
  if ((97 <=? n) && (n <=? 122))%N then ascii_of_N (n - 32) else c.
Fixpoint ascii_upper (s : string) : string :=
  match s with EmptyString => EmptyString | String c r => String (ascii_upper_char c) (ascii_upper r) end.

Fixpoint is_ascii_str (s : string) : bool :=
  match s with EmptyString => true | String c r => (N_of_ascii c <? 128)%N && is_ascii_str r end.

Definition case_tab := list (string * (string * string)).   (* s, (lower s, upper s) *)

Definition lower_inst (tab : case_tab) (s : string) : ores string :=
  match assoc s tab with
  | Some (l, _) => OOk l
  | None => if is_ascii_str s then OOk (ascii_lower s) else OUnk
  end.
Definition upper_inst (tab : case_tab) (s : string) : ores string :=
  match assoc s tab with
  | Some (_, u) => OOk u
  | None => if is_ascii_str s then OOk (ascii_upper s) else OUnk
  end.

(* ---------- symbolic gob ---------- *)

Definition gob_magic : string := String (ascii_of_nat 1) "GOB:".

Definition ser_float (f : float) : string :=
  match Prim2SF f with
  | S754_zero false => "z+" | S754_zero true => "z-"
  | S754_infinity false => "i+" | S754_infinity true => "i-"
  | S754_nan => "nan"
  | S754_finite s m e => (if s then "-" else "+") ++ Z_to_dec (Zpos m) ++ "p" ++ Z_to_dec e
  end.

Fixpoint split_at (c : ascii) (s : string) : option (string * string) :=
  match s with
  | EmptyString => None
  | String a r => if Ascii.eqb a c then Some (EmptyString, r)
                  else match split_at c r with Some (x, y) => Some (String a x, y) | None => None end
  end.

Definition deser_float (s : string) : option float :=
  if String.eqb s "z+" then Some 0%float else if String.eqb s "z-" then Some (-0)%float
  else if String.eqb s "i+" then Some infinity else if String.eqb s "i-" then Some neg_infinity
  else if String.eqb s "nan" then Some nan
  else match s with
       | String sg r =>
           match split_at "p" r with
           | Some (ms, es) =>
               match nat_dec ms, signed_dec es with
               | Some (Npos m), Some e => Some (SF2Prim (S754_finite (Ascii.eqb sg "-") m e))
               | _, _ => None
               end
           | None => None
           end
       | EmptyString => None
       end.

(* gob knows nil and the basic types; []interface{} and map[string]interface{} are not registered *)
Definition gob_ser_inst (v : value) : ores bytes :=
  match v with
  | VNull => OOk (gob_magic ++ "n")
  | VBool true => OOk (gob_magic ++ "t")
  | VBool false => OOk (gob_magic ++ "f")
  | VNum f => OOk (gob_magic ++ "d" ++ ser_float f)
  | VStr s => OOk (gob_magic ++ "s" ++ s)
  | VArr _ => OFail
  | VObj [(k, VStr d)] => if String.eqb k tag_int then OOk (gob_magic ++ "i" ++ d)
                          else if is_tag k then OUnk else OFail
  | VObj kvs => if is_tagged_obj kvs then OUnk else OFail
  end.

Definition strip_prefix (p s : string) : option string :=
  if String.prefix p s then Some (String.substring (String.length p) (String.length s - String.length p) s)
  else None.

Definition gob_deser_inst (b : bytes) : ores value :=
  match strip_prefix gob_magic b with
  | Some (String t r) =>
      if Ascii.eqb t "n" then (match r with EmptyString => OOk VNull | _ => OFail end)
      else if Ascii.eqb t "t" then (match r with EmptyString => OOk (VBool true) | _ => OFail end)
      else if Ascii.eqb t "f" then (match r with EmptyString => OOk (VBool false) | _ => OFail end)
      else if Ascii.eqb t "d" then (match deser_float r with Some f => OOk (VNum f) | None => OFail end)
      else if Ascii.eqb t "s" then OOk (VStr r)
      else if Ascii.eqb t "i" then (match signed_dec r with Some z => OOk (vint z) | None => OFail end)
      else OFail
  | _ => OFail
  end.

(* ---------- symbolic base64 / base32: a marker followed by hex ---------- *)

Definition sym_enc (marker : string) (b : bytes) : bytes := marker ++ hex_enc b.
Definition sym_dec (marker : string) (s : bytes) : ores bytes :=
  match strip_prefix marker s with
  | Some r => opt_ores (hex_dec r)
  | None => OFail
  end.

(* ---------- symbolic hash: digest_len copies of a checksum byte ---------- *)

Fixpoint byte_sum (s : string) (acc : N) : N :=
  match s with EmptyString => acc | String c r => byte_sum r ((acc + N_of_ascii c + 1) mod 256)%N end.
Fixpoint rep (n : nat) (c : ascii) : string :=
  match n with O => EmptyString | S k => String c (rep k c) end.
Definition hash_inst (a : hash_alg) (b : bytes) : bytes :=
  rep (digest_len a) (ascii_of_N (byte_sum b (N.of_nat (digest_len a)))).

Definition inst (tab : case_tab) : oracles :=
  {| gob_ser := gob_ser_inst; gob_deser := gob_deser_inst;
     b64_enc := sym_enc "b64:"; b64_dec := sym_dec "b64:";
     b32_enc := sym_enc "B32="; b32_dec := sym_dec "B32=";
     hash_sum := hash_inst;
     str_lower := lower_inst tab; str_upper := upper_inst tab;
     parse_float := parse_float_inst; atoi := atoi_inst |}.
